(* Small-step models of the Bounded protocol (bounds() / tighten_bounds()) of graphtage's edit classes, as the code
   is written.  Definitions only (no proofs): state types and step functions, one combinator per class,
   parameterised by the state type / operations of the children:
     constM            ConstantCostEdit (Match, Replace, Remove, Insert)                     edits.py:142-167
     sumM              KeyValuePairEdit; XMLElementEdit, DataClassEdit, PyObjEdit are the same   graphtage.py:162-166
     rut               the repeat_until_tightened decorator                                   bounds.py:241-262
     fixedM            FixedLengthSequenceEdit                                                sequences.py:92-111
     edM               EditDistance (StringEdit delegates to one over constant children)      levenshtein.py:161-351
   and the universal machine UM d over states `st` of nesting depth <= d, with `initU a b` = the state of the edit
   a.edits(b) for the list / string / scalar / key-value fragment of trees.
   Observer: every machine step is  tighten_bounds()  followed by  bounds()  (the active observer of the harness):
   EditDistance.bounds() finalises a completed matrix, so a state is always the one left behind by bounds(). *)
From Coq Require Import ZArith List Bool Lia.
Require Import GT.PyBase GT.Data GT.EdTypes GT.EdEngine GT.LevModel GTgen.EdGen GT.EdParams GT.ScriptSpec GT.ScriptModel
               GT.MachineSpec.
Import ListNotations.
Open Scope Z_scope.

(* ---------------------------------------------------------------- ranges *)
Definition zdefb (r : zr) : bool := fst r =? snd r.                               (* Range.definitive *)
Definition zr_add (a b : zr) : zr := (fst a + fst b, snd a + snd b).              (* Range.__add__ *)
Definition zr_sum (l : list zr) : zr := fold_right zr_add (0, 0) l.
(* new is strictly tighter than old at one end *)
Definition tighter (new old : zr) : bool := (fst old <? fst new) || (snd new <? snd old).
Definition widened (new old : zr) : bool := (fst new <? fst old) || (snd old <? snd new).

(* ---------------------------------------------------------------- ConstantCostEdit *)
Definition constM : machine := {| St := Z; bnd := fun c => (c, c); tig := fun c => (c, false) |}.

(* ---------------------------------------------------------------- `a.tighten_bounds() or b.tighten_bounds() or ...`
   = `for e in edits: if e.tighten_bounds(): return True` / `return False` *)
Section FirstTrue.
  Context {X : Type}.
  Variable t : X -> X * bool.
  Fixpoint first_true (l : list X) : list X * bool :=
    match l with
    | [] => ([], false)
    | s :: l' =>
        let p := t s in
        if snd p then (fst p :: l', true)
        else let q := first_true l' in (fst p :: fst q, snd q)
    end.
End FirstTrue.

(* KeyValuePairEdit and the other component-wise compounds: bounds = sum, tighten = first component that tightens *)
Definition sumM (C : machine) : machine :=
  {| St := list (St C);
     bnd := fun l => zr_sum (map (bnd C) l);
     tig := first_true (tig C) |}.

(* ---------------------------------------------------------------- repeat_until_tightened *)
Section Rut.
  Context {S : Type}.
  Variables (b : S -> zr) (f : S -> S).
  (* fuel: the decorator loops while the decorated function leaves the bounds unchanged (or widens them, which is
     only logged); an exhausted fuel is reported as False on a proper interval, i.e. as a contract violation *)
  Fixpoint rut_loop (fuel : nat) (start : zr) (s : S) : S * bool :=
    match fuel with
    | O => (s, false)
    | Datatypes.S fuel' =>
        let s1 := f s in
        let nb := b s1 in
        if widened nb start then rut_loop fuel' start s1
        else if zdefb nb || tighter nb start then (s1, true)
        else rut_loop fuel' start s1
    end.
  Definition rut (fuel : nat) (s : S) : S * bool :=
    if zdefb (b s) then (s, false) else rut_loop fuel (b s) s.
End Rut.
Definition rut_fuel : nat := 8.

(* ---------------------------------------------------------------- FixedLengthSequenceEdit
   state: the positional sub-edits and the constant total of the Remove/Insert edits of the surplus tail *)
Definition fixed_bnd {X} (b : X -> zr) (s : list X * Z) : zr :=
  let r := zr_sum (map b (fst s)) in (fst r + snd s, snd r + snd s).
Definition fixed_tig {X} (b : X -> zr) (t : X -> X * bool) (s : list X * Z) : (list X * Z) * bool :=
  rut (fixed_bnd b) (fun s => (fst (first_true t (fst s)), snd s)) rut_fuel s.
Definition fixedM (C : machine) : machine :=
  {| St := (list (St C) * Z)%type; bnd := fixed_bnd (bnd C); tig := fixed_tig (bnd C) (tig C) |}.

(* ---------------------------------------------------------------- EditDistance *)
Fixpoint set_nth {A} (n : nat) (x : A) (l : list A) : list A :=
  match l, n with
  | [], _ => []
  | _ :: l', O => x :: l'
  | y :: l', Datatypes.S n' => y :: set_nth n' x l'
  end.
Definition set2 {A} (m : list (list A)) (r c : nat) (x : A) : list (list A) :=
  set_nth r (set_nth c x (nth r m [])) m.

Record ed (X : Type) := mk_ed {
  e_K : Z;                          (* constant_cost *)
  e_U : Z;                          (* cost_upper_bound *)
  e_rc : list Z;                    (* costs of Remove(from_seq[c]) *)
  e_ic : list Z;                    (* costs of Insert(to_seq[r]) *)
  e_kids : list (list X);           (* e_kids[r][c]: the edit from_seq[c].edits(to_seq[r]); all created up front (creation is pure) *)
  e_d : nat;                        (* number of fringe diagonals started; 0 <-> _fringe_row = -1; diagonal k has anchor
                                       (k, 0) for k <= len(to_seq), else (len(to_seq), k - len(to_seq)) *)
  e_cost : list (list cell);        (* costs / path_costs, (len(to_seq)+1) x (len(from_seq)+1), numpy zeros initially *)
  e_done : option Z;                (* Some c: bounds() has finalised (edits built, _cleanup done) with total c *)
  e_err : bool                      (* an assertion of the code failed (a cell edit stopped tightening on a proper interval) *)
}.
Arguments mk_ed {X}. Arguments e_K {X}. Arguments e_U {X}. Arguments e_rc {X}. Arguments e_ic {X}.
Arguments e_kids {X}. Arguments e_d {X}. Arguments e_cost {X}. Arguments e_done {X}. Arguments e_err {X}.

Definition bstep (p : cell) (w : Z) (d : dir) : cell :=
  {| ccost := ccost p + w; cpath := wrap16 (cpath p + 1); cdir := d |}.

(* _fringe_diagonal for the anchor of diagonal k: cells (r, k - r), r descending, 0 <= r <= m, k - r <= n *)
Definition diag (m n k : nat) : list (nat * nat) :=
  filter (fun p => Nat.leb (snd p) n) (map (fun r => (r, (k - r)%nat)) (rev (seq 0 (Datatypes.S (Nat.min k m))))).

Definition zmin_list (l : list Z) : Z := match l with [] => 0 | x :: l' => fold_right Z.min x l' end.

Section ED.
  Context {X : Type}.
  Variables (b : X -> zr) (t : X -> X * bool).

  Definition em (s : ed X) : nat := length (e_ic s).
  Definition en (s : ed X) : nat := length (e_rc s).

  Definition dmin (s : ed X) (k : nat) : Z :=
    zmin_list (map (fun p => ccost (cell_at (e_cost s) (fst p) (snd p))) (diag (em s) (en s) k)).

  (* EditDistance.bounds() on a state left behind by bounds() *)
  Definition ed_bnd (s : ed X) : zr :=
    if Nat.eqb (en s) 0 && Nat.eqb (em s) 0 && (e_K s =? 0) then (0, 0)
    else match e_done s with
         | Some c => (c, c)
         | None =>
             if Nat.leb (e_d s) 1 || Nat.eqb (em s) 0 then (e_K s, e_U s)          (* _fringe_row <= 0 *)
             else (Z.max (e_K s) (Z.min (dmin s (e_d s - 1)) (dmin s (e_d s - 2))), e_U s)
         end.

  (* while x.tighten_bounds(): pass      (fuel: the width of the interval bounds the number of True results) *)
  Fixpoint run_fix (fuel : nat) (x : X) : option X :=
    match fuel with
    | O => None
    | Datatypes.S f => let p := t x in if snd p then run_fix f (fst p) else Some (fst p)
    end.
  (* while not x.bounds().definitive() and x.tighten_bounds(): pass *)
  Fixpoint run_def (fuel : nat) (x : X) : option X :=
    if zdefb (b x) then Some x else
    match fuel with
    | O => None
    | Datatypes.S f => let p := t x in if snd p then run_def f (fst p) else Some (fst p)
    end.
  Definition fix_fuel (x : X) : nat := Datatypes.S (Z.to_nat (width (b x))).

  Definition set_err (s : ed X) : ed X :=
    mk_ed (e_K s) (e_U s) (e_rc s) (e_ic s) (e_kids s) (e_d s) (e_cost s) (e_done s) true.
  Definition set_d (s : ed X) (d : nat) : ed X :=
    mk_ed (e_K s) (e_U s) (e_rc s) (e_ic s) (e_kids s) d (e_cost s) (e_done s) (e_err s).
  Definition set_cost (s : ed X) (r c : nat) (x : cell) : ed X :=
    mk_ed (e_K s) (e_U s) (e_rc s) (e_ic s) (e_kids s) (e_d s) (set2 (e_cost s) r c x) (e_done s) (e_err s).
  Definition set_kid (s : ed X) (r c : nat) (x : X) : ed X :=
    mk_ed (e_K s) (e_U s) (e_rc s) (e_ic s) (set2 (e_kids s) r c x) (e_d s) (e_cost s) (e_done s) (e_err s).
  Definition set_done (s : ed X) (c : Z) : ed X :=
    mk_ed (e_K s) (e_U s) (e_rc s) (e_ic s) (e_kids s) (e_d s) (e_cost s) (Some c) (e_err s).

  Definition kid_at (s : ed X) (r c : nat) : option X := nth_error (nth r (e_kids s) []) c.

  (* _best_match(row, col) for row, col >= 1 on a definitive cell edit *)
  Definition cell_value (s : ed X) (r c : nat) (m : Z) : cell :=
    best (cell_at (e_cost s) (r - 1) (c - 1)) (cell_at (e_cost s) r (c - 1)) (cell_at (e_cost s) (r - 1) c)
         m (nth (r - 1) (e_ic s) 0) (nth (c - 1) (e_rc s) 0).

  (* one inner cell of the fringe: tighten its edit until it reports False, assert definitive, _best_match *)
  Definition proc_cell (s : ed X) (r c : nat) : ed X :=
    match kid_at s (r - 1) (c - 1) with
    | None => set_err s
    | Some x =>
        match run_fix (fix_fuel x) x with
        | None => set_err s
        | Some x' =>
            if zdefb (b x') then set_cost (set_kid s (r - 1) (c - 1) x') r c (cell_value s r c (fst (b x')))
            else set_err (set_kid s (r - 1) (c - 1) x')
        end
    end.

  (* _add_node for the row-0 / column-0 cells of diagonal k (inner cells are created up front) *)
  Definition add_border (s : ed X) (k : nat) : ed X :=
    let s1 := if Nat.leb 1 k && Nat.leb k (en s)
              then set_cost s 0 k (bstep (cell_at (e_cost s) 0 (k - 1)) (nth (k - 1) (e_rc s) 0) DLeft) else s in
    if Nat.leb 1 k && Nat.leb k (em s)
    then set_cost s1 k 0 (bstep (cell_at (e_cost s1) (k - 1) 0) (nth (k - 1) (e_ic s) 0) DUp) else s1.

  Definition proc_diag (s : ed X) (k : nat) : ed X :=
    fold_left (fun s p => if Nat.leb 1 (fst p) && Nat.leb 1 (snd p) then proc_cell s (fst p) (snd p) else s)
              (diag (em s) (en s) k) s.

  (* the call that adds the last diagonal (_next_fringe() returns False), followed by bounds():
     one tighten_bounds() of the lower right cell if it is not definitive (ret), then - inside the call if ret is
     False, else in the observer's bounds() - edits(): tighten it fully, back-trace (_best_match(m, n) fills its
     cost), _cleanup().  If ret is False the call reports whether the final bounds are tighter than the initial ones. *)
  Definition finalize (initial : zr) (s : ed X) : ed X * bool :=
    let m := em s in
    let n := en s in
    let s1 := add_border (set_d s (Datatypes.S (m + n))) (m + n) in
    if Nat.leb 1 m && Nat.leb 1 n then
      match kid_at s1 (m - 1) (n - 1) with
      | None => (set_err s1, false)
      | Some x =>
          let px := t x in
          let x1 := if zdefb (b x) then x else fst px in
          let ret := if zdefb (b x) then false else snd px in
          match run_def (fix_fuel x1) x1 with
          | None => (set_err (set_kid s1 (m - 1) (n - 1) x1), ret)
          | Some x2 =>
              if zdefb (b x2) then
                let s2 := set_kid s1 (m - 1) (n - 1) x2 in
                let cl := cell_value s2 m n (fst (b x2)) in
                (set_done (set_cost s2 m n cl) (ccost cl), ret || tighter (ccost cl, ccost cl) initial)
              else (set_err (set_kid s1 (m - 1) (n - 1) x2), ret)
          end
      end
    else (set_done s1 (ccost (cell_at (e_cost s1) m n)),
          tighter (ccost (cell_at (e_cost s1) m n), ccost (cell_at (e_cost s1) m n)) initial).

  (* the `while True` loop of tighten_bounds() while the matrix is being built *)
  Fixpoint ed_loop (fuel : nat) (initial : zr) (s : ed X) : ed X * bool :=
    match fuel with
    | O => (set_err s, false)
    | Datatypes.S f =>
        let k := e_d s in
        if Nat.leb (em s + en s) k then finalize initial s
        else
          let s1 := add_border (set_d s (Datatypes.S k)) k in
          let s2 := if Nat.eqb k 0 then s1 else proc_diag s1 k in
          if e_err s2 then (s2, false)
          else if tighter (ed_bnd s2) initial then (s2, true)
          else ed_loop f initial s2
    end.

  Definition ed_tig (s : ed X) : ed X * bool :=
    if Nat.eqb (en s) 0 && Nat.eqb (em s) 0 then (s, false)
    else match e_done s with
         | Some _ => (s, false)
         | None => if e_err s then (s, false) else ed_loop (Datatypes.S (em s + en s)) (ed_bnd s) s
         end.
End ED.

Definition edM (C : machine) : machine :=
  {| St := ed (St C); bnd := ed_bnd; tig := ed_tig (bnd C) (tig C) |}.

(* EditDistance.__init__ : constant_cost = the |len(from) - len(to)| smallest (total_size + penalty) of the longer
   FULL sequence (a heap is popped that many times), cost_upper_bound = everything removed and inserted;
   the matrix is over the sequences with the shared prefix (p) and suffix (q) trimmed *)
Fixpoint zinsert (x : Z) (l : list Z) : list Z :=
  match l with [] => [x] | y :: l' => if x <=? y then x :: l else y :: zinsert x l' end.
Definition zsort (l : list Z) : list Z := fold_right zinsert [] l.
Definition sum_smallest (k : nat) (l : list Z) : Z := zsum (firstn k (zsort l)).

Definition ed_constant_cost (frc fic : list Z) : Z :=
  if Nat.ltb (length frc) (length fic) then sum_smallest (length fic - length frc) fic
  else if Nat.ltb (length fic) (length frc) then sum_smallest (length frc - length fic) frc
  else 0.

Definition ed_init {X} (frc fic : list Z) (p q : nat) (kids : list (list X)) : ed X :=
  let rc := middle p q frc in
  let ic := middle p q fic in
  mk_ed (ed_constant_cost frc fic) (zsum frc + zsum fic) rc ic kids 0
        (repeat (repeat start_cell (Datatypes.S (length rc))) (Datatypes.S (length ic))) None false.

(* ---------------------------------------------------------------- EditCollection / FixedKeyDictNodeEdit  (edits.py:401-522)
   explode_edits = False, collection = list.  State: the edits the iterator `_edit_iter` has not produced yet (creation
   is pure, so they exist up front; None <-> _edit_iter is None: the iterator is dropped only by the next() call that
   finds it exhausted), `_sub_edits` with each one's initial_bounds.upper_bound,
   the memo `_cost`, `valid`.  bounds() has side effects (memo, valid), so it returns the new state as well. *)
Record coll (X : Type) := mk_coll {
  k_U : Z;                          (* _cost_upper_bound = from_node.total_size + 1 + to_node.total_size *)
  k_pend : option (list X);         (* what _edit_iter still holds; None: _edit_iter is None *)
  k_subs : list (X * Z);            (* _sub_edits, with e.initial_bounds.upper_bound *)
  k_cost : option zr;               (* _cost *)
  k_valid : bool                    (* valid *)
}.
Arguments mk_coll {X}. Arguments k_U {X}. Arguments k_pend {X}. Arguments k_subs {X}. Arguments k_cost {X}. Arguments k_valid {X}.

Inductive for_res (X : Type) := ForExit (s : coll X) | ForDone (s : coll X) (tightened : bool).
Arguments ForExit {X}. Arguments ForDone {X}.

(* the value bounds() returns for an invalid edit is Range() = (-inf, +inf): not a finite range; the models answer
   (0, 0) and keep valid = false (unreachable under the hypotheses of the contract lemma; a run of the implementation
   that invalidates shows as a correspondence disagreement) *)
Definition invalid_range : zr := (0, 0).

Section Coll.
  Context {X : Type}.
  Variables (b : X -> zr) (t : X -> X * bool).

  Definition set_subs (s : coll X) (l : list (X * Z)) : coll X := mk_coll (k_U s) (k_pend s) l (k_cost s) (k_valid s).
  Definition set_memo (s : coll X) (c : option zr) : coll X := mk_coll (k_U s) (k_pend s) (k_subs s) c (k_valid s).
  Definition set_invalid (s : coll X) : coll X := mk_coll (k_U s) (k_pend s) (k_subs s) (k_cost s) false.

  (* total_cost before the comparison with super().bounds() *)
  Definition coll_total (s : coll X) : zr :=
    match k_pend s with
    | None => zr_sum (map (fun p => b (fst p)) (k_subs s))
    | Some _ => (zsum (map (fun p => fst (b (fst p))) (k_subs s)),
            k_U s - zsum (map (fun p => snd p - snd (b (fst p))) (k_subs s)))
    end.

  (* bounds(): the state it leaves and the range it returns *)
  Definition coll_bounds (s : coll X) : coll X * zr :=
    if negb (k_valid s) then (s, invalid_range)
    else match k_cost s with
         | Some r => (s, r)
         | None =>
             let tot := coll_total s in
             if k_U s <? fst tot then (set_invalid s, invalid_range)
             else let r := (fst tot, Z.min (k_U s) (snd tot)) in
                  match k_pend s with
                  | None => if zdefb r then (set_memo s (Some r), r) else (s, r)
                  | Some _ => (s, r)
                  end
         end.

  (* _is_tightened(starting_bounds) *)
  Definition coll_is_tightened (start : zr) (s : coll X) : coll X * bool :=
    let q := coll_bounds s in (fst q, negb (k_valid (fst q)) || tighter (snd q) start).

  (* _expand_edits() with explode_edits = False: the next edit, if any, is appended to _sub_edits and _cost is reset *)
  Definition coll_expand (s : coll X) : coll X * bool :=
    match k_pend s with
    | None => (s, false)
    | Some [] => (mk_coll (k_U s) None (k_subs s) (k_cost s) (k_valid s), false)          (* StopIteration *)
    | Some (x :: rest) => (mk_coll (k_U s) (Some rest) (k_subs s ++ [(x, snd (b x))]) None (k_valid s), true)
    end.

  (* `for child in self._sub_edits: ...` ; pre = the children already visited (new states), post = those still to visit *)
  Fixpoint coll_for (s : coll X) (start : zr) (pre post : list (X * Z)) (tg : bool) : for_res X :=
    match post with
    | [] => ForDone (set_subs s pre) tg
    | (x, iu) :: rest =>
        let p := t x in
        if snd p then
          let q := coll_bounds (set_memo (set_subs s (pre ++ (fst p, iu) :: rest)) None) in
          if tighter (snd q) start then ForExit (fst q)
          else coll_for (fst q) start (pre ++ [(fst p, iu)]) rest true
        else coll_for s start (pre ++ [(fst p, iu)]) rest tg
    end.

  (* the `while True` loop of tighten_bounds(); every round without a return consumes one edit of the iterator or
     finds the iterator exhausted *)
  Fixpoint coll_loop (fuel : nat) (start : zr) (s : coll X) : coll X * bool :=
    match fuel with
    | O => (set_invalid s, false)
    | Datatypes.S f =>
        let e := coll_expand s in
        let q := coll_is_tightened start (fst e) in
        if snd e && snd q then (fst q, true)
        else
          let s2 := if snd e then fst q else fst e in
          match coll_for s2 start [] (k_subs s2) false with
          | ForExit s3 => (s3, true)
          | ForDone s3 tg =>
              match k_pend s3 with
              | None => if tg then coll_loop f start s3 else coll_is_tightened start s3
              | Some _ => coll_loop f start s3
              end
          end
    end.

  Definition coll_tig (s : coll X) : coll X * bool :=
    if negb (k_valid s) then (s, false)
    else let q := coll_bounds s in
         let r := coll_loop (Datatypes.S (Datatypes.S (length (match k_pend s with Some l => l | None => [] end)))) (snd q) (fst q) in
         (fst (coll_bounds (fst r)), snd r).           (* the observer's bounds() after the call *)

  Definition coll_bnd (s : coll X) : zr := snd (coll_bounds s).

  (* __init__: initial_bounds = self.bounds() *)
  Definition coll_init (U : Z) (kids : list X) : coll X := fst (coll_bounds (mk_coll U (Some kids) [] None true)).
End Coll.

Definition collM (C : machine) : machine :=
  {| St := coll (St C); bnd := coll_bnd (bnd C); tig := coll_tig (bnd C) (tig C) |}.

(* ---------------------------------------------------------------- WeightedBipartiteMatcher + MultiSetEdit
   (matching.py:566-710, multiset.py).  One state for the edit and the matcher it owns.
   Oracles (answers of code that is not modelled; every answer is accepted, so the theorems quantify over all of them):
     m_counts  how many tighten_bounds() calls bounds.make_distinct made on each edge (it iterates a set of intervals
               whose order depends on object addresses); make_distinct is thereby the abstract step "each edge is
               tightened some number of times" (its own contract is C17's);
     m_asg     the assignment scipy's linear_sum_assignment returned (rows ascending); used only if it is a full
               matching (valid_asg), otherwise the diagonal.
   Domain: the elements on each side are pairwise different (the matcher's dictionaries are keyed by node: D36). *)
Record mset (X : Type) := mk_mset {
  m_kvp : list X;                     (* _matched_kvp_edits *)
  m_edges : list (list X);            (* matcher.edges[i][j] = from_nodes[i].edits(to_nodes[j]); creation is pure *)
  m_rem : list Z;                     (* cost of Remove(from_nodes[i]) *)
  m_ins : list Z;                     (* cost of Insert(to_nodes[j]) *)
  m_distinct : bool;                  (* _edges_are_distinct *)
  m_match : option (list (nat * nat));(* _match, in dictionary order (= rows ascending) *)
  m_memo : option zr;                 (* matcher._bounds *)
  m_counts : list (list nat);         (* oracle *)
  m_asg : list (nat * nat)            (* oracle *)
}.
Arguments mk_mset {X}. Arguments m_kvp {X}. Arguments m_edges {X}. Arguments m_rem {X}. Arguments m_ins {X}.
Arguments m_distinct {X}. Arguments m_match {X}. Arguments m_memo {X}. Arguments m_counts {X}. Arguments m_asg {X}.

Definition zmax_list (l : list Z) : Z := match l with [] => 0 | x :: l' => fold_right Z.max x l' end.
(* the sum of the k largest = minus the sum of the k smallest of the negated list *)
Definition sum_largest (k : nat) (l : list Z) : Z := - sum_smallest k (map Z.opp l).

Fixpoint rows_incr (lo : nat) (l : list (nat * nat)) : bool :=
  match l with [] => true | p :: l' => Nat.leb lo (fst p) && rows_incr (Datatypes.S (fst p)) l' end.
Fixpoint nodup_nat (l : list nat) : bool :=
  match l with [] => true | x :: l' => negb (existsb (Nat.eqb x) l') && nodup_nat l' end.
(* a full matching of an n x m complete bipartite graph: min(n, m) pairs, rows strictly ascending, columns distinct *)
Definition valid_asg (n m : nat) (a : list (nat * nat)) : bool :=
  Nat.eqb (length a) (Nat.min n m) && rows_incr 0 a && forallb (fun p => Nat.ltb (fst p) n && Nat.ltb (snd p) m) a &&
  nodup_nat (map snd a).
Definition diag_asg (k : nat) : list (nat * nat) := map (fun i => (i, i)) (seq 0 k).

Section MSet.
  Context {X : Type}.
  Variables (b : X -> zr) (t : X -> X * bool).

  Definition mn (s : mset X) : nat := length (m_rem s).
  Definition mm (s : mset X) : nat := length (m_ins s).
  Definition m_empty (s : mset X) : bool := Nat.eqb (mn s) 0 || Nat.eqb (mm s) 0.

  Definition with_kvp (s : mset X) (l : list X) : mset X :=
    mk_mset l (m_edges s) (m_rem s) (m_ins s) (m_distinct s) (m_match s) (m_memo s) (m_counts s) (m_asg s).
  Definition with_edges (s : mset X) (e : list (list X)) : mset X :=
    mk_mset (m_kvp s) e (m_rem s) (m_ins s) (m_distinct s) (m_match s) (m_memo s) (m_counts s) (m_asg s).
  Definition with_distinct (s : mset X) : mset X :=
    mk_mset (m_kvp s) (m_edges s) (m_rem s) (m_ins s) true (m_match s) (m_memo s) (m_counts s) (m_asg s).
  Definition with_match (s : mset X) (mt : list (nat * nat)) : mset X :=
    mk_mset (m_kvp s) (m_edges s) (m_rem s) (m_ins s) (m_distinct s) (Some mt) (m_memo s) (m_counts s) (m_asg s).
  Definition with_memo (s : mset X) (r : zr) : mset X :=
    mk_mset (m_kvp s) (m_edges s) (m_rem s) (m_ins s) (m_distinct s) (m_match s) (Some r) (m_counts s) (m_asg s).

  (* the matrix of the edges' bounds, and the entry of a pair *)
  Definition bmat (e : list (list X)) : list (list zr) := map (map b) e.
  Definition ebnd (B : list (list zr)) (ij : nat * nat) : zr :=
    match mget B (fst ij) (snd ij) with Some r => r | None => (0, 0) end.

  (* the matching the solver's answer stands for *)
  Definition chosen (s : mset X) : list (nat * nat) :=
    if m_empty s then []
    else if valid_asg (mn s) (mm s) (m_asg s) then m_asg s else diag_asg (Nat.min (mn s) (mm s)).

  (* WeightedBipartiteMatcher.bounds() without the memo *)
  Definition mt_compute (s : mset X) : zr :=
    if m_empty s then (0, 0)
    else match m_match s with
         | None =>
             let k := Nat.min (mn s) (mm s) in
             (sum_smallest k (map (fun row => zmin_list (map fst row)) (bmat (m_edges s))),
              sum_largest k (map (fun row => zmax_list (map snd row)) (bmat (m_edges s))))
         | Some mt => zr_sum (map (ebnd (bmat (m_edges s))) mt)
         end.
  Definition mt_bounds (s : mset X) : mset X * zr :=
    match m_memo s with
    | Some r => (s, r)
    | None => let r := mt_compute s in if zdefb r then (with_memo s r, r) else (s, r)
    end.

  Fixpoint iter_tig (n : nat) (x : X) : X := match n with O => x | Datatypes.S n' => iter_tig n' (fst (t x)) end.
  (* make_distinct over all edges: every edge is tightened some number of times *)
  Definition md_edges (cnt : list (list nat)) (e : list (list X)) : list (list X) :=
    map (fun ir => map (fun jx => iter_tig (nth (fst jx) (nth (fst ir) cnt []) O) (snd jx))
                       (combine (seq 0 (length (snd ir))) (snd ir)))
        (combine (seq 0 (length e)) e).

  (* the `matching` property: computes the matching if it is not known yet *)
  Definition mt_force (s : mset X) : mset X :=
    match m_match s with
    | Some _ => s
    | None =>
        if m_empty s then with_match s []
        else let s1 := if m_distinct s then s else with_distinct (with_edges s (md_edges (m_counts s) (m_edges s))) in
             with_match s1 (chosen s1)
    end.

  (* `for (_, (_, edge)) in self.matching.items(): if edge.tighten_bounds(): return True` *)
  Fixpoint mt_matched (e : list (list X)) (mt : list (nat * nat)) : list (list X) * bool :=
    match mt with
    | [] => (e, false)
    | ij :: rest =>
        match mget e (fst ij) (snd ij) with
        | None => mt_matched e rest
        | Some x => let p := t x in
                    let e' := set2 e (fst ij) (snd ij) (fst p) in
                    if snd p then (e', true) else mt_matched e' rest
        end
    end.

  (* the undecorated tighten_bounds() of the matcher *)
  Definition mt_func (s : mset X) : mset X :=
    match m_match s with
    | None => if m_distinct s then mt_force s
              else with_distinct (with_edges s (md_edges (m_counts s) (m_edges s)))
    | Some mt => with_edges s (fst (mt_matched (m_edges s) mt))
    end.

  (* @repeat_until_tightened; the state a call starts from is the one bounds() left behind *)
  Definition mt_tig (s : mset X) : mset X * bool :=
    rut (fun s => snd (mt_bounds s)) (fun s => fst (mt_bounds (mt_func s))) 4 s.

  Definition zconst (c : Z) : zr := (c, c).
  Definition unmatched_cost (s : mset X) (mt : list (nat * nat)) : Z :=
    zsum (map (fun i => nth i (m_rem s) 0) (filter (fun i => negb (existsb (Nat.eqb i) (map fst mt))) (seq 0 (mn s)))) +
    zsum (map (fun j => nth j (m_ins s) 0) (filter (fun j => negb (existsb (Nat.eqb j) (map snd mt))) (seq 0 (mm s)))).

  (* MultiSetEdit.bounds() *)
  Definition ms_bounds (s : mset X) : mset X * zr :=
    let q := mt_bounds s in
    let base := zr_add (snd q) (zr_sum (map b (m_kvp s))) in
    (fst q,
     match m_match s with
     | Some mt => zr_add base (zconst (unmatched_cost s mt))
     | None =>
         if Nat.ltb (mm s) (mn s)
         then zr_add base (sum_smallest (mn s - mm s) (m_rem s), sum_largest (mn s - mm s) (m_rem s))
         else if Nat.ltb (mn s) (mm s)
         then zr_add base (sum_smallest (mm s - mn s) (m_ins s), sum_largest (mm s - mn s) (m_ins s))
         else base
     end).

  (* MultiSetEdit.tighten_bounds() *)
  Definition ms_tig (s : mset X) : mset X * bool :=
    let p := first_true t (m_kvp s) in
    let s1 := with_kvp s (fst p) in
    if snd p then (s1, true)
    else let r := mt_tig s1 in
         if snd r then (fst r, true)
         else match m_match (fst r) with
              | Some _ => (fst r, false)
              | None => let q0 := ms_bounds (fst r) in
                        let q1 := ms_bounds (mt_force (fst q0)) in
                        (fst q1, tighter (snd q1) (snd q0))
              end.

  Definition ms_bnd (s : mset X) : zr := snd (ms_bounds s).
  Definition ms_step (s : mset X) : mset X * bool := let r := ms_tig s in (fst (ms_bounds (fst r)), snd r).
  Definition mt_bnd (s : mset X) : zr := snd (mt_bounds s).
  Definition mt_step (s : mset X) : mset X * bool := let r := mt_tig s in (fst (mt_bounds (fst r)), snd r).

  (* __init__ (initial_bounds = self.bounds()) *)
  Definition mset_init (kvp : list X) (edges : list (list X)) (rem ins : list Z) (cnt : list (list nat)) (asg : list (nat * nat))
    : mset X := fst (ms_bounds (mk_mset kvp edges rem ins false None None cnt asg)).
End MSet.

Definition msetM (C : machine) : machine :=
  {| St := mset (St C); bnd := ms_bnd (bnd C); tig := ms_step (bnd C) (tig C) |}.
(* the matcher alone (what an observer of the WeightedBipartiteMatcher object sees) *)
Definition matcherM (C : machine) : machine :=
  {| St := mset (St C); bnd := mt_bnd (bnd C); tig := mt_step (bnd C) (tig C) |}.
(* matching.Edge: pure delegation to its weight *)
Definition edgeM (C : machine) : machine := {| St := St C; bnd := bnd C; tig := tig C |}.

(* ---------------------------------------------------------------- the universal machine
   one state type for all classes; tigU d steps states of nesting depth <= d *)
Inductive st :=
  | SConst (c : Z)                              (* ConstantCostEdit *)
  | SSum (l : list st)                          (* KeyValuePairEdit: [key_edit; value_edit] *)
  | SFixed (l : list st) (extra : Z)            (* FixedLengthSequenceEdit *)
  | SED (e : ed st)                             (* EditDistance; StringEdit (pure delegation to an EditDistance) *)
  | SColl (c : coll st)                         (* FixedKeyDictNodeEdit (an EditCollection over a list) *)
  | SMSet (m : mset st).                        (* MultiSetEdit with its WeightedBipartiteMatcher *)

Fixpoint bndU (s : st) : zr :=
  match s with
  | SConst c => (c, c)
  | SSum l => zr_sum (map bndU l)
  | SFixed l x => let r := zr_sum (map bndU l) in (fst r + x, snd r + x)
  | SED e => ed_bnd e
  | SColl c => coll_bnd bndU c
  | SMSet m => ms_bnd bndU m
  end.

Fixpoint tigU (d : nat) (s : st) : st * bool :=
  match d with
  | O => (s, false)
  | S d' =>
      match s with
      | SConst c => (s, false)
      | SSum l => let p := first_true (tigU d') l in (SSum (fst p), snd p)
      | SFixed l x => let p := fixed_tig bndU (tigU d') (l, x) in (SFixed (fst (fst p)) (snd (fst p)), snd p)
      | SED e => let p := ed_tig bndU (tigU d') e in (SED (fst p), snd p)
      | SColl c => let p := coll_tig bndU (tigU d') c in (SColl (fst p), snd p)
      | SMSet m => let p := ms_step bndU (tigU d') m in (SMSet (fst p), snd p)
      end
  end.

Definition UM (d : nat) : machine := {| St := st; bnd := bndU; tig := tigU d |}.

Fixpoint nat_max_list (l : list nat) : nat := match l with [] => O | x :: l' => Nat.max x (nat_max_list l') end.
Fixpoint sheight (s : st) : nat :=
  match s with
  | SConst _ => O
  | SSum l => S (nat_max_list (map sheight l))
  | SFixed l _ => S (nat_max_list (map sheight l))
  | SED e => S (nat_max_list (map (fun row => nat_max_list (map sheight row)) (e_kids e)))
  | SColl c => S (Nat.max (match k_pend c with Some l => nat_max_list (map sheight l) | None => O end) (nat_max_list (map (fun p => sheight (fst p)) (k_subs c))))
  | SMSet m => S (Nat.max (nat_max_list (map sheight (m_kvp m)))
                          (nat_max_list (map (fun row => nat_max_list (map sheight row)) (m_edges m))))
  end.

(* ---------------------------------------------------------------- a.edits(b) for the modelled fragment *)
Definition children_eqb (cs ds : list tree) : bool :=
  (fix go (xs ys : list tree) : bool :=
     match xs, ys with
     | [], [] => true
     | x :: xs', y :: ys' => node_eqb x y && go xs' ys'
     | _, _ => false
     end) cs ds.

Definition list_dispatch (a b : tree) : ldispatch :=
  match a, b with
  | Lst ale alsl cs, Lst _ _ ds =>
      list_dispatch_gen true (children_eqb cs ds) ale alsl (zlen cs) (zlen ds) (all_leaves cs) (all_leaves ds)
  | Lst ale alsl cs, _ => list_dispatch_gen false false ale alsl (zlen cs) 0 (all_leaves cs) true
  | _, _ => LReplace
  end.

(* the pairs whose edit is a ConstantCostEdit, with its cost *)
Definition const_of (a b : tree) : option Z :=
  match a with
  | Leaf x => match leaf_script x a b with
              | OK (EMatch c) | OK (EReplace c) => Some c
              | _ => None
              end
  | Lst _ _ _ => match list_dispatch a b with
                 | LMatch0 => Some 0
                 | LReplace => Some (replace_cost a b)
                 | _ => None
                 end
  | Kvp ake k _ => match b with
                   | Kvp _ k' _ => if ake || node_eqb k k' then None else Some (replace_cost a b)
                   | _ => None
                   end
  | MSet _ cs => match b with
                 | MSet _ ds => if (match cs, ds with [], [] => true | _, _ => false end) || node_eqb a b then Some 0 else None
                 | FDict _ => None                       (* mixed mapping classes: no dictionary strategy produces them *)
                 | _ => Some (replace_cost a b)
                 end
  | FDict cs => match b with
                | FDict ds =>
                    if (match cs, ds with [], [] => true | _, _ => false end) ||
                       (forallb (fun c => existsb (fun d => node_eqb c d) ds) cs &&
                        forallb (fun d => existsb (fun c => node_eqb c d) cs) ds)
                    then Some 0 else None
                | MSet _ _ => None                      (* mixed mapping classes: no dictionary strategy produces them *)
                | _ => Some (replace_cost a b)
                end
  end.

Fixpoint all_some_l {A} (l : list (option A)) : option (list A) :=
  match l with
  | [] => Some []
  | Some x :: l' => match all_some_l l' with Some r => Some (x :: r) | None => None end
  | None :: _ => None
  end.

(* string_edit_distance(s, t): EditDistance over one-character StringNodes (total_size 1), penalty 0 *)
Definition str_state (s t : str) : st :=
  let '(p, q) := trim Z.eqb s t in
  let s' := middle p q s in
  let t' := middle p q t in
  SED (ed_init (map (fun _ => 1) s) (map (fun _ => 1) t) p q
               (map (fun d => map (fun c => SConst (char_cost c d)) s') t')).

(* structural identity of trees: the key under which the harness files the oracle answers of a matcher *)
Definition leaf_beq (x y : leaf) : bool :=
  lkind_eqb (lk x) (lk y) && str_eqb (ltext x) (ltext y) && (lnum x =? lnum y) && (lexp x =? lexp y).
Fixpoint tree_beq (a b : tree) {struct a} : bool :=
  match a, b with
  | Leaf x, Leaf y => leaf_beq x y
  | Lst e1 s1 xs, Lst e2 s2 ys =>
      Bool.eqb e1 e2 && Bool.eqb s1 s2 &&
      (fix go (xs ys : list tree) {struct xs} : bool :=
         match xs, ys with [], [] => true | x :: xs', y :: ys' => tree_beq x y && go xs' ys' | _, _ => false end) xs ys
  | Kvp e k v, Kvp e' k' v' => Bool.eqb e e' && tree_beq k k' && tree_beq v v'
  | MSet e xs, MSet e' ys =>
      Bool.eqb e e' &&
      (fix go (xs ys : list tree) {struct xs} : bool :=
         match xs, ys with [], [] => true | x :: xs', y :: ys' => tree_beq x y && go xs' ys' | _, _ => false end) xs ys
  | FDict xs, FDict ys =>
      (fix go (xs ys : list tree) {struct xs} : bool :=
         match xs, ys with [], [] => true | x :: xs', y :: ys' => tree_beq x y && go xs' ys' | _, _ => false end) xs ys
  | _, _ => false
  end.
Fixpoint trees_beq (xs ys : list tree) : bool :=
  match xs, ys with [], [] => true | x :: xs', y :: ys' => tree_beq x y && trees_beq xs' ys' | _, _ => false end.

(* the oracle: for the matcher between the node lists (from_nodes, to_nodes): make_distinct's call counts per edge and
   the solver's assignment *)
Definition oracle := list ((list tree * list tree) * (list (list nat) * list (nat * nat))).
Definition orc_lookup (orc : oracle) (fs ts : list tree) : list (list nat) * list (nat * nat) :=
  match find (fun e => trees_beq (fst (fst e)) fs && trees_beq (snd (fst e)) ts) orc with
  | Some e => snd e
  | None => ([], [])
  end.

Fixpoint distinct_nodes (cs : list tree) : bool :=
  match cs with [] => true | c :: cs' => negb (existsb (node_eqb c) cs') && distinct_nodes cs' end.

Fixpoint initO (orc : oracle) (a b : tree) {struct a} : option st :=
  match const_of a b with
  | Some c => Some (SConst c)
  | None =>
      match a with
      | Leaf x =>
          match b with
          | Leaf y => match lk x, lk y with
                      | KStr, KStr => Some (str_state (ltext x) (ltext y))
                      | _, _ => None
                      end
          | _ => None
          end
      | Lst ale alsl cs =>
          let ds := match b with Lst _ _ ds => ds | _ => [] end in
          let M := map (fun c => map (fun d => initO orc c d) ds) cs in            (* M[i][j] = cs[i].edits(ds[j]) *)
          match list_dispatch a b with
          | LFixed =>
              let n := length cs in
              let m := length ds in
              let pairs := map (fun i => match mget M i i with Some (Some s) => Some s | _ => None end)
                               (seq 0 (Nat.min n m)) in
              let extra :=
                  (if Nat.ltb m n
                   then zsum (map (fun i => remove_cost (nth i cs dummy) 1) (seq (remove_from_pos n m) (n - remove_from_pos n m)))
                   else 0) +
                  (if Nat.ltb n m
                   then zsum (map (fun j => insert_cost (nth j ds dummy) 1) (seq (insert_from_pos n m) (m - insert_from_pos n m)))
                   else 0) in
              match all_some_l pairs with
              | Some l => Some (SFixed l extra)
              | None => None
              end
          | LEditDist penalty =>
              let '(p, q) := trim node_eqb cs ds in
              let nc := length (middle p q cs) in
              let nr := length (middle p q ds) in
              let kids := map (fun r => all_some_l (map (fun c => match mget M (p + c) (p + r) with
                                                                  | Some (Some s) => Some s | _ => None end)
                                                        (seq 0 nc))) (seq 0 nr) in
              match all_some_l kids with
              | Some ks => Some (SED (ed_init (map (fun c => remove_cost c penalty) cs)
                                              (map (fun d => insert_cost d penalty) ds) p q ks))
              | None => None
              end
          | _ => None
          end
      | Kvp ake k v =>
          match b with
          | Kvp _ k' v' =>
              let ke := if node_eqb k k' then Some (SConst 0) else initO orc k k' in
              let ve := if node_eqb v v' then Some (SConst 0) else initO orc v v' in
              match ke, ve with
              | Some x, Some y => Some (SSum [x; y])
              | _, _ => None
              end
          | _ => None
          end
      | FDict cs =>
          (* FixedKeyDictNode._child_edits: the pairs sharing a key in the order of self, then the removals, then the
             insertions in the order of the other mapping; cost_upper_bound = total sizes + 1.  Domain: members are
             key/value pairs, and the children's initial upper bounds fit the budget (then the edit never invalidates
             itself; proved to hold whenever no child is a multiset edit: not proved here: the guard is a computed hypothesis) *)
          match b with
          | FDict ds =>
              let M := map (fun c => map (fun d => initO orc c d) ds) cs in
              let partner := fun c => find_index (fun d => node_eqb (kvp_key c) (kvp_key d)) ds 0 in
              let shared := flat_map (fun i => match partner (nth i cs dummy) with Some j => [(i, j)] | None => [] end)
                                     (seq 0 (length cs)) in
              let unshared := filter (fun i => match partner (nth i cs dummy) with Some _ => false | None => true end)
                                     (seq 0 (length cs)) in
              let inserted := filter (fun j => negb (existsb (fun c => node_eqb (kvp_key c) (kvp_key (nth j ds dummy))) cs))
                                     (seq 0 (length ds)) in
              let get := fun (ij : nat * nat) =>
                  if node_eqb (nth (fst ij) cs dummy) (nth (snd ij) ds dummy) then Some (SConst 0)
                  else match mget M (fst ij) (snd ij) with Some (Some s) => Some s | _ => None end in
              if fixed_dict_removals_in_hash_order || negb (forallb is_kvp cs && forallb is_kvp ds) then None
              else
                match all_some_l (map get shared) with
                | Some sh =>
                    let kids := sh ++ map (fun i => SConst (remove_cost (nth i cs dummy) 1)) unshared
                                   ++ map (fun j => SConst (insert_cost (nth j ds dummy) 1)) inserted in
                    let U := size a + 1 + size b in
                    if zsum (map (fun s => snd (bndU s)) kids) <=? U then Some (SColl (coll_init bndU U kids)) else None
                | None => None
                end
          | _ => None
          end
      | MSet amk cs =>
          (* MultiSetEdit.__init__: key pre-matching (auto_match_keys), exact matches, then the matcher between what is
             left (to_remove x to_insert).  Domain: the elements of each side are pairwise different (D36) *)
          match b with
          | MSet _ ds =>
              let M := map (fun c => map (fun d => initO orc c d) ds) cs in
              let pre := if amk then prematch cs 0 ds [] else [] in
              let fl := filter (fun i => negb (nat_in i (map fst pre))) (seq 0 (length cs)) in
              let tl := filter (fun j => negb (nat_in j (map snd pre))) (seq 0 (length ds)) in
              let eq_ij := fun i j => node_eqb (nth i cs dummy) (nth j ds dummy) in
              let R := filter (fun i => negb (existsb (fun j => eq_ij i j) tl)) fl in              (* to_remove *)
              let I := filter (fun j => negb (existsb (fun i => eq_ij i j) fl)) tl in              (* to_insert *)
              let get := fun i j => match mget M i j with Some (Some s) => Some s | _ => None end in
              if negb (distinct_nodes cs && distinct_nodes ds) then None
              else
                match all_some_l (map (fun ij => get (fst ij) (snd ij)) pre),
                      all_some_l (map (fun i => all_some_l (map (fun j => get i j) I)) R) with
                | Some kv, Some edges =>
                    let ans := orc_lookup orc (map (fun i => nth i cs dummy) R) (map (fun j => nth j ds dummy) I) in
                    Some (SMSet (mset_init bndU kv edges (map (fun i => remove_cost (nth i cs dummy) 1) R)
                                           (map (fun j => insert_cost (nth j ds dummy) 1) I) (fst ans) (snd ans)))
                | _, _ => None
                end
          | _ => None
          end
      end
  end.

Definition initU (a b : tree) : option st := initO [] a b.

(* ---------------------------------------------------------------- correspondence *)
Definition ev_eqb (x y : ev) : bool :=
  match x, y with
  | EB p, EB q => rng_eqb p q
  | ET p, ET q => Bool.eqb p q
  | _, _ => false
  end.
Fixpoint evs_eqb (x y : list ev) : bool :=
  match x, y with
  | [], [] => true
  | p :: x', q :: y' => ev_eqb p q && evs_eqb x' y'
  | _, _ => false
  end.

(* the root's observations up to and including the bounds() after its first False *)
Fixpoint upto_false (evs : list ev) : list ev :=
  match evs with
  | [] => []
  | ET false :: EB b :: _ => [ET false; EB b]
  | e :: evs' => e :: upto_false evs'
  end.

(* the transport encoding of the harness sends a run of identical consecutive bounds() observations once *)
Fixpoint dedup_B (prev : option rng) (evs : list ev) : list ev :=
  match evs with
  | [] => []
  | EB b :: evs' =>
      match prev with
      | Some p => if rng_eqb p b then dedup_B prev evs' else EB b :: dedup_B (Some b) evs'
      | None => EB b :: dedup_B (Some b) evs'
      end
  | ET r :: evs' => ET r :: dedup_B None evs'
  end.

Record ccase := { cc_case : case; cc_root : bool; cc_orc : oracle }.

Definition model_trace (orc : oracle) (a b : tree) : option (list ev) :=
  match initO orc a b with
  | Some s =>     (* AbstractEdit.__init__ queries bounds() once (initial_bounds), then the observer drives *)
      Some (EB (rng_of (bndU s)) :: trace_of (UM (sheight s)) (S (S (Z.to_nat (width (bndU s))))) s)
  | None => None
  end.

(* is the pair inside the modelled fragment (and the first object the actively driven root edit)? *)
Definition modelled_C04 (c : ccase) : bool :=
  cc_root c && match initO (cc_orc c) (c_a (cc_case c)) (c_b (cc_case c)) with Some _ => true | None => false end.

Definition corr_C04 (c : ccase) : bool :=
  if cc_root c then
    match model_trace (cc_orc c) (c_a (cc_case c)) (c_b (cc_case c)), c_objs (cc_case c) with
    | Some tr, o :: _ => evs_eqb (dedup_B None tr) (upto_false (ot_events o))
    | Some _, [] => false
    | None, _ => true
    end
  else true.
