(* C04: WeightedBipartiteMatcher and MultiSetEdit (MachineModel.matcherM / msetM).
   Part 1: the bracket lemmas.  For a list l and any k of its entries at pairwise different positions, the sum of the
           k smallest entries of l is <= their sum <= the sum of the k largest; both brackets are monotone.
   Part 2: the matcher's bounds: before the matching is known, the sums of the k smallest row minima of the lower bounds /
           k largest row maxima of the upper bounds bracket the total of ANY full matching (k = min(#rows, #columns));
           afterwards the bounds are the sum over the matched edges.  Contract of the matcher and of MultiSetEdit. *)
From Coq Require Import ZArith List Bool Lia Permutation Sorted.
Require Import GT.PyBase GT.Data GT.EdEngineProofs GT.ScriptModel GT.ListAux GT.MachineSpec GT.MachineModel GT.MachineCore.
Import ListNotations.
Open Scope Z_scope.

(* ================================================================ Part 1 *)
Lemma ss_zero : forall l, sum_smallest 0 l = 0.
Proof. intros l. unfold sum_smallest. reflexivity. Qed.

(* the sum of the |sub| smallest entries is below the sum of any sub-multiset *)
Lemma ss_le_sub : forall sub rest l, Permutation l (sub ++ rest) -> sum_smallest (length sub) l <= zsum sub.
Proof.
  induction sub as [|x sub IH]; intros rest l P.
  - rewrite ss_zero. simpl. lia.
  - cbn [length]. rewrite (ss_perm _ _ _ P). cbn [app].
    pose proof (ss_cons_S x (sub ++ rest) (length sub)) as H1.
    pose proof (IH rest (sub ++ rest) (Permutation_refl _)) as H2.
    change (zsum (x :: sub)) with (x + zsum sub). lia.
Qed.

Lemma zsum_opp : forall l, zsum (map Z.opp l) = - zsum l.
Proof. induction l as [|x l IH]; [reflexivity|]. change (- x + zsum (map Z.opp l) = - (x + zsum l)). lia. Qed.

Lemma sl_ge_sub : forall sub rest l, Permutation l (sub ++ rest) -> zsum sub <= sum_largest (length sub) l.
Proof.
  intros sub rest l P. unfold sum_largest.
  assert (P' : Permutation (map Z.opp l) (map Z.opp sub ++ map Z.opp rest)) by (rewrite <- map_app; apply Permutation_map; exact P).
  pose proof (ss_le_sub _ _ _ P') as H. rewrite map_length, zsum_opp in H. lia.
Qed.

Lemma map_nth_seq : forall (l : list Z), map (fun i => nth i l 0) (seq 0 (length l)) = l.
Proof.
  induction l as [|x l IH]; [reflexivity|]. cbn [length seq map nth]. f_equal.
  rewrite <- seq_shift, map_map. exact IH.
Qed.

(* positions: a duplicate-free list of positions and the remaining ones partition 0..n-1 *)
Lemma sel_partition : forall n (I : list nat), NoDup I -> (forall i, In i I -> (i < n)%nat) ->
  Permutation (seq 0 n) (I ++ filter (fun i => negb (existsb (Nat.eqb i) I)) (seq 0 n)).
Proof.
  intros n I Hn Hr.
  rewrite <- (filter_partition_perm (fun i => existsb (Nat.eqb i) I) (seq 0 n)) at 1.
  apply Permutation_app_tail. apply NoDup_Permutation; [apply NoDup_filter; apply seq_NoDup|exact Hn|].
  intros i. rewrite filter_In, existsb_nat_in, in_seq. split; [tauto|]. intros H. split; [specialize (Hr i H); lia|exact H].
Qed.

Lemma sel_perm : forall (l : list Z) (I : list nat), NoDup I -> (forall i, In i I -> (i < length l)%nat) ->
  Permutation l (map (fun i => nth i l 0) I ++
                 map (fun i => nth i l 0) (filter (fun i => negb (existsb (Nat.eqb i) I)) (seq 0 (length l)))).
Proof.
  intros l I Hn Hr. rewrite <- map_app. rewrite <- (map_nth_seq l) at 1. apply Permutation_map. apply sel_partition; assumption.
Qed.

Lemma sel_rest_length : forall n (I : list nat), NoDup I -> (forall i, In i I -> (i < n)%nat) ->
  length (filter (fun i => negb (existsb (Nat.eqb i) I)) (seq 0 n)) = (n - length I)%nat.
Proof.
  intros n I Hn Hr. pose proof (Permutation_length (sel_partition n I Hn Hr)) as H.
  rewrite app_length, seq_length in H. lia.
Qed.

Lemma zsum_map_le : forall {A} (f g : A -> Z) l, (forall x, In x l -> f x <= g x) -> zsum (map f l) <= zsum (map g l).
Proof.
  intros A f g l. induction l as [|x l IH]; intros H; [simpl; lia|].
  change (f x + zsum (map f l) <= g x + zsum (map g l)).
  pose proof (H x (or_introl eq_refl)). assert (zsum (map f l) <= zsum (map g l)) by (apply IH; intros y Hy; apply H; right; exact Hy). lia.
Qed.

(* the brackets: values g(p) attached to pairs p whose first components are pairwise different positions of rm *)
Lemma bracket_lo : forall (rm : list Z) {P} (mt : list P) (row : P -> nat) (g : P -> Z),
  NoDup (map row mt) -> (forall p, In p mt -> (row p < length rm)%nat /\ nth (row p) rm 0 <= g p) ->
  sum_smallest (length mt) rm <= zsum (map g mt).
Proof.
  intros rm P mt row g Hn Hp.
  assert (Hr : forall i, In i (map row mt) -> (i < length rm)%nat).
  { intros i Hi. apply in_map_iff in Hi. destruct Hi as (p & <- & Hin). apply (Hp p Hin). }
  pose proof (ss_le_sub _ _ _ (sel_perm rm (map row mt) Hn Hr)) as H. rewrite !map_length, map_map in H.
  pose proof (zsum_map_le (fun p => nth (row p) rm 0) g mt (fun p Hin => proj2 (Hp p Hin))). lia.
Qed.

Lemma bracket_hi : forall (rM : list Z) {P} (mt : list P) (row : P -> nat) (g : P -> Z),
  NoDup (map row mt) -> (forall p, In p mt -> (row p < length rM)%nat /\ g p <= nth (row p) rM 0) ->
  zsum (map g mt) <= sum_largest (length mt) rM.
Proof.
  intros rM P mt row g Hn Hp.
  assert (Hr : forall i, In i (map row mt) -> (i < length rM)%nat).
  { intros i Hi. apply in_map_iff in Hi. destruct Hi as (p & <- & Hin). apply (Hp p Hin). }
  pose proof (sl_ge_sub _ _ _ (sel_perm rM (map row mt) Hn Hr)) as H. rewrite !map_length, map_map in H.
  pose proof (zsum_map_le g (fun p => nth (row p) rM 0) mt (fun p Hin => proj2 (Hp p Hin))). lia.
Qed.

(* monotone: raising entries raises the sum of the k smallest (and of the k largest) *)
Lemma Forall2_firstn' : forall {A B} (R : A -> B -> Prop) k l l', Forall2 R l l' -> Forall2 R (firstn k l) (firstn k l').
Proof. intros A B R k. induction k as [|k IH]; intros l l' H; [constructor|]. destruct H; cbn [firstn]; constructor; auto. Qed.

Lemma zsum_Forall2_le : forall l l', Forall2 Z.le l l' -> zsum l <= zsum l'.
Proof. induction 1 as [|x y l l' H _ IH]; [simpl; lia|]. change (x + zsum l <= y + zsum l'). lia. Qed.

Lemma ss_mono : forall k l l', Forall2 Z.le l l' -> (k <= length l)%nat -> sum_smallest k l <= sum_smallest k l'.
Proof.
  intros k l l' H Hk.
  assert (F : Forall2 (fun y x => x <= y) l' l).
  { clear Hk. induction H; constructor; auto. }
  destruct (Permutation_Forall2 (zsort_is_perm l') F) as (p & Pp & Fp).
  (* p: a rearrangement of l that lies below the sorted l' entry by entry *)
  assert (Lp : length p = length l) by (symmetry; apply Permutation_length; exact Pp).
  assert (P2 : Permutation l (firstn k p ++ skipn k p)) by (rewrite firstn_skipn; exact Pp).
  pose proof (ss_le_sub _ _ _ P2) as H1. rewrite firstn_length_le in H1 by lia.
  assert (H2 : zsum (firstn k p) <= zsum (firstn k (zsort l'))).
  { apply zsum_Forall2_le. apply Forall2_firstn'. clear - Fp. induction Fp; constructor; auto. }
  unfold sum_smallest at 2. lia.
Qed.

Lemma sl_mono : forall k l l', Forall2 Z.le l l' -> (k <= length l)%nat -> sum_largest k l <= sum_largest k l'.
Proof.
  intros k l l' H Hk. unfold sum_largest.
  assert (F : Forall2 Z.le (map Z.opp l') (map Z.opp l)).
  { clear Hk. induction H; cbn [map]; constructor; auto. lia. }
  pose proof (ss_mono k _ _ F) as M. rewrite map_length in M.
  rewrite <- (Forall2_length' _ _ _ H) in M. specialize (M Hk). lia.
Qed.

(* the bracket is a proper interval *)
Lemma ss_le_sl : forall k l, (k <= length l)%nat -> sum_smallest k l <= sum_largest k l.
Proof.
  intros k l Hk.
  assert (P : Permutation l (firstn k l ++ skipn k l)) by (rewrite firstn_skipn; apply Permutation_refl).
  pose proof (ss_le_sub _ _ _ P). pose proof (sl_ge_sub _ _ _ P). rewrite firstn_length_le in * by lia. lia.
Qed.

Example bracket_example : sum_smallest 2 [5; 1; 7; 3] = 4 /\ sum_largest 2 [5; 1; 7; 3] = 12.
Proof. split; reflexivity. Qed.

(* ================================================================ Part 2 *)
Lemma mget_nth : forall {A} (m : list (list A)) i j, mget m i j = nth_error (nth i m []) j.
Proof.
  intros A m i j. unfold mget. destruct (nth_error m i) as [row|] eqn:E.
  - rewrite (nth_nth_error m i row [] E). reflexivity.
  - apply nth_error_None in E. rewrite nth_overflow by exact E. destruct j; reflexivity.
Qed.

Lemma mget_map : forall {A B} (f : A -> B) m i j, mget (map (map f) m) i j = option_map f (mget m i j).
Proof.
  intros A B f m i j. unfold mget. rewrite nth_error_map. destruct (nth_error m i) as [row|]; cbn [option_map]; [|reflexivity].
  apply nth_error_map.
Qed.

Lemma mget_set2 : forall {A} (mx : list (list A)) r c x r' c', (r < length mx)%nat -> (c < length (nth r mx []))%nat ->
  mget (set2 mx r c x) r' c' = if Nat.eqb r' r && Nat.eqb c' c then Some x else mget mx r' c'.
Proof. intros. rewrite !mget_nth. apply nth_error_set2; assumption. Qed.

Lemma mget_some_lt : forall {A} (m : list (list A)) i j x, mget m i j = Some x -> (i < length m)%nat /\ (j < length (nth i m []))%nat.
Proof.
  intros A m i j x H. split.
  - unfold mget in H. destruct (nth_error m i) eqn:E; [|discriminate]. apply nth_error_Some. congruence.
  - rewrite mget_nth in H. apply nth_error_Some. congruence.
Qed.

Lemma mget_lt_some : forall {A} (m : list (list A)) i j, (i < length m)%nat -> (j < length (nth i m []))%nat -> exists x, mget m i j = Some x.
Proof.
  intros A m i j H1 H2. rewrite mget_nth. destruct (nth_error (nth i m []) j) eqn:E; [eauto|]. apply nth_error_None in E. lia.
Qed.

Lemma nth_error_map_combine_seq : forall {A B} (f : nat * A -> B) (l : list A) s i,
  nth_error (map f (combine (seq s (length l)) l)) i = option_map (fun x => f ((s + i)%nat, x)) (nth_error l i).
Proof.
  intros A B f l. induction l as [|x l IH]; intros s i; [destruct i; reflexivity|].
  cbn [length seq combine map]. destruct i as [|i]; cbn [nth_error option_map]; [rewrite Nat.add_0_r; reflexivity|].
  rewrite IH. replace (S s + i)%nat with (s + S i)%nat by lia. reflexivity.
Qed.

Lemma zr_sum_fst : forall l, fst (zr_sum l) = zsum (map fst l).
Proof. induction l as [|r l IH]; [reflexivity|]. rewrite zr_sum_cons. unfold zr_add. cbn [fst map]. rewrite IH. reflexivity. Qed.
Lemma zr_sum_snd : forall l, snd (zr_sum l) = zsum (map snd l).
Proof. induction l as [|r l IH]; [reflexivity|]. rewrite zr_sum_cons. unfold zr_add. cbn [snd map]. rewrite IH. reflexivity. Qed.

Lemma zmin_list_mono : forall l l', Forall2 Z.le l l' -> zmin_list l <= zmin_list l'.
Proof.
  intros l l' H. destruct H as [|x y l l' Hxy H]; [simpl; lia|].
  apply zmin_list_ge; [discriminate|]. intros z Hz.
  destruct (Forall2_in_r _ _ _ _ (Forall2_cons _ _ Hxy H) Hz) as (w & Hw & Hle).
  pose proof (zmin_list_le (x :: l) w Hw). lia.
Qed.

Lemma fold_max_ge_init : forall l x, x <= fold_right Z.max x l.
Proof. induction l as [|y l IH]; intros x; simpl; [lia|]. specialize (IH x). lia. Qed.
Lemma fold_max_ge_in : forall l x y, In y l -> y <= fold_right Z.max x l.
Proof. induction l as [|z l IH]; intros x y H; [contradiction|]. simpl. destruct H as [<-|H]; [lia|]. specialize (IH x y H). lia. Qed.
Lemma zmax_list_ge : forall l x, In x l -> x <= zmax_list l.
Proof.
  intros [|y l] x H; [contradiction|]. unfold zmax_list. destruct H as [<-|H]; [apply fold_max_ge_init|apply fold_max_ge_in; exact H].
Qed.
Lemma fold_max_le : forall l x b, x <= b -> (forall y, In y l -> y <= b) -> fold_right Z.max x l <= b.
Proof. induction l as [|z l IH]; intros x b Hx H; simpl; [exact Hx|]. pose proof (H z (or_introl eq_refl)). specialize (IH x b Hx (fun y Hy => H y (or_intror Hy))). lia. Qed.
Lemma zmax_list_mono : forall l l', Forall2 Z.le l l' -> zmax_list l <= zmax_list l'.
Proof.
  intros l l' H. destruct H as [|x y l l' Hxy H]; [simpl; lia|].
  unfold zmax_list at 1. apply fold_max_le.
  - pose proof (zmax_list_ge (y :: l') y (or_introl eq_refl)). lia.
  - intros z Hz. destruct (Forall2_in_l _ _ _ _ H Hz) as (w & Hw & Hle).
    pose proof (zmax_list_ge (y :: l') w (or_intror Hw)). lia.
Qed.

Lemma Forall2_of_nth_error : forall {A B} (R : A -> B -> Prop) l l', length l = length l' ->
  (forall i x y, nth_error l i = Some x -> nth_error l' i = Some y -> R x y) -> Forall2 R l l'.
Proof.
  intros A B R l. induction l as [|x l IH]; intros [|y l'] HL H; try discriminate; constructor.
  - apply (H 0%nat); reflexivity.
  - apply IH; [simpl in HL; lia|]. intros i. apply (H (S i)).
Qed.

Fixpoint rows_incr_spec (l : list (nat * nat)) : forall lo, rows_incr lo l = true ->
  NoDup (map fst l) /\ forall p, In p l -> (lo <= fst p)%nat.
Proof.
  destruct l as [|p l]; intros lo H.
  - split; [constructor|intros p []].
  - cbn [rows_incr] in H. apply andb_true_iff in H. destruct H as [H1 H2]. apply Nat.leb_le in H1.
    destruct (rows_incr_spec l _ H2) as [N L]. split.
    + cbn [map]. constructor; [|exact N]. intros Hin. apply in_map_iff in Hin. destruct Hin as (q & Eq & Hq).
      specialize (L q Hq). lia.
    + intros q [<-|Hq]; [exact H1|]. specialize (L q Hq). lia.
Qed.

Lemma nodup_nat_spec : forall l, nodup_nat l = true -> NoDup l.
Proof.
  induction l as [|x l IH]; intros H; [constructor|]. cbn [nodup_nat] in H. apply andb_true_iff in H. destruct H as [H1 H2].
  constructor; [|apply IH; exact H2]. intros Hin. apply existsb_nat_in in Hin. rewrite Hin in H1. discriminate.
Qed.

(* strictly inside: a sum of intervals of which every one is contained and one changed *)
Lemma zr_sum_strict : forall {P} (f g : P -> zr) (l : list P),
  (forall p, In p l -> zcontains (f p) (g p)) ->
  zcontains (zr_sum (map f l)) (zr_sum (map g l)) /\
  ((exists p, In p l /\ g p <> f p) -> zr_sum (map g l) <> zr_sum (map f l)).
Proof.
  intros P f g l. induction l as [|p l IH]; intros H.
  - split; [apply contains_refl|]. intros (p & [] & _).
  - destruct (IH (fun q Hq => H q (or_intror Hq))) as [[I1 I2] I3]. destruct (H p (or_introl eq_refl)) as [C1 C2].
    cbn [map]. rewrite !zr_sum_cons. unfold zr_add, zcontains in *. cbn [fst snd] in *. split; [lia|].
    intros (q & [<-|Hq] & N) E; injection E as E1 E2.
    + apply N. apply zr_eq; lia.
    + assert (zr_sum (map g l) = zr_sum (map f l)) by (apply zr_eq; lia). exact (I3 (ex_intro _ q (conj Hq N)) H0).
Qed.

Lemma Forall2_map2 : forall {A B A' B'} (R : A' -> B' -> Prop) (f : A -> A') (g : B -> B') l l',
  Forall2 (fun x y => R (f x) (g y)) l l' -> Forall2 R (map f l) (map g l').
Proof. induction 1; cbn [map]; constructor; auto. Qed.

Section MatchContract.
  Variable C : machine.
  Variables (rem ins : list Z) (cnt : list (list nat)) (asg : list (nat * nat)).
  Variable vv : nat -> nat -> Z.          (* the final value of the edge between from_nodes[i] and to_nodes[j] *)
  Variable kvs : list Z.                  (* the final values of the pre-matched key/value edits *)
  Notation nn := (length rem).
  Notation mm' := (length ins).

  (* the matching the solver's (validated) answer stands for *)
  Definition ch : list (nat * nat) :=
    if Nat.eqb nn 0 || Nat.eqb mm' 0 then []
    else if valid_asg nn mm' asg then asg else diag_asg (Nat.min nn mm').
  Definition vvp (p : nat * nat) : Z := vv (fst p) (snd p).
  Definition F : Z := zsum (map vvp ch).

  Lemma ch_valid : NoDup (map fst ch) /\ NoDup (map snd ch) /\
    (forall p, In p ch -> (fst p < nn)%nat /\ (snd p < mm')%nat) /\ length ch = Nat.min nn mm'.
  Proof.
    unfold ch. destruct (Nat.eqb nn 0 || Nat.eqb mm' 0) eqn:E0.
    - split; [constructor|]. split; [constructor|]. split; [intros p []|].
      apply orb_true_iff in E0. destruct E0 as [E|E]; apply Nat.eqb_eq in E; rewrite E; simpl; lia.
    - destruct (valid_asg nn mm' asg) eqn:Ev.
      + unfold valid_asg in Ev. apply andb_true_iff in Ev. destruct Ev as [Ev V4]. apply andb_true_iff in Ev. destruct Ev as [Ev V3].
        apply andb_true_iff in Ev. destruct Ev as [V1 V2]. apply Nat.eqb_eq in V1.
        split; [apply (rows_incr_spec asg 0%nat V2)|]. split; [apply nodup_nat_spec; exact V4|]. split; [|exact V1].
        intros p Hp. rewrite forallb_forall in V3. specialize (V3 p Hp). apply andb_true_iff in V3. destruct V3 as [A B].
        apply Nat.ltb_lt in A. apply Nat.ltb_lt in B. auto.
      + unfold diag_asg. rewrite !map_map. cbn [fst snd]. rewrite map_id. split; [apply seq_NoDup|]. split; [apply seq_NoDup|].
        split; [|rewrite map_length, seq_length; reflexivity].
        intros p Hp. apply in_map_iff in Hp. destruct Hp as (i & <- & Hi). apply in_seq in Hi. cbn [fst snd]. lia.
  Qed.

  (* the edges: dimensions, and every edge under the strict contract with its final value *)
  Definition EOK (E : list (list (St C))) : Prop :=
    length E = nn /\ (forall i, (i < nn)%nat -> length (nth i E []) = mm') /\
    (forall i j x, mget E i j = Some x -> ContractV true C x (vv i j)).

  Definition eb (E : list (list (St C))) (p : nat * nat) : zr := ebnd (bmat (bnd C) E) p.

  Lemma eb_get : forall E p x, mget E (fst p) (snd p) = Some x -> eb E p = bnd C x.
  Proof. intros E p x H. unfold eb, ebnd, bmat. rewrite mget_map, H. reflexivity. Qed.

  Definition rmin (E : list (list (St C))) : list Z := map (fun row => zmin_list (map fst row)) (bmat (bnd C) E).
  Definition rmax (E : list (list (St C))) : list Z := map (fun row => zmax_list (map snd row)) (bmat (bnd C) E).

  Definition MB (E : list (list (St C))) (o : option (list (nat * nat))) : zr :=
    if Nat.eqb nn 0 || Nat.eqb mm' 0 then (0, 0)
    else match o with
         | None => (sum_smallest (Nat.min nn mm') (rmin E), sum_largest (Nat.min nn mm') (rmax E))
         | Some mt => zr_sum (map (eb E) mt)
         end.

  Lemma eok_get : forall E i j, EOK E -> (i < nn)%nat -> (j < mm')%nat ->
    exists x, mget E i j = Some x /\ ContractV true C x (vv i j).
  Proof.
    intros E i j (L1 & L2 & L3) Hi Hj. destruct (mget_lt_some E i j) as [x Hx]; [lia|rewrite L2; lia|]. eauto.
  Qed.

  Lemma rmin_nth : forall E i, nth i (rmin E) 0 = zmin_list (map fst (map (bnd C) (nth i E []))).
  Proof.
    intros E i. unfold rmin, bmat. change 0 with ((fun row : list zr => zmin_list (map fst row)) []).
    rewrite map_nth. change (@nil zr) with (map (bnd C) []). rewrite map_nth. reflexivity.
  Qed.
  Lemma rmax_nth : forall E i, nth i (rmax E) 0 = zmax_list (map snd (map (bnd C) (nth i E []))).
  Proof.
    intros E i. unfold rmax, bmat. change 0 with ((fun row : list zr => zmax_list (map snd row)) []).
    rewrite map_nth. change (@nil zr) with (map (bnd C) []). rewrite map_nth. reflexivity.
  Qed.

  Lemma ch_facts : forall E, EOK E -> forall p, In p ch ->
    (fst p < length (rmin E))%nat /\ (fst p < length (rmax E))%nat /\
    nth (fst p) (rmin E) 0 <= fst (eb E p) /\ fst (eb E p) <= vvp p <= snd (eb E p) /\
    snd (eb E p) <= nth (fst p) (rmax E) 0.
  Proof.
    intros E HE p Hp. destruct ch_valid as (_ & _ & Hr & _). destruct (Hr p Hp) as [Hi Hj].
    destruct (eok_get E _ _ HE Hi Hj) as (x & Hx & Hc). pose proof HE as (L1 & _ & _).
    rewrite (eb_get E p x Hx). pose proof (cv_sound _ _ _ _ Hc) as S.
    assert (Lm : length (rmin E) = nn) by (unfold rmin, bmat; rewrite !map_length; exact L1).
    assert (LM : length (rmax E) = nn) by (unfold rmax, bmat; rewrite !map_length; exact L1).
    rewrite Lm, LM. split; [exact Hi|]. split; [exact Hi|].
    assert (Hin : In x (nth (fst p) E [])) by (rewrite mget_nth in Hx; apply (nth_error_In _ _ Hx)).
    split; [|split; [exact S|]].
    - rewrite rmin_nth. apply zmin_list_le. apply in_map. apply in_map. exact Hin.
    - rewrite rmax_nth. apply zmax_list_ge. apply in_map. apply in_map. exact Hin.
  Qed.

  Lemma MB_matched_sound : forall E, EOK E -> fst (MB E (Some ch)) <= F <= snd (MB E (Some ch)).
  Proof.
    intros E HE. unfold MB, F. destruct (Nat.eqb nn 0 || Nat.eqb mm' 0) eqn:E0.
    - unfold ch. rewrite E0. simpl. lia.
    - rewrite zr_sum_fst, zr_sum_snd, !map_map. split; apply zsum_map_le; intros p Hp; apply (ch_facts E HE p Hp).
  Qed.

  (* the bracket lemma: before the matching is known the bracket contains the bounds of the matched sum *)
  Lemma MB_solve : forall E, EOK E -> zcontains (MB E None) (MB E (Some ch)).
  Proof.
    intros E HE. unfold MB. destruct (Nat.eqb nn 0 || Nat.eqb mm' 0); [apply contains_refl|].
    destruct ch_valid as (N1 & _ & _ & L). rewrite <- L. unfold zcontains. cbn [fst snd].
    rewrite zr_sum_fst, zr_sum_snd, !map_map. split.
    - apply (bracket_lo (rmin E) ch fst (fun p => fst (eb E p)) N1). intros p Hp. pose proof (ch_facts E HE p Hp). tauto.
    - apply (bracket_hi (rmax E) ch fst (fun p => snd (eb E p)) N1). intros p Hp. pose proof (ch_facts E HE p Hp). tauto.
  Qed.

  Lemma MB_sound : forall E o, EOK E -> o = None \/ o = Some ch -> fst (MB E o) <= F <= snd (MB E o).
  Proof.
    intros E o HE [->| ->]; [|apply MB_matched_sound; exact HE].
    pose proof (MB_solve E HE) as [A B]. pose proof (MB_matched_sound E HE). lia.
  Qed.

  (* E' is E with some edges tightened *)
  Definition PT (E E' : list (list (St C))) : Prop :=
    length E' = length E /\ (forall i, length (nth i E' []) = length (nth i E [])) /\
    forall i j x, mget E i j = Some x ->
      exists x', mget E' i j = Some x' /\ forall v, ContractV true C x v -> ContractV true C x' v /\ zcontains (bnd C x) (bnd C x').

  Lemma PT_refl : forall E, PT E E.
  Proof. intros E. split; [reflexivity|]. split; [reflexivity|]. intros i j x H. exists x. split; [exact H|]. intros v Hv. split; [exact Hv|apply contains_refl]. Qed.

  Lemma PT_trans : forall E1 E2 E3, EOK E1 -> PT E1 E2 -> PT E2 E3 -> PT E1 E3.
  Proof.
    intros E1 E2 E3 HE (A1 & A2 & A3) (B1 & B2 & B3). split; [congruence|]. split; [intros i; rewrite B2; apply A2|].
    intros i j x H. destruct (A3 i j x H) as (x' & H' & P'). destruct (B3 i j x' H') as (x'' & H'' & P'').
    exists x''. split; [exact H''|]. intros v Hv. destruct (P' v Hv) as [Q1 [Q2 Q3]]. destruct (P'' v Q1) as [R1 [R2 R3]].
    split; [exact R1|]. split; lia.
  Qed.

  Lemma PT_eok : forall E E', EOK E -> PT E E' -> EOK E'.
  Proof.
    intros E E' (L1 & L2 & L3) (A1 & A2 & A3). split; [congruence|]. split; [intros i Hi; rewrite A2; apply L2; exact Hi|].
    intros i j x' H'. destruct (mget_some_lt _ _ _ _ H') as [Hi Hj]. rewrite A1 in Hi. rewrite A2 in Hj.
    destruct (mget_lt_some E i j Hi Hj) as [x Hx]. destruct (A3 i j x Hx) as (x'' & H'' & P).
    assert (x'' = x') by congruence. subst x''. apply (P _ (L3 i j x Hx)).
  Qed.

  Lemma PT_eb : forall E E' p, EOK E -> PT E E' -> (fst p < nn)%nat -> (snd p < mm')%nat -> zcontains (eb E p) (eb E' p).
  Proof.
    intros E E' p HE (A1 & A2 & A3) Hi Hj. destruct (eok_get E _ _ HE Hi Hj) as (x & Hx & Hc).
    destruct (A3 _ _ x Hx) as (x' & Hx' & P). rewrite (eb_get E p x Hx), (eb_get E' p x' Hx'). apply (P _ Hc).
  Qed.

  Lemma PT_rows : forall E E', EOK E -> PT E E' ->
    Forall2 (Forall2 (fun x x' => zcontains (bnd C x) (bnd C x'))) E E'.
  Proof.
    intros E E' HE (A1 & A2 & A3). pose proof HE as (L1 & L2 & L3).
    apply Forall2_of_nth_error; [congruence|]. intros i row row' Hr Hr'.
    assert (Hi : (i < length E)%nat) by (apply nth_error_Some; congruence).
    pose proof (nth_nth_error E i row [] Hr) as N. pose proof (nth_nth_error E' i row' [] Hr') as N'.
    apply Forall2_of_nth_error; [specialize (A2 i); rewrite N, N' in A2; congruence|].
    intros j x x' Hx Hx'.
    assert (G : mget E i j = Some x) by (rewrite mget_nth, N; exact Hx).
    assert (G' : mget E' i j = Some x') by (rewrite mget_nth, N'; exact Hx').
    destruct (A3 i j x G) as (x'' & G'' & P). assert (x'' = x') by congruence. subst x''. apply (P _ (L3 i j x G)).
  Qed.

  Lemma MB_mono : forall E E' o, EOK E -> PT E E' -> o = None \/ o = Some ch -> zcontains (MB E o) (MB E' o).
  Proof.
    intros E E' o HE HP Ho. unfold MB. destruct (Nat.eqb nn 0 || Nat.eqb mm' 0); [apply contains_refl|].
    destruct Ho as [->| ->].
    - pose proof (PT_rows E E' HE HP) as R. pose proof HE as (L1 & _ & _).
      unfold zcontains. cbn [fst snd]. split.
      + apply ss_mono; [|unfold rmin, bmat; rewrite !map_length, L1; lia].
        unfold rmin, bmat. rewrite !map_map. apply Forall2_map2. clear - R. induction R as [|row row' E E' Hrow _ IH]; constructor; [|exact IH].
        apply zmin_list_mono. rewrite !map_map. apply Forall2_map2. clear - Hrow. induction Hrow as [|x x' r r' [H1 H2] _ IH]; constructor; auto.
      + apply sl_mono; [|unfold rmax, bmat; rewrite !map_length; destruct HP as (A1 & _); rewrite A1, L1; lia].
        unfold rmax, bmat. rewrite !map_map. apply Forall2_map2. clear - R. induction R as [|row row' E E' Hrow _ IH]; constructor; [|exact IH].
        apply zmax_list_mono. rewrite !map_map. apply Forall2_map2. clear - Hrow. induction Hrow as [|x x' r r' [H1 H2] _ IH]; constructor; auto.
    - apply zr_sum_strict. intros p Hp. destruct ch_valid as (_ & _ & Hr & _). destruct (Hr p Hp). apply PT_eb; assumption.
  Qed.

  (* make_distinct: every edge is tightened some number of times *)
  Lemma iter_ok : forall c x v, ContractV true C x v ->
    ContractV true C (iter_tig (tig C) c x) v /\ zcontains (bnd C x) (bnd C (iter_tig (tig C) c x)).
  Proof.
    induction c as [|c IH]; intros x v H; [split; [exact H|apply contains_refl]|].
    cbn [iter_tig]. pose proof (cv_step true C x v H) as (H1 & _ & [A B] & _). destruct (IH _ v H1) as [I1 [I2 I3]].
    split; [exact I1|]. split; lia.
  Qed.

  Lemma md_PT : forall E, PT E (md_edges (tig C) cnt E).
  Proof.
    intros E. unfold md_edges. split; [rewrite map_length, combine_length, seq_length; lia|].
    assert (Row : forall i, nth_error (map (fun ir : nat * list (St C) => map (fun jx : nat * St C => iter_tig (tig C) (nth (fst jx) (nth (fst ir) cnt []) 0%nat) (snd jx))
                       (combine (seq 0 (length (snd ir))) (snd ir))) (combine (seq 0 (length E)) E)) i =
             option_map (fun row => map (fun jx : nat * St C => iter_tig (tig C) (nth (fst jx) (nth i cnt []) 0%nat) (snd jx)) (combine (seq 0 (length row)) row))
                        (nth_error E i)).
    { intros i. rewrite nth_error_map_combine_seq. cbn [fst snd plus]. reflexivity. }
    split.
    - intros i. destruct (nth_error E i) as [row|] eqn:Er.
      + specialize (Row i). rewrite Er in Row. cbn [option_map] in Row.
        rewrite (nth_nth_error _ i _ [] Row), (nth_nth_error E i row [] Er). rewrite map_length, combine_length, seq_length. lia.
      + pose proof Er as Er'. apply nth_error_None in Er. rewrite (nth_overflow E) by exact Er.
        rewrite nth_overflow; [reflexivity|]. rewrite map_length, combine_length, seq_length. lia.
    - intros i j x H. unfold mget in *. rewrite Row. destruct (nth_error E i) as [row|]; [|discriminate]. cbn [option_map].
      rewrite nth_error_map_combine_seq, H. cbn [option_map fst snd plus].
      eexists. split; [reflexivity|]. intros v Hv. apply iter_ok. exact Hv.
  Qed.

  (* ---------------------------------------------------------------- the invariant *)
  Record MInv (s : mset (St C)) : Prop := {
    mi_rem : m_rem s = rem; mi_ins : m_ins s = ins; mi_asg : m_asg s = asg; mi_cnt : m_counts s = cnt;
    mi_edges : EOK (m_edges s);
    mi_match : forall mt, m_match s = Some mt -> mt = ch;
    mi_memo : forall r, m_memo s = Some r -> r = (F, F);
    mi_kvp : Forall2 (fun x v => ContractV true C x v) (m_kvp s) kvs
  }.

  Definition phase (s : mset (St C)) : nat :=
    match m_match s with Some _ => 2%nat | None => if m_distinct s then 1%nat else 0%nat end.
  Definition mtb (s : mset (St C)) : zr := snd (mt_bounds (bnd C) s).
  Definition MBs (s : mset (St C)) : zr := MB (m_edges s) (m_match s).

  Lemma compute_MB : forall s, MInv s -> mt_compute (bnd C) s = MBs s.
  Proof.
    intros s I. unfold mt_compute, MBs, MB, m_empty, mn, mm, rmin, rmax, eb. rewrite (mi_rem s I), (mi_ins s I). reflexivity.
  Qed.

  Lemma chosen_ch : forall s, MInv s -> chosen s = ch.
  Proof. intros s I. unfold chosen, ch, m_empty, mn, mm. rewrite (mi_rem s I), (mi_ins s I), (mi_asg s I). reflexivity. Qed.

  Lemma match_cases : forall s, MInv s -> m_match s = None \/ m_match s = Some ch.
  Proof. intros s I. destruct (m_match s) as [mt|] eqn:E; [right; rewrite (mi_match s I mt E); reflexivity|left; reflexivity]. Qed.

  Lemma MBs_sound : forall s, MInv s -> fst (MBs s) <= F <= snd (MBs s).
  Proof. intros s I. apply MB_sound; [apply (mi_edges s I)|apply match_cases; exact I]. Qed.

  Lemma def_is_F : forall r : zr, fst r <= F <= snd r -> zdefinitive r -> r = (F, F).
  Proof. intros r H D. unfold zdefinitive in D. apply zr_eq; cbn [fst snd]; lia. Qed.

  (* matcher.bounds() *)
  Lemma mtb_spec : forall s, MInv s ->
    let q := mt_bounds (bnd C) s in
    MInv (fst q) /\ fst (snd q) <= F <= snd (snd q) /\ mtb (fst q) = snd q /\
    (m_memo s = None -> snd q = MBs s /\ (~ zdefinitive (MBs s) -> fst q = s)) /\
    (zdefinitive (snd q) -> snd q = (F, F) /\ m_memo (fst q) = Some (F, F)) /\
    m_kvp (fst q) = m_kvp s /\ m_edges (fst q) = m_edges s /\ m_match (fst q) = m_match s /\ m_distinct (fst q) = m_distinct s /\
    mt_bounds (bnd C) (fst q) = (fst q, snd q).
  Proof.
    intros s I. cbn zeta. unfold mtb, mt_bounds. destruct (m_memo s) as [r|] eqn:Em.
    - pose proof (mi_memo s I r Em) as ->. cbn [fst snd]. rewrite Em. cbn [fst snd].
      split; [exact I|]. split; [lia|]. split; [reflexivity|]. split; [discriminate|]. split; [intros _; auto|]. auto 10.
    - rewrite (compute_MB s I). pose proof (MBs_sound s I) as So. destruct (zdefb (MBs s)) eqn:D; cbn [fst snd].
      + apply zdefb_spec in D. pose proof (def_is_F _ So D) as E. cbn [with_memo m_memo fst snd].
        split.
        { destruct I. constructor; cbn [with_memo m_rem m_ins m_asg m_counts m_edges m_match m_memo m_kvp]; try assumption.
          intros r Hr. congruence. }
        split; [exact So|]. split; [reflexivity|]. split; [intros _; split; [reflexivity|intros N; contradiction]|].
        split; [intros _; split; [exact E|rewrite E; reflexivity]|]. auto 10.
      + rewrite Em, (compute_MB s I), D. cbn [fst snd]. split; [exact I|]. split; [exact So|]. split; [reflexivity|].
        split; [intros _; auto|]. split; [|auto 10]. intros D'. apply zdefb_false in D. contradiction.
  Qed.

  Lemma PT_set2 : forall E i j x x', mget E i j = Some x ->
    (forall v, ContractV true C x v -> ContractV true C x' v /\ zcontains (bnd C x) (bnd C x')) -> PT E (set2 E i j x').
  Proof.
    intros E i j x x' H Hx. destruct (mget_some_lt _ _ _ _ H) as [Hi Hj].
    split; [apply set2_length|]. split; [intros i'; apply set2_row_length; exact Hi|].
    intros i' j' y Hy. rewrite (mget_set2 E i j x' i' j' Hi Hj).
    destruct (Nat.eqb_spec i' i) as [->|Ni]; cbn [andb]; [destruct (Nat.eqb_spec j' j) as [->|Nj]|].
    - exists x'. split; [reflexivity|]. assert (y = x) by congruence. subst y. exact Hx.
    - exists y. split; [exact Hy|]. intros v Hv. split; [exact Hv|apply contains_refl].
    - exists y. split; [exact Hy|]. intros v Hv. split; [exact Hv|apply contains_refl].
  Qed.

  Lemma eb_set2_same : forall E i j x x' q, mget E i j = Some x -> bnd C x' = bnd C x -> eb (set2 E i j x') q = eb E q.
  Proof.
    intros E i j x x' q H Eq. destruct (mget_some_lt _ _ _ _ H) as [Hi Hj]. unfold eb, ebnd, bmat. rewrite !mget_map.
    rewrite (mget_set2 E i j x' _ _ Hi Hj).
    destruct (Nat.eqb_spec (fst q) i) as [Ei|Ni]; cbn [andb]; [destruct (Nat.eqb_spec (snd q) j) as [Ej|Nj]|]; try reflexivity.
    rewrite Ei, Ej, H. cbn [option_map]. exact Eq.
  Qed.

  (* the loop over the matched edges *)
  Lemma matched_spec : forall mt E, EOK E -> (forall p, In p mt -> (fst p < nn)%nat /\ (snd p < mm')%nat) ->
    let r := mt_matched (tig C) E mt in
    PT E (fst r) /\ (snd r = true -> exists p, In p mt /\ eb (fst r) p <> eb E p) /\
    (snd r = false -> forall p, In p mt -> zdefinitive (eb E p)).
  Proof.
    induction mt as [|p mt IH]; intros E HE Hr; cbn zeta.
    - cbn [mt_matched fst snd]. split; [apply PT_refl|]. split; [discriminate|]. intros _ p [].
    - cbn [mt_matched]. destruct (Hr p (or_introl eq_refl)) as [Hi Hj].
      destruct (eok_get E _ _ HE Hi Hj) as (x & Hx & Hc). rewrite Hx.
      pose proof (cv_step true C x _ Hc) as (N1 & N2 & N3 & N4 & N5).
      assert (P1 : PT E (set2 E (fst p) (snd p) (fst (tig C x)))).
      { apply (PT_set2 E _ _ x _ Hx). intros v Hv.
        assert (v = vv (fst p) (snd p)) by (rewrite <- (finv_spec _ _ _ _ Hv), <- (finv_spec _ _ _ _ Hc); reflexivity). subst v.
        split; [exact N1|exact N3]. }
      destruct (snd (tig C x)) eqn:R; cbn [fst snd].
      + split; [exact P1|]. split; [|discriminate]. intros _. exists p. split; [left; reflexivity|].
        destruct (mget_some_lt _ _ _ _ Hx) as [Li Lj].
        assert (G : mget (set2 E (fst p) (snd p) (fst (tig C x))) (fst p) (snd p) = Some (fst (tig C x))).
        { rewrite (mget_set2 E _ _ _ _ _ Li Lj). rewrite !Nat.eqb_refl. reflexivity. }
        rewrite (eb_get _ p _ G), (eb_get E p x Hx). apply N4. reflexivity.
      + destruct (N5 eq_refl) as [Df Eq]. specialize (Eq eq_refl).
        pose proof (PT_eok _ _ HE P1) as HE1.
        specialize (IH _ HE1 (fun q Hq => Hr q (or_intror Hq))). cbn zeta in IH. destruct IH as (I1 & I2 & I3).
        split; [apply (PT_trans E _ _ HE P1 I1)|]. split.
        * intros T. destruct (I2 T) as (q & Hq & Nq). exists q. split; [right; exact Hq|].
          rewrite (eb_set2_same E _ _ x _ q Hx Eq) in Nq. exact Nq.
        * intros T q [<-|Hq].
          -- rewrite (eb_get E p x Hx). rewrite <- Eq. exact Df.
          -- rewrite <- (eb_set2_same E _ _ x _ q Hx Eq). apply (I3 T q Hq).
  Qed.

  Lemma nonempty_of_nondef : forall s, ~ zdefinitive (MBs s) -> (Nat.eqb nn 0 || Nat.eqb mm' 0) = false.
  Proof. intros s N. unfold MBs, MB in N. destruct (Nat.eqb nn 0 || Nat.eqb mm' 0); [exfalso; apply N; reflexivity|reflexivity]. Qed.

  (* one call of the undecorated tighten_bounds() of the matcher *)
  Lemma func_spec : forall s, MInv s -> m_memo s = None -> ~ zdefinitive (MBs s) ->
    let s1 := mt_func (tig C) s in
    MInv s1 /\ m_memo s1 = None /\ zcontains (MBs s) (MBs s1) /\ ((phase s < phase s1)%nat \/ MBs s1 <> MBs s) /\
    m_kvp s1 = m_kvp s /\ (forall mt, m_match s = Some mt -> m_match s1 = Some mt).
  Proof.
    intros s I Em Nd. cbn zeta. pose proof (nonempty_of_nondef s Nd) as Ne. unfold mt_func.
    destruct (m_match s) as [mt|] eqn:Emt.
    - pose proof (mi_match s I mt Emt) as ->. destruct ch_valid as (_ & _ & Hr & _).
      pose proof (matched_spec ch (m_edges s) (mi_edges s I) Hr) as (P & T & Fl). cbn zeta in *.
      set (r := mt_matched (tig C) (m_edges s) ch) in *.
      assert (I1 : MInv (with_edges s (fst r))).
      { destruct I. constructor; cbn [with_edges m_rem m_ins m_asg m_counts m_edges m_match m_memo m_kvp]; try assumption.
        apply (PT_eok _ _ mi_edges0 P). }
      split; [exact I1|]. split; [exact Em|].
      unfold MBs. cbn [with_edges m_edges m_match]. rewrite Emt.
      split; [apply MB_mono; [apply (mi_edges s I)|exact P|right; reflexivity]|]. split; [|split; [reflexivity|intros mt' Hm; exact Hm]].
      right. destruct (snd r) eqn:R.
      + destruct (T eq_refl) as (p & Hp & Np). unfold MB. rewrite Ne.
        apply (zr_sum_strict (eb (m_edges s)) (eb (fst r)) ch).
        * intros q Hq. destruct (Hr q Hq). apply PT_eb; [apply (mi_edges s I)|exact P| |]; assumption.
        * exists p. auto.
      + exfalso. apply Nd. unfold MBs, MB. rewrite Emt, Ne. unfold zdefinitive. rewrite zr_sum_fst, zr_sum_snd, !map_map.
        f_equal. apply map_ext_in. intros q Hq. apply (Fl eq_refl q Hq).
    - destruct (m_distinct s) eqn:Ed.
      + unfold mt_force. rewrite Emt. unfold m_empty, mn, mm. rewrite (mi_rem s I), (mi_ins s I), Ne, Ed. rewrite (chosen_ch s I).
        split.
        { destruct I. constructor; cbn [with_match m_rem m_ins m_asg m_counts m_edges m_match m_memo m_kvp]; try assumption.
          intros mt Hm. congruence. }
        split; [exact Em|]. unfold MBs, phase. cbn [with_match m_edges m_match m_distinct]. rewrite Emt, Ed.
        split; [apply MB_solve; apply (mi_edges s I)|]. split; [left; lia|split; [reflexivity|intros mt' Hm; congruence]].
      + pose proof (md_PT (m_edges s)) as P.
        split.
        { destruct I. constructor; cbn [with_distinct with_edges m_rem m_ins m_asg m_counts m_edges m_match m_memo m_kvp]; try assumption.
          rewrite mi_cnt0. apply (PT_eok _ _ mi_edges0 P). }
        split; [exact Em|]. unfold MBs, phase. cbn [with_distinct with_edges m_edges m_match m_distinct]. rewrite Emt, Ed.
        rewrite (mi_cnt s I).
        split; [apply MB_mono; [apply (mi_edges s I)|exact P|left; reflexivity]|]. split; [left; lia|split; [reflexivity|intros mt' Hm; congruence]].
  Qed.

  Lemma phase_le2 : forall s, (phase s <= 2)%nat.
  Proof. intros s. unfold phase. destruct (m_match s); [lia|]. destruct (m_distinct s); lia. Qed.

  (* repeat_until_tightened around it: at most three rounds (make_distinct, the assignment, one matched edge) *)
  Lemma mloop_spec : forall fuel s start, MInv s -> m_memo s = None -> MBs s = start -> ~ zdefinitive start ->
    (3 - phase s < fuel)%nat ->
    let r := rut_loop (fun s => snd (mt_bounds (bnd C) s)) (fun s => fst (mt_bounds (bnd C) (mt_func (tig C) s))) fuel start s in
    MInv (fst r) /\ snd r = true /\ zcontains start (mtb (fst r)) /\ mtb (fst r) <> start /\ m_kvp (fst r) = m_kvp s /\
    mt_bounds (bnd C) (fst r) = (fst r, mtb (fst r)) /\ (forall mt, m_match s = Some mt -> m_match (fst r) = Some mt).
  Proof.
    induction fuel as [|fuel IH]; intros s start I Em Es Nd Hf; [lia|]. cbn zeta. cbn [rut_loop]. cbn beta zeta.
    rewrite <- Es in Nd. destruct (func_spec s I Em Nd) as (I0 & Em0 & C0 & Pr & K0 & P0). cbn zeta in *.
    destruct (mtb_spec _ I0) as (I1 & So & B1 & B2 & B3 & K1 & E1 & M1 & D1 & Bn). cbn zeta in *.
    destruct (B2 Em0) as [B2a B2b].
    set (s0 := mt_func (tig C) s) in *.
    set (s1 := fst (mt_bounds (bnd C) s0)) in *.
    assert (Q : mtb s1 = MBs s0) by (rewrite B1; exact B2a).
    assert (Q' : snd (mt_bounds (bnd C) s1) = MBs s0) by exact Q.
    rewrite Q'. rewrite Es in C0.
    assert (W : widened (MBs s0) start = false).
    { unfold widened. destruct C0 as [A B]. apply orb_false_iff. split; apply Z.ltb_ge; lia. }
    rewrite W. destruct (zdefb (MBs s0) || tighter (MBs s0) start) eqn:T; cbn [fst snd].
    - split; [exact I1|]. split; [reflexivity|]. rewrite Q. split; [exact C0|].
      split; [|split; [congruence|split; [rewrite Bn, <- B1, Q; reflexivity|intros mt Hm; rewrite M1; apply P0; exact Hm]]].
      intros E. apply orb_true_iff in T. destruct T as [T|T].
      + apply zdefb_spec in T. rewrite E in T. rewrite Es in Nd. contradiction.
      + rewrite E in T. apply tighter_spec in T. lia.
    - apply orb_false_iff in T. destruct T as [T1 T2]. pose proof (contained_not_tighter_eq _ _ C0 T2) as Eq.
      apply zdefb_false in T1. specialize (B2b T1).
      assert (Ph : (phase s < phase s0)%nat) by (destruct Pr as [Pr|Pr]; [exact Pr|exfalso; apply Pr; congruence]).
      assert (Hf' : (3 - phase s0 < fuel)%nat) by (pose proof (phase_le2 s0); lia).
      assert (Nd' : ~ zdefinitive start) by (rewrite <- Es; exact Nd).
      destruct (IH s0 start I0 Em0 Eq Nd' Hf') as (R1 & R2 & R3 & R4 & R5 & R6 & R7). cbn zeta in *.
      rewrite B2b.
      split; [exact R1|]. split; [exact R2|]. split; [exact R3|]. split; [exact R4|]. split; [congruence|]. split; [exact R6|].
      intros mt Hm. apply R7. apply P0. exact Hm.
  Qed.

  (* matcher.tighten_bounds() from a state left behind by bounds() *)
  Lemma mt_tig_spec : forall s, MInv s -> mt_bounds (bnd C) s = (s, mtb s) ->
    let r := mt_tig (bnd C) (tig C) s in
    MInv (fst r) /\ zcontains (mtb s) (mtb (fst r)) /\ (snd r = true -> mtb (fst r) <> mtb s) /\
    (snd r = false -> fst r = s /\ zdefinitive (mtb s)) /\ m_kvp (fst r) = m_kvp s /\
    mt_bounds (bnd C) (fst r) = (fst r, mtb (fst r)) /\ (forall mt, m_match s = Some mt -> m_match (fst r) = Some mt).
  Proof.
    intros s I Hn. cbn zeta. unfold mt_tig, rut. change (snd (mt_bounds (bnd C) s)) with (mtb s).
    destruct (zdefb (mtb s)) eqn:D; cbn [fst snd].
    - split; [exact I|]. split; [apply contains_refl|]. split; [discriminate|]. split; [|auto]. intros _. split; [reflexivity|apply zdefb_spec; exact D].
    - apply zdefb_false in D.
      assert (Em : m_memo s = None).
      { destruct (m_memo s) as [r|] eqn:E; [|reflexivity]. exfalso. apply D. unfold mtb, mt_bounds. rewrite E. cbn [snd].
        rewrite (mi_memo s I r E). reflexivity. }
      destruct (mtb_spec s I) as (_ & _ & _ & B2 & _). destruct (B2 Em) as [B2a _]. fold (mtb s) in B2a.
      pose proof (phase_le2 s).
      destruct (mloop_spec 4 s (mtb s) I Em (eq_sym B2a) D ltac:(lia)) as (R1 & R2 & R3 & R4 & R5 & R6 & R7). cbn zeta in *.
      split; [exact R1|]. split; [exact R3|]. split; [intros _; exact R4|]. split; [rewrite R2; discriminate|]. split; [exact R5|]. split; [exact R6|exact R7].
  Qed.

  (* WeightedBipartiteMatcher: the strict contract; final value = the total of the matching the solver chooses *)
  Lemma mt_norm : forall u, MInv u -> MInv (fst (mt_bounds (bnd C) u)) /\
    mt_bounds (bnd C) (fst (mt_bounds (bnd C) u)) = (fst (mt_bounds (bnd C) u), mtb (fst (mt_bounds (bnd C) u))) /\
    mtb (fst (mt_bounds (bnd C) u)) = mtb u.
  Proof.
    intros u Iu. destruct (mtb_spec u Iu) as (A1 & _ & A3 & _ & _ & _ & _ & _ & _ & A10). cbn zeta in *.
    split; [exact A1|]. split; [rewrite A10; f_equal; symmetry; exact A3|exact A3].
  Qed.

  Theorem matcher_contract : forall s, MInv s -> ContractV true (matcherM C) (fst (mt_bounds (bnd C) s)) F.
  Proof.
    intros s I. exists (fun u => MInv u /\ mt_bounds (bnd C) u = (u, mtb u)).
    split; [destruct (mt_norm s I) as (A & B & _); auto|].
    intros u [Iu Nu]. unfold step_ok. cbn [matcherM St bnd tig]. cbn zeta. unfold mt_step, mt_bnd. cbn [fst snd].
    destruct (mt_tig_spec u Iu Nu) as (R1 & R2 & R3 & R4 & R5 & R6 & _). cbn zeta in *.
    destruct (mt_norm _ R1) as (N1 & N2 & N3). fold (mtb u). change (snd (mt_bounds (bnd C) (fst (mt_bounds (bnd C) (fst (mt_tig (bnd C) (tig C) u)))))) with (mtb (fst (mt_bounds (bnd C) (fst (mt_tig (bnd C) (tig C) u))))).
    rewrite N3. split; [split; [exact N1|rewrite <- N3; exact N2]|]. split; [destruct (mtb_spec u Iu) as (_ & So & _); exact So|]. split; [exact R2|]. split; [exact R3|].
    intros Rf. destruct (R4 Rf) as [E D]. rewrite E. auto.
  Qed.

  (* ---------------------------------------------------------------- MultiSetEdit *)
  Definition unm (l : list nat) (k : nat) : list nat := filter (fun i => negb (existsb (Nat.eqb i) l)) (seq 0 k).
  Definition UCc : Z := zsum (map (fun i => nth i rem 0) (unm (map fst ch) nn)) + zsum (map (fun j => nth j ins 0) (unm (map snd ch) mm')).
  Definition FIN : Z := F + zsum kvs + UCc.

  Definition KB (s : mset (St C)) : zr := zr_sum (map (bnd C) (m_kvp s)).
  Definition LP (s : mset (St C)) : zr :=
    match m_match s with
    | Some mt => zconst (unmatched_cost s mt)
    | None => if Nat.ltb (mm s) (mn s) then (sum_smallest (mn s - mm s) (m_rem s), sum_largest (mn s - mm s) (m_rem s))
              else if Nat.ltb (mn s) (mm s) then (sum_smallest (mm s - mn s) (m_ins s), sum_largest (mm s - mn s) (m_ins s))
              else (0, 0)
    end.
  Definition msb (s : mset (St C)) : zr := snd (ms_bounds (bnd C) s).

  Lemma msb_eq : forall s, msb s = zr_add (zr_add (mtb s) (KB s)) (LP s).
  Proof.
    intros s. unfold msb, ms_bounds, LP, KB, mtb. cbn [snd]. destruct (m_match s); [reflexivity|].
    destruct (Nat.ltb (mm s) (mn s)); [reflexivity|]. destruct (Nat.ltb (mn s) (mm s)); [reflexivity|].
    apply zr_eq; unfold zr_add; cbn [fst snd]; lia.
  Qed.

  Lemma unm_nil : forall l k, NoDup l -> (forall i, In i l -> (i < k)%nat) -> length l = k -> unm l k = [].
  Proof. intros l k N R L. apply length_zero_iff_nil. unfold unm. rewrite (sel_rest_length k l N R). lia. Qed.

  Lemma LP_sound : forall s, MInv s -> fst (LP s) <= UCc <= snd (LP s) /\ (m_match s = Some ch -> LP s = (UCc, UCc)).
  Proof.
    intros s I. destruct ch_valid as (N1 & N2 & Hr & L).
    assert (R1 : forall i, In i (map fst ch) -> (i < nn)%nat) by (intros i Hi; apply in_map_iff in Hi; destruct Hi as (p & <- & Hp); apply (Hr p Hp)).
    assert (R2 : forall i, In i (map snd ch) -> (i < mm')%nat) by (intros i Hi; apply in_map_iff in Hi; destruct Hi as (p & <- & Hp); apply (Hr p Hp)).
    assert (U : unmatched_cost s ch = UCc) by (unfold unmatched_cost, UCc, unm, mn, mm; rewrite (mi_rem s I), (mi_ins s I); reflexivity).
    unfold LP. destruct (match_cases s I) as [E|E]; rewrite E.
    - split; [|discriminate]. unfold mn, mm. rewrite (mi_rem s I), (mi_ins s I).
      pose proof (sel_perm rem (map fst ch) N1 R1) as P1. pose proof (sel_perm ins (map snd ch) N2 R2) as P2.
      apply Permutation_sym in P1. apply Permutation_sym in P2.
      pose proof (Permutation_sym (Permutation_trans (Permutation_app_comm _ _) P1)) as Q1.
      pose proof (Permutation_sym (Permutation_trans (Permutation_app_comm _ _) P2)) as Q2.
      pose proof (ss_le_sub _ _ _ Q1) as A1. pose proof (sl_ge_sub _ _ _ Q1) as A2.
      pose proof (ss_le_sub _ _ _ Q2) as B1. pose proof (sl_ge_sub _ _ _ Q2) as B2.
      rewrite map_length, (sel_rest_length nn _ N1 R1), map_length in A1, A2.
      rewrite map_length, (sel_rest_length mm' _ N2 R2), map_length in B1, B2.
      fold (unm (map fst ch) nn) in A1, A2. fold (unm (map snd ch) mm') in B1, B2. unfold UCc.
      destruct (Nat.ltb_spec mm' nn) as [H|H].
      + rewrite (unm_nil (map snd ch) mm' N2 R2) by (rewrite map_length; lia). cbn [map zsum fold_right fst snd].
        replace (nn - mm')%nat with (nn - length ch)%nat by lia. lia.
      + destruct (Nat.ltb_spec nn mm') as [H'|H'].
        * rewrite (unm_nil (map fst ch) nn N1 R1) by (rewrite map_length; lia). cbn [map zsum fold_right fst snd].
          replace (mm' - nn)%nat with (mm' - length ch)%nat by lia. lia.
        * rewrite (unm_nil (map fst ch) nn N1 R1) by (rewrite map_length; lia).
          rewrite (unm_nil (map snd ch) mm' N2 R2) by (rewrite map_length; lia). simpl. lia.
    - rewrite U. unfold zconst. cbn [fst snd]. split; [lia|reflexivity].
  Qed.

  Lemma KB_sound : forall s, MInv s -> fst (KB s) <= zsum kvs <= snd (KB s).
  Proof. intros s I. apply (kids_sound true C _ _ (mi_kvp s I)). Qed.

  Lemma zr_add3 : forall a a' k k' l l' : zr, zcontains a a' -> zcontains k k' -> zcontains l l' ->
    zcontains (zr_add (zr_add a k) l) (zr_add (zr_add a' k') l') /\
    (a' <> a \/ k' <> k \/ l' <> l -> zr_add (zr_add a' k') l' <> zr_add (zr_add a k) l).
  Proof.
    intros a a' k k' l l' [A1 A2] [K1 K2] [L1 L2]. unfold zr_add, zcontains. cbn [fst snd]. split; [lia|].
    intros H E. injection E as E1 E2.
    destruct H as [H|[H|H]]; apply H; apply zr_eq; lia.
  Qed.

  Lemma mt_bounds_kvp : forall s l, mt_bounds (bnd C) (with_kvp s l) = (with_kvp (fst (mt_bounds (bnd C) s)) l, snd (mt_bounds (bnd C) s)).
  Proof.
    intros s l. unfold mt_bounds. cbn [with_kvp m_memo]. destruct (m_memo s); [reflexivity|].
    change (mt_compute (bnd C) (with_kvp s l)) with (mt_compute (bnd C) s). destruct (zdefb (mt_compute (bnd C) s)); reflexivity.
  Qed.

  (* the `matching` property, called by MultiSetEdit when the matcher reports False before its matching is known *)
  Lemma force_spec : forall s, MInv s -> m_match s = None ->
    MInv (mt_force (tig C) s) /\ m_match (mt_force (tig C) s) = Some ch /\ m_memo (mt_force (tig C) s) = m_memo s /\
    m_kvp (mt_force (tig C) s) = m_kvp s.
  Proof.
    intros s I Em. unfold mt_force. rewrite Em. unfold m_empty, mn, mm. rewrite (mi_rem s I), (mi_ins s I).
    destruct (Nat.eqb nn 0 || Nat.eqb mm' 0) eqn:E0.
    - assert (Ec : ch = []) by (unfold ch; rewrite E0; reflexivity).
      split; [|cbn [with_match m_match m_memo m_kvp]; rewrite Ec; auto].
      destruct I. constructor; cbn [with_match m_rem m_ins m_asg m_counts m_edges m_match m_memo m_kvp]; try assumption.
      intros mt Hm. congruence.
    - assert (I1 : MInv (if m_distinct s then s else with_distinct (with_edges s (md_edges (tig C) (m_counts s) (m_edges s))))).
      { destruct (m_distinct s); [exact I|]. pose proof (md_PT (m_edges s)) as P. destruct I.
        constructor; cbn [with_distinct with_edges m_rem m_ins m_asg m_counts m_edges m_match m_memo m_kvp]; try assumption.
        rewrite mi_cnt0. apply (PT_eok _ _ mi_edges0 P). }
      rewrite (chosen_ch _ I1).
      split; [|destruct (m_distinct s); cbn [with_match with_distinct with_edges m_match m_memo m_kvp]; auto].
      destruct I1. constructor; cbn [with_match m_rem m_ins m_asg m_counts m_edges m_match m_memo m_kvp]; try assumption.
      intros mt Hm. congruence.
  Qed.

  Lemma LP_step : forall s s', MInv s -> MInv s' -> (forall mt, m_match s = Some mt -> m_match s' = Some mt) -> zcontains (LP s) (LP s').
  Proof.
    intros s s' I I' Hm. destruct (LP_sound s I) as [S1 S2]. destruct (LP_sound s' I') as [S1' S2'].
    destruct (match_cases s I) as [E|E].
    - destruct (match_cases s' I') as [E'|E'].
      + unfold LP. rewrite E, E'. unfold mn, mm. rewrite (mi_rem s I), (mi_ins s I), (mi_rem s' I'), (mi_ins s' I'). apply contains_refl.
      + rewrite (S2' E'). unfold zcontains. cbn [fst snd]. lia.
    - rewrite (S2 E), (S2' (Hm _ E)). apply contains_refl.
  Qed.

  Definition MSI (u : mset (St C)) : Prop := MInv u /\ mt_bounds (bnd C) u = (u, mtb u).

  Lemma ms_norm : forall u, MInv u -> MSI (fst (ms_bounds (bnd C) u)) /\ msb (fst (ms_bounds (bnd C) u)) = msb u.
  Proof.
    intros u I. change (fst (ms_bounds (bnd C) u)) with (fst (mt_bounds (bnd C) u)).
    destruct (mt_norm u I) as (A & B & E). destruct (mtb_spec u I) as (_ & _ & _ & _ & _ & K1 & E1 & M1 & D1 & _). cbn zeta in *.
    split; [split; assumption|]. rewrite !msb_eq, E. unfold KB, LP, mn, mm, unmatched_cost, mn, mm. rewrite K1, M1, (mi_rem _ A), (mi_ins _ A), (mi_rem u I), (mi_ins u I). reflexivity.
  Qed.

  Lemma msb_sound : forall u, MInv u -> fst (msb u) <= FIN <= snd (msb u).
  Proof.
    intros u I. rewrite msb_eq. destruct (mtb_spec u I) as (_ & So & _). cbn zeta in So. fold (mtb u) in So.
    pose proof (KB_sound u I). destruct (LP_sound u I) as [L _]. unfold FIN, zr_add. cbn [fst snd]. lia.
  Qed.

  Lemma ms_step_ok : forall u, MSI u -> step_ok true (msetM C) MSI FIN u.
  Proof.
    intros u [I Nu]. unfold step_ok. cbn [msetM St bnd tig]. cbn zeta. unfold ms_step, ms_bnd. cbn [fst snd]. fold (msb u).
    assert (Goal' : forall s' r, MInv s' -> zcontains (msb u) (msb s') -> (r = true -> msb s' <> msb u) ->
                     (r = false -> zdefinitive (msb s') /\ msb s' = msb u) ->
              MSI (fst (ms_bounds (bnd C) s')) /\ fst (msb u) <= FIN <= snd (msb u) /\
              zcontains (msb u) (snd (ms_bounds (bnd C) (fst (ms_bounds (bnd C) s')))) /\
              (r = true -> snd (ms_bounds (bnd C) (fst (ms_bounds (bnd C) s'))) <> msb u) /\
              (r = false -> zdefinitive (snd (ms_bounds (bnd C) (fst (ms_bounds (bnd C) s')))) /\
                            (true = true -> snd (ms_bounds (bnd C) (fst (ms_bounds (bnd C) s'))) = msb u))).
    { intros s' r I' Cn T Fl. destruct (ms_norm s' I') as [N E]. fold (msb (fst (ms_bounds (bnd C) s'))). rewrite E.
      split; [exact N|]. split; [apply msb_sound; exact I|]. split; [exact Cn|]. split; [exact T|].
      intros R. destruct (Fl R). auto. }
    unfold ms_tig.
    pose proof (first_true_spec true C (m_kvp u) kvs (mi_kvp u I)) as (S1 & S2 & S3 & S4). cbn zeta in *.
    set (p := first_true (tig C) (m_kvp u)) in *.
    assert (I1 : MInv (with_kvp u (fst p))).
    { destruct I. constructor; cbn [with_kvp m_rem m_ins m_asg m_counts m_edges m_match m_memo m_kvp]; assumption. }
    assert (N1 : mt_bounds (bnd C) (with_kvp u (fst p)) = (with_kvp u (fst p), mtb (with_kvp u (fst p)))).
    { unfold mtb. rewrite mt_bounds_kvp, Nu. reflexivity. }
    assert (Mt1 : mtb (with_kvp u (fst p)) = mtb u) by (unfold mtb; rewrite mt_bounds_kvp; reflexivity).
    assert (LP1 : LP (with_kvp u (fst p)) = LP u) by reflexivity.
    assert (KB1 : KB (with_kvp u (fst p)) = zr_sum (map (bnd C) (fst p))) by reflexivity.
    destruct (snd p) eqn:Rp.
    - (* a pre-matched key/value edit tightened *)
      cbn [fst snd]. apply Goal'; [exact I1| | |discriminate].
      + rewrite !msb_eq, Mt1, LP1, KB1. apply zr_add3; [apply contains_refl|exact S2|apply contains_refl].
      + intros _. rewrite !msb_eq, Mt1, LP1, KB1. apply zr_add3; [apply contains_refl|exact S2|apply contains_refl|].
        right. left. intros E. destruct (S3 eq_refl); unfold KB in E; rewrite E in *; lia.
    - destruct (S4 eq_refl) as [Dk Ek]. specialize (Ek eq_refl). fold (KB u) in Ek.
      destruct (mt_tig_spec _ I1 N1) as (R1 & R2 & R3 & R4 & R5 & R6 & R7). cbn zeta in *.
      set (r := mt_tig (bnd C) (tig C) (with_kvp u (fst p))) in *.
      assert (KBr : KB (fst r) = KB u) by (unfold KB at 1; rewrite R5; exact Ek).
      destruct (snd r) eqn:Rr.
      + (* the matcher tightened *)
        pose proof (LP_step _ _ I1 R1 R7) as LS. rewrite LP1 in LS. rewrite Mt1 in R2, R3.
        cbn [fst snd]. apply Goal'; [exact R1| | |discriminate].
        * rewrite !msb_eq, KBr. apply zr_add3; [exact R2|apply contains_refl|exact LS].
        * intros _. rewrite !msb_eq, KBr. apply zr_add3; [exact R2|apply contains_refl|exact LS|]. left. apply R3. reflexivity.
      + destruct (R4 eq_refl) as [Er Dm]. rewrite Mt1 in Dm.
        assert (Dkb : zdefinitive (KB u)) by (rewrite <- Ek; exact Dk).
        destruct (m_match (fst r)) as [mt|] eqn:Emt.
        * (* matcher and key/value edits are single values and the matching is known: nothing can change *)
          pose proof (mi_match _ R1 mt Emt) as ->. rewrite Er in *.
          destruct (LP_sound _ I1) as [_ Lc]. specialize (Lc Emt). rewrite LP1 in Lc.
          assert (Eq : msb (with_kvp u (fst p)) = msb u) by (rewrite !msb_eq, Mt1, LP1, KB1; fold (KB u); rewrite Ek; reflexivity).
          cbn [fst snd]. apply Goal'; [exact I1|rewrite Eq; apply contains_refl|discriminate|].
          intros _. split; [|exact Eq]. rewrite Eq, msb_eq, Lc. unfold zdefinitive, zr_add in *. cbn [fst snd]. lia.
        * (* the matcher's bounds are a single value but its matching is not known: compute it *)
          rewrite Er in *. clear Er.
          destruct (ms_norm _ I1) as [[I2 N2] E2]. set (s2 := fst (ms_bounds (bnd C) (with_kvp u (fst p)))) in *.
          assert (M2 : m_match s2 = None).
          { unfold s2. change (fst (ms_bounds (bnd C) (with_kvp u (fst p)))) with (fst (mt_bounds (bnd C) (with_kvp u (fst p)))).
            rewrite N1. exact Emt. }
          destruct (force_spec s2 I2 M2) as (I3 & M3 & Me3 & K3). set (s3 := mt_force (tig C) s2) in *.
          assert (Mm2 : m_memo s2 = Some (F, F)).
          { (* s2 is normalised and its matcher bounds are a single value: they are memoised *)
            destruct (mtb_spec _ I1) as (_ & _ & _ & _ & B3 & _). cbn zeta in B3.
            assert (Dz : zdefinitive (snd (mt_bounds (bnd C) (with_kvp u (fst p))))) by (fold (mtb (with_kvp u (fst p))); rewrite Mt1; exact Dm).
            destruct (B3 Dz) as [_ Mm]. exact Mm. }
          assert (Mt3 : mtb s3 = mtb s2) by (unfold mtb, mt_bounds; rewrite Me3, Mm2; reflexivity).
          assert (E0 : msb s2 = msb u).
          { rewrite E2, !msb_eq, Mt1, LP1, KB1. fold (KB u). rewrite Ek. reflexivity. }
          assert (C3 : zcontains (msb s2) (msb s3) /\ zdefinitive (msb s3)).
          { assert (K3' : KB s3 = KB s2) by (unfold KB; rewrite K3; reflexivity). rewrite !msb_eq, Mt3, K3'.
            assert (Hm : forall mt, m_match s2 = Some mt -> m_match s3 = Some mt) by (intros mt Hm; congruence).
            pose proof (LP_step _ _ I2 I3 Hm) as LS. split; [apply zr_add3; [apply contains_refl|apply contains_refl|exact LS]|].
            destruct (LP_sound _ I3) as [_ Lc]. rewrite (Lc M3).
            assert (Dm2 : zdefinitive (mtb s2)).
            { destruct (mt_norm _ I1) as (_ & _ & E). fold s2 in E.
              change (fst (mt_bounds (bnd C) (with_kvp u (fst p)))) with s2 in E. rewrite E, Mt1. exact Dm. }
            assert (Dk2 : zdefinitive (KB s2)).
            { unfold KB, s2. change (fst (ms_bounds (bnd C) (with_kvp u (fst p)))) with (fst (mt_bounds (bnd C) (with_kvp u (fst p)))).
              rewrite N1. cbn [fst with_kvp m_kvp]. exact Dk. }
            unfold zdefinitive, zr_add in *. cbn [fst snd]. lia. }
          destruct C3 as [C3 D3]. destruct (ms_norm _ I3) as [_ E4]. cbn [fst snd].
          fold (msb s3). fold (msb (with_kvp u (fst p))). rewrite <- E2.
          apply Goal'; [apply (ms_norm _ I3)|rewrite E4, <- E0; exact C3| |].
          -- intros T. rewrite E4. apply tighter_spec in T. intros E. rewrite E, <- E0 in T. lia.
          -- intros T. rewrite E4. split; [exact D3|]. rewrite <- E0. apply (contained_not_tighter_eq _ _ C3 T).
  Qed.

  (* MultiSetEdit: the strict contract; final value = matcher + pre-matched key/value edits + what the matching leaves over *)
  Theorem mset_contract : forall s, MInv s -> ContractV true (msetM C) (fst (ms_bounds (bnd C) s)) FIN.
  Proof.
    intros s I. exists MSI. split; [apply (ms_norm s I)|]. intros u Hu. apply ms_step_ok. exact Hu.
  Qed.
End MatchContract.
