(* C12: executable models of graphtage's OWN structure printing for YAML (graphtage/yaml.py:35-206 on top of
   SequenceFormatter.print_SequenceNode and Printer.newline / Printer.write), and a reader for exactly the printers'
   image.  Scalars are opaque tokens (what YAMLFormatter.write_obj wrote for them, supplied by the harness).
   Definitions only. *)
From Coq Require Import List Bool ZArith Lia.
Require Import GT.PyBase GT.JsonSpec GT.JsonModel GT.CsvModel GT.StructSpec.
Import ListNotations.
Open Scope Z_scope.

(* ================================================================== YAML: printer *)

(* Printer.newline() writes a line feed and arms the indentation, which the next write() emits
   (indent_str * indents, two spaces per level for YAML); so the text is a sequence of lines, each
   [2*k spaces]["- "]body.  A value printed at indent level n contributes the rest of the current line (its head)
   and a list of further lines:
   - a scalar: its token;
   - a sequence (YAMLListFormatter.print_ListNode): newline(), write('') [emits the indentation], then per item:
     newline() except before the first, "- ", indents += 1, the item, indents -= 1;
   - a mapping (YAMLDictFormatter): write(''), then per entry: newline() except before the first, the key, ": " and
       a mapping value: newline(), indents += 1, the value, indents -= 1;
       a sequence value: the sequence at the SAME level;  a scalar: its token. *)
Inductive ybody := BEmpty | BTok (x : list Z) | BKey (k : list Z) | BKeyTok (k x : list Z).
Notation yline := (nat * bool * ybody)%type.      (* indent level, "- " marker, body *)

Definition yitem (n : nat) (r : ybody * list yline) : list yline := (n, true, fst r) :: snd r.
Definition ykv (n : nat) (k : list Z) (v : ytree) (rn rs : ybody * list yline) : ybody * list yline :=
  match v with
  | SLeaf x => (BKeyTok k x, [])
  | SList _ => (BKey k, snd rn)
  | SDict [] => (BKey k, [(S n, false, BEmpty)])
  | SDict _ => (BKey k, (S n, false, fst rs) :: snd rs)
  end.
Definition ykvline (n : nat) (r : ybody * list yline) : list yline := (n, false, fst r) :: snd r.

Fixpoint yv (n : nat) (t : ytree) {struct t} : ybody * list yline :=
  match t with
  | SLeaf x => (BTok x, [])
  | SList [] => (BEmpty, [(n, false, BEmpty)])
  | SList l => (BEmpty, flat_map (fun c => yitem n (yv (S n) c)) l)
  | SDict [] => (BEmpty, [])
  | SDict (kv :: r) =>
      let f := fun kv : list Z * ytree => match kv with (k, v) => ykv n k v (yv n v) (yv (S n) v) end in
      (fst (f kv), snd (f kv) ++ flat_map (fun kv => ykvline n (f kv)) r)
  end.

Fixpoint ind (k : nat) : list Z := match k with O => [] | S k' => 32 :: 32 :: ind k' end.
Definition render_body (b : ybody) : list Z :=
  match b with
  | BEmpty => []
  | BTok x => x
  | BKey k => k ++ [58; 32]
  | BKeyTok k x => k ++ 58 :: 32 :: x
  end.
Definition render_line (l : yline) : list Z :=
  match l with (k, d, b) => ind k ++ (if d then [45; 32] else []) ++ render_body b end.
Fixpoint join_nl (ls : list (list Z)) : list Z :=
  match ls with
  | [] => []
  | l :: r => l ++ match r with [] => [] | _ => 10 :: join_nl r end
  end.

Definition yitems (n : nat) (l : list ytree) : list yline := flat_map (fun c => yitem n (yv (S n) c)) l.
Definition ykvf (n : nat) (kv : list Z * ytree) : ybody * list yline :=
  match kv with (k, v) => ykv n k v (yv n v) (yv (S n) v) end.
Definition ykvlines (n : nat) (r : list (list Z * ytree)) : list yline := flat_map (fun kv => ykvline n (ykvf n kv)) r.

Definition ylines (t : ytree) : list yline := (O, false, fst (yv 0 t)) :: snd (yv 0 t).
Definition yaml_print (t : ytree) : list Z := join_nl (map render_line (ylines t)).

(* ================================================================== YAML: reader for the printer's image *)

Fixpoint split_nl (s : list Z) : list (list Z) :=
  match s with
  | [] => [[]]
  | c :: r => if c =? 10 then [] :: split_nl r
              else match split_nl r with l :: ls => (c :: l) :: ls | [] => [[c]] end
  end.

Fixpoint unind (s : list Z) : nat * list Z :=
  match s with
  | a :: (b :: r) as r1 => if (a =? 32) && (b =? 32) then let (k, r') := unind r in (S k, r') else (O, s)
  | _ => (O, s)
  end.
Fixpoint take_tok (s : list Z) : list Z * list Z :=
  match s with
  | c :: r => if tokc c then let (t, r') := take_tok r in (c :: t, r') else ([], s)
  | [] => ([], [])
  end.
(* s = a :: b :: r ?  then r *)
Definition starts2 (a b : Z) (s : list Z) : option (list Z) :=
  match s with
  | x :: y :: r => if (x =? a) && (y =? b) then Some r else None
  | _ => None
  end.
Definition lex_body (s : list Z) : option ybody :=
  let (a, r) := take_tok s in
  match r with
  | [] => Some (match a with [] => BEmpty | _ => BTok a end)
  | _ =>
      match starts2 58 32 r with                      (* ": " *)
      | Some r' =>
          match a with
          | [] => None
          | _ => let (b, r2) := take_tok r' in
                 match r2 with [] => Some (match b with [] => BKey a | _ => BKeyTok a b end) | _ => None end
          end
      | None => None
      end
  end.
Definition lex_line (s : list Z) : option yline :=
  let (k, r) := unind s in
  match starts2 45 32 r with                          (* "- " *)
  | Some r' => match lex_body r' with Some b => Some (k, true, b) | None => None end
  | None =>
      match r with
      | c :: _ => if c =? 32 then None                (* odd indentation *)
                  else match lex_body r with Some b => Some (k, false, b) | None => None end
      | [] => Some (k, false, BEmpty)
      end
  end.
Fixpoint lex_lines (ls : list (list Z)) : option (list yline) :=
  match ls with
  | [] => Some []
  | l :: r => match lex_line l, lex_lines r with Some x, Some xs => Some (x :: xs) | _, _ => None end
  end.

(* the block structure.  Every function consumes at most one line per unit of fuel; yaml_parse supplies
   2 * (number of lines) + 1, which the theorem shows to be enough (the error value of exhausted fuel is unreachable). *)
Definition is_key (b : ybody) : bool := match b with BKey _ | BKeyTok _ _ => true | _ => false end.

Definition pkv1 (pv : nat -> ybody -> list yline -> option (ytree * list yline))
                (pi : nat -> list yline -> option (list ytree * list yline))
                (n : nat) (h : ybody) (r : list yline) : option ((list Z * ytree) * list yline) :=
  match h with
  | BKeyTok k x => Some ((k, SLeaf x), r)
  | BKey k =>
      match r with
      | (m, true, _) :: _ =>
          if Nat.eqb m n then match pi n r with Some (x :: l, r') => Some ((k, SList (x :: l)), r') | _ => None end
          else None
      | (m, false, h2) :: r2 =>
          if Nat.eqb m (S n) && is_key h2
          then match pv (S n) h2 r2 with Some (v, r') => Some ((k, v), r') | None => None end
          else None
      | [] => None
      end
  | _ => None
  end.

Fixpoint pval (fuel : nat) (n : nat) (h : ybody) (r : list yline) {struct fuel} : option (ytree * list yline) :=
  match fuel with
  | O => None
  | S f =>
      match h with
      | BTok x => Some (SLeaf x, r)
      | BEmpty => match pitems f n r with Some (x :: l, r') => Some (SList (x :: l), r') | _ => None end
      | _ => match pkv1 (pval f) (pitems f) n h r with
             | Some (kv, r') => match pkvs f n r' with Some (kvs, r'') => Some (SDict (kv :: kvs), r'') | None => None end
             | None => None
             end
      end
  end
with pitems (fuel : nat) (n : nat) (ls : list yline) {struct fuel} : option (list ytree * list yline) :=
  match ls with
  | (m, true, h) :: r =>
      if Nat.eqb m n then
        match fuel with
        | O => None
        | S f => match pval f (S n) h r with
                 | Some (x, r') => match pitems f n r' with Some (l, r'') => Some (x :: l, r'') | None => None end
                 | None => None
                 end
        end
      else Some ([], ls)
  | _ => Some ([], ls)
  end
with pkvs (fuel : nat) (n : nat) (ls : list yline) {struct fuel} : option (list (list Z * ytree) * list yline) :=
  match ls with
  | (m, false, h) :: r =>
      if Nat.eqb m n && is_key h then
        match fuel with
        | O => None
        | S f => match pkv1 (pval f) (pitems f) n h r with
                 | Some (kv, r') => match pkvs f n r' with Some (l, r'') => Some (kv :: l, r'') | None => None end
                 | None => None
                 end
        end
      else Some ([], ls)
  | _ => Some ([], ls)
  end.

Definition yaml_parse (s : list Z) : option ytree :=
  match lex_lines (split_nl s) with
  | Some ((O, false, h) :: r) =>
      match pval (S (2 * length r)) O h r with Some (t, []) => Some t | _ => None end
  | _ => None
  end.

(* ================================================================== YAML with the scalar codec as a parameter *)

(* scalars of any type A, written by `dump` (PyYAML's emitter behind YAMLFormatter.write_obj) and read back by
   `lexs` (PyYAML's resolver): graphtage's structure printing around them, and the reader *)
Section YamlScalars.
  Variable A : Type.
  Variable dump : A -> list Z.
  Variable lexs : list Z -> option A.

  Definition yaml_print_s (t : stree A) : list Z := yaml_print (stree_map dump t).

  Fixpoint straverse (t : ytree) : option (stree A) :=
    match t with
    | SLeaf x => option_map SLeaf (lexs x)
    | SList l =>
        option_map SList
          ((fix go (l : list ytree) : option (list (stree A)) :=
              match l with
              | [] => Some []
              | x :: r => match straverse x, go r with Some a, Some b => Some (a :: b) | _, _ => None end
              end) l)
    | SDict kvs =>
        option_map SDict
          ((fix go (l : list (list Z * ytree)) : option (list (A * stree A)) :=
              match l with
              | [] => Some []
              | (k, x) :: r => match lexs k, straverse x, go r with
                               | Some k', Some a, Some b => Some ((k', a) :: b)
                               | _, _, _ => None
                               end
              end) kvs)
    end.
  Definition yaml_parse_s (s : list Z) : option (stree A) :=
    match yaml_parse s with Some t => straverse t | None => None end.
End YamlScalars.

(* ================================================================== plist: printer *)

(* PLISTFormatter (graphtage/plist.py:60-143): header, the root value, footer; eight spaces per indent level.
   SequenceFormatter.print_SequenceNode with the default item_newline / items_indent: "<array>", then per item
   newline() at level n+1 and the item, then - if there was an item - newline() at level n, "</array>";
   dictionaries alike with "<key>k</key>", newline(), value per entry.  Leaves are written by graphtage's own
   f-strings: <string>s</string>, <integer>i</integer>, <real>r</real>, <true />, <false />. *)
Inductive ptag := Gstring | Ginteger | Greal | Garray | Gdict | Gkey | Gtrue | Gfalse | Gplist.
Definition ptag_eqb (a b : ptag) : bool :=
  match a, b with
  | Gstring, Gstring | Ginteger, Ginteger | Greal, Greal | Garray, Garray | Gdict, Gdict | Gkey, Gkey
  | Gtrue, Gtrue | Gfalse, Gfalse | Gplist, Gplist => true
  | _, _ => false
  end.
Definition tag_name (g : ptag) : list Z :=
  match g with
  | Gstring => [115; 116; 114; 105; 110; 103]
  | Ginteger => [105; 110; 116; 101; 103; 101; 114]
  | Greal => [114; 101; 97; 108]
  | Garray => [97; 114; 114; 97; 121]
  | Gdict => [100; 105; 99; 116]
  | Gkey => [107; 101; 121]
  | Gtrue => [116; 114; 117; 101]
  | Gfalse => [102; 97; 108; 115; 101]
  | Gplist => [112; 108; 105; 115; 116]
  end.
Inductive ptok := KOpen (g : ptag) | KClose (g : ptag) | KSelf (g : ptag) | KText (s : list Z).
(* what stands between '<' and '>' *)
Definition inner (k : ptok) : list Z :=
  match k with
  | KOpen g => tag_name g
  | KClose g => 47 :: tag_name g
  | KSelf g => tag_name g ++ [32; 47]
  | KText s => s
  end.
Definition tagtext (k : ptok) : list Z := 60 :: inner k ++ [62].

Fixpoint pind (k : nat) : list Z :=
  match k with O => [] | S k' => 32 :: 32 :: 32 :: 32 :: 32 :: 32 :: 32 :: 32 :: pind k' end.
Definition pleaf (g : ptag) (s : list Z) : list Z := tagtext (KOpen g) ++ s ++ tagtext (KClose g).

Fixpoint pp (n : nat) (t : ptree) {struct t} : list Z :=
  match t with
  | PStr s => pleaf Gstring s
  | PInt s => pleaf Ginteger s
  | PReal s => pleaf Greal s
  | PBool b => tagtext (KSelf (if b then Gtrue else Gfalse))
  | PArr l =>
      tagtext (KOpen Garray) ++ flat_map (fun c => 10 :: pind (S n) ++ pp (S n) c) l ++
      match l with [] => [] | _ => 10 :: pind n end ++ tagtext (KClose Garray)
  | PDict kvs =>
      tagtext (KOpen Gdict) ++
      flat_map (fun kv => match kv with (k, v) =>
                  10 :: pind (S n) ++ pleaf Gkey k ++ 10 :: pind (S n) ++ pp (S n) v end) kvs ++
      match kvs with [] => [] | _ => 10 :: pind n end ++ tagtext (KClose Gdict)
  end.

(* plistlib's header and footer around a value (PLIST_HEADER, PLIST_FOOTER) *)
(* '<?xml version="1.0" encoding="UTF-8"?>' LF '<!DOCTYPE plist PUBLIC "-//Apple//DTD PLIST 1.0//EN"
   "http://www.apple.com/DTDs/PropertyList-1.0.dtd">' LF '<plist version="1.0">' LF *)
Definition pl_header : list Z :=
  [60; 63; 120; 109; 108; 32; 118; 101; 114; 115; 105; 111; 110; 61; 34; 49; 46; 48; 34; 32; 101; 110; 99; 111;
   100; 105; 110; 103; 61; 34; 85; 84; 70; 45; 56; 34; 63; 62; 10; 60; 33; 68; 79; 67; 84; 89; 80; 69;
   32; 112; 108; 105; 115; 116; 32; 80; 85; 66; 76; 73; 67; 32; 34; 45; 47; 47; 65; 112; 112; 108; 101; 47;
   47; 68; 84; 68; 32; 80; 76; 73; 83; 84; 32; 49; 46; 48; 47; 47; 69; 78; 34; 32; 34; 104; 116; 116;
   112; 58; 47; 47; 119; 119; 119; 46; 97; 112; 112; 108; 101; 46; 99; 111; 109; 47; 68; 84; 68; 115; 47; 80;
   114; 111; 112; 101; 114; 116; 121; 76; 105; 115; 116; 45; 49; 46; 48; 46; 100; 116; 100; 34; 62; 10; 60; 112;
   108; 105; 115; 116; 32; 118; 101; 114; 115; 105; 111; 110; 61; 34; 49; 46; 48; 34; 62; 10].
Definition pl_footer : list Z := 10 :: tagtext (KClose Gplist) ++ [10].
Definition plist_print (t : ptree) : list Z := pl_header ++ pp 0 t ++ pl_footer.

(* ================================================================== plist: reader for the printer's image *)

Fixpoint strip (p s : list Z) : option (list Z) :=
  match p, s with
  | [], _ => Some s
  | a :: p', b :: s' => if a =? b then strip p' s' else None
  | _ :: _, [] => None
  end.

Definition all_tag_toks : list ptok :=
  [KOpen Gstring; KOpen Ginteger; KOpen Greal; KOpen Garray; KOpen Gdict; KOpen Gkey;
   KClose Gstring; KClose Ginteger; KClose Greal; KClose Garray; KClose Gdict; KClose Gkey; KClose Gplist;
   KSelf Gtrue; KSelf Gfalse].
Definition tag_tok (b : list Z) : option ptok := find (fun k => zlist_eqb (inner k) b) all_tag_toks.

Definition pws (c : Z) : bool := (c =? 32) || (c =? 10) || (c =? 9) || (c =? 13).
Definition pflush (buf : list Z) (acc : list ptok) : list ptok :=
  match buf with [] => acc | _ => KText (rev buf) :: acc end.
(* tokens: tags, and the character data between them with white space dropped *)
Fixpoint plex (s : list Z) (intag : bool) (buf : list Z) (acc : list ptok) : option (list ptok) :=
  match s with
  | [] => if intag then None else Some (rev (pflush buf acc))
  | c :: r =>
      if intag then
        if c =? 62 then match tag_tok (rev buf) with Some k => plex r false [] (k :: acc) | None => None end
        else plex r true (c :: buf) acc
      else if c =? 60 then plex r true [] (pflush buf acc)
      else if pws c then plex r false buf acc
      else plex r false (c :: buf) acc
  end.

Definition leaf_of (g : ptag) (s : list Z) : option ptree :=
  match g with
  | Gstring => Some (PStr s)
  | Ginteger => match s with [] => None | _ => Some (PInt s) end
  | Greal => match s with [] => None | _ => Some (PReal s) end
  | _ => None
  end.
Definition pleaf_toks (g : ptag) (r : list ptok) : option (ptree * list ptok) :=
  match r with
  | KText s :: KClose g' :: r' =>
      if ptag_eqb g g' then match leaf_of g s with Some t => Some (t, r') | None => None end else None
  | KClose g' :: r' =>
      if ptag_eqb g g' then match leaf_of g [] with Some t => Some (t, r') | None => None end else None
  | _ => None
  end.
Definition pkey_toks (r : list ptok) : option (list Z * list ptok) :=
  match r with
  | KOpen Gkey :: KText k :: KClose Gkey :: r' => Some (k, r')
  | KOpen Gkey :: KClose Gkey :: r' => Some ([], r')
  | _ => None
  end.

(* every call consumes a token or is preceded by one that does: fuel 2 * tokens + 1 suffices *)
Fixpoint ppv (fuel : nat) (toks : list ptok) {struct fuel} : option (ptree * list ptok) :=
  match fuel with
  | O => None
  | S f =>
      match toks with
      | KSelf Gtrue :: r => Some (PBool true, r)
      | KSelf Gfalse :: r => Some (PBool false, r)
      | KOpen Garray :: r => match ppis f r with Some (l, r') => Some (PArr l, r') | None => None end
      | KOpen Gdict :: r => match ppks f r with Some (l, r') => Some (PDict l, r') | None => None end
      | KOpen g :: r => pleaf_toks g r
      | _ => None
      end
  end
with ppis (fuel : nat) (toks : list ptok) {struct fuel} : option (list ptree * list ptok) :=
  match fuel with
  | O => None
  | S f =>
      match toks with
      | KClose Garray :: r => Some ([], r)
      | _ => match ppv f toks with
             | Some (x, r') => match ppis f r' with Some (l, r'') => Some (x :: l, r'') | None => None end
             | None => None
             end
      end
  end
with ppks (fuel : nat) (toks : list ptok) {struct fuel} : option (list (list Z * ptree) * list ptok) :=
  match fuel with
  | O => None
  | S f =>
      match toks with
      | KClose Gdict :: r => Some ([], r)
      | _ => match pkey_toks toks with
             | Some (k, r1) =>
                 match ppv f r1 with
                 | Some (v, r') => match ppks f r' with Some (l, r'') => Some ((k, v) :: l, r'') | None => None end
                 | None => None
                 end
             | None => None
             end
      end
  end.

Definition plist_parse (s : list Z) : option ptree :=
  match strip pl_header s with
  | Some r =>
      match plex r false [] [] with
      | Some toks =>
          match ppv (S (2 * length toks)) toks with
          | Some (t, [KClose Gplist]) => Some t
          | _ => None
          end
      | None => None
      end
  | None => None
  end.

(* ================================================================== XML: printer *)

(* XMLFormatter.print_XMLElement (graphtage/xml.py:299-404): '<' tag, then per attribute: space, key, '=', the value
   between double quotes;
   with children (XMLChildFormatter: the first child directly, every further child after newline() one level
   deeper, newline() at the element's level after the last): '>' text children '</' tag '>';
   without children but with text: '>' text '</' tag '>';  otherwise ' />'.  Four spaces per indent level.
   (An element whose text contains a line feed is printed along the first path even without children, with the
   same result.) *)
Fixpoint xind (k : nat) : list Z := match k with O => [] | S k' => 32 :: 32 :: 32 :: 32 :: xind k' end.
Definition render_attr (kv : list Z * list Z) : list Z := match kv with (k, v) => 32 :: k ++ 61 :: 34 :: v ++ [34] end.
Definition render_attrs (attrs : list (list Z * list Z)) : list Z := flat_map render_attr attrs.
Definition xctag (tag : list Z) : list Z := 60 :: 47 :: tag ++ [62].
(* XMLStringFormatter.write_char: every character of the text is written (html.escape is the identity outside
   the five markup characters, which the harness does not submit), except a line feed in last position *)
Fixpoint xtext (s : list Z) : list Z :=
  match s with
  | [] => []
  | c :: r => match r with [] => if c =? 10 then [] else [c] | _ => c :: xtext r end
  end.
Definition otext (text : option (list Z)) : list Z := match text with Some s => xtext s | None => [] end.

Fixpoint xp (n : nat) (t : xtree) {struct t} : list Z :=
  match t with
  | XElem tag attrs text kids =>
      60 :: tag ++ render_attrs attrs ++
      match kids with
      | [] => match text with None => [32; 47; 62] | Some s => 62 :: xtext s ++ xctag tag end
      | k0 :: ks =>
          62 :: otext text ++ xp (S n) k0 ++ flat_map (fun k => 10 :: xind (S n) ++ xp (S n) k) ks ++
          10 :: xind n ++ xctag tag
      end
  end.
Definition xml_print (t : xtree) : list Z := xp 0 t.

(* ================================================================== XML: reader for the printer's image *)

Inductive xtok :=
| XOpen (tag : list Z) (attrs : list (list Z * list Z))
| XClose (tag : list Z)
| XSelf (tag : list Z) (attrs : list (list Z * list Z))
| XText (s : list Z).

Fixpoint take_while (p : Z -> bool) (s : list Z) : list Z * list Z :=
  match s with
  | c :: r => if p c then let (t, r') := take_while p r in (c :: t, r') else ([], s)
  | [] => ([], [])
  end.

(* the attributes inside a tag, and whether the tag ends with " /" *)
Fixpoint pattrs (fuel : nat) (s : list Z) {struct fuel} : option (list (list Z * list Z) * bool) :=
  match s with
  | [] => Some ([], false)
  | c :: r =>
      match fuel with
      | O => None
      | S f =>
          if c =? 32 then
            if zlist_eqb r [47] then Some ([], true)
            else
              let (k, r1) := take_while namec r in
              match k with
              | [] => None
              | _ =>
                  match starts2 61 34 r1 with                       (* '=' and the opening double quote *)
                  | Some r2 =>
                      let (v, r3) := take_while valc r2 in
                      match r3 with
                      | q :: r4 =>
                          if q =? 34 then
                            match pattrs f r4 with Some (l, b) => Some ((k, v) :: l, b) | None => None end
                          else None
                      | [] => None
                      end
                  | None => None
                  end
              end
          else None
      end
  end.

(* what stands between '<' and '>' *)
Definition xtag_tok (b : list Z) : option xtok :=
  match b with
  | [] => None
  | c :: r =>
      if c =? 47 then
        let (nm, r') := take_while namec r in
        match nm, r' with
        | _ :: _, [] => Some (XClose nm)
        | _, _ => None
        end
      else
        let (nm, r') := take_while namec b in
        match nm with
        | [] => None
        | _ => match pattrs (length r') r' with
               | Some (attrs, true) => Some (XSelf nm attrs)
               | Some (attrs, false) => Some (XOpen nm attrs)
               | None => None
               end
        end
  end.

Definition xflush (buf : list Z) (acc : list xtok) : list xtok :=
  match buf with [] => acc | _ => XText (rev buf) :: acc end.
Fixpoint xlex (s : list Z) (intag : bool) (buf : list Z) (acc : list xtok) : option (list xtok) :=
  match s with
  | [] => if intag then None else Some (rev (xflush buf acc))
  | c :: r =>
      if intag then
        if c =? 62 then match xtag_tok (rev buf) with Some k => xlex r false [] (k :: acc) | None => None end
        else xlex r true (c :: buf) acc
      else if c =? 60 then xlex r true [] (xflush buf acc)
      else if pws c then xlex r false buf acc
      else xlex r false (c :: buf) acc
  end.

Fixpoint pxv (fuel : nat) (toks : list xtok) {struct fuel} : option (xtree * list xtok) :=
  match fuel with
  | O => None
  | S f =>
      match toks with
      | XSelf tag attrs :: r => Some (XElem tag attrs None [], r)
      | XOpen tag attrs :: r =>
          let tr := match r with XText s :: r1 => (Some s, r1) | _ => (None, r) end in
          match pxkids f (snd tr) with
          | Some (kids, XClose tag' :: r2) =>
              if zlist_eqb tag tag' then Some (XElem tag attrs (fst tr) kids, r2) else None
          | _ => None
          end
      | _ => None
      end
  end
with pxkids (fuel : nat) (toks : list xtok) {struct fuel} : option (list xtree * list xtok) :=
  match fuel with
  | O => None
  | S f =>
      match toks with
      | XClose _ :: _ => Some ([], toks)
      | _ => match pxv f toks with
             | Some (x, r') => match pxkids f r' with Some (l, r'') => Some (x :: l, r'') | None => None end
             | None => None
             end
      end
  end.

Definition xml_parse (s : list Z) : option xtree :=
  match xlex s false [] [] with
  | Some toks => match pxv (S (2 * length toks)) toks with Some (t, []) => Some t | _ => None end
  | None => None
  end.

(* ================================================================== correspondence *)

(* the implementation's text is the model's; on documents of the theorem's domain the model reader makes of the
   implementation's text what the real loader made of it (both as token trees) *)
Definition corr_struct (s : struct_case) : bool :=
  match sc_doc s with
  | MYaml t =>
      zlist_eqb (yaml_print t) (sc_text s) &&
      (negb (yaml_domainb t) ||
       match sc_reload s with MYaml r => oytree_eqb (yaml_parse (sc_text s)) (Some r) | _ => false end)
  | MPlist t =>
      zlist_eqb (plist_print t) (sc_text s) &&
      (negb (plist_domainb t) ||
       match sc_reload s with MPlist r => optree_eqb (plist_parse (sc_text s)) (Some r) | _ => false end)
  | MXml t =>
      zlist_eqb (xml_print t) (sc_text s) &&
      (negb (xml_domainb t) ||
       match sc_reload s with MXml r => oxtree_eqb (xml_parse (sc_text s)) (Some r) | _ => false end)
  | MNone => true
  end.

Definition corr_C12x (x : xcase) : bool :=
  match x with
  | XBase c => corr_C12 c
  | XStruct s => corr_struct s
  end.
