(* C18 - executable model of the builders of /repo (definitions only; proofs in BuilderProofs.v).

   Modelled from the source, by hand:
     graphtage/builder.py   Builder.build_tree (explicit work stack, all-grandchildren-are-leaves shortcut,
                            ancestor identity scan, check_for_cycles / ignore_cycles, CyclicReference),
                            Builder.expand/build + BasicBuilder's expanders and builders (dispatch by MRO),
     graphtage/pydiff.py    PyObjBuilder.default_expander / default_builder, PyObj.to_obj,
     graphtage/json.py      build_tree (recursive; no cycle check: RecursionError on cyclic input),
     graphtage/graphtage.py DictNode.from_dict (sorted(): TypeError when a pair that is not the first one has
                            a key without __lt__), FixedKeyDictNode.from_dict/copy_from, to_obj and copy_from
                            of every node class, LeafNode/SequenceNode/KeyValuePairNode __eq__,
     graphtage/tree.py      TreeNode.copy (as the structural recursion it computes).
   Not modelled: the allow_list_edits / auto_match_keys / allow_key_edits / quoted flags stored in nodes
   (copy() resets them to their defaults; == ignores them), tqdm progress reporting, dir() (attribute
   names come with the graph, in dir() order), hash values (assumed consistent with ==). *)
From Coq Require Import String List Bool ZArith Lia.
Require Import GT.PyBase GT.BuilderSpec.
Import ListNotations.
Open Scope string_scope.
Open Scope list_scope.

(* ------------------------------------------------------------------ Python dict construction *)

(* d[k] = v : an equal key keeps its first key object and position, the value is replaced *)
Fixpoint dict_set {K V} (eqb : K -> K -> bool) (k : K) (v : V) (l : list (K * V)) : list (K * V) :=
  match l with
  | [] => [(k, v)]
  | (k', v') :: r => if eqb k' k then (k', v) :: r else (k', v') :: dict_set eqb k v r
  end.

Definition dict_of {K V} (eqb : K -> K -> bool) (pairs : list (K * V)) : list (K * V) :=
  fold_left (fun acc kv => dict_set eqb (fst kv) (snd kv) acc) pairs [].

(* ------------------------------------------------------------------ Python's == between two distinct node objects *)

(* LeafNode: the wrapped objects are ==; CyclicReference: the two IdentityHash wrappers are == , i.e. they
   wrap the very same object (a wrapper of a wrapper - depth > 0, which the current copy_from no longer
   produces - is a fresh object and equals nothing); SequenceNode: same container type with == children
   (tuple in order, HashableCounter as multiset, dict by key); KeyValuePairNode: key and value ==;
   PyObj: class_name == and attrs ==.
   Comparisons across container types only succeed for empty containers and never arise between keys. *)
Fixpoint tree_pyeq (a b : tree) {struct a} : bool :=
  match a, b with
  | TLeaf _ s1, TLeaf _ s2 => scalar_pyeq s1 s2
  | TCyc d1 i1, TCyc d2 i2 => Nat.eqb d1 0 && Nat.eqb d2 0 && Z.eqb i1 i2
  | TObj n1 m1, TObj n2 m2 => tree_pyeq n1 n2 && tree_pyeq m1 m2
  | TList l1, TList l2 =>
      (fix go (l1 l2 : list tree) {struct l1} : bool :=
         match l1, l2 with
         | [], [] => true
         | x :: xs, y :: ys => tree_pyeq x y && go xs ys
         | _, _ => false
         end) l1 l2
  | TMSet l1, TMSet l2 =>
      (fix go (l1 l2 : list tree) {struct l1} : bool :=
         match l1 with
         | [] => is_nil l2
         | x :: xs => match remove_first (tree_pyeq x) l2 with
                      | Some r => go xs r
                      | None => false
                      end
         end) l1 l2
  | TDict _ k1, TDict _ k2 | TFDict _ k1, TFDict _ k2 =>
      (fix go (l1 : list (tree * tree)) (l2 : list (tree * tree)) {struct l1} : bool :=
         match l1 with
         | [] => is_nil l2
         | (k, v) :: xs =>
             match remove_first (fun kv => tree_pyeq k (fst kv) && tree_pyeq v (snd kv)) l2 with
             | Some r => go xs r
             | None => false
             end
         end) k1 k2
  | _, _ => false
  end.

Definition is_leaf_tree (t : tree) : bool := match t with TLeaf _ _ | TCyc _ _ => true | _ => false end.

(* ------------------------------------------------------------------ outcomes *)

Inductive exn := ECycle | ETypeError | ENotImplemented | EValueError | ERecursion | EBadGraph.

Inductive outcome := Built (t : tree) | Raised (e : exn) | OutOfFuel.

Inductive bres := BOk (t : tree) | BErr (e : exn).

(* ------------------------------------------------------------------ expanders and builders *)

Inductive bkind := BasicB | PyObjB.   (* BasicBuilder, pydiff.PyObjBuilder *)

(* the things on the work stack: objects of the graph, and the fresh str objects PyObjBuilder yields
   (class name, attribute names) *)
Inductive item := IId (i : Z) | ILit (s : string).

(* `a is b` *)
Definition item_is (a b : item) : bool :=
  match a, b with IId i, IId j => Z.eqb i j | _, _ => false end.

Definition leafkind_of (s : scalar) : leafkind :=
  match s with
  | SNone => KNull | SBool _ => KBool | SInt _ => KInt | SFloat _ _ => KFloat | SStr _ | SBytes _ => KStr
  end.

Definition placeholder (c : item) : tree :=
  match c with IId i => TCyc 0 i | ILit s => TLeaf KStr (SStr s) end.

(* DictNode.from_dict: sorted() compares every pair but the first one, as left operand, with `<`;
   KeyValuePairNode.__lt__ compares the keys; only LeafNode defines __lt__ *)
Definition sort_raises (items : list (tree * tree)) : bool :=
  existsb (fun kv => negb (is_leaf_tree (fst kv))) (tl items).

Definition make_dict (attrs : bool) (o : opts) (items : list (tree * tree)) : bres :=
  if allow_key_edits o then
    (if sort_raises items then BErr ETypeError else BOk (TDict attrs items))
  else BOk (TFDict attrs (dict_of tree_pyeq items)).

Fixpoint pair_up (l : list tree) : list (tree * tree) :=   (* zip(children[1::2], children[2::2]) of the tail *)
  match l with
  | a :: v :: r => (a, v) :: pair_up r
  | _ => []
  end.

Section Builder.
  Variable b : bkind.
  Variable o : opts.
  Variable g : graph.

  (* Builder.expand: resolve_expander by MRO, else default_expander *)
  Definition expand (it : item) : list item :=
    match it with
    | ILit _ => []
    | IId i =>
      match lookup g i with
      | None => []
      | Some (PScalar _) => []
      | Some (PList l) | Some (PTuple l) | Some (PSet l) => map IId l
      | Some (PDict kvs) => map IId (map fst kvs) ++ map IId (map snd kvs)
      | Some (PObj cls fs) =>
          match b with
          | BasicB => []
          | PyObjB => ILit cls :: flat_map (fun f => [ILit (fst f); IId (snd f)]) fs
          end
      end
    end.

  (* Builder.build: resolve_builder by MRO, else default_builder *)
  Definition build (it : item) (children : list tree) : bres :=
    match it with
    | ILit s => BOk (TLeaf KStr (SStr s))
    | IId i =>
      match lookup g i with
      | None => BErr EBadGraph
      | Some (PScalar s) => BOk (TLeaf (leafkind_of s) s)
      | Some (PList _) | Some (PTuple _) => BOk (TList children)
      | Some (PSet _) => BOk (TMSet children)
      | Some (PDict _) =>
          let n := Nat.div2 (length children) in
          make_dict false o (dict_of tree_pyeq (combine (firstn n children) (skipn n children)))
      | Some (PObj _ _) =>
          match b with
          | BasicB => BErr ENotImplemented
          | PyObjB =>
              match children with
              | name :: rest =>
                  match make_dict true o (dict_of tree_pyeq (pair_up rest)) with
                  | BOk m => BOk (TObj name m)
                  | BErr e => BErr e
                  end
              | [] => BErr EBadGraph
              end
          end
      end
    end.

  Definition is_leaf_item (it : item) : bool := is_nil (expand it).

  (* the test that guards `work.append`: child has grandchildren, cycles are checked, not all grandchildren
     are leaves, and the child is (identical to) an object already on the work stack *)
  Definition flagged (c : item) (stack : list item) : bool :=
    negb (is_nil (expand c)) && check_cycles o && negb (forallb is_leaf_item (expand c))
    && existsb (fun a => item_is a c) stack.

  (* ---------------------------------------------------------------- the explicit-stack machine *)

  Definition frame := (item * list tree * list item)%type.   (* node, processed children, unprocessed children *)
  Definition fitem (fr : frame) : item := fst (fst fr).

  Fixpoint run (fuel : nat) (w : list frame) : outcome :=   (* head of w = work[-1] *)
    match fuel with
    | O => OutOfFuel
    | S f =>
      match w with
      | [] => Built (TLeaf KNull SNone)
      | (node, proc, pend) :: rest =>
        match pend with
        | c :: pend' =>
            if flagged c (map fitem w) then
              (if ignore_cycles o then run f ((node, proc ++ [placeholder c], pend') :: rest)
               else Raised ECycle)
            else run f ((c, [], expand c) :: (node, proc, pend') :: rest)
        | [] =>
            match build node proc with
            | BErr e => Raised e
            | BOk t =>
                match rest with
                | [] => Built t
                | (n2, p2, q2) :: rest' => run f ((n2, p2 ++ [t], q2) :: rest')
                end
            end
        end
      end
    end.

  Definition run_builder (fuel : nat) (root : Z) : outcome :=
    run fuel [(IId root, [], expand (IId root))].

  (* ---------------------------------------------------------------- the same computation, big-step, with its step count *)

  (* children of a node whose ancestors-and-self are `stack`; `rec` builds one child *)
  Fixpoint kids (rec : item -> outcome * nat) (stack : list item) (cs : list item)
    : (list tree + outcome) * nat :=
    match cs with
    | [] => (inl [], O)
    | c :: cs' =>
        if flagged c stack then
          (if ignore_cycles o then
             let rn := kids rec stack cs' in
             (match fst rn with inl ts => inl (placeholder c :: ts) | inr r => inr r end, S (snd rn))
           else (inr (Raised ECycle), 1%nat))
        else
          match rec c with
          | (Built t, n1) =>
              let rn := kids rec stack cs' in
              (match fst rn with inl ts => inl (t :: ts) | inr r => inr r end, S (n1 + snd rn))
          | (r, n1) => (inr r, S n1)
          end
    end.

  (* bigs d anc it = (what building `it` below the ancestors `anc` gives, machine steps it takes) *)
  Fixpoint bigs (d : nat) (anc : list item) (it : item) : outcome * nat :=
    match d with
    | O => (OutOfFuel, O)
    | S d' =>
        let rn := kids (bigs d' (it :: anc)) (it :: anc) (expand it) in
        match fst rn with
        | inl ts => (match build it ts with BOk t => Built t | BErr e => Raised e end, S (snd rn))
        | inr r => (r, snd rn)
        end
    end.

  (* depth that always suffices when cycles are checked (BuilderProofs.bigs_terminates) *)
  Definition big_depth : nat := length g + 3.

  (* fuel bound of the machine: the steps of the big-step run *)
  Definition fuel_bound (root : Z) : nat := snd (bigs big_depth [] (IId root)).

End Builder.

(* ------------------------------------------------------------------ json.build_tree *)

Definition json_leaf (s : scalar) : tree :=
  match s with
  | SBytes x => TLeaf KStr (SStr x)          (* python_obj.decode('utf-8'); ASCII *)
  | _ => TLeaf (leafkind_of s) s
  end.

Fixpoint json_build (d : nat) (o : opts) (g : graph) (force_leaf : bool) (i : Z) : outcome :=
  match d with
  | O => OutOfFuel
  | S d' =>
    match lookup g i with
    | None => Raised EBadGraph
    | Some (PScalar SNone) => if force_leaf then Raised EValueError else Built (TLeaf KNull SNone)
    | Some (PScalar s) => Built (json_leaf s)
    | Some n =>
      if force_leaf then Raised EValueError else
      match n with
      | PList l | PTuple l =>
          (fix go (l : list Z) (acc : list tree) {struct l} : outcome :=
             match l with
             | [] => Built (TList (rev acc))
             | c :: r => match json_build d' o g false c with
                         | Built t => go r (t :: acc)
                         | x => x
                         end
             end) l []
      | PDict kvs =>
          (fix go (l : list (Z * Z)) (acc : list (tree * tree)) {struct l} : outcome :=
             match l with
             | [] => match make_dict false o (dict_of tree_pyeq (rev acc)) with
                     | BOk t => Built t | BErr e => Raised e end
             | (k, v) :: r =>
                 match json_build d' o g true k with
                 | Built tk => match json_build d' o g false v with
                               | Built tv => go r ((tk, tv) :: acc)
                               | x => x
                               end
                 | x => x
                 end
             end) kvs []
      | _ => Raised EValueError
      end
    end
  end.

(* Python's recursion limit is reached exactly when the unfolding is infinite: model depth |g|+1 *)
Definition json_run (o : opts) (g : graph) (root : Z) : outcome :=
  match json_build (S (length g)) o g false root with
  | OutOfFuel => Raised ERecursion
  | r => r
  end.

(* ------------------------------------------------------------------ to_obj, copy *)

Definition hashable (v : pyval) : bool :=
  match v with VList _ | VDict _ => false | _ => true end.

Fixpoint all_ok {A} (l : list (res A)) : res (list A) :=
  match l with
  | [] => ROk []
  | RErr e :: _ => RErr e
  | ROk a :: r => match all_ok r with ROk l' => ROk (a :: l') | RErr e => RErr e end
  end.

Definition pair_res {A} (a b : res A) : res (A * A) :=
  match a, b with
  | ROk x, ROk y => ROk (x, y)
  | RErr e, _ => RErr e
  | _, RErr e => RErr e
  end.

Definition py_val_eq : pyval -> pyval -> bool := val_eqb scalar_pyeq.

Fixpoint to_obj (t : tree) : res pyval :=
  match t with
  | TLeaf _ s => ROk (VScalar s)                        (* LeafNode.to_obj: self.object *)
  | TCyc d i => ROk (VIdHash d i)
  | TList l => match all_ok (map to_obj l) with ROk vs => ROk (VList vs) | RErr e => RErr e end
  | TMSet l =>                                           (* HashableCounter(n.to_obj() for n in self) *)
      match all_ok (map to_obj l) with
      | ROk vs => if forallb hashable vs then ROk (VMSet vs) else RErr "TypeError"
      | RErr e => RErr e
      end
  | TDict _ kvs | TFDict _ kvs =>                        (* {k.to_obj(): v.to_obj() for k, v in self.items()} *)
      match all_ok (map (fun kv => pair_res (to_obj (fst kv)) (to_obj (snd kv))) kvs) with
      | ROk ps => if forallb (fun p => hashable (fst p)) ps then ROk (VDict (dict_of py_val_eq ps))
                  else RErr "TypeError"
      | RErr e => RErr e
      end
  | TObj n m =>                                          (* {self.class_name: self.attrs.to_obj()} *)
      match to_obj m with
      | ROk v => ROk (VDict [(match n with TLeaf _ s => VLeafNode s | _ => VLeafNode SNone end, v)])
      | RErr e => RErr e
      end
  end.

(* TreeNode.copy: every node is rebuilt from the copies of its children by copy_from *)
Fixpoint copy (t : tree) : tree :=
  match t with
  | TLeaf k s => TLeaf k s                               (* self.__class__(self.object) / NullNode() *)
  | TCyc d i => TCyc d i                                 (* CyclicReference(self.object.obj): unwrap, wrap again *)
  | TList l => TList (map copy l)
  | TMSet l => TMSet (map copy l)
  | TDict a kvs => TDict a (map (fun kv => (copy (fst kv), copy (snd kv))) kvs)
  | TFDict a kvs => TFDict a (dict_of tree_pyeq (map (fun kv => (copy (fst kv), copy (snd kv))) kvs))
  | TObj n m => TObj (copy n) (copy m)
  end.

(* ------------------------------------------------------------------ what the model predicts for a case *)

Definition exn_class (e : exn) : string :=
  match e with
  | ECycle | EValueError => "ValueError"
  | ETypeError => "TypeError"
  | ENotImplemented => "NotImplementedError"
  | ERecursion => "RecursionError"
  | EBadGraph => "BadGraph"
  end.

Definition is_cycle_exn (e : exn) : bool := match e with ECycle => true | _ => false end.

Definition observe (r : outcome) : observed :=
  match r with
  | Built t => OBuilt t (to_obj t) (ROk (copy t)) (tree_pyeq (copy t) t)
  | Raised e => ORaised (exn_class e) (is_cycle_exn e)
  | OutOfFuel => OTimeout
  end.

Definition bkind_of (ep : entry) : bkind := match ep with EPyObj => PyObjB | _ => BasicB end.

Definition model_run (ep : entry) (o : opts) (g : graph) (root : Z) : outcome :=
  match ep with
  | EJson => json_run o g root
  | _ => run_builder (bkind_of ep) o g (fuel_bound (bkind_of ep) o g root) root
  end.

Definition res_eqv {A} (eq : A -> A -> bool) (a b : res A) : bool :=
  match a, b with
  | ROk x, ROk y => eq x y
  | RErr e1, RErr e2 => String.eqb e1 e2
  | _, _ => false
  end.

(* observed = predicted: same tree (DictNode / MultiSetNode children as multisets), same to_obj() value
   (typed scalars, multisets and dicts up to order) or exception class, same copy, same `copy == t` *)
Definition observed_eqv (m i : observed) : bool :=
  match m, i with
  | OBuilt t1 v1 c1 e1, OBuilt t2 v2 c2 e2 =>
      tree_eqv t1 t2 && res_eqv (val_eqb scalar_eqb) v1 v2 && res_eqv tree_eqv c1 c2 && Bool.eqb e1 e2
  | ORaised c1 y1, ORaised c2 y2 => String.eqb c1 c2 && Bool.eqb y1 y2
  | _, _ => false
  end.

Definition corr_C18 (c : c18_case) : bool :=
  forallb (fun eo => observed_eqv (observe (model_run (fst eo) (c_opts c) (c_graph c) (c_root c))) (snd eo))
          (c_outs c).

(* the property's statement evaluated on the model's own prediction *)
Definition model_case (o : opts) (g : graph) (root : Z) (eps : list entry) : c18_case :=
  {| c_opts := o; c_graph := g; c_root := root;
     c_outs := map (fun ep => (ep, observe (model_run ep o g root))) eps |}.
