(* C17 — case format and the executable statement of the property.

   An item is a *schedule*: the list of ranges its bounds() goes through; tighten_bounds() pops the head and
   returns True iff there was something to pop.  A schedule is well formed (sound) when it is non-empty, every
   range is a proper Range (lower <= upper), each range is contained in the previous one and the last one is
   definitive.  The final value of an item is that last single value.

   A case = operation + input items (in the order given to the implementation) + what was observed on the
   implementation: the sequence of tighten_bounds() calls (item, returned value, range afterwards), the
   address-/hash-/heap-structure-dependent choices (used only by corr_C17 in SearchModel.v), and the result. *)
From Coq Require Import List Bool ZArith Lia.
Require Import GT.BoundsSpec.
Import ListNotations.
Open Scope Z_scope.

Notation schedule := (list range).

Fixpoint wf_sched (s : schedule) : bool :=
  match s with
  | [] => false
  | r :: rest =>
      range_ok r &&
      match rest with
      | [] => definitive r
      | r' :: _ => contains r r' && wf_sched rest
      end
  end.

Definition final_range (s : schedule) : range := last s full_range.
Definition final (s : schedule) : Z := rv_z (lo (final_range s)).

Inductive op := OpLt | OpLe | OpMin | OpSort | OpDistinct | OpSearch.

(* one call of tighten_bounds on an input item: (index of the item, value returned, bounds() afterwards) *)
Definition ev := (nat * bool * range)%type.

(* operations performed by the heap inside bounds.sort: a key comparison a < b (with the observed value of
   id(key a) < id(key b)), or the removal of item i by heap.pop() *)
Inductive hop := HCmp (a b : nat) (tie : bool) | HPop (i : nat).

Record oracle := mkOracle {
  o_ties  : list bool;   (* id(self) < id(other), one per BoundedComparator.__lt__ call (lt, le, min_bounded) *)
  o_hops  : list hop;    (* bounds.sort: what the Fibonacci heap did *)
  o_hints : list nat     (* make_distinct: items removed from the interval tree, in order;
                            search: item at heap._min after each pop() of a heap that stays non-empty *)
}.

Inductive obs :=
| OBool (b : bool)
| OItem (o : option nat)
| OList (l : list nat)
| ORanges (l : list range)               (* make_distinct: bounds() of every item afterwards *)
| OSearch (best : option nat) (b : range) (rets : list bool)   (* search(), bounds(), value of every tighten_bounds() call of the search *)
| OValueError                            (* make_distinct: "Could not tighten ... to a finite bound" *)
| OFail.                                 (* any other exception, or no answer within the wall-clock guard *)

Record case := mkCase {
  c_op : op; c_items : list schedule; c_events : list ev; c_oracle : oracle; c_obs : obs
}.

(* ------------------------------------------------------------------ the property, executable *)

Definition finals (items : list schedule) : list Z := map final items.
Definition fin_at (items : list schedule) (i : nat) : Z := nth i (finals items) 0.
Definition is_min_final (items : list schedule) (i : nat) : bool :=
  Nat.ltb i (length items) && forallb (fun f => fin_at items i <=? f) (finals items).

Fixpoint nondecreasing (l : list Z) : bool :=
  match l with
  | a :: (b :: _) as t => (a <=? b) && nondecreasing t
  | _ => true
  end.

Definition is_perm_of_seq (n : nat) (l : list nat) : bool :=
  Nat.eqb (length l) n && forallb (fun i => existsb (Nat.eqb i) l) (seq 0 n).

Definition separated (a b : range) : bool :=
  rv_ltb (hi a) (lo b) || rv_ltb (hi b) (lo a) || (definitive a && definitive b).

Fixpoint pairwise_separated (l : list range) : bool :=
  match l with
  | [] => true
  | a :: t => forallb (separated a) t && pairwise_separated t
  end.

(* make_distinct's documented precondition: every argument is finite after at most one tighten_bounds() *)
Definition md_admissible_sched (s : schedule) : bool :=
  match s with
  | r :: rest => finite r || match rest with r' :: _ => finite r' | [] => false end
  | [] => false
  end.

Definition holds_lt (items : list schedule) (o : obs) : bool :=
  match o with
  | OBool true => fin_at items 0 <=? fin_at items 1
  | OBool false => fin_at items 1 <=? fin_at items 0
  | _ => false
  end.
Definition holds_le (items : list schedule) (o : obs) : bool :=
  match o with OBool r => Bool.eqb r (fin_at items 0 <=? fin_at items 1) | _ => false end.
Definition holds_min (items : list schedule) (o : obs) : bool :=
  match o with
  | OItem None => match items with [] => true | _ => false end
  | OItem (Some i) => is_min_final items i
  | _ => false
  end.
Definition holds_sort (items : list schedule) (o : obs) : bool :=
  match o with
  | OList l => is_perm_of_seq (length items) l && nondecreasing (map (fin_at items) l)
  | _ => false
  end.
Definition holds_distinct (items : list schedule) (o : obs) : bool :=
  if forallb md_admissible_sched items then
    match o with
    | ORanges rs => Nat.eqb (length rs) (length items) && pairwise_separated rs
    | _ => false
    end
  else true.
Definition holds_search (items : list schedule) (o : obs) : bool :=
  match items with
  | [] => true
  | _ => match o with
         | OSearch (Some i) b _ => is_min_final items i && range_eqb b (point (fin_at items i))
         | _ => false
         end
  end.

Definition holds_op (o : op) (items : list schedule) (r : obs) : bool :=
  match o with
  | OpLt => holds_lt items r | OpLe => holds_le items r | OpMin => holds_min items r
  | OpSort => holds_sort items r | OpDistinct => holds_distinct items r | OpSearch => holds_search items r
  end.

(* sound items only (the property's domain); lt/le take exactly two items *)
Definition in_domain (c : case) : bool :=
  forallb wf_sched (c_items c) &&
  match c_op c with OpLt | OpLe => Nat.eqb (length (c_items c)) 2 | _ => true end.

Definition holds_C17 (c : case) : bool :=
  if in_domain c then holds_op (c_op c) (c_items c) (c_obs c) else true.
