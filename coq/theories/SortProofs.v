(* C17 - bounds.sort: the Fibonacci heap driven by a comparison oracle with side effects.

   Part 1 (Section Oracle) generalises the push / pop fragment of C16 (FibHeapProofs.v: "for every fixed strict
   total order on the keys ...") to a key comparison that is a stateful oracle `cmp : St -> a -> b -> (bool, St)`:
   there is a relation `le s a b` ("in state s item a is established to be at most item b") such that
     - le is reflexive and transitive, and survives every later state (le_ext);
     - a comparison `a < b` answering True establishes le a b, answering False establishes le b a;
     - an order that is already established is confirmed: le s a b -> the answer to `a < b` is True;
     - le s a b implies F a <= F b for a fixed valuation F (the final values).
   Nothing else is assumed: the answers need not be antisymmetric, the same ordered pair may be answered
   differently at different times, and a node may be compared with itself.  Under these hypotheses the heap keeps
   its structure invariant (unique items, heap order w.r.t. le, _n, _min names a root that is le every item), no
   operation crashes or runs out of fuel, and "push all, pop until empty" returns a permutation of the input in
   non-decreasing F order.

   Part 2 instantiates the oracle with BoundedComparator.__lt__ (SearchModel.cmp_lt) on sound schedules:
   le s a b := a = b \/ bounds(a) dominates bounds(b).

   The structure layer of C16 (hnode, ents/entsl, ring and degree-table lemmas) is imported unchanged. *)
From Coq Require Import List Bool ZArith Lia Arith Permutation.
Require Import GT.PyBase GT.FibHeapSpec GT.FibHeapModel GT.FibHeapProofs.
Require Import GT.BoundsSpec GT.SearchSpec GT.SearchModel GT.SearchProofs GT.SortModel.
Import ListNotations.
Open Scope Z_scope.

Ltac ex := repeat (rewrite entsl_app || rewrite entsl_cons).
Ltac fa := repeat (rewrite Forall_app in * || rewrite Forall_cons_iff in *).
Ltac splits := repeat match goal with |- _ /\ _ => split end.

(* items carried by the nodes of a forest *)
Definition eit (e : Z * Z * bool) : nat := Z.to_nat (eid e).
Definition lids (l : list hnode) : list nat := map eit (entsl l).

Lemma it_eit t : eit (nent t) = it t. Proof. reflexivity. Qed.
Lemma it_set_mark m t : it (set_mark m t) = it t. Proof. destruct t; reflexivity. Qed.
Lemma it_add_child y x : it (add_child y x) = it x. Proof. destruct x; reflexivity. Qed.
Lemma it_mknode i : it (mknode i) = i. Proof. unfold it, mknode; simpl. apply Nat2Z.id. Qed.
Lemma lids_perm l l' : Permutation (entsl l) (entsl l') -> Permutation (lids l) (lids l').
Proof. apply Permutation_map. Qed.
Lemma lids_root t l : In t l -> In (it t) (lids l).
Proof. intros H. unfold lids. rewrite <- it_eit. apply in_map. apply root_ent; auto. Qed.

Section Oracle.
Variable St : Type.
Variable cmp : St -> nat -> nat -> outcome (bool * St).
Variable tick : St -> nat -> St.
Variable n : nat.                              (* number of items: the items are 0 .. n-1 *)
Variable good : St -> Prop.
Variable ext : St -> St -> Prop.
Variable le : St -> nat -> nat -> Prop.
Variable F : nat -> Z.

Hypothesis ext_refl : forall s, ext s s.
Hypothesis ext_trans : forall a b c, ext a b -> ext b c -> ext a c.
Hypothesis good_ext : forall s s', good s -> ext s s' -> good s'.
Hypothesis le_refl : forall s a, le s a a.
Hypothesis le_trans : forall s a b c, good s -> le s a b -> le s b c -> le s a c.
Hypothesis le_ext : forall s s' a b, good s -> ext s s' -> le s a b -> le s' a b.
Hypothesis le_F : forall s a b, good s -> (a < n)%nat -> (b < n)%nat -> le s a b -> F a <= F b.
Hypothesis cmp_ok : forall s a b, good s -> (a < n)%nat -> (b < n)%nat ->
  exists r s', cmp s a b = Done (r, s') /\ ext s s' /\
               (if r then le s' a b else le s' b a) /\ (le s a b -> r = true).
Hypothesis tick_ext : forall s i, good s -> ext s (tick s i).

Definition inr (l : list hnode) : Prop := Forall (fun j => (j < n)%nat) (lids l).

Lemma inr_perm l l' : Permutation (entsl l) (entsl l') -> inr l' -> inr l.
Proof. intros P H. unfold inr. eapply Permutation_Forall; [symmetry; apply lids_perm; exact P|exact H]. Qed.
Lemma inr_app a b : inr (a ++ b) <-> inr a /\ inr b.
Proof. unfold inr, lids. rewrite entsl_app, map_app, Forall_app. tauto. Qed.
Lemma inr_root l t : inr l -> In t l -> (it t < n)%nat.
Proof. intros H Ht. unfold inr in H. rewrite Forall_forall in H. apply H. now apply lids_root. Qed.

(* heap order w.r.t. the established order *)
Inductive hdom (s : St) : hnode -> Prop :=
| hdom_i : forall i k m d ks, Forall (fun c => le s (Z.to_nat i) (it c)) ks -> Forall (hdom s) ks ->
    hdom s (HNode i k m d ks).

Lemma hdom_inv s t : hdom s t -> Forall (fun c => le s (it t) (it c)) (nkids t) /\ Forall (hdom s) (nkids t).
Proof. intros H. inversion H; subst. unfold it; simpl. auto. Qed.

Lemma hdom_set_mark s m t : hdom s t -> hdom s (set_mark m t).
Proof. intros H. inversion H; subst. constructor; auto. Qed.

Lemma hdom_add_child s y x : hdom s x -> hdom s y -> le s (it x) (it y) -> hdom s (add_child y x).
Proof.
  intros Hx Hy Hk. inversion Hx; subst. unfold add_child, set_kids. unfold it in Hk. simpl in *.
  constructor.
  - apply (@In_ring_add unit); auto.
  - apply (@In_ring_add unit); auto. apply hdom_set_mark; auto.
Qed.

Lemma hdom_ext s s' : good s -> ext s s' -> forall t, hdom s t -> hdom s' t.
Proof.
  intros Gs E. induction t as [i k m d ks IH] using hnode_ind'. intros H.
  inversion H as [? ? ? ? ? Hk Hh]; subst.
  constructor.
  - eapply Forall_impl; [|exact Hk]. intros c Hc. simpl in Hc. eapply le_ext; eauto.
  - rewrite Forall_forall in *. auto.
Qed.

Lemma hdoms_ext s s' l : good s -> ext s s' -> Forall (hdom s) l -> Forall (hdom s') l.
Proof. intros Gs E H. eapply Forall_impl; [|exact H]. intros t. now apply hdom_ext. Qed.

(* the root of a heap-ordered tree is le every item in the tree *)
Lemma hdom_min s : good s -> forall t, hdom s t -> Forall (fun e => le s (it t) (eit e)) (ents t).
Proof.
  intros Gs. induction t as [i k m d ks IH] using hnode_ind'. intros H.
  inversion H as [? ? ? ? ? Hk Hh]; subst. simpl.
  constructor; [apply le_refl|].
  apply Forall_flat_map. rewrite Forall_forall in *. intros c Hc.
  specialize (IH c Hc (Hh c Hc)). rewrite Forall_forall in *. intros e He.
  eapply le_trans; [exact Gs|apply (Hk c Hc)|apply IH; auto].
Qed.

Lemma roots_le s l a : good s -> Forall (hdom s) l -> (forall r, In r l -> le s a (it r)) ->
  Forall (fun j => le s a j) (lids l).
Proof.
  intros Gs Hh Hr. apply Forall_forall. intros j Hj. unfold lids in Hj. apply in_map_iff in Hj.
  destruct Hj as [e [<- He]]. apply in_entsl in He. destruct He as [t [Ht He]].
  rewrite Forall_forall in Hh. pose proof (hdom_min s Gs t (Hh t Ht)) as Hm. rewrite Forall_forall in Hm.
  eapply le_trans; [exact Gs|apply Hr; exact Ht|apply Hm; exact He].
Qed.

(* ---- _consolidate: the linking loop ---- *)
Lemma ocons_loop_spec fuel : forall s pre x post,
  good s -> Forall (hdom s) (pre ++ x :: post) -> inr (pre ++ x :: post) ->
  (length pre + length post < fuel)%nat ->
  exists r s', ocons_loop St cmp fuel s pre x post = Done (r, s') /\ ext s s' /\
               Permutation (entsl r) (entsl (pre ++ x :: post)) /\ Forall (hdom s') r.
Proof.
  induction fuel as [|f IH]; intros s pre x post Gs HG HR Hlen; [lia|]. simpl.
  assert (Rx : (it x < n)%nat) by (eapply inr_root; [exact HR|apply in_or_app; right; left; reflexivity]).
  destruct (split_deg (deg x) pre) as [[[a y] b]|] eqn:E1.
  - apply split_deg_spec in E1. subst pre.
    assert (Ry : (it y < n)%nat).
    { eapply inr_root; [exact HR|]. apply in_or_app; left. apply in_or_app; right; left; reflexivity. }
    destruct (cmp_ok s (it y) (it x) Gs Ry Rx) as (r & s1 & C & E & L & _). rewrite C. simpl.
    assert (G1 : good s1) by (eapply good_ext; eauto).
    pose proof (hdoms_ext s s1 _ Gs E HG) as HG1. fa.
    destruct HG1 as [[Ha [Hy Hb]] [Hx Hp]].
    rewrite app_length in Hlen. simpl in Hlen.
    destruct r.
    + assert (P0 : Permutation (entsl (a ++ add_child x y :: b ++ post)) (entsl ((a ++ y :: b) ++ x :: post))).
      { ex. rewrite ents_add_child. perm. }
      destruct (IH s1 a (add_child x y) (b ++ post)) as (r & s' & R & E' & P & Q); auto.
      * fa. splits; auto. apply hdom_add_child; auto.
      * eapply inr_perm; [exact P0|exact HR].
      * rewrite app_length. lia.
      * exists r, s'. split; auto. split; [eapply ext_trans; eauto|]. split; auto. rewrite P. exact P0.
    + assert (P0 : Permutation (entsl ((a ++ b) ++ add_child y x :: post)) (entsl ((a ++ y :: b) ++ x :: post))).
      { ex. rewrite ents_add_child. perm. }
      destruct (IH s1 (a ++ b) (add_child y x) post) as (r & s' & R & E' & P & Q); auto.
      * fa. splits; auto. apply hdom_add_child; auto.
      * eapply inr_perm; [exact P0|exact HR].
      * rewrite app_length. lia.
      * exists r, s'. split; auto. split; [eapply ext_trans; eauto|]. split; auto. rewrite P. exact P0.
  - destruct (split_deg (deg x) post) as [[[a y] b]|] eqn:E2.
    + apply split_deg_spec in E2. subst post.
      assert (Ry : (it y < n)%nat).
      { eapply inr_root; [exact HR|]. apply in_or_app; right. right. apply in_or_app; right; left; reflexivity. }
      destruct (cmp_ok s (it y) (it x) Gs Ry Rx) as (r & s1 & C & E & L & _). rewrite C. simpl.
      assert (G1 : good s1) by (eapply good_ext; eauto).
      pose proof (hdoms_ext s s1 _ Gs E HG) as HG1. fa.
      destruct HG1 as [Hpre [Hx [Ha [Hy Hb]]]].
      rewrite app_length in Hlen. simpl in Hlen.
      destruct r.
      * assert (P0 : Permutation (entsl ((pre ++ a) ++ add_child x y :: b)) (entsl (pre ++ x :: a ++ y :: b))).
        { ex. rewrite ents_add_child. perm. }
        destruct (IH s1 (pre ++ a) (add_child x y) b) as (r & s' & R & E' & P & Q); auto.
        -- fa. splits; auto. apply hdom_add_child; auto.
        -- eapply inr_perm; [exact P0|exact HR].
        -- rewrite app_length. lia.
        -- exists r, s'. split; auto. split; [eapply ext_trans; eauto|]. split; auto. rewrite P. exact P0.
      * assert (P0 : Permutation (entsl (pre ++ add_child y x :: a ++ b)) (entsl (pre ++ x :: a ++ y :: b))).
        { ex. rewrite ents_add_child. perm. }
        destruct (IH s1 pre (add_child y x) (a ++ b)) as (r & s' & R & E' & P & Q); auto.
        -- fa. splits; auto. apply hdom_add_child; auto.
        -- eapply inr_perm; [exact P0|exact HR].
        -- rewrite app_length. lia.
        -- exists r, s'. split; auto. split; [eapply ext_trans; eauto|]. split; auto. rewrite P. exact P0.
    + exists (pre ++ x :: post), s. repeat split; auto.
Qed.

Lemma ocons_fold_spec : forall todo s acc,
  good s -> Forall (hdom s) (acc ++ todo) -> inr (acc ++ todo) ->
  exists r s', ocons_fold St cmp s acc todo = Done (r, s') /\ ext s s' /\
               Permutation (entsl r) (entsl (acc ++ todo)) /\ Forall (hdom s') r.
Proof.
  induction todo as [|x rest IH]; intros s acc Gs HG HR.
  - simpl. exists acc, s. rewrite app_nil_r in *. repeat split; auto.
  - cbn [ocons_fold].
    assert (P1 : Permutation (entsl (acc ++ x :: rest)) (entsl ((acc ++ [x]) ++ rest))).
    { rewrite <- app_assoc. reflexivity. }
    destruct (ocons_loop_spec (S (length acc)) s acc x []) as (acc' & s1 & R & E & P & Q); auto.
    + fa. intuition.
    + apply inr_app in HR. destruct HR as [H1 H2]. change (x :: rest) with ([x] ++ rest) in H2.
      apply inr_app in H2. apply inr_app. tauto.
    + simpl. lia.
    + rewrite R. simpl.
      assert (G1 : good s1) by (eapply good_ext; eauto).
      assert (P2 : Permutation (entsl (acc' ++ rest)) (entsl (acc ++ x :: rest))).
      { ex. rewrite P. ex. simpl. rewrite app_nil_r. rewrite <- app_assoc. reflexivity. }
      destruct (IH s1 acc') as (r & s' & R' & E' & P' & Q'); auto.
      * fa. split; auto. apply (hdoms_ext s s1); auto. tauto.
      * eapply inr_perm; [exact P2|exact HR].
      * exists r, s'. split; auto. split; [eapply ext_trans; eauto|]. split; auto. rewrite P'. exact P2.
Qed.

(* ---- _consolidate: the final scan for the new _min ---- *)
Lemma oscan_spec : forall L s m,
  good s -> (forall r, In r L -> (it r < n)%nat) -> (it m < n)%nat ->
  exists res s', oscan St cmp s L m = Done (res, s') /\ ext s s' /\
    (In res L \/ res = m) /\
    (forall r, In r L -> le s' (it res) (it r)) /\ le s' (it res) (it m) /\
    ((exists r0, In r0 L /\ le s (it r0) (it m)) -> In res L).
Proof.
  induction L as [|r L IH]; intros s m Gs HL Hm; simpl.
  - exists m, s. splits; auto.
    + intros ? [].
    + intros (r0 & [] & _).
  - assert (Rr : (it r < n)%nat) by (apply HL; left; reflexivity).
    destruct (cmp_ok s (it r) (it m) Gs Rr Hm) as (c & s1 & C & E & Lc & Stab). rewrite C. simpl.
    assert (G1 : good s1) by (eapply good_ext; eauto).
    set (m' := if c || Z.eqb (nid r) (nid m) then r else m).
    assert (Rm' : (it m' < n)%nat) by (unfold m'; destruct (c || Z.eqb (nid r) (nid m)); auto).
    destruct (IH s1 m' G1) as (res & s' & R & E' & A & B & B' & D); auto.
    { intros r' Hr'. apply HL. right. exact Hr'. }
    assert (G' : good s') by (eapply good_ext; eauto).
    exists res, s'. split; [exact R|]. split; [eapply ext_trans; eauto|].
    assert (Cases : (m' = r /\ le s' (it r) (it m)) \/ (m' = m /\ le s' (it m) (it r) /\ c = false)).
    { unfold m'. destruct c; simpl.
      - left. split; auto. eapply le_ext; eauto.
      - destruct (Z.eqb_spec (nid r) (nid m)) as [Q|Q].
        + left. split; auto. unfold it. rewrite Q. apply le_refl.
        + right. split; auto. split; auto. eapply le_ext; eauto. }
    destruct Cases as [[Em Lr]|[Em [Lm Ec]]]; rewrite Em in *.
    + splits.
      * destruct A as [A| ->]; [left; right; exact A|left; left; reflexivity].
      * intros r' [<-|Hr']; auto.
      * eapply le_trans; eauto.
      * intros _. destruct A as [A| ->]; [right; exact A|left; reflexivity].
    + splits.
      * destruct A as [A| ->]; [left; right; exact A|right; reflexivity].
      * intros r' [<-|Hr']; auto. eapply le_trans; eauto.
      * exact B'.
      * intros (r0 & [<-|H0] & L0).
        -- rewrite (Stab L0) in Ec. discriminate.
        -- right. apply D. exists r0. split; auto. apply (le_ext s s1); auto.
Qed.

(* consolidation + scan on a non-empty heap-ordered root ring that contains nx *)
Lemma oconsolidate_ok s l2 nx : good s -> In nx l2 -> Forall (hdom s) l2 -> inr l2 ->
  exists l3 s1 mn s2, ocons_fold St cmp s [] l2 = Done (l3, s1) /\
    oscan St cmp s1 (sort_deg l3) nx = Done (mn, s2) /\ ext s s2 /\
    Permutation (entsl l3) (entsl l2) /\ Forall (hdom s2) l3 /\
    In mn l3 /\ Forall (fun j => le s2 (it mn) j) (lids l3).
Proof.
  intros Gs Hnx HG HR.
  destruct (ocons_fold_spec l2 s [] Gs HG HR) as (l3 & s1 & R & E & P & Q). simpl in P.
  assert (G1 : good s1) by (eapply good_ext; eauto).
  assert (HR3 : inr l3) by (eapply inr_perm; eauto).
  (* nx sits below some root r0 of l3 *)
  assert (He : In (nent nx) (entsl l3)).
  { eapply Permutation_in; [symmetry; apply P|]. apply root_ent. exact Hnx. }
  apply in_entsl in He. destruct He as [r0 [Hr0 He]].
  assert (Hk : le s1 (it r0) (it nx)).
  { rewrite Forall_forall in Q. pose proof (hdom_min s1 G1 r0 (Q r0 Hr0)) as Hm. rewrite Forall_forall in Hm.
    apply (Hm (nent nx) He). }
  destruct (oscan_spec (sort_deg l3) s1 nx G1) as (mn & s2 & R2 & E2 & _ & B & _ & D).
  { intros r Hr. apply (proj1 (In_sort_deg _ _)) in Hr. apply (inr_root l3); auto. }
  { apply (inr_root l2); auto. }
  assert (G2 : good s2) by (eapply good_ext; eauto).
  assert (Hin : In mn l3).
  { apply (proj1 (In_sort_deg _ _)). apply D. exists r0. split; auto. apply (proj2 (In_sort_deg _ _)). exact Hr0. }
  exists l3, s1, mn, s2. splits; auto.
  - apply (ext_trans s s1 s2); auto.
  - apply (hdoms_ext s1 s2); auto.
  - apply roots_le; auto.
    + apply (hdoms_ext s1 s2); auto.
    + intros r Hr. apply B. apply (proj2 (In_sort_deg _ _)). exact Hr.
Qed.

(* ---- _extract_min ---- *)
Definition omin_ok (s : St) (h : fheap) : Prop :=
  match minp h with
  | None => roots h = []
  | Some z => exists r, In r (roots h) /\ nid r = z /\ Forall (fun j => le s (it r) j) (lids (roots h))
  end.

Lemma oextract_core s h z u p' q' :
  good s -> minp h = Some z -> find_root z (roots h) = Some u ->
  splice (roots h) (nkids u) = p' ++ u :: q' ->
  Forall (fun r => nid r <> z) p' -> nid u = z -> Forall (hdom s) (p' ++ q') -> inr (p' ++ q') ->
  exists h' s', oextract St cmp s h = Done (u, h', s') /\ ext s s' /\
                Permutation (entsl (roots h')) (entsl (p' ++ q')) /\
                Forall (hdom s') (roots h') /\ hn h' = hn h - 1 /\ omin_ok s' h'.
Proof.
  intros Gs Hm Hf Hs Hp Hu HG HR. unfold oextract. rewrite Hm, Hf, Hs.
  destruct (p' ++ u :: q') as [|f l1'] eqn:El1; [destruct p'; discriminate|].
  rewrite <- El1.
  destruct (zip_ops z u q' f p' Hp Hu) as [_ [B C]]. rewrite B, C.
  destruct (p' ++ q') as [|x l2'] eqn:El2.
  - eexists _, s. split; [reflexivity|]. simpl. splits; auto. reflexivity.
  - rewrite <- El2 in *.
    assert (Hnx : In (hd f q') (p' ++ q')).
    { destruct q' as [|y q'']; simpl.
      - rewrite app_nil_r in *. destruct p' as [|y p'']; [discriminate|]. simpl in El1.
        inversion El1; subst. left. reflexivity.
      - apply in_or_app. right. left. reflexivity. }
    destruct (oconsolidate_ok s (p' ++ q') (hd f q') Gs Hnx HG HR)
      as (l3 & s1 & mn & s2 & R1 & R2 & E & P & Hh & Hin & Hmin).
    rewrite El2. rewrite <- El2. rewrite R1. simpl. rewrite R2. simpl.
    eexists _, s2. split; [reflexivity|]. simpl. splits; auto.
    unfold omin_ok. simpl. exists mn. auto.
Qed.

Lemma oextract_spec s h z p u q :
  good s -> minp h = Some z -> roots h = p ++ u :: q -> nid u = z ->
  Forall (fun r => nid r <> z) p -> Forall (fun r => nid r <> z) (nkids u) ->
  Forall (hdom s) (p ++ q ++ nkids u) -> inr (p ++ q ++ nkids u) ->
  exists h' s', oextract St cmp s h = Done (u, h', s') /\ ext s s' /\
                Permutation (entsl (roots h')) (entsl (p ++ q ++ nkids u)) /\
                Forall (hdom s') (roots h') /\ hn h' = hn h - 1 /\ omin_ok s' h'.
Proof.
  intros Gs Hm Hr Hu Hp Hk HG HR.
  assert (Hf : find_root z (roots h) = Some u) by (rewrite Hr; apply zip_ops; auto).
  fa. destruct HG as [Gp [Gq Gk]].
  destruct p as [|a0 a'].
  - assert (P0 : Permutation (entsl ([] ++ rev (nkids u) ++ q)) (entsl ([] ++ q ++ nkids u))).
    { simpl. ex. rewrite entsl_rev. perm. }
    destruct (oextract_core s h z u [] (rev (nkids u) ++ q)) as (h' & s' & A & E & B & C); auto.
    { rewrite Hr. simpl. apply splice_cons. }
    { simpl. fa. split; auto. apply Forall_rev'; auto. }
    { eapply inr_perm; [exact P0|exact HR]. }
    exists h', s'. split; auto. split; auto. split; auto. rewrite B. exact P0.
  - assert (P0 : Permutation (entsl ((a0 :: rev (nkids u) ++ a') ++ q)) (entsl ((a0 :: a') ++ q ++ nkids u))).
    { simpl. ex. rewrite entsl_rev. perm. }
    destruct (oextract_core s h z u (a0 :: rev (nkids u) ++ a') q) as (h' & s' & A & E & B & C); auto.
    { rewrite Hr. simpl. rewrite splice_cons. rewrite <- app_assoc. reflexivity. }
    { inversion Hp; subst. constructor; auto. fa. split; auto. apply Forall_rev'; auto. }
    { inversion Gp; subst. simpl. constructor; auto. fa. splits; auto. apply Forall_rev'; auto. }
    { eapply inr_perm; [exact P0|exact HR]. }
    exists h', s'. split; auto. split; auto. split; auto. rewrite B. exact P0.
Qed.

(* ---- the invariant: `live` = the items inside ---- *)
Record HI (s : St) (h : fheap) (live : list nat) : Prop := {
  hi_perm : Permutation (lids (roots h)) live;
  hi_nodup : NoDup live;
  hi_rng : Forall (fun j => (j < n)%nat) live;
  hi_hdom : Forall (hdom s) (roots h);
  hi_n : hn h = Z.of_nat (length live);
  hi_min : omin_ok s h }.

Lemma HI_ext s s' h live : good s -> ext s s' -> HI s h live -> HI s' h live.
Proof.
  intros Gs E [A B C D N M]. constructor; auto.
  - eapply hdoms_ext; eauto.
  - unfold omin_ok in *. destruct (minp h); auto. destruct M as (r & ? & ? & Hl). exists r. splits; auto.
    eapply Forall_impl; [|exact Hl]. intros j Hj. simpl in Hj. apply (le_ext s s'); auto.
Qed.

Lemma HI_empty s : HI s fempty [].
Proof. constructor; simpl; auto; try constructor. Qed.

Lemma lids_ring_add i l : Permutation (lids (ring_add (mknode i) l)) (i :: lids l).
Proof.
  unfold lids. rewrite entsl_ring_add. rewrite map_app. simpl. unfold eit at 1, eid; simpl. rewrite Nat2Z.id.
  reflexivity.
Qed.

Lemma hdom_mknode s i : hdom s (mknode i).
Proof. constructor; constructor. Qed.

(* ---- push ---- *)
Lemma opush_spec s h live i : good s -> HI s h live -> (i < n)%nat -> ~ In i live ->
  exists h' s', opush St cmp s i h = Done (h', s') /\ ext s s' /\ HI s' h' (i :: live).
Proof.
  intros Gs [A B C D N M] Hi Hfresh. unfold opush.
  pose proof (lids_ring_add i (roots h)) as P.
  assert (P' : Permutation (lids (ring_add (mknode i) (roots h))) (i :: live)) by (rewrite P; auto).
  assert (Hlen : hn h + 1 = Z.of_nat (length (i :: live))) by (rewrite N; cbn [length]; lia).
  unfold omin_ok in M. destruct (minp h) as [m|] eqn:Hm.
  - destruct M as (r & Hr & Hid & Hall).
    assert (Rr : (Z.to_nat m < n)%nat).
    { rewrite Forall_forall in C. apply C. eapply Permutation_in; [exact A|]. rewrite <- Hid. apply lids_root; auto. }
    destruct (cmp_ok s i (Z.to_nat m) Gs Hi Rr) as (c & s1 & Cc & E & Lc & _). rewrite Cc. simpl.
    assert (G1 : good s1) by (eapply good_ext; eauto).
    assert (Itr : it r = Z.to_nat m) by (unfold it; rewrite Hid; reflexivity).
    assert (Hall1 : Forall (fun j => le s1 (it r) j) (lids (roots h))).
    { eapply Forall_impl; [|exact Hall]. intros j Hj. simpl in Hj. apply (le_ext s s1); auto. }
    eexists _, s1. split; [reflexivity|]. split; auto.
    constructor; simpl; auto.
    + constructor; auto.
    + apply (@In_ring_add unit); [apply hdom_mknode|apply (hdoms_ext s s1); auto].
    + unfold omin_ok. simpl. destruct c.
      * exists (mknode i). split; [apply In_ring_add_iff; auto|]. split; [reflexivity|].
        eapply Permutation_Forall; [symmetry; exact P|]. rewrite it_mknode.
        constructor; [apply le_refl|].
        eapply Forall_impl; [|exact Hall1]. intros j Hj. simpl in Hj.
        apply (le_trans s1 i (it r) j); auto. rewrite Itr. exact Lc.
      * exists r. split; [apply In_ring_add_iff; auto|]. split; [exact Hid|].
        eapply Permutation_Forall; [symmetry; exact P|].
        constructor; [rewrite Itr; exact Lc|exact Hall1].
  - eexists _, s. split; [reflexivity|]. split; auto.
    constructor; simpl; auto.
    + constructor; auto.
    + apply (@In_ring_add unit); [apply hdom_mknode|auto].
    + unfold omin_ok. simpl. exists (mknode i). split; [apply In_ring_add_iff; auto|]. split; [reflexivity|].
      eapply Permutation_Forall; [symmetry; exact P|]. rewrite it_mknode. rewrite M. simpl.
      constructor; [apply le_refl|constructor].
Qed.

Lemma opush_all_spec : forall ids s h live, good s -> HI s h live -> NoDup ids ->
  (forall i, In i ids -> (i < n)%nat /\ ~ In i live) ->
  exists h' s', opush_all St cmp s ids h = Done (h', s') /\ ext s s' /\ HI s' h' (rev ids ++ live).
Proof.
  induction ids as [|i rest IH]; intros s h live Gs I Hnd Hids; simpl.
  - exists h, s. auto.
  - inversion Hnd as [|? ? Hni Hnd']; subst.
    destruct (Hids i (or_introl eq_refl)) as [Hi Hf].
    destruct (opush_spec s h live i Gs I Hi Hf) as (h1 & s1 & R & E & I1). rewrite R. simpl.
    assert (G1 : good s1) by (eapply good_ext; eauto).
    destruct (IH s1 h1 (i :: live) G1 I1 Hnd') as (h' & s' & R' & E' & I').
    + intros j Hj. destruct (Hids j (or_intror Hj)) as [? ?]. split; auto.
      intros [<-|H']; auto.
    + exists h', s'. split; auto. split; [apply (ext_trans s s1 s'); auto|].
      rewrite <- app_assoc. exact I'.
Qed.

(* ---- pop ---- *)
Lemma opop_spec s h live : good s -> HI s h live -> live <> [] ->
  exists u h' s', oextract St cmp s h = Done (u, h', s') /\ ext s s' /\ In (it u) live /\
                  HI s' h' (remove1 (it u) live) /\ forall j, In j live -> le s (it u) j.
Proof.
  intros Gs [A B C D N M] Hne. unfold omin_ok in M. destruct (minp h) as [z|] eqn:Hm.
  2:{ rewrite M in A. simpl in A. apply Permutation_nil in A. contradiction. }
  destruct M as (r & Hr & Hid & Hall).
  destruct (find_root_in r _ Hr) as [u Hu]. rewrite Hid in Hu.
  destruct (find_root_split _ _ _ Hu) as [p [q [Hroots [Hp Hidu]]]].
  assert (Itu : it u = it r) by (unfold it; congruence).
  assert (Hnd : NoDup (map eid (entsl (roots h)))).
  { apply (NoDup_map_inv Z.to_nat). rewrite map_map. eapply Permutation_NoDup; [symmetry; exact A|exact B]. }
  assert (PE : Permutation (entsl (roots h)) (nent u :: entsl (p ++ q ++ nkids u))).
  { rewrite Hroots. ex. rewrite (ents_unfold u). perm. }
  assert (Hnd' : NoDup (map eid (nent u :: entsl (p ++ q ++ nkids u)))).
  { eapply Permutation_NoDup; [apply Permutation_map; apply PE|auto]. }
  simpl in Hnd'. inversion Hnd' as [|? ? Hz Hnd'']; subst.
  change (eid (nent u)) with (nid u) in Hz.
  assert (PL : Permutation live (it u :: lids (p ++ q ++ nkids u))).
  { rewrite <- A. unfold lids. rewrite PE. reflexivity. }
  assert (Hin : In (it u) live) by (eapply Permutation_in; [symmetry; exact PL|left; reflexivity]).
  assert (PR : Permutation (lids (p ++ q ++ nkids u)) (remove1 (it u) live)).
  { apply (Permutation_cons_inv (a := it u)). rewrite <- PL. symmetry. apply remove1_perm. exact Hin. }
  assert (HR : inr (p ++ q ++ nkids u)).
  { unfold inr. eapply Permutation_Forall; [symmetry; exact PR|]. apply Forall_forall. intros j Hj.
    rewrite Forall_forall in C. apply C. eapply remove1_In; eauto. }
  rewrite Hroots in D. fa. destruct D as [Dp [Du Dq]]. destruct (hdom_inv s u Du) as [_ Dk].
  assert (Hm' : minp h = Some (nid u)) by congruence.
  assert (Hp' : Forall (fun r0 => nid r0 <> nid u) p) by (rewrite Hidu; exact Hp).
  destruct (oextract_spec s h (nid u) p u q) as (h' & s' & R & E & P & Hh & Hn' & Hmin); auto.
  - eapply roots_ne_id; [apply Hz|]. intros t Hin'. apply root_ent. apply in_or_app. right. apply in_or_app. auto.
  - fa. auto.
  - exists u, h', s'. split; auto. split; auto. split; auto. split.
    + constructor; auto.
      * rewrite (lids_perm _ _ P). exact PR.
      * assert (Q : NoDup (it u :: remove1 (it u) live)).
        { eapply Permutation_NoDup; [symmetry; apply remove1_perm; exact Hin|exact B]. }
        inversion Q; auto.
      * apply Forall_forall. intros j Hj. rewrite Forall_forall in C. apply C. eapply remove1_In; eauto.
      * rewrite Hn', N. pose proof (Permutation_length (remove1_perm _ _ Hin)) as Ql. simpl in Ql. lia.
    + intros j Hj. rewrite Itu. rewrite Forall_forall in Hall. apply Hall. eapply Permutation_in; [symmetry; exact A|exact Hj].
Qed.

(* ---- bounds.sort: push everything, pop until empty ---- *)
Lemma opop_all_spec : forall k s h live out, good s -> HI s h live -> (length live <= k)%nat ->
  nondecreasing (map F (rev out)) = true -> (forall x y, In x out -> In y live -> F x <= F y) ->
  exists l s', opop_all St cmp tick k s h out = Done (l, s') /\ ext s s' /\
               Permutation l (rev out ++ live) /\ nondecreasing (map F l) = true.
Proof.
  induction k as [|k IH]; intros s h live out Gs I Hk Hn Ho.
  - destruct live; [|simpl in Hk; lia]. simpl. rewrite (hi_n _ _ _ I). simpl.
    exists (rev out), s. rewrite app_nil_r. auto.
  - cbn [opop_all]. rewrite (hi_n _ _ _ I). destruct (Z.leb_spec (Z.of_nat (length live)) 0) as [Hz|Hz].
    { destruct live; [|simpl in Hz; lia]. exists (rev out), s. rewrite app_nil_r. auto. }
    assert (Hne : live <> []) by (intros ->; simpl in Hz; lia).
    destruct (opop_spec s h live Gs I Hne) as (u & h' & s1 & R & E & Hin & I1 & Hle).
    rewrite R. simpl.
    assert (G1 : good s1) by (eapply good_ext; eauto).
    pose proof (tick_ext s1 (it u) G1) as E2.
    assert (G2 : good (tick s1 (it u))) by (eapply good_ext; eauto).
    assert (Ru : (it u < n)%nat).
    { pose proof (hi_rng _ _ _ I) as C. rewrite Forall_forall in C. auto. }
    destruct (IH (tick s1 (it u)) h' (remove1 (it u) live) (it u :: out) G2) as (l & s' & R' & E' & P' & N').
    + apply (HI_ext s1); auto.
    + pose proof (Permutation_length (remove1_perm _ _ Hin)) as Ql. simpl in Ql. lia.
    + simpl. rewrite map_app. simpl. apply nondecreasing_snoc; auto.
      intros y Hy. apply in_map_iff in Hy. destruct Hy as (x & <- & Hx). apply in_rev in Hx. apply Ho; auto.
    + intros x y [<-|Hx] Hy.
      * apply (le_F s); auto.
        -- pose proof (hi_rng _ _ _ I) as C. rewrite Forall_forall in C. apply C. eapply remove1_In; eauto.
        -- apply Hle. eapply remove1_In; eauto.
      * apply Ho; auto. eapply remove1_In; eauto.
    + exists l, s'. split; auto. split; [apply (ext_trans s s1 s'); auto; apply (ext_trans s1 (tick s1 (it u)) s'); auto|].
      split; auto. rewrite P'. simpl. rewrite <- app_assoc. apply Permutation_app_head. simpl.
      apply remove1_perm. exact Hin.
Qed.

Theorem osort_spec s : good s ->
  exists l s', osort St cmp tick s (seq 0 n) = Done (l, s') /\ ext s s' /\
               Permutation l (seq 0 n) /\ nondecreasing (map F l) = true.
Proof.
  intros Gs. unfold osort.
  destruct (opush_all_spec (seq 0 n) s fempty [] Gs (HI_empty s)) as (h & s1 & R & E & I).
  - apply seq_NoDup.
  - intros i Hi. apply in_seq in Hi. split; [lia|auto].
  - rewrite R. simpl. rewrite app_nil_r in I.
    assert (G1 : good s1) by (eapply good_ext; eauto).
    destruct (opop_all_spec (length (seq 0 n)) s1 h (rev (seq 0 n)) [] G1 I) as (l & s' & R' & E' & P & N).
    + rewrite rev_length. lia.
    + reflexivity.
    + intros x y [].
    + exists l, s'. split; auto. split; [apply (ext_trans s s1 s'); auto|]. split; auto.
      rewrite P. simpl. symmetry. apply Permutation_rev.
Qed.

End Oracle.

(* ------------------------------------------------------------------ Part 2: BoundedComparator as the oracle *)

(* "a is established to be at most b": the same item, or a's interval dominates b's *)
Definition dom (m : ms) (a b : nat) : Prop := a = b \/ dominates (bounds m a) (bounds m b) = true.

Lemma bounds_ok_all m i : wf_ms m -> range_ok (bounds m i) = true.
Proof.
  intros W. destruct (Nat.lt_ge_cases i (nitems m)) as [H|H]; [now apply bounds_ok|].
  unfold bounds. rewrite sched_nil_out by exact H. reflexivity.
Qed.

Lemma dom_trans m a b c : wf_ms m -> dom m a b -> dom m b c -> dom m a c.
Proof.
  intros W [->|D1] [<-|D2]; try (left; reflexivity); try (right; assumption).
  right. apply dominates_iff in D1, D2. apply dominates_iff.
  pose proof (bounds_ok_all m b W) as O. apply range_ok_iff in O.
  eapply rle_trans; [exact D1|]. eapply rle_trans; [exact O|exact D2].
Qed.

(* an established order survives every later tightening *)
Lemma dom_evolves m m' a b : wf_ms m -> evolves m m' -> dom m a b -> dom m' a b.
Proof.
  intros W E [->|D]; [left; reflexivity|right].
  apply dominates_iff in D. apply dominates_iff.
  pose proof (ev_shrink _ _ E W a) as Ca. pose proof (ev_shrink _ _ E W b) as Cb.
  apply contains_iff in Ca, Cb. destruct Ca as [_ Ca]. destruct Cb as [Cb _].
  eapply rle_trans; [exact Ca|]. eapply rle_trans; [exact D|exact Cb].
Qed.

Lemma dom_F m a b : wf_ms m -> (a < nitems m)%nat -> (b < nitems m)%nat -> dom m a b -> fin m a <= fin m b.
Proof. intros W Ha Hb [->|D]; [lia|now apply dom_fin]. Qed.

(* BoundedComparator.__lt__: terminates; True establishes a <= b, False establishes b <= a; an established
   a <= b is answered True.  (Strengthens SearchProofs.cmp_lt_spec, from which C17_lt follows.) *)
Lemma cmp_lt_dom fuel m a b tie :
  wf_ms m -> (a < nitems m)%nat -> (b < nitems m)%nat -> (rem m < fuel)%nat ->
  exists r m', cmp_lt fuel m a b tie = Done (r, m') /\ evolves m m' /\
               (if r then dom m' a b else dom m' b a) /\ (dom m a b -> r = true).
Proof.
  intros Hw Ha Hb Hf. destruct (cmp_loop_spec fuel m a b Hw Ha Hb Hf) as (m' & C & E & D).
  unfold cmp_lt. rewrite C. simpl.
  eexists _, m'. split; [reflexivity|]. split; auto.
  destruct (dominates (bounds m' a) (bounds m' b)) eqn:D1; simpl.
  - split; [right; exact D1|auto].
  - simpl in D. destruct (range_eqb (bounds m' a) (bounds m' b) && tie) eqn:Q.
    + apply andb_true_iff in Q as [Q _]. apply range_eqb_eq in Q. rewrite Q in D1, D. congruence.
    + split; [right; exact D|]. intros Hd. apply (dom_evolves m m') in Hd; auto.
      destruct Hd as [->|Hd]; congruence.
Qed.

Section Inst.
Variable fuel n : nat.
Variable F : nat -> Z.

Definition hgood (s : hst) : Prop :=
  wf_ms (hm s) /\ nitems (hm s) = n /\ (rem (hm s) < fuel)%nat /\ forall i, fin (hm s) i = F i.
Definition hext (s s' : hst) : Prop := evolves (hm s) (hm s').
Definition hle (s : hst) (a b : nat) : Prop := dom (hm s) a b.

Lemma hgood_ext s s' : hgood s -> hext s s' -> hgood s'.
Proof.
  intros (W & L & R & Fi) E. unfold hext in E. unfold hgood. splits.
  - apply E; auto.
  - rewrite (ev_len _ _ E). exact L.
  - pose proof (ev_rem _ _ E). lia.
  - intros i. rewrite (evolves_fin _ _ i E). apply Fi.
Qed.

Lemma hcmp_ok s a b : hgood s -> (a < n)%nat -> (b < n)%nat ->
  exists r s', hcmp fuel s a b = Done (r, s') /\ hext s s' /\
               (if r then hle s' a b else hle s' b a) /\ (hle s a b -> r = true).
Proof.
  intros (W & L & R & Fi) Ha Hb. rewrite <- L in Ha, Hb.
  destruct (cmp_lt_dom fuel (hm s) a b (hd false (hties s)) W Ha Hb R) as (r & m' & C & E & P & Q).
  unfold hcmp. rewrite C. simpl. eexists r, _. split; [reflexivity|]. splits; auto.
Qed.

(* the generalised heap theorem, instantiated *)
Lemma hsort_spec s : hgood s ->
  exists l s', osort hst (hcmp fuel) htick s (seq 0 n) = Done (l, s') /\ hext s s' /\
               Permutation l (seq 0 n) /\ nondecreasing (map F l) = true.
Proof.
  apply (osort_spec hst (hcmp fuel) htick n hgood hext hle F).
  - intros s0. apply evolves_refl.
  - intros a b c. apply evolves_trans.
  - apply hgood_ext.
  - intros s0 a. left. reflexivity.
  - intros s0 a b c (W & _). now apply dom_trans.
  - intros s0 s' a b (W & _) E. now apply dom_evolves.
  - intros s0 a b (W & L & _ & Fi) Ha Hb D. rewrite <- !Fi. apply dom_F; auto; lia.
  - apply hcmp_ok.
  - intros s0 i _. apply evolves_refl.
Qed.
End Inst.

(* bounds.sort on sound items, for every id() order: the full model (real heap, auto-tightening comparator)
   terminates without error and returns a permutation of the input in non-decreasing order of final value *)
Theorem C17_sort_model items ties fuel :
  Forall (fun s => wf_sched s = true) items -> (fuel_for items <= fuel)%nat ->
  exists l m' hops, heap_sort fuel (mkMs items []) (seq 0 (length items)) ties = Done (l, m', hops) /\
                    evolves (mkMs items []) m' /\ holds_sort items (OList l) = true.
Proof.
  intros W Hf.
  destruct (hsort_spec fuel (length items) (fin_at items) (mkH (mkMs items []) ties [])) as (l & s' & R & E & P & N).
  - unfold hgood. splits; simpl; auto. unfold rem, fuel_for in *; simpl in *; lia.
  - unfold heap_sort. rewrite R. simpl. exists l, (hm s'), (rev (hlog s')). split; [reflexivity|]. split; [exact E|].
    unfold holds_sort. rewrite (perm_seq_bool _ _ P), N. reflexivity.
Qed.

(* a sort case whose implementation run corresponds to the full model satisfies the property *)
Lemma list_eqb_nat_eq : forall l l', SearchModel.list_eqb Nat.eqb l l' = true -> l = l'.
Proof.
  induction l as [|a l IH]; intros [|b l'] H; simpl in H; try discriminate; auto.
  apply andb_true_iff in H as [H1 H2]. apply Nat.eqb_eq in H1. subst. f_equal. auto.
Qed.

Theorem C17_sort_corr_holds c :
  c_op c = OpSort -> corr_sort c = true -> holds_C17 c = true.
Proof.
  intros Ho Hc. unfold holds_C17. destruct (in_domain c) eqn:Dm; auto.
  unfold in_domain in Dm. rewrite Ho in Dm. rewrite andb_true_r in Dm.
  assert (W : Forall (fun s => wf_sched s = true) (c_items c)) by (apply Forall_forall; apply forallb_forall; exact Dm).
  unfold corr_sort in Hc. rewrite Ho in Hc.
  destruct (C17_sort_model (c_items c) (hop_ties (o_hops (c_oracle c))) (fuel_for (c_items c)) W (le_n _))
    as (l & m' & hops & R & _ & H).
  rewrite R in Hc. apply andb_true_iff in Hc as [Hc _]. apply andb_true_iff in Hc as [Hc _].
  rewrite Ho. simpl. destruct (c_obs c); simpl in Hc; try discriminate.
  apply list_eqb_nat_eq in Hc. subst. exact H.
Qed.

(* ------------------------------------------------------------------ examples *)

(* the full model reproduces, comparison by comparison, what graphtage's FibonacciHeap does on SearchProofs.ex_items
   (the trace of SearchProofs.C17_sort_example), including the self-comparisons 0 < 0 and 2 < 2 of _consolidate *)
Example C17_sort_full_example :
  Forall (fun s => wf_sched s = true) ex_items /\
  match heap_sort (fuel_for ex_items) (mkMs ex_items []) (seq 0 4) [false; false; true; false; false; true; true; false; false] with
  | Done (l, m', hops) =>
      l = [1; 3; 0; 2]%nat /\ holds_sort ex_items (OList l) = true /\
      hops = [HCmp 1 0 false; HCmp 2 1 false; HCmp 3 1 true; HCmp 0 3 false; HCmp 2 0 false; HCmp 3 0 true; HPop 1;
              HCmp 0 2 true; HCmp 0 0 false; HPop 3; HCmp 2 2 false; HPop 0; HPop 2]
  | _ => False end.
Proof. split; [repeat constructor|]. vm_compute. repeat split; reflexivity. Qed.

(* why C16 cannot simply be instantiated: BoundedComparator.__lt__ is not a fixed order.  Items [2,3]->2 and
   [1,2]->2: `0 < 1` is False in the initial state and True after both have been tightened, where `1 < 0` is
   True as well. *)
Definition ex_flip : list schedule :=
  [ [mkR (Fin 2) (Fin 3); mkR (Fin 2) (Fin 2)]; [mkR (Fin 1) (Fin 2); mkR (Fin 2) (Fin 2)] ].
Example cmp_lt_is_not_an_order : forall tie,
  let m := mkMs ex_flip [] in
  let m2 := snd (tighten (snd (tighten m 0)) 1) in
  Forall (fun s => wf_sched s = true) ex_flip /\
  (exists m', cmp_lt 10 m 0 1 tie = Done (false, m')) /\
  (exists m', cmp_lt 10 m2 0 1 tie = Done (true, m')) /\
  (exists m', cmp_lt 10 m2 1 0 tie = Done (true, m')).
Proof. intros tie. split; [repeat constructor|]. destruct tie; vm_compute; repeat split; eexists; reflexivity. Qed.

(* the hypotheses of the generalised heap theorem are satisfiable also by a pure comparison: a total preorder
   answered as `a <= b` (True on ties, in both directions - not a strict order either) *)
Example oracle_pure_instance : forall n,
  exists l, osort unit (fun s a b => Done (Nat.leb a b, s)) (fun s _ => s) tt (seq 0 n) = Done (l, tt) /\
            Permutation l (seq 0 n) /\ nondecreasing (map Z.of_nat l) = true.
Proof.
  intros n.
  destruct (osort_spec unit (fun s a b => Done (Nat.leb a b, s)) (fun s _ => s) n (fun _ => True) (fun _ _ => True)
              (fun _ a b => (a <= b)%nat) Z.of_nat) with (s := tt) as (l & [] & R & _ & P & N); auto.
  - intros; lia.
  - intros; lia.
  - intros s a b _ _ _. exists (Nat.leb a b), s. split; [reflexivity|]. split; [exact I|].
    destruct (Nat.leb_spec a b); split; auto; try lia.
  - exists l. auto.
Qed.

(* ------------------------------------------------------------------ the confirmation hypothesis cannot be dropped

   `le s a b -> the answer to a < b is True` (cmp_ok, last conjunct) is what distinguishes BoundedComparator.__lt__
   from an arbitrary comparison that is merely consistent with the order of the final values.  Counter-example:
   cmp_u below differs from __lt__ only in letting the id() tie-break decide whenever the two ranges are equal (for
   definitive ranges __lt__ answers True in both directions instead).  Its answers are still consistent with the
   final values (cmp_u_consistent), on fully tightened items it even is the strict total order "final value, then
   id()" - but an answer can be withdrawn (a = [1,2] < b = [2,3] is True; after both became [2,2] it is id(a) < id(b)),
   and then the real heap breaks: on its11 the model ends in Crash (_min is left pointing at a node that is no
   longer a root), and graphtage's FibonacciHeap with the same change raises AssertionError in HeapNode.children on
   this very input (found by running ./check C17 against a scratch copy of /repo with that change; not a defect of
   /repo). *)
Definition cmp_u (fuel : nat) (m : ms) (a b : nat) (tie : bool) : outcome (bool * ms) :=
  obind (cmp_loop fuel m a b) (fun m' =>
    Done (if range_eqb (bounds m' a) (bounds m' b) then tie else dominates (bounds m' a) (bounds m' b), m')).
Definition hcmp_u (fuel : nat) (s : hst) (a b : nat) : outcome (bool * hst) :=
  let tie := hd false (hties s) in
  obind (cmp_u fuel (hm s) a b tie) (fun '(r, m') => Done (r, mkH m' (tl (hties s)) (HCmp a b tie :: hlog s))).

Lemma cmp_u_consistent fuel m a b tie :
  wf_ms m -> (a < nitems m)%nat -> (b < nitems m)%nat -> (rem m < fuel)%nat ->
  exists r m', cmp_u fuel m a b tie = Done (r, m') /\ evolves m m' /\
               (if r then fin m a <= fin m b else fin m b <= fin m a).
Proof.
  intros Hw Ha Hb Hf. destruct (cmp_loop_spec fuel m a b Hw Ha Hb Hf) as (m' & C & E & D).
  unfold cmp_u. rewrite C. simpl.
  assert (W : wf_ms m') by (apply E; auto).
  assert (Ha' : (a < nitems m')%nat) by (rewrite (ev_len _ _ E); auto).
  assert (Hb' : (b < nitems m')%nat) by (rewrite (ev_len _ _ E); auto).
  eexists _, m'. split; [reflexivity|]. split; auto.
  rewrite <- !(evolves_fin m m') by auto.
  destruct (range_eqb (bounds m' a) (bounds m' b)) eqn:Q.
  - apply range_eqb_eq in Q. rewrite Q in D. rewrite orb_diag in D.
    assert (fin m' a <= fin m' b) by (apply dom_fin; auto; rewrite Q; exact D).
    assert (fin m' b <= fin m' a) by (apply dom_fin; auto; rewrite Q; exact D).
    destruct tie; lia.
  - destruct (dominates (bounds m' a) (bounds m' b)) eqn:D1; [apply dom_fin; auto|].
    simpl in D. apply dom_fin; auto.
Qed.

Definition its11 : list schedule :=
  let R a b := mkR (Fin a) (Fin b) in
  [ [R 0 3; R 1 3; R 2 3; R 3 3]; [R 1 2; R 2 2]; [R 2 2]; [R 0 2; R 1 2; R 2 2]; [R 0 3; R 1 3; R 2 3; R 3 3];
    [R 1 3; R 1 2; R 1 1]; [R 3 3]; [R 1 3; R 1 1]; [R 0 2; R 0 1; R 0 1; R 1 1]; [R 3 3]; [R 1 3; R 1 1] ].

Example heap_needs_confirmation :
  Forall (fun s => wf_sched s = true) its11 /\
  osort hst (hcmp_u (fuel_for its11)) htick
        (mkH (mkMs its11 [])
             [false; false; false; true; true; false; true; true; false; false; true; true; false; false; true; true;
              true; false; false; false; false; false; true] [])
        (seq 0 11) = Crash /\
  (* while with BoundedComparator.__lt__ itself, same items and id() order, the sort is fine *)
  match heap_sort (fuel_for its11) (mkMs its11 [])  (seq 0 11)
             [false; false; false; true; true; false; true; true; false; false; true; true; false; false; true; true;
              true; false; false; false; false; false; true] with
  | Done (l, _, _) => holds_sort its11 (OList l) = true
  | _ => False end.
Proof. split; [repeat constructor|]. split; vm_compute; reflexivity. Qed.
