(* C15 - minimum-weight assignment is valid and optimal.
   Data types of a case (weight table + what the implementation was observed to return), the executable
   statement of the property `holds_C15`, the executable brute-force optimum, the domain `in_domainb`
   and the known-finding classes `kf_...` (D14).  Hand-written; imports nothing translated from /repo.

   Numbers.  A weight carries its Python type: WB (bool), WI (int), WF (float).  Float tables are a
   PARTIAL area: only floats of the form k / 2^s with one common scale per table are represented, as
   `WF k`, and the case records `c_unit = 2^s` (the representation of 1.0; 1 for int / bool tables).
   On the domain below every float operation the code performs on such a table (column sums, +1,
   comparisons, scipy's float64 arithmetic) is exact, so it coincides with integer arithmetic on the
   scaled values; floats outside that shape (rounding, inf, nan) are not covered by anything here. *)
From Coq Require Import List Bool ZArith Lia.
Require Import GT.PyBase.
Import ListNotations.
Open Scope Z_scope.

Inductive ety := TBool | TInt | TFloat.
Inductive weight := WB (b : bool) | WI (z : Z) | WF (z : Z).
Inductive exn := ValueError | TypeError | AssertionError | OverflowError | IndexError.

Definition wty (w : weight) : ety := match w with WB _ => TBool | WI _ => TInt | WF _ => TFloat end.
Definition wnum (w : weight) : Z := match w with WB b => if b then 1 else 0 | WI z => z | WF z => z end.
Definition ety_eqb (a b : ety) : bool :=
  match a, b with TBool, TBool | TInt, TInt | TFloat, TFloat => true | _, _ => false end.
Definition weight_eqb (a b : weight) : bool :=
  match a, b with
  | WB x, WB y => Bool.eqb x y | WI x, WI y => x =? y | WF x, WF y => x =? y | _, _ => false
  end.
Definition exn_eqb (a b : exn) : bool :=
  match a, b with
  | ValueError, ValueError | TypeError, TypeError | AssertionError, AssertionError
  | OverflowError, OverflowError | IndexError, IndexError => true
  | _, _ => false
  end.

(* rows = from-nodes, columns = to-nodes; None = get_edges returned None (missing pair) *)
Definition table := list (list (option weight)).
Definition matrix := list (list Z).
(* the returned dict, in iteration order: from_index -> (to_index, weight) *)
Definition matching := list (nat * (nat * weight)).
Inductive result := OK (m : matching) | Err (e : exn).

(* a case: the table, the scaled 1.0, what scipy.linear_sum_assignment was observed to be called with and to
   return (None: it was not called), and what min_weight_bipartite_matching returned / raised *)
Record case := { c_unit : Z; c_table : table; c_solver : option (matrix * list (nat * nat)); c_result : result }.

(* ------------------------------------------------------------------ reading a table *)
Definition nrows (W : table) : nat := length W.
Definition ncols (W : table) : nat := match W with [] => 0%nat | r :: _ => length r end.
Definition rectb (W : table) : bool := forallb (fun r => Nat.eqb (length r) (ncols W)) W.
Definition cells (W : table) : list (option weight) := concat W.     (* row-major, the order of the scan *)
Definition lookup (W : table) (i j : nat) : option weight :=
  match nth_error W i with
  | Some row => match nth_error row j with Some c => c | None => None end
  | None => None
  end.

Fixpoint has_null_cells (cs : list (option weight)) : bool :=
  match cs with [] => false | None :: _ => true | Some _ :: r => has_null_cells r end.
(* type of the present weights seen so far; outer None = two present weights of different Python types *)
Fixpoint ty_from (acc : option ety) (cs : list (option weight)) : option (option ety) :=
  match cs with
  | [] => Some acc
  | None :: r => ty_from acc r
  | Some w :: r => match acc with
                   | None => ty_from (Some (wty w)) r
                   | Some t => if ety_eqb t (wty w) then ty_from acc r else None
                   end
  end.
Fixpoint max_from (acc : option Z) (cs : list (option weight)) : option Z :=
  match cs with
  | [] => acc
  | None :: r => max_from acc r
  | Some w :: r => max_from (Some (match acc with None => wnum w | Some m => Z.max m (wnum w) end)) r
  end.
Fixpoint min_from (acc : option Z) (cs : list (option weight)) : option Z :=
  match cs with
  | [] => acc
  | None :: r => min_from acc r
  | Some w :: r => min_from (Some (match acc with None => wnum w | Some m => Z.min m (wnum w) end)) r
  end.

Definition has_null (W : table) : bool := has_null_cells (cells W).
Definition completeb (W : table) : bool := negb (has_null W).
Definition mixedb (W : table) : bool := match ty_from None (cells W) with None => true | Some _ => false end.
Definition edge_ty (W : table) : option ety := match ty_from None (cells W) with Some t => t | None => None end.
Definition max_edge (W : table) : option Z := max_from None (cells W).
Definition min_edge (W : table) : option Z := min_from None (cells W).

(* the value written into missing pairs: (largest column sum of the present weights) + 1 *)
Definition cell_num (c : option weight) : Z := match c with Some w => wnum w | None => 0 end.
Definition col_sum (W : table) (j : nat) : Z :=
  fold_left Z.add (map (fun row => cell_num (nth j row None)) W) 0.
Definition col_sums (W : table) : list Z := map (col_sum W) (seq 0 (ncols W)).
Definition zmax_list (l : list Z) : option Z :=
  match l with [] => None | x :: r => Some (fold_left Z.max r x) end.
Definition one_of (u : Z) (W : table) : Z := match edge_ty W with Some TFloat => u | _ => 1 end.
Definition sentinel (u : Z) (W : table) : option Z :=
  match zmax_list (col_sums W) with Some s => Some (s + one_of u W) | None => None end.

Definition fill (s : Z) (W : table) : matrix :=
  map (map (fun c => match c with Some w => wnum w | None => s end)) W.
(* the table as the solver sees it (missing pairs replaced) *)
Definition filled (u : Z) (W : table) : matrix :=
  fill (match sentinel u W with Some s => s | None => 0 end) W.

(* ------------------------------------------------------------------ float64 exactness
   scipy.optimize.linear_sum_assignment converts every matrix to float64 and runs a shortest augmenting
   path algorithm.  Rationale for the bound (an argument about scipy, not a theorem - scipy is an oracle;
   the harness tests the solver contract on every call inside the bound, incl. right at its edge): the
   intermediate values (path costs, dual variables, reduced costs) are alternating sums of distinct matrix
   entries, so they are integers of magnitude at most 4 * (sum of |entries|); while that stays within 2^53
   every float64 operation is exact.  Bounding the single weights by 2^53 is NOT enough: the 2x3 table
   [[2^53-2, 2^53-2, 2^53-1], [2^53-3, 2^53-2, 2^53]] (corpus) gets a total that is off by one.
   Probing found no failure below 16 times this bound; the bound is deliberately conservative. *)
Definition msum_abs (M : matrix) : Z :=
  fold_right (fun row acc => fold_right (fun x a => Z.abs x + a) 0 row + acc) 0 M.
Definition float_safeb (M : matrix) : bool := 4 * msum_abs M <=? 2 ^ 53.

(* ------------------------------------------------------------------ validity of a returned pairing *)
Definition m_rows (m : matching) : list nat := map fst m.
Definition m_cols (m : matching) : list nat := map (fun p => fst (snd p)) m.
Definition total (m : matching) : Z := fold_right (fun p acc => wnum (snd (snd p)) + acc) 0 m.

Definition valid (W : table) (m : matching) : Prop :=
  NoDup (m_rows m) /\ NoDup (m_cols m) /\
  Forall (fun p => lookup W (fst p) (fst (snd p)) = Some (snd (snd p))) m.

Fixpoint nodupb (l : list nat) : bool :=
  match l with [] => true | x :: r => negb (existsb (Nat.eqb x) r) && nodupb r end.
Definition pair_okb (W : table) (p : nat * (nat * weight)) : bool :=
  match lookup W (fst p) (fst (snd p)) with Some w => weight_eqb w (snd (snd p)) | None => false end.
(* one-to-one, only existing pairs, true weights *)
Definition validb (W : table) (m : matching) : bool :=
  nodupb (m_rows m) && nodupb (m_cols m) && forallb (pair_okb W) m.

(* ------------------------------------------------------------------ executable optimum: all injections *)
Definition mget (M : matrix) (i j : nat) : Z := nth j (nth i M []) 0.
Definition mtotal (M : matrix) (a : list (nat * nat)) : Z :=
  fold_right (fun p acc => mget M (fst p) (snd p) + acc) 0 a.
Definition mcols (M : matrix) : nat := match M with [] => 0%nat | r :: _ => length r end.

(* every way of choosing exactly k pairs (row, column) with rows taken in increasing order from
   i, i+1, ..., i+n-1 (a row may be skipped) and pairwise different columns taken from `cols` *)
Fixpoint enum (n i : nat) (cols : list nat) (k : nat) : list (list (nat * nat)) :=
  match n with
  | O => match k with O => [[]] | S _ => [] end
  | S n' =>
      match k with
      | O => []
      | S k' => flat_map (fun j => map (cons (i, j)) (enum n' (S i) (remove Nat.eq_dec j cols) k')) cols
      end ++ enum n' (S i) cols k
  end.
Definition argmin (M : matrix) (l : list (list (nat * nat))) : list (nat * nat) :=
  match l with
  | [] => []
  | a :: r => fold_left (fun best x => if mtotal M x <? mtotal M best then x else best) r a
  end.
(* a minimum-total assignment of min(rows, cols) pairs, by exhaustive search *)
Definition brute_solve (M : matrix) : list (nat * nat) :=
  argmin M (enum (length M) 0 (seq 0 (mcols M)) (Nat.min (length M) (mcols M))).
Definition brute_opt (M : matrix) : Z := mtotal M (brute_solve M).

(* every pair is missing (and there is at least one pair).  Not a known-finding class any more: D14a (TypeError
   from `assert null_edge_value > None`) is fixed, such a table now yields the empty pairing and belongs to the
   domain; the predicate only names the region for the theorems about it (MatchProofs, section I). *)
Definition all_missingb (W : table) : bool := has_null W && negb (is_some (max_edge W)).

(* ------------------------------------------------------------------ known-finding classes (D14) *)
Definition kf_class : Type := Z -> table -> bool.

(* a pair is missing and (largest column sum) + 1 does not exceed the largest weight - possible only when
   some weight is negative: AssertionError *)
Definition kf_negative_with_missing : kf_class := fun u W =>
  has_null W && match max_edge W, sentinel u W with Some m, Some s => s <=? m | _, _ => false end.

(* the union of numpy's integer types: [0, 2^64) or [-2^63, 2^63) *)
Definition int_range_okb (lo hi : Z) : bool :=
  ((0 <=? lo) && (hi <? 2 ^ 64)) || ((- 2 ^ 63 <=? lo) && (hi <? 2 ^ 63)).

(* integer weights that fit a numpy integer type, a missing pair, and a replacement value that does not
   fit together with them: OverflowError from np.array *)
Definition kf_sentinel_overflow : kf_class := fun u W =>
  has_null W && match edge_ty W with Some TInt => true | _ => false end &&
  match min_edge W, max_edge W, sentinel u W with
  | Some lo, Some hi, Some s => (hi <? s) && int_range_okb lo hi && negb (int_range_okb lo s)
  | _, _, _ => false
  end.

(* scipy's float64 arithmetic is not exact on the matrix it is given (see float_safeb): the pairing can be
   non-minimal; such tables are also where weights can exceed every numpy integer type (OverflowError) *)
Definition kf_beyond_2p53 : kf_class := fun u W => negb (float_safeb (filled u W)).

Definition in_domainb (u : Z) (W : table) : bool :=
  rectb W && negb (mixedb W) &&
  negb (kf_negative_with_missing u W) &&
  negb (kf_sentinel_overflow u W) && negb (kf_beyond_2p53 u W).

(* ------------------------------------------------------------------ the property, on an observed result *)
(* Weights of different Python types: the documented ValueError.  Otherwise: a pairing is returned, it is
   one-to-one, uses only existing pairs and reports their true weights; when no pair is missing it has
   min(rows, cols) pairs and its total is the brute-force optimum. *)
Definition prop_ok (c : case) : bool :=
  let W := c_table c in
  if mixedb W then match c_result c with Err ValueError => true | _ => false end
  else match c_result c with
       | OK m => validb W m &&
                 (has_null W || (Nat.eqb (length m) (Nat.min (nrows W) (ncols W)) && (total m =? brute_opt (fill 0 W))))
       | Err _ => false
       end.

(* what an open known finding excuses: only its own failure mode, on its own class of tables *)
Definition ex_kf_negative_with_missing (c : case) : bool :=
  match c_result c with Err AssertionError => true | _ => false end.
Definition ex_kf_sentinel_overflow (c : case) : bool :=
  match c_result c with Err OverflowError => true | _ => false end.
(* beyond float64 exactness only minimality is given up (or the weights fit no numpy integer type at all):
   the pairing must still be one-to-one, over existing pairs, with true weights, and full on a complete table *)
Definition ex_kf_beyond_2p53 (c : case) : bool :=
  let W := c_table c in
  match c_result c with
  | Err OverflowError => true
  | OK m => validb W m && (has_null W || Nat.eqb (length m) (Nat.min (nrows W) (ncols W)))
  | _ => false
  end.

Definition finding : Type := (kf_class * (case -> bool))%type.
Definition excused (open : list finding) (c : case) : bool :=
  existsb (fun k => fst k (c_unit c) (c_table c) && snd k c) open.
(* `open` = (class, excused outcome) of the still-open entries of known_findings.json *)
Definition holds_C15 (open : list finding) (c : case) : bool := prop_ok c || excused open c.
(* does this case exhibit the finding of class k? *)
Definition reproduces (k : kf_class) (c : case) : bool := k (c_unit c) (c_table c) && negb (prop_ok c).
