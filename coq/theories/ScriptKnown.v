(* Classes of the open known findings about edit scripts, as Gallina predicates on a case
   (used to classify a failing case; the same predicates are the carve-outs of the partial theorems). *)
From Coq Require Import ZArith List Bool.
Require Import GT.PyBase GT.Data GT.ScriptSpec.
Import ListNotations.
Open Scope Z_scope.

(* D4: Python-equal scalars of different type are "equal" inside containers: the documents are reported
   equal (cost 0), differ as data, and are equal under the implementation's own == *)
Definition kf_cross_type_py_equal (c : script_case) : bool :=
  (cost (sc_edit c) =? 0) && negb (data_eqb (sc_a c) (sc_b c)) && node_eqb (sc_a c) (sc_b c).

(* D16: inserting or removing a zero-size element ("" or null) of a list of leaves costs 0:
   reported equal, differ as data, and become equal (under ==) once zero-size leaves are dropped
   from every list whose elements are all leaves *)
Fixpoint strip0 (t : tree) : tree :=
  match t with
  | Lst a b cs => if all_leaves cs then Lst a b (filter (fun c => negb (size c =? 0)) cs) else Lst a b (map strip0 cs)
  | Kvp a k v => Kvp a k (strip0 v)
  | MSet a cs => MSet a (map strip0 cs)
  | FDict cs => FDict (map strip0 cs)
  | Leaf l => Leaf l
  end.

Definition kf_zero_size_in_leaf_list (c : script_case) : bool :=
  (cost (sc_edit c) =? 0) && negb (data_eqb (sc_a c) (sc_b c)) && negb (node_eqb (sc_a c) (sc_b c)) &&
  node_eqb (strip0 (sc_a c)) (strip0 (sc_b c)).
