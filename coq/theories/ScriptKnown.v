(* Classes of the open known findings about edit scripts, as Gallina predicates on a case
   (used to classify a failing case; the same notions are the carve-outs of the partial theorems of C02:
   EqualProofs.script_failures_classified proves that every failure of "cost 0 <-> equal as data" of the
   model lies in one of the two classes). *)
From Coq Require Import ZArith List Bool.
Require Import GT.PyBase GT.Data GT.ScriptSpec.
Require Export GT.EqualSpec.
Import ListNotations.
Open Scope Z_scope.

(* reported equal (cost 0) although the documents differ as data, by an otherwise well-priced script *)
Definition zero_but_different (c : script_case) : bool :=
  spec_ok c && (cost (sc_edit c) =? 0) && negb (data_eqb (sc_a c) (sc_b c)).

(* D4: Python-equal scalars of different type are "equal" inside containers: the documents are reported
   equal (cost 0), differ as data, and are equal under the implementation's own == *)
Definition kf_cross_type_py_equal (c : script_case) : bool :=
  zero_but_different c && node_eqb (sc_a c) (sc_b c).

(* D16: inserting or removing a zero-size element ("" or null) of a list of leaves costs 0:
   reported equal, differ as data, are not ==, and become == once zero-size leaves are dropped
   from the lists whose elements are all leaves (EqualSpec.zsim) *)
Definition kf_zero_size_in_leaf_list (c : script_case) : bool :=
  zero_but_different c && negb (node_eqb (sc_a c) (sc_b c)) && zsim (sc_a c) (sc_b c).

(* D16 at the command line: the zero-cost removal/insertion is still rendered with its change marks, so the
   output of a pair of this class is marked although the cost is 0 and the exit status is 0 *)
Definition kf_cli_zero_size_marked (c : cli_case) : bool :=
  kf_zero_size_in_leaf_list (cl_lib c) && cli_exit_ok c && cl_marked c.

(* the domain of the C02 theorems: documents the loaders can produce, serialised consistently *)
Definition case_in_domain (c : script_case) : bool :=
  wf (sc_a c) && wf (sc_b c) && numtext_ok (sc_a c) && numtext_ok (sc_b c) && consistent (sc_a c) (sc_b c).

(* D36: a multiset with a repeated element that is not matched exactly makes WeightedBipartiteMatcher collapse the
   duplicates (its dictionaries are keyed by node), its bounds widen and repeat_until_tightened never returns.
   Class on the INPUT: some multiset, at any depth of either document, has two == children. *)
Fixpoint has_dup (cs : list tree) : bool :=
  match cs with [] => false | c :: r => existsb (fun d => node_eqb c d) r || has_dup r end.
Fixpoint has_dup_mset (t : tree) : bool :=
  match t with
  | Leaf _ => false
  | Lst _ _ cs => existsb has_dup_mset cs
  | Kvp _ k v => has_dup_mset k || has_dup_mset v
  | MSet _ cs => has_dup cs || existsb has_dup_mset cs
  | FDict cs => existsb has_dup_mset cs
  end.
Definition kf_multiset_duplicates (a b : tree) : bool := has_dup_mset a || has_dup_mset b.
