(* C09 - the same data compares as equal regardless of input file format: cases and the executable
   statement.  Independent of the models: evaluated on the IMPLEMENTATION's observations. *)
From Coq Require Import ZArith List Bool.
Require Import GT.PyBase GT.Data GT.ScriptSpec GT.BuildModel.
Import ListNotations.
Open Scope Z_scope.

Inductive fmt := FJson | FJson5 | FYaml | FPlist.
Definition fmt_eqb (a b : fmt) : bool :=
  match a, b with FJson, FJson | FJson5, FJson5 | FYaml, FYaml | FPlist, FPlist => true | _, _ => false end.
Definition is_plist (f : fmt) : bool := match f with FPlist => true | _ => false end.
Definition all_fmts : list fmt := [FJson; FJson5; FYaml; FPlist].

(* a loaded document: plist files are wrapped in a PLISTNode around the tree json.build_tree makes *)
Record root := { r_plist : bool; r_tree : tree }.

(* the top-level edit between two loaded documents *)
Inductive redit :=
  | RInner (e : edit)        (* the edit between the (unwrapped) trees *)
  | RBoth (e : edit)         (* PLISTNode vs PLISTNode: EditCollection [Match 0; edit of the roots] *)
  | RReplace (c : Z).        (* anything vs a PLISTNode: Replace *)
Definition rcost (r : redit) : Z := match r with RInner e | RBoth e => cost e | RReplace c => c end.

Record load_case := {
  lc_opts : bopts;
  lc_d : doc;                                    (* the data *)
  lc_x : doc;                                    (* a third document *)
  lc_roots_d : list (fmt * root);                (* what Filetype.build_tree returned for d stored in each format *)
  lc_roots_x : list (fmt * root);
  lc_dd : list (fmt * fmt * bool * Z);           (* d in f1 vs d in f2: (loaded trees ==, final cost of the edit) *)
  lc_dx : list (fmt * fmt * Z);                  (* d in f1 vs x in f3: final cost *)
  lc_exits : list (fmt * fmt * Z);               (* command line, d in f1 vs d in f2: exit status *)
}.

(* D8b (open): only plist documents carry the PLISTNode wrapper and only the FROM side unwraps it *)
Definition kf_into_plist (f1 f2 : fmt) : bool := negb (is_plist f1) && is_plist f2.
Definition kf_wrapper_mismatch (f1 f2 : fmt) : bool := xorb (is_plist f1) (is_plist f2).

(* the property on one case; `known` says which format pairs are excused (open finding classes) *)
Definition dd_ok (known : bool) (t : fmt * fmt * bool * Z) : bool :=
  let '(f1, f2, eq, c) := t in
  if known && kf_into_plist f1 f2 then true
  else (c =? 0) && (if known && kf_wrapper_mismatch f1 f2 then true else eq).
Definition exit_ok (known : bool) (t : fmt * fmt * Z) : bool :=
  let '(f1, f2, st) := t in if known && kf_into_plist f1 f2 then true else st =? 0.
Definition dx_ok (known : bool) (l : list (fmt * fmt * Z)) : bool :=
  let l' := filter (fun t => let '(f1, f3, _) := t in negb (known && kf_into_plist f1 f3)) l in
  match l' with
  | [] => true
  | (_, _, c0) :: _ => forallb (fun t => let '(_, _, c) := t in c =? c0) l'
  end.

Definition holds_C09_gen (known : bool) (c : load_case) : bool :=
  forallb (dd_ok known) (lc_dd c) && forallb (exit_ok known) (lc_exits c) && dx_ok known (lc_dx c).
Definition holds_C09 : load_case -> bool := holds_C09_gen false.          (* the property as stated *)
Definition holds_C09_partial : load_case -> bool := holds_C09_gen true.   (* outside the open finding D8b *)
(* a case on which the property fails only inside the class of D8b *)
Definition kf_plist_wrapper (c : load_case) : bool := negb (holds_C09 c) && holds_C09_partial c.
