(* C05: proofs about the API machines of ApiModel.v.
   Part 1 (generic): from the contract AContract (an invariant closed under the public operations on which nothing
   raises, with a measure for tighten_bounds()) follow, for EVERY history of calls: no call raises, and the completion
   idiom followed by the serialiser's reading of the own cost yields the contract's value. *)
From Coq Require Import ZArith List Bool Lia.
Require Import GT.PyBase GT.Data GT.EdTypes GT.EdEngine GT.LevModel GTgen.EdGen GT.EdParams GT.ScriptSpec GT.ScriptModel
               GT.EdEngineProofs GT.MachineSpec GT.MachineModel GT.MachineProofs GT.ApiSpec GT.ApiModel.
Import ListNotations.
Open Scope Z_scope.

(* ================================================================ Part 1: histories, generically *)
Section Gen.
  Variable M : amachine.
  Variable Inv : ASt M -> Prop.
  Variable v : Z.
  Hypothesis Hinv : forall t, Inv t -> astep_ok M Inv v t.

  Lemma inv_bnd : forall t, Inv t ->
    Inv (fst (a_bnd M t)) /\ (a_mu M (fst (a_bnd M t)) <= a_mu M t)%nat /\
    (fst (snd (a_bnd M t)) = snd (snd (a_bnd M t)) -> snd (a_bnd M t) = (v, v)) /\
    a_bnd M (fst (a_bnd M t)) = (fst (a_bnd M t), snd (a_bnd M t)).
  Proof.
    intros t H. destruct (Hinv t H) as (_ & B & _). cbv zeta in B. destruct B as (B1 & B2 & B3 & B4).
    repeat split; try assumption. intros E. destruct (snd (a_bnd M t)) as [lo hi]. cbn [fst snd] in *.
    f_equal; lia.
  Qed.

  Lemma inv_sound : forall t, Inv t -> fst (snd (a_bnd M t)) <= v <= snd (snd (a_bnd M t)).
  Proof. intros t H. destruct (Hinv t H) as (_ & B & _). cbv zeta in B. apply B. Qed.

  Lemma inv_tig : forall t, Inv t ->
    Inv (fst (a_tig M t)) /\ (snd (a_tig M t) = true -> (a_mu M (fst (a_tig M t)) < a_mu M t)%nat) /\
    (snd (a_tig M t) = false -> (a_mu M (fst (a_tig M t)) <= a_mu M t)%nat /\
                                a_bnd M (fst (a_tig M t)) = (fst (a_tig M t), (v, v))).
  Proof.
    intros t H. destruct (Hinv t H) as (_ & _ & T & _). cbv zeta in T. destruct T as (T1 & T2 & T3).
    repeat split; try assumption; intros E; apply (T3 E).
  Qed.

  Lemma inv_tig_strict : forall t, Inv t -> snd (a_tig M t) = false -> snd (a_bnd M t) = (v, v).
  Proof. intros t H E. destruct (Hinv t H) as (_ & _ & T & _). cbv zeta in T. apply T. exact E. Qed.

  Lemma inv_tig_mu : forall t, Inv t -> (a_mu M (fst (a_tig M t)) <= a_mu M t)%nat.
  Proof.
    intros t H. destruct (inv_tig t H) as (_ & T1 & T2). destruct (snd (a_tig M t)).
    - specialize (T1 eq_refl). lia.
    - apply T2. reflexivity.
  Qed.

  Lemma inv_cmp : forall t, Inv t -> Inv (fst (a_cmp M t)) /\ (a_mu M (fst (a_cmp M t)) <= a_mu M t)%nat.
  Proof. intros t H. destruct (Hinv t H) as (_ & _ & _ & Cm & _). cbv zeta in Cm. exact Cm. Qed.

  Lemma inv_eds : forall t, Inv t -> Inv (a_eds M t) /\ (a_mu M (a_eds M t) <= a_mu M t)%nat.
  Proof. intros t H. destruct (Hinv t H) as (_ & _ & _ & _ & E). cbv zeta in E. exact E. Qed.

  Lemma inv_err : forall t, Inv t -> a_err M t = false.
  Proof. intros t H. destruct (Hinv t H) as (E & _). exact E. Qed.

  Lemma g_hnz_inv : forall fuel s, Inv s ->
    Inv (fst (g_hnz M fuel s)) /\ (a_mu M (fst (g_hnz M fuel s)) <= a_mu M s)%nat.
  Proof.
    induction fuel as [|fuel IH]; intros s H.
    - cbn [g_hnz]. cbv zeta.
      destruct (inv_bnd s H) as (I1 & M1 & _). destruct (inv_bnd _ I1) as (I2 & M2 & _).
      destruct (inv_bnd _ I2) as (I3 & M3 & _).
      destruct (fst (snd (a_bnd M s)) =? snd (snd (a_bnd M s))); cbn [fst snd]; [split; [exact I2|lia]|].
      destruct (fst (snd (a_bnd M (fst (a_bnd M s)))) <=? 0); cbn [fst snd]; split; try assumption; lia.
    - cbn [g_hnz]. cbv zeta.
      destruct (inv_bnd s H) as (I1 & M1 & _). destruct (inv_bnd _ I1) as (I2 & M2 & _).
      destruct (inv_bnd _ I2) as (I3 & M3 & _).
      destruct (fst (snd (a_bnd M s)) =? snd (snd (a_bnd M s))); cbn [fst snd]; [split; [exact I2|lia]|].
      destruct (fst (snd (a_bnd M (fst (a_bnd M s)))) <=? 0); cbn [fst snd]; [|split; [exact I3|lia]].
      destruct (inv_tig _ I2) as (I4 & _). pose proof (inv_tig_mu _ I2) as M4.
      destruct (snd (a_tig M (fst (a_bnd M (fst (a_bnd M s)))))).
      + destruct (IH _ I4) as (I5 & M5). split; [exact I5|lia].
      + destruct (inv_bnd _ I4) as (I5 & M5 & _). cbn [fst snd]. split; [exact I5|lia].
  Qed.

  Lemma g_step_inv : forall s o, Inv s -> Inv (g_step M s o) /\ (a_mu M (g_step M s o) <= a_mu M s)%nat.
  Proof.
    intros s o H. destruct o; cbn [g_step].
    - destruct (inv_bnd s H) as (I & Mu & _). auto.
    - split; [apply (inv_tig s H)|apply (inv_tig_mu s H)].
    - apply (inv_cmp s H).
    - auto.
    - apply (inv_eds s H).
    - apply (g_hnz_inv _ s H).
  Qed.

  Lemma g_run_inv : forall h s, Inv s -> Inv (g_run M h s).
  Proof.
    induction h as [|o h IH]; intros s H; [exact H|]. cbn [g_run fold_left]. apply IH. apply (g_step_inv s o H).
  Qed.

  Lemma g_idiom_inv : forall fuel s, Inv s -> Inv (g_idiom M fuel s).
  Proof.
    induction fuel as [|fuel IH]; intros s H; cbn [g_idiom]; cbv zeta;
      destruct (inv_cmp s H) as (I1 & _); destruct (snd (a_cmp M s)); try exact I1.
    destruct (inv_tig _ I1) as (I2 & _). destruct (snd (a_tig M (fst (a_cmp M s)))); [apply IH; exact I2|exact I2].
  Qed.

  Lemma g_tighten_def_spec : forall fuel s, Inv s -> (a_mu M s < fuel)%nat ->
    Inv (g_tighten_def M fuel s) /\ a_bnd M (g_tighten_def M fuel s) = (g_tighten_def M fuel s, (v, v)).
  Proof.
    induction fuel as [|fuel IH]; intros s H Hf; [lia|]. cbn [g_tighten_def]. cbv zeta.
    destruct (inv_bnd s H) as (I1 & M1 & D1 & Id1).
    destruct (fst (snd (a_bnd M s)) =? snd (snd (a_bnd M s))) eqn:E.
    - apply Z.eqb_eq in E. split; [exact I1|]. rewrite Id1, (D1 E). reflexivity.
    - destruct (inv_tig _ I1) as (I2 & T1 & T2).
      destruct (snd (a_tig M (fst (a_bnd M s)))).
      + apply IH; [exact I2|]. specialize (T1 eq_refl). lia.
      + split; [exact I2|]. apply T2. reflexivity.
  Qed.

  Theorem g_final : forall s, Inv s -> g_final_cost M s = Some v.
  Proof.
    intros s H. unfold g_final_cost. cbv zeta.
    pose proof (g_idiom_inv (S (a_mu M s)) s H) as I0.
    destruct (g_tighten_def_spec (S (a_mu M (g_idiom M (S (a_mu M s)) s))) _ I0 ltac:(lia)) as (I1 & B1).
    rewrite B1. cbn [fst snd]. rewrite (inv_err _ I1). rewrite Z.eqb_refl. reflexivity.
  Qed.
End Gen.

(* every history: no call raises and the final cost is the contract's value *)
Theorem contract_history : forall M s v, AContract M s v ->
  forall h, a_err M (g_run M h s) = false /\ g_final_cost M (g_run M h s) = Some v.
Proof.
  intros M s v (Inv & H0 & Hinv) h.
  pose proof (g_run_inv M Inv v Hinv h s H0) as I.
  split; [apply (inv_err M Inv v Hinv _ I)|apply (g_final M Inv v Hinv _ I)].
Qed.

(* the contract is kept by every history *)
Theorem contract_kept : forall M s v, AContract M s v -> forall h, AContract M (g_run M h s) v.
Proof.
  intros M s v (Inv & H0 & Hinv) h. exists Inv. split; [apply (g_run_inv M Inv v Hinv h s H0)|exact Hinv].
Qed.
