(* C05: proofs about the API machines of ApiModel.v.
   Part 1 (generic): from the contract AContract (an invariant closed under the public operations on which nothing
           raises, with a measure for tighten_bounds()) follow, for EVERY history of calls: no call raises, and the
           completion idiom followed by the serialiser's reading of the own cost yields the contract's value.
   Part 2: the universal machine's run of a history of calls on the edit is that generic run; class lemmas for
           ConstantCostEdit, KeyValuePairEdit (sum), FixedLengthSequenceEdit (repeat_until_tightened), stated over any
           predicate PC of sub-edits that is closed under the operations.
   Part 3: EditDistance / StringEdit over such sub-edits, for both settings of the status flag: the partial-fill
           invariants of C04 (MachineProofs) reused as state predicates, the three resting states (matrix being built,
           complete but not finalised, finalised and freed), every operation in every state.
   Part 6 (placed before 4): the structural invariant SI and its closure under calls addressed to listed sub-edits.
   Part 4: closing induction over trees (initA).  Part 5: the value is the cost of the big-step script. *)
From Coq Require Import ZArith List Bool Lia Permutation.
Require Import GT.MachineCore GT.MachineMatch.
Require Import GT.PyBase GT.Data GT.EdTypes GT.EdEngine GT.LevModel GTgen.EdGen GT.EdParams GT.ScriptSpec GT.ScriptModel
               GT.EdEngineProofs GT.MachineSpec GT.MachineModel GT.MachineProofs GT.ApiSpec GT.ApiModel.
Import ListNotations.
Open Scope Z_scope.

(* ================================================================ Part 1: histories, generically *)
Section Gen.
  Variable M : amachine.
  Variable Inv : ASt M -> Prop.
  Variable v : Z.
  Hypothesis Hinv : forall t, Inv t -> astep_ok M Inv v t.

  Lemma inv_bnd : forall t, Inv t ->
    Inv (fst (a_bnd M t)) /\ (a_mu M (fst (a_bnd M t)) <= a_mu M t)%nat /\
    (fst (snd (a_bnd M t)) = snd (snd (a_bnd M t)) -> snd (a_bnd M t) = (v, v)) /\
    a_bnd M (fst (a_bnd M t)) = (fst (a_bnd M t), snd (a_bnd M t)).
  Proof.
    intros t H. destruct (Hinv t H) as (_ & B & _). cbv zeta in B. destruct B as (B1 & B2 & B3 & B4).
    split; [exact B1|]. split; [exact B2|]. split; [|exact B4].
    intros E. destruct (snd (a_bnd M t)) as [lo hi]. cbn [fst snd] in *. f_equal; lia.
  Qed.

  Lemma inv_sound : forall t, Inv t -> fst (snd (a_bnd M t)) <= v <= snd (snd (a_bnd M t)).
  Proof. intros t H. destruct (Hinv t H) as (_ & B & _). cbv zeta in B. apply B. Qed.

  Lemma inv_tig : forall t, Inv t ->
    Inv (fst (a_tig M t)) /\ (snd (a_tig M t) = true -> (a_mu M (fst (a_tig M t)) < a_mu M t)%nat) /\
    (snd (a_tig M t) = false -> (a_mu M (fst (a_tig M t)) <= a_mu M t)%nat /\
                                a_bnd M (fst (a_tig M t)) = (fst (a_tig M t), (v, v))).
  Proof.
    intros t H. destruct (Hinv t H) as (_ & _ & T & _). cbv zeta in T. destruct T as (T1 & T2 & T3).
    split; [exact T1|]. split; [exact T2|]. intros E. split; apply (T3 E).
  Qed.

  Lemma inv_tig_strict : forall t, Inv t -> snd (a_tig M t) = false -> snd (a_bnd M t) = (v, v).
  Proof. intros t H E. destruct (Hinv t H) as (_ & _ & T & _). cbv zeta in T. apply T. exact E. Qed.

  Lemma inv_tig_mu : forall t, Inv t -> (a_mu M (fst (a_tig M t)) <= a_mu M t)%nat.
  Proof.
    intros t H. destruct (inv_tig t H) as (_ & T1 & T2). destruct (snd (a_tig M t)).
    - specialize (T1 eq_refl). lia.
    - apply T2. reflexivity.
  Qed.

  Lemma inv_cmp : forall t, Inv t -> Inv (fst (a_cmp M t)) /\ (a_mu M (fst (a_cmp M t)) <= a_mu M t)%nat.
  Proof. intros t H. destruct (Hinv t H) as (_ & _ & _ & Cm & _). cbv zeta in Cm. exact Cm. Qed.

  Lemma inv_eds : forall t, Inv t -> Inv (a_eds M t) /\ (a_mu M (a_eds M t) <= a_mu M t)%nat.
  Proof. intros t H. destruct (Hinv t H) as (_ & _ & _ & _ & E). cbv zeta in E. exact E. Qed.

  Lemma inv_err : forall t, Inv t -> a_err M t = false.
  Proof. intros t H. destruct (Hinv t H) as (E & _). exact E. Qed.

  Lemma g_hnz_inv : forall fuel s, Inv s ->
    Inv (fst (g_hnz M fuel s)) /\ (a_mu M (fst (g_hnz M fuel s)) <= a_mu M s)%nat.
  Proof.
    induction fuel as [|fuel IH]; intros s H.
    - cbn [g_hnz]. cbv zeta.
      destruct (inv_bnd s H) as (I1 & M1 & _). destruct (inv_bnd _ I1) as (I2 & M2 & _).
      destruct (inv_bnd _ I2) as (I3 & M3 & _).
      destruct (fst (snd (a_bnd M s)) =? snd (snd (a_bnd M s))); cbn [fst snd]; [split; [exact I2|lia]|].
      destruct (fst (snd (a_bnd M (fst (a_bnd M s)))) <=? 0); cbn [fst snd]; split; try assumption; lia.
    - cbn [g_hnz]. cbv zeta.
      destruct (inv_bnd s H) as (I1 & M1 & _). destruct (inv_bnd _ I1) as (I2 & M2 & _).
      destruct (inv_bnd _ I2) as (I3 & M3 & _).
      destruct (fst (snd (a_bnd M s)) =? snd (snd (a_bnd M s))); cbn [fst snd]; [split; [exact I2|lia]|].
      destruct (fst (snd (a_bnd M (fst (a_bnd M s)))) <=? 0); cbn [fst snd]; [|split; [exact I3|lia]].
      destruct (inv_tig _ I2) as (I4 & _). pose proof (inv_tig_mu _ I2) as M4.
      destruct (snd (a_tig M (fst (a_bnd M (fst (a_bnd M s)))))).
      + destruct (IH _ I4) as (I5 & M5). split; [exact I5|lia].
      + destruct (inv_bnd _ I4) as (I5 & M5 & _). cbn [fst snd]. split; [exact I5|lia].
  Qed.

  Lemma g_step_inv : forall s o, Inv s -> Inv (g_step M s o) /\ (a_mu M (g_step M s o) <= a_mu M s)%nat.
  Proof.
    intros s o H. destruct o; cbn [g_step].
    - destruct (inv_bnd s H) as (I & Mu & _). auto.
    - split; [apply (inv_tig s H)|apply (inv_tig_mu s H)].
    - apply (inv_cmp s H).
    - auto.
    - apply (inv_eds s H).
    - apply (g_hnz_inv _ s H).
  Qed.

  Lemma g_run_inv : forall h s, Inv s -> Inv (g_run M h s).
  Proof.
    induction h as [|o h IH]; intros s H; [exact H|]. cbn [g_run fold_left]. apply IH. apply (g_step_inv s o H).
  Qed.

  Lemma g_idiom_inv : forall fuel s, Inv s -> Inv (g_idiom M fuel s).
  Proof.
    induction fuel as [|fuel IH]; intros s H; cbn [g_idiom]; cbv zeta;
      destruct (inv_cmp s H) as (I1 & _); destruct (snd (a_cmp M s)); try exact I1.
    destruct (inv_tig _ I1) as (I2 & _). destruct (snd (a_tig M (fst (a_cmp M s)))); [apply IH; exact I2|exact I2].
  Qed.

  Lemma g_tighten_def_spec : forall fuel s, Inv s -> (a_mu M s < fuel)%nat ->
    Inv (g_tighten_def M fuel s) /\ a_bnd M (g_tighten_def M fuel s) = (g_tighten_def M fuel s, (v, v)).
  Proof.
    induction fuel as [|fuel IH]; intros s H Hf; [lia|]. cbn [g_tighten_def]. cbv zeta.
    destruct (inv_bnd s H) as (I1 & M1 & D1 & Id1).
    destruct (fst (snd (a_bnd M s)) =? snd (snd (a_bnd M s))) eqn:E.
    - apply Z.eqb_eq in E. split; [exact I1|]. rewrite Id1, (D1 E). reflexivity.
    - destruct (inv_tig _ I1) as (I2 & T1 & T2).
      destruct (snd (a_tig M (fst (a_bnd M s)))).
      + apply IH; [exact I2|]. specialize (T1 eq_refl). lia.
      + split; [exact I2|]. apply T2. reflexivity.
  Qed.

  Theorem g_final : forall s, Inv s -> g_final_cost M s = Some v.
  Proof.
    intros s H. unfold g_final_cost. cbv zeta.
    pose proof (g_idiom_inv (S (a_mu M s)) s H) as I0.
    destruct (g_tighten_def_spec (S (a_mu M (g_idiom M (S (a_mu M s)) s))) _ I0 ltac:(lia)) as (I1 & B1).
    rewrite B1. cbn [fst snd]. rewrite (inv_err _ I1). rewrite Z.eqb_refl. reflexivity.
  Qed.
End Gen.

(* every history: no call raises and the final cost is the contract's value *)
Theorem contract_history : forall M s v, AContract M s v ->
  forall h, a_err M (g_run M h s) = false /\ g_final_cost M (g_run M h s) = Some v.
Proof.
  intros M s v (Inv & H0 & Hinv) h.
  pose proof (g_run_inv M Inv v Hinv h s H0) as I.
  split; [apply (inv_err M Inv v Hinv _ I)|apply (g_final M Inv v Hinv _ I)].
Qed.

(* the contract is kept by every history *)
Theorem contract_kept : forall M s v, AContract M s v -> forall h, AContract M (g_run M h s) v.
Proof.
  intros M s v (Inv & H0 & Hinv) h. exists Inv. split; [apply (g_run_inv M Inv v Hinv h s H0)|exact Hinv].
Qed.

(* ================================================================ Part 2: the universal machine of ApiModel.v *)
Lemma hnz_generic : forall q d fuel s, hnz q d fuel s = g_hnz (AM q d) fuel s.
Proof.
  intros q d. induction fuel as [|fuel IH]; intros s; cbn [hnz g_hnz AM a_bnd a_tig]; cbv zeta; unfold zdefb.
  - reflexivity.
  - rewrite IH. reflexivity.
Qed.

Lemma idiom_generic : forall q d fuel s, idiom q d fuel s = g_idiom (AM q d) fuel s.
Proof.
  intros q d. induction fuel as [|fuel IH]; intros s; cbn [idiom g_idiom AM a_cmp a_tig]; cbv zeta.
  - reflexivity.
  - rewrite IH. reflexivity.
Qed.

Lemma tighten_def_generic : forall q d fuel s, tighten_def q d fuel s = g_tighten_def (AM q d) fuel s.
Proof.
  intros q d. induction fuel as [|fuel IH]; intros s; cbn [tighten_def g_tighten_def AM a_bnd a_tig]; cbv zeta; unfold zdefb.
  - reflexivity.
  - rewrite IH. reflexivity.
Qed.

Lemma finish_cost_generic : forall q d s, finish_cost q d s = g_final_cost (AM q d) s.
Proof.
  intros q d s. unfold finish_cost, final_cost_of, g_final_cost. cbv zeta.
  rewrite idiom_generic, tighten_def_generic. reflexivity.
Qed.

Lemma apply_op_fst : forall q d o s, fst (apply_op q d o s) = g_step (AM q d) s o.
Proof.
  intros q d o s. unfold apply_op. cbv zeta.
  match goal with |- fst (if errA (fst ?r) then _ else _) = _ => destruct (errA (fst r)); cbn [fst] end;
    destruct o; cbn [g_step AM a_bnd a_tig a_cmp a_eds a_mu fst]; try reflexivity; rewrite hnz_generic; reflexivity.
Qed.

Lemma apply_op_err : forall q d o s, is_err (snd (apply_op q d o s)) = errA (fst (apply_op q d o s)).
Proof.
  intros q d o s. unfold apply_op. cbv zeta.
  match goal with |- is_err (snd (if errA (fst ?r) then _ else _)) = _ => destruct (errA (fst r)) eqn:E end.
  - cbn [fst snd is_err]. symmetry. exact E.
  - rewrite E. destruct o; cbn [snd is_err]; try reflexivity.
    destruct (snd (listing q d s)); reflexivity.
Qed.

Definition root (o : bop) : call := ([], o).

(* Every history of calls on the root edit: the model's run is the generic run, no outcome is an error, every call is
   answered, and completion yields the contract's value. *)
Theorem model_root_history : forall q d s v, AContract (AM q d) s v -> forall h : list bop,
  fst (run_hist q d (map root h) s) = g_run (AM q d) h s /\
  existsb is_err (snd (run_hist q d (map root h) s)) = false /\
  length (snd (run_hist q d (map root h) s)) = length h /\
  finish_cost q d (fst (run_hist q d (map root h) s)) = Some v.
Proof.
  intros q d s v HC h. revert s HC. induction h as [|o h IH]; intros s HC.
  - cbn [map run_hist fst snd g_run fold_left existsb length]. repeat split.
    rewrite finish_cost_generic. apply (proj2 (contract_history _ _ _ HC [])).
  - cbn [map run_hist]. cbv zeta. unfold step, root. cbn [fst snd nav].
    pose proof (apply_op_fst q d o s) as Ef. pose proof (apply_op_err q d o s) as Ee.
    pose proof (contract_kept _ _ _ HC [o]) as HC1. cbn [g_run fold_left] in HC1.
    pose proof (proj1 (contract_history _ _ _ HC [o])) as Er. cbn [g_run fold_left AM a_err] in Er.
    rewrite Ef in Ee. rewrite Er in Ee. rewrite Ee. rewrite Ef.
    destruct (IH _ HC1) as (I1 & I2 & I3 & I4).
    cbn [fst snd g_run fold_left existsb length]. rewrite Ee. cbn [orb].
    repeat split; try assumption. f_equal. exact I3.
Qed.

(* ---------------------------------------------------------------- consequences of a contract, one operation at a time *)
Lemma ac_err : forall M x v, AContract M x v -> a_err M x = false.
Proof. intros M x v (Inv & H0 & Hinv). apply (inv_err M Inv v Hinv x H0). Qed.

Lemma ac_bnd : forall M x v, AContract M x v ->
  AContract M (fst (a_bnd M x)) v /\ (a_mu M (fst (a_bnd M x)) <= a_mu M x)%nat /\
  fst (snd (a_bnd M x)) <= v <= snd (snd (a_bnd M x)) /\
  a_bnd M (fst (a_bnd M x)) = (fst (a_bnd M x), snd (a_bnd M x)).
Proof.
  intros M x v (Inv & H0 & Hinv). destruct (inv_bnd M Inv v Hinv x H0) as (I & Mu & _ & Id).
  split; [exists Inv; split; assumption|]. split; [exact Mu|]. split; [apply (inv_sound M Inv v Hinv x H0)|exact Id].
Qed.

Lemma ac_tig : forall M x v, AContract M x v ->
  AContract M (fst (a_tig M x)) v /\ (snd (a_tig M x) = true -> (a_mu M (fst (a_tig M x)) < a_mu M x)%nat) /\
  (snd (a_tig M x) = false -> (a_mu M (fst (a_tig M x)) <= a_mu M x)%nat /\
                              a_bnd M (fst (a_tig M x)) = (fst (a_tig M x), (v, v)) /\ snd (a_bnd M x) = (v, v)).
Proof.
  intros M x v (Inv & H0 & Hinv). destruct (inv_tig M Inv v Hinv x H0) as (I & T1 & T2).
  split; [exists Inv; split; assumption|]. split; [exact T1|]. intros E. destruct (T2 E) as [A B].
  split; [exact A|]. split; [exact B|]. apply (inv_tig_strict M Inv v Hinv x H0 E).
Qed.

Lemma ac_cmp : forall M x v, AContract M x v ->
  AContract M (fst (a_cmp M x)) v /\ (a_mu M (fst (a_cmp M x)) <= a_mu M x)%nat.
Proof.
  intros M x v (Inv & H0 & Hinv). destruct (inv_cmp M Inv v Hinv x H0) as (I & Mu).
  split; [exists Inv; split; assumption|exact Mu].
Qed.

Lemma ac_step : forall M x v, AContract M x v -> astep_ok M (fun t => AContract M t v) v x.
Proof.
  intros M x v H. destruct (ac_bnd _ _ _ H) as (B1 & B2 & B3 & B4). destruct (ac_tig _ _ _ H) as (T1 & T2 & T3).
  destruct (ac_cmp _ _ _ H) as (C1 & C2). pose proof (ac_err _ _ _ H) as E.
  destruct H as (Inv & H0 & Hinv). destruct (inv_eds M Inv v Hinv x H0) as (E1 & E2).
  unfold astep_ok. cbv zeta. split; [exact E|]. split; [split; [exact B1|split; [exact B2|split; [exact B3|exact B4]]]|].
  split; [split; [exact T1|split; [exact T2|exact T3]]|].
  split; [split; assumption|]. split; [exists Inv; split; assumption|exact E2].
Qed.

(* the same consequences from any predicate that is closed under the operations *)
Section PStep.
  Variable M : amachine.
  Variable PC : ASt M -> Z -> Prop.
  Hypothesis HPC : forall x v, PC x v -> astep_ok M (fun t => PC t v) v x.

  Lemma p_ac : forall x v, PC x v -> AContract M x v.
  Proof. intros x v H. exists (fun t => PC t v). split; [exact H|]. intros t Ht. apply HPC. exact Ht. Qed.
  Lemma p_err : forall x v, PC x v -> a_err M x = false.
  Proof. intros x v H. apply (ac_err M x v). apply p_ac. exact H. Qed.
  Lemma p_bnd : forall x v, PC x v ->
    PC (fst (a_bnd M x)) v /\ (a_mu M (fst (a_bnd M x)) <= a_mu M x)%nat /\
    fst (snd (a_bnd M x)) <= v <= snd (snd (a_bnd M x)) /\
    a_bnd M (fst (a_bnd M x)) = (fst (a_bnd M x), snd (a_bnd M x)).
  Proof. intros x v H. destruct (HPC x v H) as (_ & B & _). cbv zeta in B. exact B. Qed.
  Lemma p_tig : forall x v, PC x v ->
    PC (fst (a_tig M x)) v /\ (snd (a_tig M x) = true -> (a_mu M (fst (a_tig M x)) < a_mu M x)%nat) /\
    (snd (a_tig M x) = false -> (a_mu M (fst (a_tig M x)) <= a_mu M x)%nat /\
                                a_bnd M (fst (a_tig M x)) = (fst (a_tig M x), (v, v)) /\ snd (a_bnd M x) = (v, v)).
  Proof. intros x v H. destruct (HPC x v H) as (_ & _ & T & _). cbv zeta in T. exact T. Qed.
  Lemma p_cmp : forall x v, PC x v -> PC (fst (a_cmp M x)) v /\ (a_mu M (fst (a_cmp M x)) <= a_mu M x)%nat.
  Proof. intros x v H. destruct (HPC x v H) as (_ & _ & _ & Cm & _). cbv zeta in Cm. exact Cm. Qed.
End PStep.

(* ---------------------------------------------------------------- unfolding the universal machine *)
Lemma bnd_const : forall q d c t, k_bnd (opsA q d) (AConst c t) = (AConst c t, (c, c)).
Proof. intros q [|d]; reflexivity. Qed.
Lemma tig_const : forall q d c t, k_tig (opsA q d) (AConst c t) = (AConst c t, false).
Proof. intros q [|d]; reflexivity. Qed.
Lemma cmp_const : forall q d c t, k_cmp (opsA q d) (AConst c t) = (AConst c t, true).
Proof. intros q [|d]; reflexivity. Qed.
Lemma bnd_sum : forall q d l, k_bnd (opsA q (S d)) (ASum l) = (ASum (fst (sum_bnd (opsA q d) l)), snd (sum_bnd (opsA q d) l)).
Proof. reflexivity. Qed.
Lemma tig_sum : forall q d l,
  k_tig (opsA q (S d)) (ASum l) = (ASum (fst (first_true (k_tig (opsA q d)) l)), snd (first_true (k_tig (opsA q d)) l)).
Proof. reflexivity. Qed.
Lemma cmp_sum : forall q d l,
  k_cmp (opsA q (S d)) (ASum l) = (fst (k_bnd (opsA q (S d)) (ASum l)), zdefb (snd (k_bnd (opsA q (S d)) (ASum l)))).
Proof. reflexivity. Qed.

Lemma nat_sum_cons : forall a l, nat_sum (a :: l) = (a + nat_sum l)%nat.
Proof. reflexivity. Qed.
Lemma zsum_cons : forall a l, zsum (a :: l) = a + zsum l.
Proof. reflexivity. Qed.

Lemma amax_ge : forall l x, In x l -> (x <= ApiModel.nat_max_list l)%nat.
Proof.
  induction l as [|y l IH]; intros x H; [destruct H|]. cbn [ApiModel.nat_max_list]. destruct H as [->|H]; [lia|].
  specialize (IH x H). lia.
Qed.

Definition Good (q : bool) (s : ast) (v : Z) : Prop := forall d, (aheight s <= d)%nat -> AContract (AM q d) s v.

(* ---------------------------------------------------------------- ConstantCostEdit *)
Theorem good_const : forall q c t, Good q (AConst c t) c.
Proof.
  intros q c t d _.
  exists (fun s => s = AConst c t). split; [reflexivity|]. intros s ->.
  unfold astep_ok. cbn [AM a_bnd a_tig a_cmp a_eds a_err a_mu]. rewrite bnd_const, tig_const, cmp_const.
  cbn [fst snd errA muA listing]. repeat split; intros; try reflexivity; try lia; try discriminate; apply bnd_const.
Qed.

(* ---------------------------------------------------------------- lists of sub-edits under a contract *)
Section Lists.
  Variable q : bool.
  Variable d : nat.
  Notation CM := (AM q d).
  Notation C := (opsA q d).
  Variable PC : ast -> Z -> Prop.
  Hypothesis HPC : forall x v, PC x v -> astep_ok (AM q d) (fun t => PC t v) v x.

  Definition pts (vs : list Z) : list zr := map (fun v => (v, v)) vs.
  Lemma zr_sum_pts : forall vs, zr_sum (pts vs) = (zsum vs, zsum vs).
  Proof.
    unfold pts, zr_sum. induction vs as [|v vs IH]; [reflexivity|]. cbn [map fold_right zsum]. rewrite IH. reflexivity.
  Qed.

  Lemma f2_err : forall l vs, Forall2 (PC) l vs -> existsb errA l = false.
  Proof.
    induction 1 as [|x v l vs Hx _ IH]; [reflexivity|]. cbn [existsb]. rewrite IH.
    pose proof (p_err CM PC HPC _ _ Hx) as E. cbn [AM ASt a_err] in E. rewrite E. reflexivity.
  Qed.

  Lemma thread_bnd_spec : forall l vs, Forall2 (PC) l vs ->
    Forall2 (PC) (fst (thread (k_bnd C) l)) vs /\
    (nat_sum (map muA (fst (thread (k_bnd C) l))) <= nat_sum (map muA l))%nat /\
    fst (zr_sum (snd (thread (k_bnd C) l))) <= zsum vs <= snd (zr_sum (snd (thread (k_bnd C) l))) /\
    thread (k_bnd C) (fst (thread (k_bnd C) l)) = thread (k_bnd C) l.
  Proof.
    induction 1 as [|x v l vs Hx _ IH].
    - cbn [thread fst snd map nat_sum fold_right]. unfold zr_sum, zsum. cbn [fold_right fst snd].
      split; [constructor|]. split; [lia|]. split; [lia|reflexivity].
    - destruct IH as (I1 & I2 & I3 & I4). destruct (p_bnd CM PC HPC _ _ Hx) as (B1 & B2 & B3 & B4).
      cbn [AM ASt a_bnd a_mu] in B2, B3, B4. cbn [thread]. cbv zeta. cbn [fst snd map].
      rewrite !nat_sum_cons, zr_sum_cons, zsum_cons.
      split; [constructor; assumption|]. split; [lia|]. split.
      + unfold zr_add. cbn [fst snd]. lia.
      + cbn [thread]. cbv zeta. rewrite B4. cbn [fst snd]. rewrite I4. reflexivity.
  Qed.

  Lemma thread_fixed : forall l rs, Forall2 (fun x r => k_bnd C x = (x, r)) l rs -> thread (k_bnd C) l = (l, rs).
  Proof.
    induction 1 as [|x r l rs Hx _ IH]; [reflexivity|]. cbn [thread]. cbv zeta. rewrite Hx, IH. reflexivity.
  Qed.

  Lemma first_true_spec : forall l vs, Forall2 (PC) l vs ->
    Forall2 (PC) (fst (first_true (k_tig C) l)) vs /\
    (snd (first_true (k_tig C) l) = true ->
     (nat_sum (map muA (fst (first_true (k_tig C) l))) < nat_sum (map muA l))%nat) /\
    (snd (first_true (k_tig C) l) = false ->
     (nat_sum (map muA (fst (first_true (k_tig C) l))) <= nat_sum (map muA l))%nat /\
     thread (k_bnd C) (fst (first_true (k_tig C) l)) = (fst (first_true (k_tig C) l), pts vs) /\
     snd (thread (k_bnd C) l) = pts vs).
  Proof.
    induction 1 as [|x v l vs Hx Hl IH].
    - cbn. repeat split; try constructor; intros; try discriminate; lia.
    - destruct IH as (I1 & I2 & I3). destruct (p_tig CM PC HPC _ _ Hx) as (T1 & T2 & T3).
      cbn [AM ASt a_tig a_bnd a_mu] in T2, T3. cbn [first_true]. cbv zeta.
      destruct (snd (k_tig C x)) eqn:E; cbn [fst snd map]; rewrite !nat_sum_cons.
      + split; [constructor; assumption|]. split; [intros _; specialize (T2 eq_refl); lia|discriminate].
      + destruct (T3 eq_refl) as (M1 & B1 & B0).
        split; [constructor; assumption|]. split.
        * intros E2. specialize (I2 E2). lia.
        * intros E2. destruct (I3 E2) as (J1 & J2 & J3). split; [lia|]. split.
          -- cbn [thread]. cbv zeta. rewrite B1, J2. reflexivity.
          -- cbn [thread]. cbv zeta. cbn [snd]. rewrite B0, J3. reflexivity.
  Qed.

  Lemma thread_all_spec : forall l vs, Forall2 (PC) l vs ->
    Forall2 (PC) (fst (thread_all (k_cmp C) l)) vs /\
    (nat_sum (map muA (fst (thread_all (k_cmp C) l))) <= nat_sum (map muA l))%nat.
  Proof.
    induction 1 as [|x v l vs Hx Hl IH].
    - cbn. split; [constructor|lia].
    - destruct IH as (I1 & I2). destruct (p_cmp CM PC HPC _ _ Hx) as (C1 & C2). cbn [AM ASt a_cmp a_mu] in C2.
      cbn [thread_all]. cbv zeta. destruct (snd (k_cmp C x)); cbn [fst snd map]; rewrite !nat_sum_cons.
      + split; [constructor; assumption|lia].
      + split; [constructor; assumption|lia].
  Qed.
End Lists.

(* ---------------------------------------------------------------- KeyValuePairEdit (component-wise sum) *)
Lemma sum_step : forall q d (PC : ast -> Z -> Prop), (forall x v, PC x v -> astep_ok (AM q d) (fun t => PC t v) v x) ->
  forall vs l, Forall2 PC l vs ->
  astep_ok (AM q (S d)) (fun t => exists l', t = ASum l' /\ Forall2 PC l' vs) (zsum vs) (ASum l).
Proof.
  intros q d PC HPC vs l H. unfold astep_ok. cbn [AM a_bnd a_tig a_cmp a_eds a_err a_mu].
  destruct (thread_bnd_spec q d PC HPC l vs H) as (B1 & B2 & B3 & B4).
  assert (Hb : let t' := fst (k_bnd (opsA q (S d)) (ASum l)) in let r := snd (k_bnd (opsA q (S d)) (ASum l)) in
               (exists l', t' = ASum l' /\ Forall2 PC l' vs) /\ (muA t' <= muA (ASum l))%nat /\
               fst r <= zsum vs <= snd r /\ k_bnd (opsA q (S d)) t' = (t', r)).
  { rewrite bnd_sum. unfold sum_bnd. cbv zeta. cbn [fst snd muA].
    split; [eexists; split; [reflexivity|exact B1]|]. split; [exact B2|]. split; [exact B3|].
    rewrite bnd_sum. unfold sum_bnd. cbv zeta. rewrite B4. reflexivity. }
  split; [cbn [errA]; apply (f2_err q d PC HPC l vs H)|]. split; [exact Hb|]. split; [|split].
  - rewrite tig_sum. cbn [fst snd muA]. destruct (first_true_spec q d PC HPC l vs H) as (T1 & T2 & T3).
    split; [eexists; split; [reflexivity|exact T1]|]. split; [exact T2|].
    intros E. destruct (T3 E) as (J1 & J2 & J3). split; [exact J1|]. split.
    + rewrite bnd_sum. unfold sum_bnd. cbv zeta. rewrite J2. cbn [fst snd]. rewrite zr_sum_pts. reflexivity.
    + rewrite bnd_sum. unfold sum_bnd. cbv zeta. cbn [snd]. rewrite J3, zr_sum_pts. reflexivity.
  - rewrite cmp_sum. cbn [fst]. cbv zeta in Hb. destruct Hb as (H1 & H2 & _). split; assumption.
  - cbn [listing fst]. split; [eexists; split; [reflexivity|exact H]|lia].
Qed.

Theorem good_sum : forall q l vs, Forall2 (Good q) l vs -> Good q (ASum l) (zsum vs).
Proof.
  intros q l vs H d Hd. cbn [aheight] in Hd. destruct d as [|d]; [lia|].
  assert (Hk : Forall2 (AContract (AM q d)) l vs).
  { assert (Hh : forall x, In x l -> (aheight x <= d)%nat).
    { intros x Hx. pose proof (amax_ge (map aheight l) (aheight x) (in_map aheight l x Hx)). lia. }
    clear Hd. induction H as [|x v l vs Hx _ IH]; constructor.
    - apply Hx. apply Hh. left. reflexivity.
    - apply IH. intros y Hy. apply Hh. right. exact Hy. }
  exists (fun t => exists l', t = ASum l' /\ Forall2 (AContract (AM q d)) l' vs).
  split; [eexists; split; [reflexivity|exact Hk]|]. intros t (l' & -> & Hl').
  apply (sum_step q d (AContract (AM q d)) (ac_step (AM q d))). exact Hl'.
Qed.

(* ---------------------------------------------------------------- FixedLengthSequenceEdit (repeat_until_tightened) *)
Definition fb (q : bool) (d : nat) (rems inss : list Z) (l : list ast) : list ast * zr :=
  let sb := sum_bnd (opsA q d) l in
  let r := snd sb in
  (fst sb, (fst r + zsum rems + zsum inss, snd r + zsum rems + zsum inss)).

Lemma mu_ops : forall q d, k_mu (opsA q d) = muA.
Proof. intros q [|d]; reflexivity. Qed.

Lemma bnd_fixed : forall q d l rems inss err,
  k_bnd (opsA q (S d)) (AFixed l rems inss err) = (AFixed (fst (fb q d rems inss l)) rems inss err, snd (fb q d rems inss l)).
Proof. reflexivity. Qed.
Lemma tig_fixed : forall q d l rems inss err,
  k_tig (opsA q (S d)) (AFixed l rems inss err) =
  (AFixed (fst (fst (arut (fb q d rems inss) (fun l => fst (first_true (k_tig (opsA q d)) l))
                          (S (nat_sum (map (k_mu (opsA q d)) l))) l))) rems inss
          (err || snd (arut (fb q d rems inss) (fun l => fst (first_true (k_tig (opsA q d)) l))
                            (S (nat_sum (map (k_mu (opsA q d)) l))) l)),
   snd (fst (arut (fb q d rems inss) (fun l => fst (first_true (k_tig (opsA q d)) l))
                  (S (nat_sum (map (k_mu (opsA q d)) l))) l))).
Proof. reflexivity. Qed.
Lemma cmp_fixed : forall q d l rems inss err,
  k_cmp (opsA q (S d)) (AFixed l rems inss err) =
  (AFixed (fst (thread_all (k_cmp (opsA q d)) l)) rems inss err, snd (thread_all (k_cmp (opsA q d)) l)).
Proof. reflexivity. Qed.

Section FixedC.
  Variables (q : bool) (d : nat) (rems inss : list Z) (vs : list Z).
  Notation CM := (AM q d).
  Notation C := (opsA q d).
  Variable PC : ast -> Z -> Prop.
  Hypothesis HPC : forall x v, PC x v -> astep_ok (AM q d) (fun t => PC t v) v x.
  Let V := zsum vs + zsum rems + zsum inss.
  Let B := fb q d rems inss.
  Let f := fun l : list ast => fst (first_true (k_tig C) l).

  Lemma fb_spec : forall l, Forall2 (PC) l vs ->
    Forall2 (PC) (fst (B l)) vs /\ (nat_sum (map muA (fst (B l))) <= nat_sum (map muA l))%nat /\
    fst (snd (B l)) <= V <= snd (snd (B l)) /\ B (fst (B l)) = B l.
  Proof.
    intros l H. destruct (thread_bnd_spec q d PC HPC l vs H) as (B1 & B2 & B3 & B4).
    unfold B, fb, sum_bnd. cbv zeta. cbn [fst snd]. split; [exact B1|]. split; [exact B2|]. split; [unfold V; lia|].
    rewrite B4. reflexivity.
  Qed.

  Lemma point_of_sound : forall r : zr, fst r <= V <= snd r -> zdefb r = true -> r = (V, V).
  Proof.
    intros [lo hi] S D. unfold zdefb in D. cbn [fst snd] in *. apply Z.eqb_eq in D. f_equal; lia.
  Qed.

  (* a state whose bounds have just been read and are not a single value: some sub-edit can still be tightened *)
  Lemma stable_first_true : forall l, Forall2 (PC) l vs -> B l = (l, snd (B l)) -> zdefb (snd (B l)) = false ->
    snd (first_true (k_tig C) l) = true.
  Proof.
    intros l H St ND. destruct (first_true_spec q d PC HPC l vs H) as (_ & _ & T3).
    destruct (snd (first_true (k_tig C) l)) eqn:E; [reflexivity|]. exfalso.
    destruct (T3 eq_refl) as (_ & _ & J3).
    unfold B, fb, sum_bnd in ND. cbv zeta in ND. cbn [fst snd] in ND. rewrite J3, zr_sum_pts in ND.
    unfold zdefb in ND. cbn [fst snd] in ND. rewrite Z.eqb_refl in ND. discriminate.
  Qed.

  Lemma arut_loop_spec : forall fuel start l, Forall2 (PC) l vs ->
    B l = (l, snd (B l)) -> zdefb (snd (B l)) = false -> fst start <= V <= snd start ->
    (nat_sum (map muA l) < fuel)%nat ->
    Forall2 (PC) (fst (fst (arut_loop B f fuel start l))) vs /\
    snd (fst (arut_loop B f fuel start l)) = true /\ snd (arut_loop B f fuel start l) = false /\
    (nat_sum (map muA (fst (fst (arut_loop B f fuel start l)))) < nat_sum (map muA l))%nat /\
    B (fst (fst (arut_loop B f fuel start l))) =
    (fst (fst (arut_loop B f fuel start l)), snd (B (fst (fst (arut_loop B f fuel start l))))).
  Proof.
    induction fuel as [|fuel IH]; intros start l H St ND Ss Hf; [lia|].
    cbn [arut_loop]. cbv zeta.
    pose proof (stable_first_true l H St ND) as Ft.
    destruct (first_true_spec q d PC HPC l vs H) as (T1 & T2 & _). specialize (T2 Ft). fold (f l) in T1, T2.
    destruct (fb_spec (f l) T1) as (F1 & F2 & F3 & F4). fold B in F1, F2, F3, F4.
    assert (St1 : B (fst (B (f l))) = (fst (B (f l)), snd (B (fst (B (f l)))))).
    { rewrite F4. destruct (B (f l)); reflexivity. }
    assert (Snd1 : snd (B (fst (B (f l)))) = snd (B (f l))) by (rewrite F4; reflexivity).
    destruct (widened (snd (B (f l))) start) eqn:W.
    - (* widened: cannot be a single value *)
      assert (ND1 : zdefb (snd (B (f l))) = false).
      { destruct (zdefb (snd (B (f l)))) eqn:D; [|reflexivity]. rewrite (point_of_sound _ F3 D) in W.
        unfold widened in W. cbn [fst snd] in W. apply orb_true_iff in W. destruct W as [W|W]; apply Z.ltb_lt in W; lia. }
      destruct (IH start (fst (B (f l))) F1 St1 ltac:(rewrite Snd1; exact ND1) Ss ltac:(lia)) as (R1 & R2 & R3 & R4 & R5).
      repeat split; try assumption. lia.
    - destruct (zdefb (snd (B (f l))) || tighter (snd (B (f l))) start) eqn:G.
      + cbn [fst snd]. repeat split; try assumption; try lia. 
      + apply orb_false_iff in G. destruct G as [ND1 _].
        destruct (IH start (fst (B (f l))) F1 St1 ltac:(rewrite Snd1; exact ND1) Ss ltac:(lia)) as (R1 & R2 & R3 & R4 & R5).
        repeat split; try assumption. lia.
  Qed.

  Lemma fixed_step : forall l, Forall2 (PC) l vs ->
    astep_ok (AM q (S d)) (fun t => exists l', t = AFixed l' rems inss false /\ Forall2 (PC) l' vs) V
             (AFixed l rems inss false).
  Proof.
    intros l H. unfold astep_ok. cbn [AM ASt a_bnd a_tig a_cmp a_eds a_err a_mu].
    destruct (fb_spec l H) as (B1 & B2 & B3 & B4).
    split; [cbn [errA orb]; apply (f2_err q d PC HPC l vs H)|]. split; [|split; [|split]].
    - rewrite bnd_fixed. fold B. cbn [fst snd muA].
      split; [eexists; split; [reflexivity|exact B1]|]. split; [exact B2|]. split; [exact B3|].
      rewrite bnd_fixed. fold B. rewrite B4. reflexivity.
    - rewrite tig_fixed. fold B. fold f. rewrite mu_ops. unfold arut. cbv zeta.
      destruct (zdefb (snd (B l))) eqn:D.
      + cbn [fst snd orb muA]. split; [eexists; split; [reflexivity|exact B1]|]. split; [discriminate|].
        intros _. split; [exact B2|]. rewrite !bnd_fixed. fold B. rewrite B4. cbn [fst snd].
        rewrite (point_of_sound _ B3 D). split; reflexivity.
      + assert (St : B (fst (B l)) = (fst (B l), snd (B (fst (B l))))) by (rewrite B4; destruct (B l); reflexivity).
        assert (ND : zdefb (snd (B (fst (B l)))) = false) by (rewrite B4; exact D).
        destruct (arut_loop_spec (S (nat_sum (map muA l))) (snd (B l)) (fst (B l)) B1 St ND B3 ltac:(lia))
          as (R1 & R2 & R3 & R4 & _).
        rewrite R3. cbn [fst snd orb muA]. split; [eexists; split; [reflexivity|exact R1]|].
        split; [intros _; lia|]. rewrite R2. discriminate.
    - rewrite cmp_fixed. cbn [fst snd muA]. destruct (thread_all_spec q d PC HPC l vs H) as (A1 & A2).
      split; [eexists; split; [reflexivity|exact A1]|exact A2].
    - cbn [listing fst]. split; [eexists; split; [reflexivity|exact H]|lia].
  Qed.
End FixedC.

Theorem good_fixed : forall q l vs rems inss, Forall2 (Good q) l vs ->
  Good q (AFixed l rems inss false) (zsum vs + zsum rems + zsum inss).
Proof.
  intros q l vs rems inss H d Hd. cbn [aheight] in Hd. destruct d as [|d]; [lia|].
  assert (Hk : Forall2 (AContract (AM q d)) l vs).
  { assert (Hh : forall x, In x l -> (aheight x <= d)%nat).
    { intros x Hx. pose proof (amax_ge (map aheight l) (aheight x) (in_map aheight l x Hx)). lia. }
    clear Hd. induction H as [|x v l vs Hx _ IH]; constructor.
    - apply Hx. apply Hh. left. reflexivity.
    - apply IH. intros y Hy. apply Hh. right. exact Hy. }
  exists (fun t => exists l', t = AFixed l' rems inss false /\ Forall2 (AContract (AM q d)) l' vs).
  split; [eexists; split; [reflexivity|exact Hk]|]. intros t (l' & -> & Hl').
  apply (fixed_step q d rems inss vs (AContract (AM q d)) (ac_step (AM q d))). exact Hl'.
Qed.

(* ================================================================ Part 3: EditDistance over sub-edits under a contract
   The partial-fill invariants of C04 (MachineProofs.base / PInv / AInv: the cost cells of the processed diagonals
   are those of the final matrix EdEngine.matrix over the children's final values) are reused as state predicates;
   they are stated over a `machine` of children, which is instantiated by a ghost machine whose bounds are the
   child's final value (fvA: run the child to completion and read its cost).  The child contract proper
   (AContract) is carried separately (KI). *)
Require Import GT.EdFacts.

Definition fvA (q : bool) (d : nat) (x : ast) : Z :=
  match final_cost_of q d x with Some c => c | None => 0 end.

Lemma fvA_contract : forall q d x v, AContract (AM q d) x v -> fvA q d x = v.
Proof.
  intros q d x v (Inv & H0 & Hinv). unfold fvA, final_cost_of. cbv zeta. rewrite tighten_def_generic.
  destruct (g_tighten_def_spec (AM q d) Inv v Hinv (S (muA x)) x H0 ltac:(cbn [AM a_mu]; lia)) as (I1 & B1).
  cbn [AM a_bnd] in B1. rewrite B1. cbn [fst snd]. pose proof (inv_err (AM q d) Inv v Hinv _ I1) as E.
  cbn [AM a_err] in E. rewrite E. unfold zdefb. cbn [fst snd]. rewrite Z.eqb_refl. reflexivity.
Qed.

Definition TM (q : bool) (d : nat) : machine :=
  {| St := ast; bnd := fun x => (fvA q d x, fvA q d x); tig := fun x => (x, false) |}.

Lemma tm_contract : forall q d x v, fvA q d x = v -> ContractV false (TM q d) x v.
Proof.
  intros q d x v E. exists (fun t => t = x). split; [reflexivity|]. intros t ->. unfold step_ok. cbn [TM bnd tig fst snd].
  rewrite E. split; [reflexivity|]. split; [lia|]. split; [apply contains_refl|]. split; [discriminate|].
  intros _. split; [reflexivity|discriminate].
Qed.

Lemma lastpos_tm : forall q d rc ic kids, lastpos (TM q d) rc ic kids.
Proof. intros q d rc ic kids _ _ x _ ND. exfalso. apply ND. reflexivity. Qed.

(* ---------------------------------------------------------------- loops over one child *)
Section KidLoops.
  Variables (q : bool) (d : nat).
  Notation CM := (AM q d).
  Notation C := (opsA q d).
  Variable PC : ast -> Z -> Prop.
  Hypothesis HPC : forall x v, PC x v -> astep_ok (AM q d) (fun t => PC t v) v x.

  Lemma kid_run_spec : forall ft fuel x v, PC x v -> (muA x < fuel)%nat ->
    exists x1, kid_run C ft fuel x = Some x1 /\ PC x1 v /\ k_bnd C x1 = (x1, (v, v)) /\ (muA x1 <= muA x)%nat.
  Proof.
    intros ft. induction fuel as [|fuel IH]; intros x v H Hf; [lia|]. cbn [kid_run]. cbv zeta.
    destruct (p_tig CM PC HPC _ _ H) as (T1 & T2 & T3). cbn [AM ASt a_tig a_bnd a_mu] in T2, T3.
    destruct (snd (k_tig C x)) eqn:E.
    - specialize (T2 eq_refl).
      destruct ft.
      + destruct (p_bnd CM PC HPC _ _ T1) as (B1 & B2 & _). cbn [AM ASt a_bnd a_mu a_tig] in B1, B2.
        destruct (IH _ v B1 ltac:(lia)) as (x1 & E1 & A1 & A2 & A3). exists x1. repeat split; try assumption. lia.
      + destruct (IH _ v T1 ltac:(cbn [AM ASt a_tig]; lia)) as (x1 & E1 & A1 & A2 & A3).
        exists x1. repeat split; try assumption. cbn [AM ASt a_tig] in A3. lia.
    - destruct (T3 eq_refl) as (M1 & B1 & _). exists (fst (k_tig C x)). repeat split; try assumption.
  Qed.

  Lemma kid_run_def_spec : forall fuel x v, PC x v -> (muA x < fuel)%nat ->
    exists x1, kid_run_def C fuel x = Some x1 /\ PC x1 v /\ k_bnd C x1 = (x1, (v, v)) /\ (muA x1 <= muA x)%nat.
  Proof.
    induction fuel as [|fuel IH]; intros x v H Hf; [lia|]. cbn [kid_run_def]. cbv zeta.
    destruct (p_bnd CM PC HPC _ _ H) as (B1 & B2 & B3 & B4). cbn [AM ASt a_bnd a_mu] in B1, B2, B3, B4.
    destruct (zdefb (snd (k_bnd C x))) eqn:D.
    - exists (fst (k_bnd C x)). repeat split; try assumption. rewrite B4. f_equal.
      destruct (snd (k_bnd C x)) as [lo hi]. unfold zdefb in D. cbn [fst snd] in *. apply Z.eqb_eq in D. f_equal; lia.
    - destruct (p_tig CM PC HPC _ _ B1) as (T1 & T2 & T3). cbn [AM ASt a_tig a_bnd a_mu] in T1, T2, T3.
      destruct (snd (k_tig C (fst (k_bnd C x)))) eqn:E.
      + specialize (T2 eq_refl). destruct (IH _ v T1 ltac:(lia)) as (x1 & E1 & A1 & A2 & A3).
        exists x1. repeat split; try assumption. lia.
      + destruct (T3 eq_refl) as (M1 & B5 & _). exists (fst (k_tig C (fst (k_bnd C x)))). repeat split; try assumption. lia.
  Qed.
End KidLoops.

(* ---------------------------------------------------------------- sums over the matrix of children *)
Definition mu2 (kids : list (list ast)) : nat := nat_sum (map (fun row => nat_sum (map muA row)) kids).

Lemma nat_sum_set_nth : forall (f : ast -> nat) l i x y, nth_error l i = Some x ->
  (nat_sum (map f (set_nth i y l)) + f x = nat_sum (map f l) + f y)%nat.
Proof.
  intros f. induction l as [|z l IH]; intros [|i] x y H; cbn [nth_error] in H; try discriminate.
  - injection H as ->. cbn [set_nth map]. rewrite !nat_sum_cons. lia.
  - cbn [set_nth map]. rewrite !nat_sum_cons. specialize (IH i x y H). lia.
Qed.

Lemma mu2_set2 : forall kids r c x y, nth_error (nth r kids []) c = Some x ->
  (mu2 (set2 kids r c y) + muA x = mu2 kids + muA y)%nat.
Proof.
  intros kids r c x y H. unfold mu2, set2.
  assert (Hr : nth_error kids r = Some (nth r kids [])).
  { destruct (nth_error kids r) as [row|] eqn:E.
    - f_equal. symmetry. apply nth_nth_error. exact E.
    - apply nth_error_None in E. rewrite nth_overflow in H by exact E. destruct c; discriminate. }
  revert r Hr H. induction kids as [|row kids IH]; intros [|r] Hr H; cbn [nth_error] in Hr; try discriminate.
  - cbn [nth] in *. cbn [set_nth map]. rewrite !nat_sum_cons. pose proof (nat_sum_set_nth muA row c x y H). lia.
  - cbn [nth] in *. cbn [set_nth map]. rewrite !nat_sum_cons. specialize (IH r Hr H). lia.
Qed.

Lemma mu2_set2_le : forall kids r c x y, nth_error (nth r kids []) c = Some x -> (muA y <= muA x)%nat ->
  (mu2 (set2 kids r c y) <= mu2 kids)%nat.
Proof. intros kids r c x y H L. pose proof (mu2_set2 kids r c x y H). lia. Qed.

Lemma muA_ed : forall sk p q0 e, muA (AED sk p q0 e) =
  match e_done e with Some _ => O | None => (S (S (length (e_ic e) + length (e_rc e))) - e_d e + mu2 (e_kids e))%nat end.
Proof. reflexivity. Qed.

Lemma if_elim : forall (b : bool) {A} (P : A -> Prop) (x y : A), P x -> P y -> P (if b then x else y).
Proof. intros [|] A P x y Hx Hy; assumption. Qed.

Lemma add_border_kids : forall {X} (s : ed X) k, e_kids (add_border s k) = e_kids s.
Proof.
  intros X s k. unfold add_border.
  destruct (Nat.leb 1 k && Nat.leb k (en s)); destruct (Nat.leb 1 k && Nat.leb k (em s)); reflexivity.
Qed.

Section EDC.
  Variables (q : bool) (d : nat).
  Notation CM := (AM q d).
  Notation C := (opsA q d).
  Notation T := (TM q d).
  Variable PC : ast -> Z -> Prop.
  Hypothesis HPC : forall x v, PC x v -> astep_ok (AM q d) (fun t => PC t v) v x.
  Variables (K U : Z) (rc ic : list Z) (mcs : list (list Z)).
  Hypothesis Hd : dims_ok rc ic mcs.
  Hypothesis Hrc : Forall (fun x => 0 <= x) rc.
  Hypothesis Hic : Forall (fun x => 0 <= x) ic.
  Hypothesis Hmc : Forall (Forall (fun x => 0 <= x)) mcs.
  Hypothesis HK0 : 0 <= K.
  Hypothesis HK : K <= lbc rc ic (length ic) (length rc).
  Hypothesis HU : zsum rc + zsum ic <= U.
  Let n := length rc.
  Let m := length ic.
  Notation Mx := (matrix rc ic mcs).
  Let F := cc rc ic mcs m n.

  Notation Base := (base T K U rc ic mcs).
  Notation PI := (PInv T K U rc ic mcs).
  Notation AI := (AInv T K U rc ic mcs).

  Ltac nlia := cbn [TM St AM ASt] in *; unfold m, n in *; lia.

  Definition KI (kids : list (list ast)) : Prop :=
    forall r c x, (r < m)%nat -> (c < n)%nat -> nth_error (nth r kids []) c = Some x -> PC x (mcv mcs r c).

  Definition mu_e (s : ed ast) : nat :=
    match e_done s with Some _ => O | None => (S (S (m + n)) - e_d s + mu2 (e_kids s))%nat end.

  Lemma kid_get : forall (s : ed ast) r c, Base s -> KI (e_kids s) -> (r < m)%nat -> (c < n)%nat ->
    exists x, kid_at s r c = Some x /\ PC x (mcv mcs r c).
  Proof.
    intros s r c B Hk Hr Hc. destruct (kid_lookup T K U rc ic mcs s r c B Hr Hc) as (x & Ex & _).
    exists x. split; [exact Ex|]. apply (Hk r c x Hr Hc). exact Ex.
  Qed.

  (* replacing a child by a state of the same contract *)
  Lemma upd_kid : forall (s : ed ast) k P r c x x', PI s k P -> KI (e_kids s) -> (r < m)%nat -> (c < n)%nat ->
    kid_at s r c = Some x -> PC x' (mcv mcs r c) ->
    PI (set_kid s r c x') k P /\ KI (e_kids (set_kid s r c x')) /\
    (mu2 (e_kids (set_kid s r c x')) + muA x = mu2 (e_kids s) + muA x')%nat.
  Proof.
    intros s k P r c x x' (B & Dn & Lp & Hc) Hk Hr Hcn Ex Hx'.
    pose proof B as (EK & EU & Erc & Eic & Eerr & Kin & [Cl Cr]). pose proof Kin as (Kl & Kr & Kc).
    cbn [TM St AM ASt] in *.
    split; [|split].
    - split; [|split; [exact Dn|split; [apply lastpos_tm|exact Hc]]].
      unfold base. rsimp. repeat split; try assumption.
      + rewrite set2_length. exact Kl.
      + intros r' Hr'. rewrite set2_row_length by nlia. apply Kr. exact Hr'.
      + apply (kids_inv_set T rc ic mcs (e_kids s) r c x' Kin Hr Hcn).
        apply tm_contract. apply fvA_contract. apply (p_ac CM PC HPC). exact Hx'.
    - rsimp. intros r' c' y Hr' Hc' Hy.
      rewrite nth_error_set2 in Hy by (try rewrite (Kr r Hr); nlia).
      destruct (Nat.eqb_spec r' r) as [->|N1]; cbn [andb] in Hy; [|apply (Hk r' c' y Hr' Hc' Hy)].
      destruct (Nat.eqb_spec c' c) as [->|N2]; [injection Hy as <-; exact Hx'|apply (Hk r c' y Hr' Hc' Hy)].
    - rsimp. apply mu2_set2. exact Ex.
  Qed.

  (* ---- one inner cell of the fringe *)
  Lemma fproc_cell_spec : forall ft (s : ed ast) k P r c, PI s k P -> KI (e_kids s) -> (r + c = k)%nat ->
    (1 <= r <= m)%nat -> (1 <= c <= n)%nat -> (k < m + n)%nat ->
    PI (fproc_cell C ft s r c) k (fun r' c' => P r' c' \/ (r' = r /\ c' = c)) /\ KI (e_kids (fproc_cell C ft s r c)) /\
    e_d (fproc_cell C ft s r c) = e_d s /\ (mu2 (e_kids (fproc_cell C ft s r c)) <= mu2 (e_kids s))%nat.
  Proof.
    intros ft s k P r c HP Hk Ek Hr Hcn Hlt. pose proof HP as (B & Dn & Lp & Hc).
    destruct (kid_get s (r - 1) (c - 1) B Hk ltac:(lia) ltac:(lia)) as (x & Ex & Ax).
    cbn [TM St AM ASt] in *. unfold fproc_cell. rewrite Ex. rewrite mu_ops.
    destruct (kid_run_spec q d PC HPC ft (S (muA x)) x _ Ax ltac:(lia)) as (x1 & E1 & A1 & B1 & M1).
    rewrite E1. cbv zeta. rewrite B1. cbn [fst snd]. unfold zdefb. cbn [fst snd]. rewrite Z.eqb_refl.
    assert (Hr2 : (1 <= r <= length ic)%nat) by (unfold m in *; lia).
    assert (Hc2' : (1 <= c <= length rc)%nat) by (unfold n in *; lia).
    pose proof (cell_value_correct T K U rc ic mcs Hd s k P r c _ HP Ek Hr2 Hc2' eq_refl) as CV.
    cbn [TM St] in CV. rewrite CV.
    destruct (upd_kid s k P (r - 1) (c - 1) x x1 HP Hk ltac:(lia) ltac:(lia) Ex A1) as ((B2 & Dn2 & Lp2 & Hc2) & K2 & Mu2).
    pose proof B2 as (EK & EU & Erc & Eic & Eerr & Kin & [Cl Cr]). cbn [TM St AM ASt] in *.
    split; [|split; [exact K2|split; [reflexivity|rsimp; rsimp_in Mu2; lia]]].
    split; [|split; [exact Dn2|split; [apply lastpos_tm|]]].
    - unfold base. rsimp. rsimp_in EK. rsimp_in EU. rsimp_in Erc. rsimp_in Eic. rsimp_in Eerr. rsimp_in Kin. rsimp_in Cl. rsimp_in Cr.
      repeat split; try assumption; try apply Kin.
      + rewrite set2_length. exact Cl.
      + intros r' Hr'. rewrite set2_row_length by nlia. apply Cr. exact Hr'.
    - rsimp. rsimp_in Hc2. rsimp_in Cl. rsimp_in Cr. intros r' c' Hr' Hc' Hcase.
      rewrite cell_at_set2 by (try rewrite (Cr r); nlia).
      destruct (Nat.eqb_spec r' r) as [->|N1]; cbn [andb].
      + destruct (Nat.eqb_spec c' c) as [->|N2]; [reflexivity|]. apply Hc2; try lia; tauto.
      + apply Hc2; try lia; tauto.
  Qed.

  Lemma read_kid_spec : forall (s : ed ast) k P r c, PI s k P -> KI (e_kids s) -> (r < m)%nat -> (c < n)%nat ->
    PI (fst (read_kid C s r c)) k P /\ KI (e_kids (fst (read_kid C s r c))) /\
    e_d (fst (read_kid C s r c)) = e_d s /\ (mu2 (e_kids (fst (read_kid C s r c))) <= mu2 (e_kids s))%nat.
  Proof.
    intros s k P r c HP Hk Hr Hcn. pose proof HP as (B & _).
    destruct (kid_get s r c B Hk Hr Hcn) as (x & Ex & Ax). cbn [TM St AM ASt] in *.
    unfold read_kid. rewrite Ex. cbv zeta. cbn [fst].
    destruct (p_bnd CM PC HPC _ _ Ax) as (B1 & B2 & _). cbn [AM ASt a_bnd a_mu] in B1, B2.
    destruct (upd_kid s k P r c x _ HP Hk Hr Hcn Ex B1) as (P2 & K2 & Mu2).
    split; [exact P2|]. split; [exact K2|]. split; [reflexivity|]. cbn [TM St AM ASt a_bnd a_mu] in *. lia.
  Qed.

  Lemma read_widths_fold : forall l (acc : ed ast * Z) k P, PI (fst acc) k P -> KI (e_kids (fst acc)) ->
    (forall p, In p l -> (fst p <= m)%nat /\ (snd p <= n)%nat) ->
    let res := fold_left (fun acc p =>
                 if Nat.leb 1 (fst p) && Nat.leb 1 (snd p)
                 then let r1 := read_kid C (fst acc) (fst p - 1) (snd p - 1) in
                      let r2 := read_kid C (fst r1) (fst p - 1) (snd p - 1) in
                      (fst r2, snd acc + (snd (snd r1) - fst (snd r2)))
                 else acc) l acc in
    PI (fst res) k P /\ KI (e_kids (fst res)) /\ e_d (fst res) = e_d (fst acc) /\
    (mu2 (e_kids (fst res)) <= mu2 (e_kids (fst acc)))%nat.
  Proof.
    induction l as [|[r0 c0] l IH]; intros acc k P HP Hk Hl; cbn zeta.
    - cbn [fold_left]. split; [exact HP|]. split; [exact Hk|]. split; [reflexivity|apply le_n].
    - cbn [fold_left fst snd]. destruct (Hl (r0, c0) (or_introl eq_refl)) as (Hr0 & Hc0). cbn [fst snd] in *.
      assert (Hl' : forall p, In p l -> (fst p <= m)%nat /\ (snd p <= n)%nat) by (intros p Hp; apply Hl; right; exact Hp).
      destruct (Nat.leb 1 r0 && Nat.leb 1 c0) eqn:E.
      + apply andb_true_iff in E. destruct E as [E1 E2]. apply Nat.leb_le in E1. apply Nat.leb_le in E2.
        destruct (read_kid_spec (fst acc) k P (r0 - 1) (c0 - 1) HP Hk ltac:(lia) ltac:(lia)) as (P1 & K1 & D1 & M1).
        destruct (read_kid_spec _ k P (r0 - 1) (c0 - 1) P1 K1 ltac:(lia) ltac:(lia)) as (P2 & K2 & D2 & M2).
        cbv zeta.
        match goal with |- context [fold_left ?f l ?a] => destruct (IH a k P P2 K2 Hl') as (R1 & R2 & R3 & R4) end.
        cbv zeta in R1, R2, R3, R4. cbn [fst snd] in R3, R4.
        split; [exact R1|]. split; [exact R2|]. cbn [TM St AM ASt] in *.
        split; [etransitivity; [exact R3|]; etransitivity; [exact D2|exact D1]|lia].
      + apply (IH acc k P HP Hk Hl').
  Qed.

  Lemma fproc_fold : forall ft l (s : ed ast) k P, PI s k P -> KI (e_kids s) -> (k < m + n)%nat ->
    (forall p, In p l -> (fst p + snd p = k)%nat /\ (fst p <= m)%nat /\ (snd p <= n)%nat) ->
    let s' := fold_left (fun s p => if Nat.leb 1 (fst p) && Nat.leb 1 (snd p)
                                    then fproc_cell C ft s (fst p) (snd p) else s) l s in
    PI s' k (fun r c => P r c \/ (In (r, c) l /\ (1 <= r)%nat /\ (1 <= c)%nat)) /\ KI (e_kids s') /\
    e_d s' = e_d s /\ (mu2 (e_kids s') <= mu2 (e_kids s))%nat.
  Proof.
    intros ft. induction l as [|[r0 c0] l IH]; intros s k P HP Hk Hlt Hl; cbn zeta.
    - cbn [fold_left]. split; [|split; [exact Hk|split; [reflexivity|apply le_n]]].
      apply (PInv_weaken T K U rc ic mcs s k P); [exact HP|]. intros r c _ _ _ [H|[[] _]]. exact H.
    - cbn [fold_left fst snd]. destruct (Hl (r0, c0) (or_introl eq_refl)) as (E0 & Hr0 & Hc0). cbn [fst snd] in *.
      assert (Hl' : forall p, In p l -> (fst p + snd p = k)%nat /\ (fst p <= m)%nat /\ (snd p <= n)%nat)
        by (intros p Hp; apply Hl; right; exact Hp).
      destruct (Nat.leb 1 r0 && Nat.leb 1 c0) eqn:E.
      + apply andb_true_iff in E. destruct E as [E1 E2]. apply Nat.leb_le in E1. apply Nat.leb_le in E2.
        destruct (fproc_cell_spec ft s k P r0 c0 HP Hk E0 ltac:(lia) ltac:(lia) Hlt) as (HP1 & K1 & Ed1 & M1).
        destruct (IH _ k _ HP1 K1 Hlt Hl') as (HP2 & K2 & Ed2 & M2). cbn zeta in HP2, K2, Ed2, M2.
        cbn [TM St AM ASt] in *.
        split; [|split; [exact K2|split; [etransitivity; [exact Ed2|exact Ed1]|lia]]].
        apply (PInv_weaken T K U rc ic mcs _ k _ _ HP2). intros r c _ _ _ [H|[[H|H] [H1 H2]]].
        * left. left. exact H.
        * injection H as <- <-. left. right. auto.
        * right. auto.
      + destruct (IH _ k _ HP Hk Hlt Hl') as (HP2 & K2 & Ed2 & M2). cbn zeta in HP2, K2, Ed2, M2.
        split; [|split; [exact K2|split; [exact Ed2|exact M2]]].
        apply (PInv_weaken T K U rc ic mcs _ k _ _ HP2). intros r c _ _ _ [H|[[H|H] [H1 H2]]].
        * left. exact H.
        * injection H as <- <-. apply andb_false_iff in E. destruct E as [E|E]; apply Nat.leb_gt in E; lia.
        * right. auto.
  Qed.

  (* one iteration of the loop: diagonal k becomes the fringe and is processed (status reads included) *)
  Lemma fdiag_step : forall (s : ed ast) k, AI s -> KI (e_kids s) -> e_d s = k -> (k < m + n)%nat ->
    let s1 := add_border (set_d s (S k)) k in
    let s2 := if Nat.eqb k 0 then s1 else fproc_diag C q s1 k in
    AI s2 /\ KI (e_kids s2) /\ e_d s2 = S k /\ (mu2 (e_kids s2) <= mu2 (e_kids s))%nat.
  Proof.
    intros s k HA Hk Ek Hlt. cbn zeta.
    destruct (add_border_spec T K U rc ic mcs Hd s k HA Ek ltac:(unfold m, n in *; lia)) as [HP1 Ed1].
    assert (K1 : e_kids (add_border (set_d s (S k)) k) = e_kids s) by (rewrite add_border_kids; reflexivity).
    set (s1 := add_border (set_d s (S k)) k) in *.
    assert (Adv : forall s2 (Q : nat -> nat -> Prop), PI s2 k Q -> e_d s2 = S k ->
                  (forall r c, (r <= m)%nat -> (c <= n)%nat -> (r + c = k)%nat -> Q r c) -> AI s2).
    { intros s2 Q (B & Dn & Lp & Hc) Ed HQ. split; [unfold m, n in *; lia|]. rewrite Ed.
      split; [exact B|]. split; [exact Dn|]. split; [exact Lp|].
      intros r c Hr Hcn [L|[E E0]]; [|lia].
      destruct (Nat.eq_dec (r + c) k) as [Eq|Ne]; apply Hc; auto. left. lia. }
    destruct (Nat.eqb_spec k 0) as [->|Nk].
    - split; [apply (Adv s1 _ HP1 Ed1); intros r c _ _ E; left; lia|]. rewrite K1.
      split; [exact Hk|]. split; [exact Ed1|apply le_n].
    - unfold fproc_diag. cbv zeta. pose proof HP1 as (B1 & _). destruct (base_em T K U rc ic mcs s1 B1) as [Em En].
      cbn [TM St] in Em, En. rewrite Em, En. fold m n.
      assert (Hdiag : forall p, In p (diag m n k) -> (fst p + snd p = k)%nat /\ (fst p <= m)%nat /\ (snd p <= n)%nat).
      { intros [r c] Hi. apply in_diag in Hi. cbn [fst snd]. lia. }
      assert (Hk1 : KI (e_kids s1)) by (rewrite K1; exact Hk).
      (* the status reads *)
      assert (RW : let rw := if q then (s1, 0) else read_widths C s1 k in
                   PI (fst rw) k (fun r c => r = O \/ c = O) /\ KI (e_kids (fst rw)) /\ e_d (fst rw) = S k /\
                   (mu2 (e_kids (fst rw)) <= mu2 (e_kids s))%nat).
      { cbv zeta. apply (if_elim q (fun rw : ed ast * Z =>
                   PI (fst rw) k (fun r c => r = O \/ c = O) /\ KI (e_kids (fst rw)) /\ e_d (fst rw) = S k /\
                   (mu2 (e_kids (fst rw)) <= mu2 (e_kids s))%nat)).
        - cbn [fst]. split; [exact HP1|]. split; [exact Hk1|]. split; [exact Ed1|]. cbn [TM St] in *. rewrite K1. apply le_n.
        - unfold read_widths. rewrite Em, En. fold m n.
          destruct (read_widths_fold (diag m n k) (s1, 0) k _ HP1 Hk1) as (R1 & R2 & R3 & R4).
          { intros p Hp. destruct (Hdiag p Hp) as (_ & A & B). split; assumption. }
          cbv zeta in R1, R2, R3, R4. cbn [fst] in R3, R4. cbn [TM St] in *. rewrite K1 in R4.
          split; [exact R1|]. split; [exact R2|]. split; [etransitivity; [exact R3|exact Ed1]|exact R4]. }
      cbv zeta in RW. destruct RW as (R1 & R2 & R3 & R4).
      destruct (fproc_fold (negb (snd (if q then (s1, 0) else read_widths C s1 k) =? 0)) (diag m n k) _ k _ R1 R2 Hlt Hdiag)
        as (HP2 & K2 & Ed2 & M2).
      cbv zeta in HP2, K2, Ed2, M2. cbn [TM St] in *.
      assert (Ed3 : e_d (fold_left (fun s p => if Nat.leb 1 (fst p) && Nat.leb 1 (snd p)
                                               then fproc_cell C (negb (snd (if q then (s1, 0) else read_widths C s1 k) =? 0)) s (fst p) (snd p)
                                               else s) (diag m n k) (fst (if q then (s1, 0) else read_widths C s1 k))) = S k)
        by (etransitivity; [exact Ed2|exact R3]).
      split; [|split; [exact K2|split; [exact Ed3|lia]]].
      apply (Adv _ _ HP2); [exact Ed3|].
      intros r c Hr Hcn E. destruct r as [|r]; [left; left; reflexivity|]. destruct c as [|c]; [left; right; reflexivity|].
      right. split; [apply in_diag; lia|lia].
  Qed.

  (* ---- resting states: matrix being built (AI), complete but not finalised (F2), finalised and freed (Dn) *)
  Definition F2 (s : ed ast) : Prop := e_d s = S (m + n) /\ PI s (m + n) (fun r c => r = O \/ c = O).
  Definition Dn (s : ed ast) : Prop := Base s /\ e_done s = Some F.
  Definition FI (s : ed ast) : Prop := KI (e_kids s) /\ (AI s \/ F2 s \/ Dn s).

  Lemma FI_base : forall s : ed ast, FI s -> Base s.
  Proof. intros s (_ & [(_ & B & _)|[(_ & B & _)|(B & _)]]); exact B. Qed.

  Lemma base_dims : forall s : ed ast, Base s -> em s = m /\ en s = n /\ e_K s = K /\ e_U s = U /\ e_err s = false.
  Proof.
    intros s B. destruct (base_em T K U rc ic mcs s B) as [Em En]. destruct B as (EK & EU & _ & _ & Eerr & _).
    cbn [TM St] in *. auto.
  Qed.

  Lemma finalize_last_spec : forall s : ed ast, F2 s -> KI (e_kids s) ->
    Dn (finalize_last C s) /\ KI (e_kids (finalize_last C s)).
  Proof.
    intros s (Ed & HP) Hk. pose proof HP as (B & Dnn & Lp & Hc). destruct (base_dims s B) as (Em & En & _).
    cbn [TM St AM ASt] in *. unfold finalize_last, finner. rewrite Em, En.
    destruct (Nat.leb 1 m && Nat.leb 1 n) eqn:E.
    - apply andb_true_iff in E. destruct E as [E1 E2]. apply Nat.leb_le in E1. apply Nat.leb_le in E2.
      destruct (kid_get s (m - 1) (n - 1) B Hk ltac:(lia) ltac:(lia)) as (x & Ex & Ax). cbn [TM St AM ASt] in *.
      rewrite Ex. rewrite mu_ops.
      destruct (kid_run_def_spec q d PC HPC (S (muA x)) x _ Ax ltac:(lia)) as (x2 & E2' & A2 & B2 & M2).
      rewrite E2'. cbv zeta. rewrite B2. cbn [fst snd]. unfold zdefb. cbn [fst snd]. rewrite Z.eqb_refl.
      change (cell_value (set_kid s (m - 1) (n - 1) x2) m n (mcv mcs (m - 1) (n - 1)))
        with (cell_value s m n (mcv mcs (m - 1) (n - 1))).
      assert (Hr2 : (1 <= m <= length ic)%nat) by (unfold m in *; lia).
      assert (Hc2 : (1 <= n <= length rc)%nat) by (unfold n in *; lia).
      pose proof (cell_value_correct T K U rc ic mcs Hd s (m + n) _ m n _ HP eq_refl Hr2 Hc2 eq_refl) as CV.
      cbn [TM St] in CV. rewrite CV.
      destruct (upd_kid s (m + n) _ (m - 1) (n - 1) x x2 HP Hk ltac:(lia) ltac:(lia) Ex A2) as ((B3 & _) & K3 & _).
      pose proof B3 as (EK & EU & Erc & Eic & Eerr & Kin & [Cl Cr]). cbn [TM St AM ASt] in *.
      split; [|exact K3]. split; [|reflexivity].
      unfold base. rsimp. rsimp_in EK. rsimp_in EU. rsimp_in Erc. rsimp_in Eic. rsimp_in Eerr. rsimp_in Kin. rsimp_in Cl. rsimp_in Cr.
      repeat split; try assumption; try apply Kin.
      + rewrite set2_length. exact Cl.
      + intros r' Hr'. rewrite set2_row_length by nlia. apply Cr. exact Hr'.
    - cbn [TM St AM ASt] in *. assert (Hmn : m = O \/ n = O).
      { apply andb_false_iff in E. destruct E as [E|E]; apply Nat.leb_gt in E; lia. }
      rewrite (Hc m n ltac:(unfold m; lia) ltac:(unfold n; lia) ltac:(right; split; [reflexivity|exact Hmn])).
      split; [|exact Hk]. split; [|reflexivity].
      destruct B as (A1 & A2 & A3 & A4 & A5 & A6 & A7). unfold base. rsimp. repeat split; try assumption; apply A6 || apply A7.
  Qed.

  Lemma AI_not_complete : forall s : ed ast, AI s -> e_done s = None /\ fcomplete s = false /\ (e_d s <= m + n)%nat.
  Proof.
    intros s (Hle & (B & Dnn & _)). destruct (base_dims s B) as (Em & En & _). cbn [TM St AM ASt] in *.
    split; [exact Dnn|]. split; [|unfold m, n; exact Hle]. unfold fcomplete. rewrite Dnn, Em, En.
    apply Nat.eqb_neq. unfold m, n. lia.
  Qed.

  Lemma F2_complete : forall s : ed ast, F2 s -> e_done s = None /\ fcomplete s = true.
  Proof.
    intros s (Ed & (B & Dnn & _)). destruct (base_dims s B) as (Em & En & _). cbn [TM St AM ASt] in *.
    split; [exact Dnn|]. unfold fcomplete. rewrite Dnn, Em, En, Ed. apply Nat.eqb_refl.
  Qed.

  Lemma empty_vals : n = O -> m = O -> F = 0 /\ K = 0.
  Proof.
    intros E1 E2. split.
    - unfold F, m, n in *. apply (F_00 rc ic mcs E1 E2).
    - apply (K_zero_when_empty K rc ic mcs HK0 HK); assumption.
  Qed.

  Lemma F_sound_babs : forall k, (k <= m + n)%nat -> fst (babs K U rc ic mcs k) <= F <= snd (babs K U rc ic mcs k).
  Proof. intros k H. apply (babs_sound K U rc ic mcs Hd Hrc Hic Hmc HK HU k). unfold m, n in H. exact H. Qed.

  (* bounds() *)
  Lemma fed_bnd_spec : forall s : ed ast, FI s ->
    FI (fst (fed_bnd C s)) /\ (mu_e (fst (fed_bnd C s)) <= mu_e s)%nat /\
    fst (snd (fed_bnd C s)) <= F <= snd (snd (fed_bnd C s)) /\
    fed_bnd C (fst (fed_bnd C s)) = (fst (fed_bnd C s), snd (fed_bnd C s)) /\
    (F2 s \/ Dn s -> snd (fed_bnd C s) = (F, F)) /\
    (AI s -> fed_bnd C s = (s, ed_bnd s)).
  Proof.
    intros s HF. pose proof (FI_base s HF) as B. destruct (base_dims s B) as (Em & En & EK & EU & Eerr).
    cbn [TM St AM ASt] in *. destruct HF as (Hk & HS).
    unfold fed_bnd, fempty. rewrite Em, En, EK.
    destruct (Nat.eqb n 0 && Nat.eqb m 0 && (K =? 0)) eqn:E0.
    - apply andb_true_iff in E0. destruct E0 as [E0 _]. apply andb_true_iff in E0. destruct E0 as [E1 E2].
      apply Nat.eqb_eq in E1. apply Nat.eqb_eq in E2. destruct (empty_vals E1 E2) as [EF EK0].
      cbn [fst snd]. split; [split; assumption|]. split; [apply le_n|]. split; [lia|].
      split; [unfold fed_bnd, fempty; rewrite Em, En, EK, E1, E2, EK0; reflexivity|].
      split; [intros _; rewrite EF; reflexivity|].
      intros HA. f_equal. unfold ed_bnd. rewrite Em, En, EK, E1, E2, EK0. reflexivity.
    - destruct HS as [HA|[H2|HD]].
      + destruct (AI_not_complete s HA) as (Dnn & Fc & Hle). rewrite Fc. cbn [fst snd].
        pose proof (ed_bnd_abs T K U rc ic mcs s HA) as Eb. cbn [TM St] in Eb.
        split; [split; [exact Hk|left; exact HA]|]. split; [apply le_n|].
        rewrite Eb. split; [apply F_sound_babs; exact Hle|].
        split; [unfold fed_bnd, fempty; rewrite Em, En, EK, E0, Fc; try rewrite Eb; reflexivity|].
        split; [intros [(Ed & (_ & _))|(_ & DnS)]; [lia|congruence]|]. intros _. reflexivity.
      + destruct (F2_complete s H2) as (Dnn & Fc). rewrite Fc, Dnn.
        destruct (finalize_last_spec s H2 Hk) as ((B' & Dn') & K'). cbv zeta. rewrite Dn'. cbn [fst snd].
        destruct (base_dims _ B') as (Em' & En' & EK' & _). cbn [TM St AM ASt] in *.
        split; [split; [exact K'|right; right; split; assumption]|].
        split; [unfold mu_e; rewrite Dn'; apply Nat.le_0_l|]. split; [lia|].
        split; [unfold fed_bnd, fempty, fcomplete; rewrite Em', En', EK', E0, Dn'; reflexivity|].
        split; [intros _; reflexivity|].
        intros HA. destruct (AI_not_complete s HA) as (_ & Fc' & _). congruence.
      + destruct HD as (_ & DnS). unfold fcomplete. rewrite DnS. cbn [fst snd].
        split; [split; [exact Hk|right; right; split; assumption]|]. split; [apply le_n|]. split; [lia|].
        split; [unfold fed_bnd, fempty, fcomplete; rewrite Em, En, EK, E0, DnS; reflexivity|].
        split; [intros _; reflexivity|].
        intros HA. destruct (AI_not_complete s HA) as (Dnn & _). congruence.
  Qed.

  Lemma mu_e_None : forall s : ed ast, e_done s = None -> mu_e s = (S (S (m + n)) - e_d s + mu2 (e_kids s))%nat.
  Proof. intros s E. unfold mu_e. rewrite E. reflexivity. Qed.
  Lemma mu_e_Dn : forall s : ed ast, Dn s -> mu_e s = O.
  Proof. intros s (_ & E). unfold mu_e. rewrite E. reflexivity. Qed.

  (* tighten_bounds() on a complete matrix that is still there *)
  Lemma tig_complete_spec : forall s : ed ast, F2 s -> KI (e_kids s) ->
    FI (fst (tig_complete C s)) /\ (F2 (fst (tig_complete C s)) \/ Dn (fst (tig_complete C s))) /\
    (snd (tig_complete C s) = true -> (mu_e (fst (tig_complete C s)) < mu_e s)%nat) /\
    (snd (tig_complete C s) = false -> Dn (fst (tig_complete C s))).
  Proof.
    intros s H2 Hk. pose proof H2 as (Ed & HP). pose proof HP as (B & Dnn & Lp & Hc).
    destruct (base_dims s B) as (Em & En & _). cbn [TM St AM ASt] in *.
    unfold tig_complete, finner. rewrite Em, En.
    destruct (Nat.leb 1 m && Nat.leb 1 n) eqn:E.
    - apply andb_true_iff in E. destruct E as [E1 E2]. apply Nat.leb_le in E1. apply Nat.leb_le in E2.
      destruct (kid_get s (m - 1) (n - 1) B Hk ltac:(lia) ltac:(lia)) as (x & Ex & Ax). cbn [TM St AM ASt] in *.
      rewrite Ex. cbv zeta.
      destruct (p_bnd CM PC HPC _ _ Ax) as (B1 & B2 & B3 & B4). cbn [AM ASt a_bnd a_mu] in B1, B2, B3, B4.
      destruct (zdefb (snd (k_bnd C x))) eqn:D.
      + destruct (upd_kid s (m + n) _ (m - 1) (n - 1) x _ HP Hk ltac:(lia) ltac:(lia) Ex B1) as (P1 & K1 & _).
        destruct (finalize_last_spec (set_kid s (m - 1) (n - 1) (fst (k_bnd C x))) (conj Ed P1) K1) as (D1 & K2). cbn [fst snd].
        split; [split; [exact K2|right; right; exact D1]|]. split; [right; exact D1|]. split; [discriminate|intros _; exact D1].
      + destruct (p_tig CM PC HPC _ _ B1) as (T1 & T2 & T3). cbn [AM ASt a_tig a_bnd a_mu] in T1, T2, T3.
        destruct (upd_kid s (m + n) _ (m - 1) (n - 1) x _ HP Hk ltac:(lia) ltac:(lia) Ex T1) as (P1 & K1 & Mu1).
        cbn [fst snd].
        split; [split; [exact K1|right; left; split; [exact Ed|exact P1]]|]. split; [left; split; [exact Ed|exact P1]|].
        destruct (snd (k_tig C (fst (k_bnd C x)))) eqn:Et.
        * split; [|discriminate]. intros _. specialize (T2 eq_refl).
          destruct P1 as (_ & Dn1 & _). rewrite (mu_e_None _ Dn1), (mu_e_None _ Dnn). rsimp. rsimp_in Mu1. lia.
        * exfalso. destruct (T3 eq_refl) as (_ & _ & S1). rewrite B4 in S1. cbn [snd] in S1. rewrite S1 in D.
          unfold zdefb in D. cbn [fst snd] in D. rewrite Z.eqb_refl in D. discriminate.
    - destruct (finalize_last_spec s H2 Hk) as (D1 & K2). cbn [fst snd].
      split; [split; [exact K2|right; right; exact D1]|]. split; [right; exact D1|]. split; [discriminate|intros _; exact D1].
  Qed.

  (* the call that adds the lower right cell *)
  Lemma fed_finalize_spec : forall (s : ed ast) initial, AI s -> KI (e_kids s) -> e_d s = (m + n)%nat -> (1 <= m + n)%nat ->
    fst initial <= F <= snd initial ->
    FI (fst (fed_finalize C initial s)) /\ (F2 (fst (fed_finalize C initial s)) \/ Dn (fst (fed_finalize C initial s))) /\
    (snd (fed_finalize C initial s) = true -> (mu_e (fst (fed_finalize C initial s)) < mu_e s)%nat) /\
    (snd (fed_finalize C initial s) = false -> Dn (fst (fed_finalize C initial s)) /\ initial = (F, F)).
  Proof.
    intros s initial HA Hk Ed H1 Hs. destruct (AI_not_complete s HA) as (Dnn & _ & _).
    pose proof HA as (_ & (B0 & _)). destruct (base_dims s B0) as (Em & En & _). cbn [TM St AM ASt] in *.
    unfold fed_finalize. cbv zeta. rewrite Em, En.
    destruct (add_border_spec T K U rc ic mcs Hd s (m + n) HA Ed ltac:(unfold m, n; lia)) as [HP1 Ed1].
    assert (K1 : e_kids (add_border (set_d s (S (m + n))) (m + n)) = e_kids s) by (rewrite add_border_kids; reflexivity).
    cbn [TM St AM ASt] in *. set (s1 := add_border (set_d s (S (m + n))) (m + n)) in *.
    assert (H2 : F2 s1) by (split; assumption).
    assert (Hk1 : KI (e_kids s1)) by (rewrite K1; exact Hk).
    pose proof HP1 as (B1 & Dn1 & _). destruct (base_dims s1 B1) as (Em1 & En1 & _). cbn [TM St AM ASt] in *.
    assert (Mu_s1 : (mu_e s1 < mu_e s)%nat).
    { rewrite (mu_e_None s1 Dn1), (mu_e_None s Dnn), Ed1, Ed, K1. lia. }
    (* the state and flag before the final bounds() *)
    assert (SR : let sr := if finner s1 then
                    match kid_at s1 (m - 1) (n - 1) with
                    | None => (set_err s1, false)
                    | Some x => let p := k_bnd C x in
                                let s1' := set_kid s1 (m - 1) (n - 1) (fst p) in
                                if zdefb (snd p) then (s1', false) else tig_complete C s1'
                    end else (s1, false) in
                 KI (e_kids (fst sr)) /\ (F2 (fst sr) \/ Dn (fst sr)) /\ (mu_e (fst sr) <= mu_e s1)%nat /\
                 (snd sr = true -> (mu_e (fst sr) < mu_e s1)%nat)).
    { cbv zeta. unfold finner. rewrite Em1, En1.
      destruct (Nat.leb 1 m && Nat.leb 1 n) eqn:E.
      - apply andb_true_iff in E. destruct E as [E1 E2]. apply Nat.leb_le in E1. apply Nat.leb_le in E2.
        destruct (kid_get s1 (m - 1) (n - 1) B1 Hk1 ltac:(lia) ltac:(lia)) as (x & Ex & Ax). cbn [TM St AM ASt] in *.
        rewrite Ex. destruct (p_bnd CM PC HPC _ _ Ax) as (A1 & A2 & _). cbn [AM ASt a_bnd a_mu] in A1, A2.
        destruct (upd_kid s1 (m + n) _ (m - 1) (n - 1) x _ HP1 Hk1 ltac:(lia) ltac:(lia) Ex A1) as (P2 & K2 & Mu2).
        assert (H2' : F2 (set_kid s1 (m - 1) (n - 1) (fst (k_bnd C x)))) by (split; [exact Ed1|exact P2]).
        assert (MuLe : (mu_e (set_kid s1 (m - 1) (n - 1) (fst (k_bnd C x))) <= mu_e s1)%nat).
        { destruct P2 as (_ & Dn2 & _). rewrite (mu_e_None (set_kid s1 (m - 1) (n - 1) (fst (k_bnd C x))) Dn2), (mu_e_None s1 Dn1).
          rsimp. rsimp_in Mu2. lia. }
        destruct (zdefb (snd (k_bnd C x))).
        + cbn [fst snd]. split; [exact K2|]. split; [left; exact H2'|]. split; [exact MuLe|discriminate].
        + destruct (tig_complete_spec _ H2' K2) as ((K3 & _) & S3 & T3 & _).
          split; [exact K3|]. split; [exact S3|]. split.
          * destruct (snd (tig_complete C (set_kid s1 (m - 1) (n - 1) (fst (k_bnd C x))))) eqn:Et.
            -- specialize (T3 eq_refl). lia.
            -- destruct S3 as [S3|S3].
               ++ destruct (tig_complete_spec _ H2' K2) as (_ & _ & _ & T4). rewrite (mu_e_Dn _ (T4 Et)). apply Nat.le_0_l.
               ++ rewrite (mu_e_Dn _ S3). apply Nat.le_0_l.
          * intros Et. specialize (T3 Et). lia.
      - cbn [fst snd]. split; [exact Hk1|]. split; [left; exact H2|]. split; [apply le_n|discriminate]. }
    cbv zeta in SR.
    match type of SR with KI (e_kids (fst ?sr0)) /\ _ => set (sr := sr0) in * end.
    destruct SR as (Ks & Ss & Ms & Ts).
    destruct (snd sr) eqn:Er.
    - cbn [fst snd]. split; [split; [exact Ks|destruct Ss as [S|S]; [right; left; exact S|right; right; exact S]]|].
      split; [exact Ss|]. split; [intros _; specialize (Ts eq_refl); lia|discriminate].
    - assert (HF : FI (fst sr)) by (split; [exact Ks|destruct Ss as [S|S]; [right; left; exact S|right; right; exact S]]).
      destruct (fed_bnd_spec (fst sr) HF) as ((K4 & S4) & M4 & _ & _ & V4 & _). specialize (V4 Ss).
      cbn [fst snd]. rewrite V4.
      assert (D4 : Dn (fst (fed_bnd C (fst sr)))).
      { destruct Ss as [S|S].
        - destruct (F2_complete _ S) as (Dnn2 & Fc2). destruct (finalize_last_spec _ S Ks) as (D5 & _).
          unfold fed_bnd. destruct (fempty (fst sr) && (e_K (fst sr) =? 0)) eqn:E0.
          + exfalso. apply andb_true_iff in E0. destruct E0 as [E0 _]. unfold fempty in E0.
            destruct S as (_ & (Bs & _)). destruct (base_dims _ Bs) as (Ems & Ens & _). cbn [TM St AM ASt] in *.
            rewrite Ems, Ens in E0. apply andb_true_iff in E0. destruct E0 as [E01 E02].
            apply Nat.eqb_eq in E01. apply Nat.eqb_eq in E02. lia.
          + rewrite Fc2, Dnn2. cbn [fst]. exact D5.
        - destruct S as (Bs & Ds). unfold fed_bnd. destruct (fempty (fst sr) && (e_K (fst sr) =? 0)); [cbn [fst]; split; assumption|].
          unfold fcomplete. rewrite Ds. cbn [fst]. split; assumption. }
      split; [split; [exact K4|right; right; exact D4]|]. split; [right; exact D4|]. split.
      + intros _. rewrite (mu_e_Dn _ D4). lia.
      + intros Et. split; [exact D4|]. symmetry.
        apply (contained_not_tighter_eq initial (F, F)); [split; cbn [fst snd]; lia|exact Et].
  Qed.

  (* the `while True` loop of tighten_bounds() *)
  Lemma fed_loop_spec : forall fuel (s : ed ast) initial, AI s -> KI (e_kids s) -> (1 <= m + n)%nat ->
    fst initial <= F <= snd initial -> (m + n - e_d s < fuel)%nat ->
    FI (fst (fed_loop C q fuel initial s)) /\
    (snd (fed_loop C q fuel initial s) = true -> (mu_e (fst (fed_loop C q fuel initial s)) < mu_e s)%nat) /\
    (snd (fed_loop C q fuel initial s) = false -> Dn (fst (fed_loop C q fuel initial s)) /\ initial = (F, F)) /\
    (AI (fst (fed_loop C q fuel initial s)) -> (e_d s < e_d (fst (fed_loop C q fuel initial s)))%nat).
  Proof.
    induction fuel as [|fuel IH]; intros s initial HA Hk H1 Hs Hf; [lia|].
    destruct (AI_not_complete s HA) as (Dnn & _ & Hle).
    pose proof HA as (_ & (B0 & _)). destruct (base_dims s B0) as (Em & En & _). cbn [TM St AM ASt] in *.
    cbn [fed_loop]. cbv zeta. rewrite Em, En.
    destruct (Nat.leb_spec (m + n) (e_d s)) as [L|L].
    - assert (Ed : e_d s = (m + n)%nat) by lia.
      destruct (fed_finalize_spec s initial HA Hk Ed H1 Hs) as (R1 & R2 & R3 & R4).
      split; [exact R1|]. split; [exact R3|]. split; [exact R4|].
      intros HA2. exfalso. destruct (AI_not_complete _ HA2) as (Dn2 & _ & Le2).
      destruct R2 as [(Ed2 & _)|(_ & Dd)]; [lia|congruence].
    - destruct (fdiag_step s (e_d s) HA Hk eq_refl L) as (HA2 & K2 & Ed2 & M2). cbv zeta in HA2, K2, Ed2, M2.
      set (s2 := if Nat.eqb (e_d s) 0 then add_border (set_d s (S (e_d s))) (e_d s)
                 else fproc_diag C q (add_border (set_d s (S (e_d s))) (e_d s)) (e_d s)) in *.
      destruct (AI_not_complete s2 HA2) as (Dnn2 & _ & _).
      pose proof HA2 as (_ & (B2 & _)). destruct (base_dims s2 B2) as (_ & _ & _ & _ & Eerr2). cbn [TM St AM ASt] in *.
      rewrite Eerr2.
      assert (Mu2 : (mu_e s2 < mu_e s)%nat) by (rewrite (mu_e_None s2 Dnn2), (mu_e_None s Dnn), Ed2; lia).
      destruct (tighter (ed_bnd s2) initial).
      + cbn [fst snd]. split; [split; [exact K2|left; exact HA2]|]. split; [intros _; exact Mu2|].
        split; [discriminate|]. intros _. lia.
      + destruct (IH s2 initial HA2 K2 H1 Hs ltac:(lia)) as (R1 & R2 & R3 & R4).
        split; [exact R1|]. split; [intros E; specialize (R2 E); lia|]. split; [exact R3|].
        intros HA3. specialize (R4 HA3). lia.
  Qed.

  Lemma not_empty_dims : (Nat.eqb n 0 && Nat.eqb m 0 = false) -> (1 <= m + n)%nat.
  Proof.
    intros E. apply andb_false_iff in E. destruct E as [E|E]; apply Nat.eqb_neq in E; lia.
  Qed.

  (* tighten_bounds() *)
  Lemma fed_tig_spec : forall s : ed ast, FI s ->
    FI (fst (fed_tig C q s)) /\
    (snd (fed_tig C q s) = true -> (mu_e (fst (fed_tig C q s)) < mu_e s)%nat) /\
    (snd (fed_tig C q s) = false ->
     (mu_e (fst (fed_tig C q s)) <= mu_e s)%nat /\
     fed_bnd C (fst (fed_tig C q s)) = (fst (fed_tig C q s), (F, F)) /\ snd (fed_bnd C s) = (F, F) /\
     (fempty s = false -> Dn (fst (fed_tig C q s)))) /\
    (AI s -> AI (fst (fed_tig C q s)) -> (e_d s < e_d (fst (fed_tig C q s)))%nat \/ snd (fed_tig C q s) = false).
  Proof.
    intros s HF. pose proof (FI_base s HF) as B. destruct (base_dims s B) as (Em & En & EK & EU & Eerr).
    cbn [TM St AM ASt] in *.
    destruct (fed_bnd_spec s HF) as (Bf & Bm & Bs & Bi & Bv & Ba).
    unfold fed_tig, fempty. rewrite Em, En.
    destruct (Nat.eqb n 0 && Nat.eqb m 0) eqn:E0.
    - cbn [fst snd]. apply andb_true_iff in E0. destruct E0 as [E1 E2]. apply Nat.eqb_eq in E1. apply Nat.eqb_eq in E2.
      destruct (empty_vals E1 E2) as [EF EK0].
      assert (Eb : fed_bnd C s = (s, (F, F))).
      { unfold fed_bnd, fempty. rewrite Em, En, EK, E1, E2, EK0, EF. reflexivity. }
      split; [exact HF|]. split; [discriminate|]. split.
      + intros _. split; [apply le_n|]. split; [exact Eb|]. split; [rewrite Eb; reflexivity|].
        intros Ef. exfalso. revert Ef. unfold fempty. rewrite ?Em, ?En, ?E1, ?E2. cbn. discriminate.
      + intros _ _. right. reflexivity.
    - pose proof (not_empty_dims E0) as H1. destruct HF as (Hk & HS).
      assert (DnCase : forall s' : ed ast, Dn s' -> KI (e_kids s') -> fed_bnd C s' = (s', (F, F))).
      { intros s' (B' & D') K'. destruct (base_dims s' B') as (Em' & En' & EK' & _). cbn [TM St AM ASt] in *.
        unfold fed_bnd, fempty, fcomplete. rewrite Em', En', E0, D'. reflexivity. }
      destruct HS as [HA|[H2|HD]].
      + destruct (AI_not_complete s HA) as (Dnn & Fc & Hle). rewrite Dnn, Eerr, Fc.
        pose proof (ed_bnd_abs T K U rc ic mcs s HA) as Eb. cbn [TM St] in Eb.
        destruct (fed_loop_spec (S (m + n)) s (ed_bnd s) HA Hk H1
                    ltac:(rewrite Eb; apply F_sound_babs; exact Hle) ltac:(lia)) as (R1 & R2 & R3 & R4).
        split; [exact R1|]. split; [exact R2|]. split.
        * intros E. destruct (R3 E) as (D3 & I3). destruct R1 as (K3 & _).
          split; [rewrite (mu_e_Dn _ D3); apply Nat.le_0_l|]. split; [apply (DnCase _ D3 K3)|].
          split; [rewrite (Ba HA); cbn [snd]; exact I3|intros _; exact D3].
        * intros _ HA3. left. apply R4. exact HA3.
      + destruct (F2_complete s H2) as (Dnn & Fc). rewrite Dnn, Eerr, Fc.
        destruct (tig_complete_spec s H2 Hk) as (R1 & _ & R2 & R3).
        split; [exact R1|]. split; [exact R2|]. split.
        * intros E. pose proof (R3 E) as D3. destruct R1 as (K3 & _).
          split; [rewrite (mu_e_Dn _ D3); apply Nat.le_0_l|]. split; [apply (DnCase _ D3 K3)|].
          split; [apply Bv; left; exact H2|intros _; exact D3].
        * intros HA. destruct (AI_not_complete s HA) as (_ & Fc' & _). congruence.
      + pose proof HD as (_ & DnS). rewrite DnS. cbn [fst snd].
        split; [split; [exact Hk|right; right; exact HD]|]. split; [discriminate|]. split.
        * intros _. split; [apply le_n|]. split; [apply (DnCase s HD Hk)|]. split; [apply Bv; right; exact HD|intros _; exact HD].
        * intros HA. destruct (AI_not_complete s HA) as (Dnn & _). congruence.
  Qed.

  Lemma fempty_base : forall s : ed ast, Base s -> fempty s = Nat.eqb n 0 && Nat.eqb m 0.
  Proof. intros s B. destruct (base_dims s B) as (Em & En & _). cbn [TM St AM ASt] in *. unfold fempty. rewrite Em, En. reflexivity. Qed.

  (* while not self.is_complete() and self.tighten_bounds(): pass *)
  Lemma drive_spec : forall fuel (s : ed ast), FI s -> fempty s = false -> (AI s -> (m + n - e_d s < fuel)%nat) ->
    KI (e_kids (drive_complete C q fuel s)) /\ (F2 (drive_complete C q fuel s) \/ Dn (drive_complete C q fuel s)) /\
    (mu_e (drive_complete C q fuel s) <= mu_e s)%nat.
  Proof.
    induction fuel as [|fuel IH]; intros s HF He Hfu.
    - cbn [drive_complete]. destruct HF as (Hk & [HA|[H2|HD]]).
      + specialize (Hfu HA). lia.
      + destruct (F2_complete s H2) as (_ & Fc). rewrite Fc. split; [exact Hk|]. split; [left; exact H2|apply le_n].
      + pose proof HD as (_ & DnS). unfold fcomplete. rewrite DnS. split; [exact Hk|]. split; [right; exact HD|apply le_n].
    - cbn [drive_complete]. cbv zeta. pose proof HF as (Hk & [HA|[H2|HD]]).
      + destruct (AI_not_complete s HA) as (_ & Fc & _). rewrite Fc.
        destruct (fed_tig_spec s HF) as (R1 & R2 & R3 & R4).
        destruct (snd (fed_tig C q s)) eqn:Et.
        * specialize (R2 eq_refl).
          assert (He1 : fempty (fst (fed_tig C q s)) = false).
          { rewrite (fempty_base _ (FI_base _ R1)). rewrite <- (fempty_base s (FI_base s HF)). exact He. }
          destruct (IH _ R1 He1) as (I1 & I2 & I3).
          { intros HA1. destruct (R4 HA HA1) as [L|L]; [|discriminate]. specialize (Hfu HA).
            destruct (AI_not_complete _ HA1) as (_ & _ & Le1). lia. }
          split; [exact I1|]. split; [exact I2|lia].
        * destruct (R3 eq_refl) as (M3 & _ & _ & D3). specialize (D3 He). destruct R1 as (K1 & _).
          split; [exact K1|]. split; [right; exact D3|exact M3].
      + destruct (F2_complete s H2) as (_ & Fc). rewrite Fc. split; [exact Hk|]. split; [left; exact H2|apply le_n].
      + pose proof HD as (_ & DnS). unfold fcomplete. rewrite DnS. split; [exact Hk|]. split; [right; exact HD|apply le_n].
  Qed.

  (* edits() *)
  Lemma fed_edits_spec : forall s : ed ast, FI s ->
    FI (fed_edits C q s) /\ (mu_e (fed_edits C q s) <= mu_e s)%nat.
  Proof.
    intros s HF. pose proof (FI_base s HF) as B. destruct (base_dims s B) as (Em & En & EK & EU & Eerr).
    cbn [TM St AM ASt] in *. unfold fed_edits. rewrite Em, En.
    destruct (e_done s) eqn:Ds; [split; [exact HF|apply le_n]|].
    destruct (fempty s) eqn:He.
    - rewrite (fempty_base s B) in He. apply andb_true_iff in He. destruct He as [E1 E2].
      apply Nat.eqb_eq in E1. apply Nat.eqb_eq in E2. destruct (empty_vals E1 E2) as [EF _].
      destruct HF as (Hk & _).
      assert (D : Dn (set_done s 0)).
      { split; [|rsimp; rewrite EF; reflexivity].
        destruct B as (A1 & A2 & A3 & A4 & A5 & A6 & A7). unfold base. rsimp. repeat split; try assumption; apply A6 || apply A7. }
      split; [split; [exact Hk|right; right; exact D]|]. rewrite (mu_e_Dn _ D). apply Nat.le_0_l.
    - destruct (drive_spec (S (S (m + n))) s HF He ltac:(intros; lia)) as (K1 & S1 & M1).
      set (s1 := drive_complete C q (S (S (m + n))) s) in *.
      assert (B1 : Base s1) by (destruct S1 as [(_ & (B1 & _))|(B1 & _)]; exact B1).
      destruct (base_dims s1 B1) as (_ & _ & _ & _ & Eerr1). cbn [TM St AM ASt] in *. rewrite Eerr1.
      destruct S1 as [S1|S1].
      + destruct (F2_complete s1 S1) as (Dn1 & Fc1). rewrite Fc1, Dn1.
        destruct (finalize_last_spec s1 S1 K1) as (D2 & K2).
        split; [split; [exact K2|right; right; exact D2]|]. rewrite (mu_e_Dn _ D2). apply Nat.le_0_l.
      + pose proof S1 as (_ & Dn1). unfold fcomplete. rewrite Dn1.
        split; [split; [exact K1|right; right; exact S1]|exact M1].
  Qed.

  Lemma kids_no_err : forall s : ed ast, Base s -> KI (e_kids s) ->
    existsb (fun row => existsb errA row) (e_kids s) = false.
  Proof.
    intros s B Hk. destruct (existsb (fun row => existsb errA row) (e_kids s)) eqn:E; [|reflexivity]. exfalso.
    apply existsb_exists in E. destruct E as (row & Hrow & E2). apply existsb_exists in E2. destruct E2 as (x & Hx & Ex).
    destruct B as (_ & _ & _ & _ & _ & (Kl & Kr & _) & _). cbn [TM St AM ASt] in *.
    apply In_nth_error in Hrow. destruct Hrow as (r & Hr). apply In_nth_error in Hx. destruct Hx as (c & Hc).
    assert (Lr : (r < m)%nat) by (unfold m; rewrite <- Kl; apply nth_error_Some; congruence).
    assert (Er : nth r (e_kids s) [] = row) by (apply nth_nth_error; exact Hr).
    assert (Lc : (c < n)%nat) by (unfold n; rewrite <- (Kr r Lr), Er; apply nth_error_Some; congruence).
    rewrite <- Er in Hc. pose proof (p_err CM PC HPC _ _ (Hk r c x Lr Lc Hc)) as E. cbn [AM a_err] in E. congruence.
  Qed.

  Lemma muA_mu_e : forall sk p0 q0 (s : ed ast), Base s -> muA (AED sk p0 q0 s) = mu_e s.
  Proof.
    intros sk p0 q0 s (_ & _ & Erc & Eic & _). cbn [TM St AM ASt] in *. rewrite muA_ed. unfold mu_e. rewrite Erc, Eic. reflexivity.
  Qed.

  Lemma bnd_ed : forall sk p0 q0 (e : ed ast),
    k_bnd (opsA q (S d)) (AED sk p0 q0 e) = (AED sk p0 q0 (fst (fed_bnd C e)), snd (fed_bnd C e)).
  Proof. reflexivity. Qed.
  Lemma tig_ed : forall sk p0 q0 (e : ed ast),
    k_tig (opsA q (S d)) (AED sk p0 q0 e) = (AED sk p0 q0 (fst (fed_tig C q e)), snd (fed_tig C q e)).
  Proof. reflexivity. Qed.
  Lemma cmp_ed_none : forall p0 q0 (e : ed ast),
    k_cmp (opsA q (S d)) (AED None p0 q0 e) = (AED None p0 q0 e, fcomplete e).
  Proof. reflexivity. Qed.
  Lemma cmp_ed_some : forall st p0 q0 (e : ed ast),
    k_cmp (opsA q (S d)) (AED (Some st) p0 q0 e) =
    (fst (k_bnd (opsA q (S d)) (AED (Some st) p0 q0 e)), zdefb (snd (k_bnd (opsA q (S d)) (AED (Some st) p0 q0 e)))).
  Proof. reflexivity. Qed.
  Lemma listing_ed_none : forall p0 q0 (e : ed ast),
    fst (listing q (S d) (AED None p0 q0 e)) = AED None p0 q0 (fed_edits C q e).
  Proof. intros. cbn [listing fst]. replace (S d - 1)%nat with d by lia. reflexivity. Qed.
  Lemma listing_ed_some : forall st p0 q0 (e : ed ast),
    fst (listing q (S d) (AED (Some st) p0 q0 e)) = AED (Some st) p0 q0 e.
  Proof. reflexivity. Qed.

  (* EditDistance / StringEdit: every public operation keeps the invariant *)
  Lemma ed_step : forall sk p0 q0 (e : ed ast), FI e ->
    astep_ok (AM q (S d)) (fun t => exists e', t = AED sk p0 q0 e' /\ FI e') F (AED sk p0 q0 e).
  Proof.
    intros sk p0 q0 e HF. pose proof (FI_base e HF) as B. destruct (base_dims e B) as (_ & _ & _ & _ & Eerr).
    cbn [TM St AM ASt] in *.
    unfold astep_ok. cbn [AM ASt a_bnd a_tig a_cmp a_eds a_err a_mu].
    destruct (fed_bnd_spec e HF) as (Bf & Bm & Bs & Bi & Bv & Ba).
    assert (Hb : let t' := fst (k_bnd (opsA q (S d)) (AED sk p0 q0 e)) in
                 let r := snd (k_bnd (opsA q (S d)) (AED sk p0 q0 e)) in
                 (exists e', t' = AED sk p0 q0 e' /\ FI e') /\ (muA t' <= muA (AED sk p0 q0 e))%nat /\
                 fst r <= F <= snd r /\ k_bnd (opsA q (S d)) t' = (t', r)).
    { rewrite bnd_ed. cbv zeta. cbn [fst snd]. rewrite (muA_mu_e _ _ _ _ B), (muA_mu_e _ _ _ _ (FI_base _ Bf)).
      split; [eexists; split; [reflexivity|exact Bf]|]. split; [exact Bm|]. split; [exact Bs|].
      rewrite bnd_ed, Bi. reflexivity. }
    split; [cbn [errA]; rewrite Eerr; destruct HF as (Hk & _); rewrite (kids_no_err e B Hk); reflexivity|].
    split; [exact Hb|]. split; [|split].
    - rewrite tig_ed. cbn [fst snd]. destruct (fed_tig_spec e HF) as (R1 & R2 & R3 & _).
      rewrite (muA_mu_e _ _ _ _ B), (muA_mu_e _ _ _ _ (FI_base _ R1)).
      split; [eexists; split; [reflexivity|exact R1]|]. split; [exact R2|].
      intros E. destruct (R3 E) as (M3 & B3 & S3 & _). split; [exact M3|]. split.
      + rewrite bnd_ed, B3. reflexivity.
      + rewrite bnd_ed. cbn [snd]. exact S3.
    - destruct sk as [st|].
      + rewrite cmp_ed_some. cbn [fst]. cbv zeta in Hb. destruct Hb as (H1 & H2 & _). split; assumption.
      + rewrite cmp_ed_none. cbn [fst]. split; [eexists; split; [reflexivity|exact HF]|apply le_n].
    - destruct sk as [st|].
      + rewrite listing_ed_some. split; [eexists; split; [reflexivity|exact HF]|apply le_n].
      + rewrite listing_ed_none. destruct (fed_edits_spec e HF) as (E1 & E2).
        rewrite (muA_mu_e _ _ _ _ B), (muA_mu_e _ _ _ _ (FI_base _ E1)).
        split; [eexists; split; [reflexivity|exact E1]|exact E2].
  Qed.

  Theorem ed_contract : forall sk p0 q0 (e : ed ast), FI e -> AContract (AM q (S d)) (AED sk p0 q0 e) F.
  Proof.
    intros sk p0 q0 e HF. exists (fun t => exists e', t = AED sk p0 q0 e' /\ FI e').
    split; [eexists; split; [reflexivity|exact HF]|]. intros t (e' & -> & HF'). apply ed_step. exact HF'.
  Qed.
  (* a finalised EditDistance: replacing a listed child by a state of the same contract *)
  Lemma kid_in_range : forall (s : ed ast) r c x, Base s -> kid_at s r c = Some x -> (r < m)%nat /\ (c < n)%nat.
  Proof.
    intros s r c x B Hx. destruct B as (_ & _ & _ & _ & _ & (Kl & Kr & _) & _). cbn [TM St AM ASt] in *. unfold kid_at in Hx.
    assert (Lr : (r < m)%nat).
    { destruct (Nat.lt_ge_cases r (length (e_kids s))) as [L|L]; [unfold m; rewrite <- Kl; exact L|].
      rewrite nth_overflow in Hx by exact L. destruct c; discriminate. }
    split; [exact Lr|]. unfold n. rewrite <- (Kr r Lr). apply nth_error_Some. congruence.
  Qed.

  Lemma dn_upd : forall (s : ed ast) r c x x', Dn s -> KI (e_kids s) -> kid_at s r c = Some x -> PC x' (mcv mcs r c) ->
    Dn (set_kid s r c x') /\ KI (e_kids (set_kid s r c x')).
  Proof.
    intros s r c x x' (B & D) Hk Ex Hx'. destruct (kid_in_range s r c x B Ex) as (Hr & Hcn).
    pose proof B as (EK & EU & Erc & Eic & Eerr & Kin & [Cl Cr]). pose proof Kin as (Kl & Kr & Kc).
    cbn [TM St AM ASt] in *. split; [split; [|exact D]|].
    - unfold base. rsimp. repeat split; try assumption.
      + rewrite set2_length. exact Kl.
      + intros r' Hr'. rewrite set2_row_length by nlia. apply Kr. exact Hr'.
      + apply (kids_inv_set T rc ic mcs (e_kids s) r c x' Kin Hr Hcn).
        apply tm_contract. apply fvA_contract. apply (p_ac CM PC HPC). exact Hx'.
    - rsimp. intros r' c' y Hr' Hc' Hy.
      rewrite nth_error_set2 in Hy by (try rewrite (Kr r Hr); nlia).
      destruct (Nat.eqb_spec r' r) as [->|N1]; cbn [andb] in Hy; [|apply (Hk r' c' y Hr' Hc' Hy)].
      destruct (Nat.eqb_spec c' c) as [->|N2]; [injection Hy as <-; exact Hx'|apply (Hk r c' y Hr' Hc' Hy)].
  Qed.

  Lemma FI_done : forall s : ed ast, FI s -> e_done s <> None -> Dn s /\ KI (e_kids s).
  Proof.
    intros s (Hk & [HA|[H2|HD]]) Hd0.
    - destruct (AI_not_complete s HA) as (E & _). congruence.
    - destruct (F2_complete s H2) as (E & _). congruence.
    - split; assumption.
  Qed.
End EDC.


(* ---------------------------------------------------------------- EditDistance.__init__ over sub-edits under contracts *)
Lemma Forall2_nth_error : forall {A B} (R : A -> B -> Prop) l l' i x, Forall2 R l l' -> nth_error l i = Some x ->
  exists y, nth_error l' i = Some y /\ R x y.
Proof.
  intros A B R l l' i x H. revert i. induction H as [|a b l l' Hab _ IH]; intros [|i] Hx; cbn [nth_error] in *; try discriminate.
  - injection Hx as <-. exists b. split; [reflexivity|exact Hab].
  - apply IH. exact Hx.
Qed.

Lemma Forall2_length' : forall {A B} (R : A -> B -> Prop) l l', Forall2 R l l' -> length l = length l'.
Proof. induction 1; cbn [length]; congruence. Qed.

Lemma matrix_entry : forall {A} (R : A -> Z -> Prop) (kids : list (list A)) (mcs : list (list Z)) r c x,
  Forall2 (Forall2 R) kids mcs -> nth_error (nth r kids []) c = Some x -> R x (mcv mcs r c).
Proof.
  intros A R kids mcs r c x H Hx.
  assert (Hr : nth_error kids r = Some (nth r kids [])).
  { destruct (nth_error kids r) as [row|] eqn:E.
    - f_equal. symmetry. apply nth_nth_error. exact E.
    - apply nth_error_None in E. rewrite nth_overflow in Hx by exact E. destruct c; discriminate. }
  destruct (Forall2_nth_error _ _ _ _ _ H Hr) as (row' & Er' & Hrow).
  destruct (Forall2_nth_error _ _ _ _ _ Hrow Hx) as (v & Ev & Hv).
  unfold mcv. rewrite (nth_nth_error mcs r row' [] Er'), (nth_nth_error row' c v 0 Ev). exact Hv.
Qed.

Definition EDH (K U : Z) (rc ic : list Z) (mcs : list (list Z)) : Prop :=
  dims_ok rc ic mcs /\ Forall (fun x => 0 <= x) rc /\ Forall (fun x => 0 <= x) ic /\ Forall (Forall (fun x => 0 <= x)) mcs /\
  0 <= K /\ K <= lbc rc ic (length ic) (length rc) /\ zsum rc + zsum ic <= U.

Lemma matrix_forall2_map : forall {A} (R R' : A -> Z -> Prop) (kids : list (list A)) (mcs : list (list Z)),
  (forall r c x, nth_error (nth r kids []) c = Some x -> R x (mcv mcs r c) -> R' x (mcv mcs r c)) ->
  Forall2 (Forall2 R) kids mcs -> forall r c x, nth_error (nth r kids []) c = Some x -> R' x (mcv mcs r c).
Proof. intros A R R' kids mcs H HF r c x Hx. apply (H r c x Hx). apply (matrix_entry R kids mcs r c x HF Hx). Qed.

(* EditDistance.__init__: the initial state is in the invariant *)
Lemma ed_init_FI : forall q d (PC : ast -> Z -> Prop) p0 q0 frc fic (kids : list (list ast)) (mcs : list (list Z)),
  (forall x v, PC x v -> astep_ok (AM q d) (fun t => PC t v) v x) ->
  let rc := middle p0 q0 frc in
  let ic := middle p0 q0 fic in
  (p0 + q0 <= length frc)%nat -> (p0 + q0 <= length fic)%nat ->
  Forall (fun x => 0 <= x) frc -> Forall (fun x => 0 <= x) fic ->
  length kids = length ic -> Forall (fun row => length row = length rc) kids ->
  Forall2 (Forall2 (fun x v => 0 <= v /\ PC x v)) kids mcs ->
  EDH (ed_constant_cost frc fic) (zsum frc + zsum fic) rc ic mcs /\
  FI q d PC (ed_constant_cost frc fic) (zsum frc + zsum fic) rc ic mcs (ed_init frc fic p0 q0 kids).
Proof.
  intros q d PC p0 q0 frc fic kids mcs HPC rc ic Hp1 Hp2 Hf1 Hf2 Kl Kr Hkids.
  assert (Hd : dims_ok rc ic mcs).
  { split; [rewrite <- (Forall2_length' _ _ _ Hkids); exact Kl|].
    apply Forall_forall. intros row' Hrow'. apply In_nth_error in Hrow'. destruct Hrow' as (r & Er').
    assert (Lr : (r < length kids)%nat) by (rewrite (Forall2_length' _ _ _ Hkids); apply nth_error_Some; congruence).
    destruct (nth_error kids r) as [row|] eqn:Er; [|apply nth_error_None in Er; lia].
    destruct (Forall2_nth_error _ _ _ _ _ Hkids Er) as (row'' & Er'' & Hrow). rewrite Er' in Er''. injection Er'' as <-.
    rewrite <- (Forall2_length' _ _ _ Hrow). rewrite Forall_forall in Kr. apply Kr. apply (nth_error_In _ _ Er). }
  assert (Hrc : Forall (fun x => 0 <= x) rc) by (apply Forall_middle; exact Hf1).
  assert (Hic : Forall (fun x => 0 <= x) ic) by (apply Forall_middle; exact Hf2).
  assert (Hmc : Forall (Forall (fun x => 0 <= x)) mcs).
  { apply Forall_forall. intros row' Hrow'. apply In_nth_error in Hrow'. destruct Hrow' as (r & Er').
    assert (Lr : (r < length kids)%nat) by (rewrite (Forall2_length' _ _ _ Hkids); apply nth_error_Some; congruence).
    destruct (nth_error kids r) as [row|] eqn:Er; [|apply nth_error_None in Er; lia].
    destruct (Forall2_nth_error _ _ _ _ _ Hkids Er) as (row'' & Er'' & Hrow). rewrite Er' in Er''. injection Er'' as <-.
    clear - Hrow. induction Hrow as [|x v l l' (Hv & _) _ IH]; constructor; assumption. }
  assert (Ln : length rc = (length frc - p0 - q0)%nat) by (apply middle_length; exact Hp1).
  assert (Lm : length ic = (length fic - p0 - q0)%nat) by (apply middle_length; exact Hp2).
  assert (HK0 : 0 <= ed_constant_cost frc fic).
  { unfold ed_constant_cost. destruct (Nat.ltb (length frc) (length fic)); [apply ss_nonneg; exact Hf2|].
    destruct (Nat.ltb (length fic) (length frc)); [apply ss_nonneg; exact Hf1|lia]. }
  assert (HK : ed_constant_cost frc fic <= lbc rc ic (length ic) (length rc)).
  { unfold ed_constant_cost, lbc. rewrite !firstn_all.
    destruct (Nat.ltb_spec (length frc) (length fic)) as [L1|L1].
    - destruct (Nat.leb_spec (length ic) (length rc)); [lia|].
      replace (length fic - length frc)%nat with (length ic - length rc)%nat by lia.
      apply ss_middle; [exact Hp2|fold ic; lia].
    - destruct (Nat.ltb_spec (length fic) (length frc)) as [L2|L2].
      + destruct (Nat.leb_spec (length ic) (length rc)); [|lia].
        replace (length frc - length fic)%nat with (length rc - length ic)%nat by lia.
        apply ss_middle; [exact Hp1|fold rc; lia].
      + destruct (Nat.leb_spec (length ic) (length rc)).
        * replace (length rc - length ic)%nat with O by lia. unfold sum_smallest. simpl. lia.
        * lia. }
  assert (HU : zsum rc + zsum ic <= zsum frc + zsum fic).
  { pose proof (zsum_middle_le p0 q0 frc Hp1 Hf1) as Z1. pose proof (zsum_middle_le p0 q0 fic Hp2 Hf2) as Z2.
    fold rc in Z1. fold ic in Z2. lia. }
  assert (Hkid : forall r c x, nth_error (nth r kids []) c = Some x -> PC x (mcv mcs r c)).
  { intros r c x Hx. apply (proj2 (matrix_entry _ kids mcs r c x Hkids Hx)). }
  split; [exact (conj Hd (conj Hrc (conj Hic (conj Hmc (conj HK0 (conj HK HU))))))|]. split.
  - intros r c x _ _ Hx. cbn [ed_init e_kids] in Hx. apply (Hkid r c x Hx).
  - left. split; [cbn [ed_init e_d]; lia|]. cbn [ed_init e_d].
    split; [|split; [reflexivity|split; [apply lastpos_tm|]]].
    + unfold base. cbn [ed_init e_K e_U e_rc e_ic e_err e_kids e_cost]. fold rc ic.
      repeat split; try reflexivity; try assumption.
      * intros r Hr. rewrite Forall_forall in Kr. apply Kr. apply nth_In. cbn [TM St] in *. rewrite Kl. exact Hr.
      * intros r c x Hr Hc Hx. apply tm_contract. apply fvA_contract. apply (p_ac (AM q d) PC HPC). apply (Hkid r c x Hx).
      * rewrite repeat_length. reflexivity.
      * intros r Hr. rewrite nth_repeat' by lia. rewrite repeat_length. reflexivity.
    + intros r c Hr Hc [L|[E _]]; [lia|]. assert (r = O) by lia. assert (c = O) by lia. subst r c.
      cbn [ed_init e_cost]. unfold cell_at. rewrite nth_repeat' by lia. rewrite nth_repeat' by lia. reflexivity.
Qed.

Lemma Forall2_impl2 : forall {A B} (R R' : A -> B -> Prop) l l', (forall x y, In x l -> R x y -> R' x y) ->
  Forall2 R l l' -> Forall2 R' l l'.
Proof.
  intros A B R R' l l' H HF. induction HF as [|x y l l' Hxy _ IH]; constructor.
  - apply H; [left; reflexivity|exact Hxy].
  - apply IH. intros x' y' Hi. apply H. right. exact Hi.
Qed.

Theorem good_ed : forall q sk p0 q0 frc fic (kids : list (list ast)) (mcs : list (list Z)),
  let rc := middle p0 q0 frc in
  let ic := middle p0 q0 fic in
  (p0 + q0 <= length frc)%nat -> (p0 + q0 <= length fic)%nat ->
  Forall (fun x => 0 <= x) frc -> Forall (fun x => 0 <= x) fic ->
  length kids = length ic -> Forall (fun row => length row = length rc) kids ->
  Forall2 (Forall2 (fun x v => 0 <= v /\ Good q x v)) kids mcs ->
  Good q (AED sk p0 q0 (ed_init frc fic p0 q0 kids)) (final_cost rc ic mcs).
Proof.
  intros q sk p0 q0 frc fic kids mcs rc ic Hp1 Hp2 Hf1 Hf2 Kl Kr Hkids d Hh.
  cbn [aheight] in Hh. destruct d as [|d]; [lia|]. cbn [ed_init e_kids] in Hh.
  assert (Hk2 : Forall2 (Forall2 (fun x v => 0 <= v /\ AContract (AM q d) x v)) kids mcs).
  { eapply Forall2_impl2; [|exact Hkids]. intros row vrow Hrow HF. eapply Forall2_impl2; [|exact HF].
    intros x v Hx (Hv & Hg). cbv beta. split; [exact Hv|]. apply Hg.
    pose proof (amax_ge _ _ (in_map (fun row => ApiModel.nat_max_list (map aheight row)) kids _ Hrow)) as M1.
    pose proof (amax_ge _ _ (in_map aheight _ x Hx)) as M2. lia. }
  destruct (ed_init_FI q d (AContract (AM q d)) p0 q0 frc fic kids mcs (ac_step (AM q d)) Hp1 Hp2 Hf1 Hf2 Kl Kr Hk2)
    as ((Hd & Hrc & Hic & Hmc & HK0 & HK & HU) & HFI).
  change (final_cost rc ic mcs) with (cc rc ic mcs (length ic) (length rc)).
  apply (ed_contract q d (AContract (AM q d)) (ac_step (AM q d)) (ed_constant_cost frc fic) (zsum frc + zsum fic) rc ic mcs
                     Hd Hrc Hic Hmc HK0 HK HU). exact HFI.
Qed.

Lemma Forall2_set_nth : forall {A B} (R : A -> B -> Prop) l l' i x y, Forall2 R l l' -> nth_error l' i = Some y -> R x y ->
  Forall2 R (set_nth i x l) l'.
Proof.
  intros A B R l l' i x y H. revert i. induction H as [|a b l l' Hab Ht IH]; intros [|i] Hy Hx; cbn [nth_error set_nth] in *;
    try discriminate.
  - injection Hy as <-. constructor; assumption.
  - constructor; [exact Hab|apply IH; assumption].
Qed.

(* ================================================================ Part 3b: MultiSetEdit + WeightedBipartiteMatcher over
   sub-edits under a contract *)
Definition inr (r : zr) (v : Z) : Prop := fst r <= v <= snd r.

Lemma F2_nth : forall {A B} (R : A -> B -> Prop) l l' i da db, Forall2 R l l' -> (i < length l)%nat -> R (nth i l da) (nth i l' db).
Proof.
  intros A B R l l' i da db H. revert i. induction H as [|a b l l' Hab _ IH]; intros [|i] Hi; cbn [length nth] in *; try lia.
  - exact Hab.
  - apply IH. lia.
Qed.

Lemma nth_map_lt : forall {A B} (f : A -> B) l i db da, (i < length l)%nat -> nth i (map f l) db = f (nth i l da).
Proof.
  intros A B f. induction l as [|a l IH]; intros [|i] db da Hi; cbn [length nth map] in *; try lia; [reflexivity|].
  apply IH. lia.
Qed.

Lemma set_nth_same : forall {A} (l : list A) i x, nth_error l i = Some x -> set_nth i x l = l.
Proof.
  intros A. induction l as [|a l IH]; intros [|i] x H; cbn [nth_error set_nth] in *; try discriminate.
  - injection H as ->. reflexivity.
  - f_equal. apply IH. exact H.
Qed.

Lemma nth_error_row : forall {A} (e : list (list A)) i j x, nth_error (nth i e []) j = Some x -> nth_error e i = Some (nth i e []).
Proof.
  intros A e i j x H. destruct (nth_error e i) as [row|] eqn:E.
  - f_equal. symmetry. apply nth_nth_error. exact E.
  - apply nth_error_None in E. rewrite nth_overflow in H by exact E. destruct j; discriminate.
Qed.

Lemma set2_same : forall {A} (e : list (list A)) i j x, mget e i j = Some x -> set2 e i j x = e.
Proof.
  intros A e i j x H. rewrite mget_nth in H. unfold set2. rewrite (set_nth_same _ _ _ H).
  apply set_nth_same. apply (nth_error_row e i j x H).
Qed.

Lemma map_idx_F2 : forall {A B} (R : A -> B -> Prop) (mu : A -> nat) (f : nat * A -> A) l vs s,
  Forall2 R l vs -> (forall i x v, R x v -> R (f (i, x)) v /\ (mu (f (i, x)) <= mu x)%nat) ->
  Forall2 R (map f (combine (seq s (length l)) l)) vs /\
  (nat_sum (map mu (map f (combine (seq s (length l)) l))) <= nat_sum (map mu l))%nat.
Proof.
  intros A B R mu f l vs s H Hf. revert s. induction H as [|x v l vs Hx _ IH]; intros s.
  - cbn. split; [constructor|lia].
  - cbn [length seq combine map]. destruct (IH (S s)) as [I1 I2]. destruct (Hf s x v Hx) as [F1 F2].
    rewrite !nat_sum_cons. split; [constructor; assumption|lia].
Qed.

Lemma with_kvp_same : forall {X} (s : mset X), with_kvp s (m_kvp s) = s.
Proof. intros X []. reflexivity. Qed.

Section MSetC.
  Variables (q : bool) (d : nat).
  Notation CM := (AM q d).
  Notation C := (opsA q d).
  Variable PC : ast -> Z -> Prop.
  Hypothesis HPC : forall x v, PC x v -> astep_ok (AM q d) (fun t => PC t v) v x.

  Lemma pb : forall x v, PC x v ->
    PC (fst (k_bnd C x)) v /\ (muA (fst (k_bnd C x)) <= muA x)%nat /\ inr (snd (k_bnd C x)) v /\
    k_bnd C (fst (k_bnd C x)) = (fst (k_bnd C x), snd (k_bnd C x)).
  Proof. intros x v H. exact (p_bnd CM PC HPC x v H). Qed.

  Lemma pt : forall x v, PC x v ->
    PC (fst (k_tig C x)) v /\ (snd (k_tig C x) = true -> (muA (fst (k_tig C x)) < muA x)%nat) /\
    (snd (k_tig C x) = false -> (muA (fst (k_tig C x)) <= muA x)%nat /\
                                k_bnd C (fst (k_tig C x)) = (fst (k_tig C x), (v, v)) /\ snd (k_bnd C x) = (v, v)).
  Proof. intros x v H. exact (p_tig CM PC HPC x v H). Qed.

  Lemma thread_entry : forall l vs, Forall2 PC l vs ->
    Forall2 PC (fst (thread (k_bnd C) l)) vs /\
    (nat_sum (map muA (fst (thread (k_bnd C) l))) <= nat_sum (map muA l))%nat /\
    Forall2 inr (snd (thread (k_bnd C) l)) vs /\
    thread (k_bnd C) (fst (thread (k_bnd C) l)) = thread (k_bnd C) l.
  Proof.
    induction 1 as [|x v l vs Hx _ IH].
    - cbn [thread fst snd map nat_sum fold_right]. repeat split; try constructor.
    - destruct IH as (I1 & I2 & I3 & I4). destruct (pb x v Hx) as (B1 & B2 & B3 & B4).
      cbn [thread]. cbv zeta. cbn [fst snd map]. rewrite !nat_sum_cons.
      split; [constructor; assumption|]. split; [lia|]. split; [constructor; assumption|].
      cbn [thread]. cbv zeta. rewrite B4. cbn [fst snd]. rewrite I4. reflexivity.
  Qed.

  Lemma thread2_spec : forall e evs, Forall2 (Forall2 PC) e evs ->
    Forall2 (Forall2 PC) (fst (thread (thread (k_bnd C)) e)) evs /\
    (mu2 (fst (thread (thread (k_bnd C)) e)) <= mu2 e)%nat /\
    Forall2 (Forall2 inr) (snd (thread (thread (k_bnd C)) e)) evs /\
    thread (thread (k_bnd C)) (fst (thread (thread (k_bnd C)) e)) = thread (thread (k_bnd C)) e.
  Proof.
    induction 1 as [|row vrow e evs Hrow _ IH].
    - cbn. repeat split; try constructor.
    - destruct IH as (I1 & I2 & I3 & I4). destruct (thread_entry row vrow Hrow) as (B1 & B2 & B3 & B4).
      cbn [thread]. cbv zeta. cbn [fst snd]. unfold mu2 in *. cbn [map]. rewrite !nat_sum_cons.
      split; [constructor; assumption|]. split; [lia|]. split; [constructor; assumption|].
      cbn [thread]. cbv zeta. rewrite B4. cbn [fst snd]. rewrite I4. reflexivity.
  Qed.

  (* ---------------------------------------------------------------- the values *)
  Variables (rem ins : list Z) (cnt : list (list nat)) (asg : list (nat * nat)) (kvs : list Z) (evs : list (list Z)).
  Hypothesis Hd1 : length evs = length rem.
  Hypothesis Hd2 : Forall (fun r => length r = length ins) evs.
  Notation CH := (ch rem ins asg).
  Notation nn := (length rem).
  Notation mm' := (length ins).
  Definition ev (p : nat * nat) : Z := mcv evs (fst p) (snd p).
  Definition Wv : Z := zsum (map ev CH).
  Definition UCv : Z := UCc rem ins asg.
  Definition Vv : Z := Wv + zsum kvs + UCv.

  Lemma bracket_W : forall (R : list (list zr)), Forall2 (Forall2 inr) R evs ->
    sum_smallest (Nat.min nn mm') (map (fun row => zmin_list (map fst row)) R) <= Wv /\
    Wv <= sum_largest (Nat.min nn mm') (map (fun row => zmax_list (map snd row)) R).
  Proof.
    intros R HR. destruct (ch_valid rem ins asg) as (N1 & N2 & Hr & L). rewrite <- L. unfold Wv.
    assert (LR : length R = nn) by (rewrite (Forall2_length' _ _ _ HR); exact Hd1).
    assert (Hent : forall p, In p CH ->
              inr (nth (snd p) (nth (fst p) R []) (0, 0)) (ev p) /\ (snd p < length (nth (fst p) R []))%nat).
    { intros p Hp. destruct (Hr p Hp) as [A B].
      assert (Lp : (fst p < length R)%nat) by lia.
      pose proof (F2_nth _ R evs (fst p) [] [] HR Lp) as Hrow.
      assert (Lv : length (nth (fst p) evs []) = mm').
      { rewrite Forall_forall in Hd2. apply Hd2. apply nth_In. lia. }
      assert (Lrow : length (nth (fst p) R []) = mm') by (pose proof (Forall2_length' _ _ _ Hrow) as L0; cbv beta in L0; lia).
      split; [|lia]. unfold ev, mcv. apply (F2_nth _ _ _ (snd p) (0, 0) 0 Hrow). apply Nat.lt_le_trans with mm'; [exact B|]. apply Nat.eq_le_incl. symmetry. exact Lrow. }
    split.
    - apply (bracket_lo _ CH fst ev N1). intros p Hp. destruct (Hr p Hp) as [A B]. destruct (Hent p Hp) as [[E1 _] E2].
      split; [rewrite map_length; apply Nat.lt_le_trans with nn; [exact A|apply Nat.eq_le_incl; symmetry; exact LR]|].
      erewrite (nth_map_lt _ R (fst p) 0 []) by (apply Nat.lt_le_trans with nn; [exact A|apply Nat.eq_le_incl; symmetry; exact LR]).
      eapply Z.le_trans; [|exact E1]. apply zmin_list_le. apply in_map. apply nth_In. exact E2.
    - apply (bracket_hi _ CH fst ev N1). intros p Hp. destruct (Hr p Hp) as [A B]. destruct (Hent p Hp) as [[_ E1] E2].
      split; [rewrite map_length; apply Nat.lt_le_trans with nn; [exact A|apply Nat.eq_le_incl; symmetry; exact LR]|].
      erewrite (nth_map_lt _ R (fst p) 0 []) by (apply Nat.lt_le_trans with nn; [exact A|apply Nat.eq_le_incl; symmetry; exact LR]).
      eapply Z.le_trans; [exact E1|]. apply zmax_list_ge. apply in_map. apply nth_In. exact E2.
  Qed.

  (* the nodes the matching leaves unmatched: before the matching is known, the cheapest / costliest |n - m| of the larger side *)
  Definition lpr : zr :=
    if Nat.ltb mm' nn then (sum_smallest (nn - mm') rem, sum_largest (nn - mm') rem)
    else if Nat.ltb nn mm' then (sum_smallest (mm' - nn) ins, sum_largest (mm' - nn) ins)
    else (0, 0).

  Lemma lpr_sound : inr lpr UCv.
  Proof.
    destruct (ch_valid rem ins asg) as (N1 & N2 & Hr & L).
    assert (R1 : forall i, In i (map fst CH) -> (i < nn)%nat) by (intros i Hi; apply in_map_iff in Hi; destruct Hi as (p & <- & Hp); apply (Hr p Hp)).
    assert (R2 : forall i, In i (map snd CH) -> (i < mm')%nat) by (intros i Hi; apply in_map_iff in Hi; destruct Hi as (p & <- & Hp); apply (Hr p Hp)).
    pose proof (sel_perm rem (map fst CH) N1 R1) as P1. pose proof (sel_perm ins (map snd CH) N2 R2) as P2.
    apply Permutation_sym in P1. apply Permutation_sym in P2.
    pose proof (Permutation_sym (Permutation_trans (Permutation_app_comm _ _) P1)) as Q1.
    pose proof (Permutation_sym (Permutation_trans (Permutation_app_comm _ _) P2)) as Q2.
    pose proof (ss_le_sub _ _ _ Q1) as A1. pose proof (sl_ge_sub _ _ _ Q1) as A2.
    pose proof (ss_le_sub _ _ _ Q2) as B1. pose proof (sl_ge_sub _ _ _ Q2) as B2.
    rewrite map_length, (sel_rest_length nn _ N1 R1), map_length in A1, A2.
    rewrite map_length, (sel_rest_length mm' _ N2 R2), map_length in B1, B2.
    fold (unm (map fst CH) nn) in A1, A2. fold (unm (map snd CH) mm') in B1, B2.
    unfold inr, lpr, UCv, UCc.
    destruct (Nat.ltb_spec mm' nn) as [H|H].
    - rewrite (unm_nil (map snd CH) mm' N2 R2) by (rewrite map_length; lia). cbn [map zsum fold_right fst snd].
      replace (nn - mm')%nat with (nn - length CH)%nat by lia. lia.
    - destruct (Nat.ltb_spec nn mm') as [H'|H'].
      + rewrite (unm_nil (map fst CH) nn N1 R1) by (rewrite map_length; lia). cbn [map zsum fold_right fst snd].
        replace (mm' - nn)%nat with (mm' - length CH)%nat by lia. lia.
      + rewrite (unm_nil (map fst CH) nn N1 R1) by (rewrite map_length; lia).
        rewrite (unm_nil (map snd CH) mm' N2 R2) by (rewrite map_length; lia). simpl. lia.
  Qed.

  (* ---------------------------------------------------------------- the matrix of edges *)
  Notation EOKA := (fun e : list (list ast) => Forall2 (Forall2 PC) e evs).

  Lemma e_dims : forall e, EOKA e -> length e = nn /\ forall i, (i < nn)%nat -> length (nth i e []) = mm'.
  Proof.
    intros e H. assert (L : length e = nn) by (rewrite (Forall2_length' _ _ _ H); exact Hd1). split; [exact L|].
    intros i Hi. assert (Li : (i < length e)%nat) by lia.
    pose proof (F2_nth _ e evs i [] [] H Li) as Hrow. rewrite (Forall2_length' _ _ _ Hrow).
    rewrite Forall_forall in Hd2. apply Hd2. apply nth_In. lia.
  Qed.

  Lemma e_get : forall e i j x, EOKA e -> mget e i j = Some x -> PC x (mcv evs i j).
  Proof. intros e i j x H Hx. rewrite mget_nth in Hx. apply (matrix_entry PC e evs i j x H Hx). Qed.

  Lemma e_set2 : forall e i j x x', EOKA e -> mget e i j = Some x -> PC x' (mcv evs i j) -> EOKA (set2 e i j x').
  Proof.
    intros e i j x x' H Hx Hx'. rewrite mget_nth in Hx. pose proof (nth_error_row e i j x Hx) as Hr.
    destruct (Forall2_nth_error _ _ _ _ _ H Hr) as (vrow & Er & Hrow).
    destruct (Forall2_nth_error _ _ _ _ _ Hrow Hx) as (v & Ev & Hv).
    unfold mcv in Hx'. rewrite (nth_nth_error evs i vrow [] Er), (nth_nth_error vrow j v 0 Ev) in Hx'.
    unfold set2. apply (Forall2_set_nth _ _ _ _ _ _ H Er). apply (Forall2_set_nth _ _ _ _ _ _ Hrow Ev Hx').
  Qed.

  Lemma amatched_ext : forall mt e e', NoDup (map fst mt) ->
    (forall p, In p mt -> mget e (fst p) (snd p) = mget e' (fst p) (snd p)) ->
    snd (amt_matched C e mt) = snd (amt_matched C e' mt).
  Proof.
    induction mt as [|p rest IH]; intros e e' Hn Hag; [reflexivity|].
    cbn [amt_matched]. rewrite <- (Hag p (or_introl eq_refl)). cbn [map] in Hn. inversion Hn as [|? ? Hnot Hn']. subst.
    destruct (mget e (fst p) (snd p)) as [x|] eqn:Ex.
    - cbv zeta. destruct (snd (k_tig C x)); [reflexivity|]. apply IH; [exact Hn'|].
      intros p' Hp'. pose proof (Hag p' (or_intror Hp')) as Hp.
      assert (Ne : fst p' <> fst p) by (intros Q; apply Hnot; rewrite <- Q; apply in_map; exact Hp').
      destruct (mget_some_lt _ _ _ _ Ex) as [L1 L2].
      assert (Ex' : mget e' (fst p) (snd p) = Some x) by (rewrite <- (Hag p (or_introl eq_refl)); exact Ex).
      destruct (mget_some_lt _ _ _ _ Ex') as [L1' L2'].
      rewrite !mget_set2 by assumption. destruct (Nat.eqb_spec (fst p') (fst p)) as [Q|_]; [contradiction|]. cbn [andb]. exact Hp.
    - apply IH; [exact Hn'|]. intros p' Hp'. apply Hag. right. exact Hp'.
  Qed.

  Lemma aread_spec : forall mt e, EOKA e -> NoDup (map fst mt) ->
    (forall p, In p mt -> (fst p < nn)%nat /\ (snd p < mm')%nat) ->
    EOKA (fst (aread_matched C e mt)) /\ (mu2 (fst (aread_matched C e mt)) <= mu2 e)%nat /\
    inr (snd (aread_matched C e mt)) (zsum (map ev mt)) /\
    aread_matched C (fst (aread_matched C e mt)) mt = (fst (aread_matched C e mt), snd (aread_matched C e mt)) /\
    (forall i j, ~ In i (map fst mt) -> mget (fst (aread_matched C e mt)) i j = mget e i j) /\
    (snd (amt_matched C (fst (aread_matched C e mt)) mt) = false ->
     snd (aread_matched C e mt) = (zsum (map ev mt), zsum (map ev mt))).
  Proof.
    induction mt as [|p rest IH]; intros e He Hn Hr.
    - cbn [aread_matched fst snd map zsum fold_right]. unfold inr. cbn [fst snd]. repeat split; try assumption; lia.
    - destruct (e_dims e He) as [Le Lrow]. destruct (Hr p (or_introl eq_refl)) as [A B].
      destruct (mget_lt_some e (fst p) (snd p) ltac:(lia) ltac:(rewrite (Lrow _ A); exact B)) as [x Ex].
      cbn [aread_matched]. rewrite Ex. cbv zeta.
      pose proof (e_get e _ _ x He Ex) as Px. fold (ev p) in Px.
      destruct (pb x _ Px) as (B1 & B2 & B3 & B4). destruct (pb _ _ B1) as (C1 & C2 & C3 & C4).
      set (x2 := fst (k_bnd C (fst (k_bnd C x)))) in *.
      assert (He1 : EOKA (set2 e (fst p) (snd p) x2)) by (apply (e_set2 e _ _ x x2 He Ex); exact C1).
      cbn [map] in Hn. inversion Hn as [|? ? Hnot Hn']. subst.
      destruct (IH _ He1 Hn' (fun p0 Hp0 => Hr p0 (or_intror Hp0))) as (I1 & I2 & I3 & I4 & I5 & I6).
      set (r := aread_matched C (set2 e (fst p) (snd p) x2) rest) in *.
      cbn [fst snd].
      assert (Ex' : nth_error (nth (fst p) e []) (snd p) = Some x) by (rewrite <- mget_nth; exact Ex).
      split; [exact I1|]. split; [pose proof (mu2_set2_le e _ _ x x2 Ex' ltac:(lia)); lia|].
      split; [unfold inr in *; cbn [map zsum fold_right fst snd]; fold (zsum (map ev rest)); lia|].
      assert (G : mget (fst r) (fst p) (snd p) = Some x2).
      { rewrite (I5 _ _ Hnot). rewrite mget_set2 by (try lia; rewrite (Lrow _ A); exact B). rewrite !Nat.eqb_refl. reflexivity. }
      split.
      + cbn [aread_matched]. rewrite G. cbv zeta.
        assert (E2 : k_bnd C x2 = (x2, snd (k_bnd C x))).
        { rewrite C4. rewrite B4. reflexivity. }
        rewrite E2. cbn [fst snd]. rewrite E2. cbn [fst snd]. rewrite (set2_same _ _ _ _ G). rewrite I4. cbn [fst snd].
        rewrite B4. reflexivity.
      + split.
        * intros i j Hij. cbn [map] in Hij. rewrite (I5 i j ltac:(intros Q; apply Hij; right; exact Q)).
          rewrite mget_set2 by (try lia; rewrite (Lrow _ A); exact B).
          destruct (Nat.eqb_spec i (fst p)) as [->|Ne]; [exfalso; apply Hij; left; reflexivity|reflexivity].
        * cbn [amt_matched]. rewrite G. cbv zeta. intros Hf.
          assert (E2 : k_bnd C x2 = (x2, snd (k_bnd C x))) by (rewrite C4; rewrite B4; reflexivity).
          destruct (pt x2 _ C1) as (T1 & _ & T3).
          destruct (snd (k_tig C x2)) eqn:Et; [discriminate|]. destruct (T3 eq_refl) as (_ & _ & T5).
          rewrite E2 in T5. cbn [snd] in T5.
          assert (Hrest : snd (amt_matched C (fst r) rest) = false).
          { rewrite <- Hf. apply amatched_ext; [exact Hn'|]. intros p' Hp'.
            assert (Ne : fst p' <> fst p) by (intros Q; apply Hnot; rewrite <- Q; apply in_map; exact Hp').
            destruct (mget_some_lt _ _ _ _ G) as [L1 L2]. rewrite mget_set2 by assumption.
            destruct (Nat.eqb_spec (fst p') (fst p)) as [Q|_]; [contradiction|]. reflexivity. }
          rewrite (I6 Hrest). cbn [map zsum fold_right fst snd]. fold (zsum (map ev rest)).
          rewrite B4 in C4. cbn [snd] in *. rewrite T5. cbn [fst snd]. f_equal.
          -- rewrite B4. cbn [snd]. rewrite T5. reflexivity.
  Qed.

  (* ---------------------------------------------------------------- the invariant *)
  Record MI (s : mset ast) : Prop := {
    mi_rem : m_rem s = rem; mi_ins : m_ins s = ins; mi_cnt : m_counts s = cnt; mi_asg : m_asg s = asg;
    mi_kvp : Forall2 PC (m_kvp s) kvs;
    mi_edges : EOKA (m_edges s);
    mi_match : m_match s = None \/ m_match s = Some CH;
    mi_memo : m_memo s = None \/ m_memo s = Some (Wv, Wv) }.

  Definition mmu (s : mset ast) : nat :=
    (nat_sum (map muA (m_kvp s)) + mu2 (m_edges s) + (if m_distinct s then O else 1) +
     match m_match s with Some _ => O | None => 1 end)%nat.

  Lemma mi_edges_upd : forall s e, MI s -> EOKA e -> MI (with_edges s e).
  Proof. intros s e [] He. constructor; cbn [with_edges m_rem m_ins m_counts m_asg m_kvp m_edges m_match m_memo]; assumption. Qed.
  Lemma mi_kvp_upd : forall s l, MI s -> Forall2 PC l kvs -> MI (with_kvp s l).
  Proof. intros s l [] Hl. constructor; cbn [with_kvp m_rem m_ins m_counts m_asg m_kvp m_edges m_match m_memo]; assumption. Qed.
  Lemma mi_memo_upd : forall s, MI s -> MI (with_memo s (Wv, Wv)).
  Proof. intros s []. constructor; cbn [with_memo m_rem m_ins m_counts m_asg m_kvp m_edges m_match m_memo]; try assumption. right. reflexivity. Qed.
  Lemma mi_match_upd : forall s, MI s -> MI (with_match s CH).
  Proof. intros s []. constructor; cbn [with_match m_rem m_ins m_counts m_asg m_kvp m_edges m_match m_memo]; try assumption. right. reflexivity. Qed.
  Lemma mi_distinct_upd : forall s, MI s -> MI (with_distinct s).
  Proof. intros s []. constructor; cbn [with_distinct m_rem m_ins m_counts m_asg m_kvp m_edges m_match m_memo]; assumption. Qed.

  Lemma mi_mn : forall s, MI s -> mn s = nn /\ mm s = mm'.
  Proof. intros s I. unfold mn, mm. rewrite (mi_rem s I), (mi_ins s I). split; reflexivity. Qed.
  Lemma mi_empty : forall s, MI s -> m_empty s = (Nat.eqb nn 0 || Nat.eqb mm' 0).
  Proof. intros s I. unfold m_empty. destruct (mi_mn s I) as [-> ->]. reflexivity. Qed.
  Lemma mi_chosen : forall s, MI s -> chosen s = CH.
  Proof. intros s I. unfold chosen, ch. rewrite (mi_empty s I). destruct (mi_mn s I) as [-> ->]. rewrite (mi_asg s I). reflexivity. Qed.

  Lemma ch_rows : NoDup (map fst CH) /\ (forall p, In p CH -> (fst p < nn)%nat /\ (snd p < mm')%nat).
  Proof. destruct (ch_valid rem ins asg) as (N1 & _ & Hr & _). split; assumption. Qed.

  Lemma def_point : forall (r : zr) v, inr r v -> zdefb r = true -> r = (v, v).
  Proof. intros [lo hi] v [A B] D. unfold zdefb in D. cbn [fst snd] in *. apply Z.eqb_eq in D. f_equal; lia. Qed.

  Lemma empty_W : (Nat.eqb nn 0 || Nat.eqb mm' 0) = true -> Wv = 0.
  Proof. intros E. unfold Wv, ch. rewrite E. reflexivity. Qed.

  (* WeightedBipartiteMatcher.bounds() *)
  Definition ABspec (s : mset ast) (q : mset ast * zr) : Prop :=
    MI (fst q) /\ (mu2 (m_edges (fst q)) <= mu2 (m_edges s))%nat /\ inr (snd q) Wv /\
    amt_bounds C (fst q) = (fst q, snd q) /\
    m_match (fst q) = m_match s /\ m_kvp (fst q) = m_kvp s /\ m_distinct (fst q) = m_distinct s /\
    (zdefb (snd q) = true -> m_memo (fst q) = Some (Wv, Wv)) /\
    (m_match s = Some CH -> zdefb (snd q) = false -> snd (amt_matched C (m_edges (fst q)) CH) = true).

  Lemma zdefb_point : forall v, zdefb (v, v) = true.
  Proof. intros v. unfold zdefb. cbn [fst snd]. apply Z.eqb_refl. Qed.

  Lemma amt_bounds_spec : forall s, MI s -> ABspec s (amt_bounds C s).
  Proof.
    intros s I.
    assert (Hmemo : forall u, m_memo u = Some (Wv, Wv) -> amt_bounds C u = (u, (Wv, Wv))).
    { intros u E. unfold amt_bounds. rewrite E. reflexivity. }
    assert (Hfin : forall u, MI u -> (mu2 (m_edges u) <= mu2 (m_edges s))%nat -> m_match u = m_match s -> m_kvp u = m_kvp s ->
                   m_distinct u = m_distinct s -> amt_bounds C s = (with_memo u (Wv, Wv), (Wv, Wv)) -> ABspec s (amt_bounds C s)).
    { intros u Iu Mu E1 E2 E3 E. rewrite E. unfold ABspec. cbn [fst snd].
      split; [apply mi_memo_upd; exact Iu|]. split; [exact Mu|]. split; [unfold inr; cbn [fst snd]; lia|].
      split; [apply Hmemo; reflexivity|]. split; [exact E1|]. split; [exact E2|]. split; [exact E3|].
      split; [reflexivity|]. intros _ D. rewrite zdefb_point in D. discriminate. }
    destruct (m_memo s) as [r|] eqn:Em.
    - destruct (mi_memo s I) as [E|E]; [congruence|].
      rewrite (Hmemo s E). unfold ABspec. cbn [fst snd]. split; [exact I|]. split; [lia|]. split; [unfold inr; cbn [fst snd]; lia|].
      split; [apply Hmemo; exact E|]. split; [reflexivity|]. split; [reflexivity|]. split; [reflexivity|].
      split; [intros _; exact E|]. intros _ D. rewrite zdefb_point in D. discriminate.
    - pose proof (mi_empty s I) as Ee. destruct (Nat.eqb nn 0 || Nat.eqb mm' 0) eqn:E0.
      + pose proof (empty_W E0) as W0.
        apply (Hfin s I (le_n _) eq_refl eq_refl eq_refl). unfold amt_bounds. rewrite Em, Ee, W0. reflexivity.
      + destruct (mi_mn s I) as [En Em']. destruct (mi_match s I) as [E|E].
        * destruct (thread2_spec _ _ (mi_edges s I)) as (A1 & A2 & A3 & A4).
          set (t1 := thread (thread (k_bnd C)) (m_edges s)) in *.
          destruct (bracket_W (snd t1) A3) as [L1 L2].
          set (r := (sum_smallest (Nat.min nn mm') (map (fun row => zmin_list (map fst row)) (snd t1)),
                     sum_largest (Nat.min nn mm') (map (fun row => zmax_list (map snd row)) (snd t1)))) in *.
          assert (Hr : inr r Wv) by (unfold inr, r; cbn [fst snd]; lia).
          assert (I1 : MI (with_edges s (fst t1))) by (apply mi_edges_upd; assumption).
          assert (Eq : forall u, m_memo u = None -> m_empty u = false -> m_match u = None -> mn u = nn -> mm u = mm' ->
                       thread (thread (k_bnd C)) (m_edges u) = t1 ->
                       amt_bounds C u = if zdefb r then (with_memo (with_edges u (fst t1)) r, r) else (with_edges u (fst t1), r)).
          { intros u U1 U2 U3 U4 U5 U6. unfold amt_bounds. rewrite U1, U2, U3. cbv zeta. rewrite U4, U5, U6, A4. reflexivity. }
          pose proof (Eq s Em ltac:(rewrite Ee; reflexivity) E En Em' eq_refl) as Es.
          destruct (zdefb r) eqn:D.
          -- rewrite (def_point r Wv Hr D) in Es. apply (Hfin _ I1 A2 eq_refl eq_refl eq_refl Es).
          -- rewrite Es. unfold ABspec. cbn [fst snd]. split; [exact I1|]. split; [exact A2|]. split; [exact Hr|]. split.
             { rewrite (Eq (with_edges s (fst t1)) Em ltac:(change (m_empty (with_edges s (fst t1))) with (m_empty s); rewrite Ee; reflexivity)
                         E En Em' A4).
               reflexivity. }
             split; [reflexivity|]. split; [reflexivity|]. split; [reflexivity|].
             split; [intros D'; rewrite D in D'; discriminate|]. intros E'. congruence.
        * destruct ch_rows as [N1 Hr]. destruct (aread_spec CH _ (mi_edges s I) N1 Hr) as (A1 & A2 & A3 & A4 & _ & A6).
          set (p := aread_matched C (m_edges s) CH) in *. fold Wv in A3, A6.
          assert (I1 : MI (with_edges s (fst p))) by (apply mi_edges_upd; assumption).
          assert (Eq : forall u, m_memo u = None -> m_empty u = false -> m_match u = Some CH ->
                       aread_matched C (m_edges u) CH = (fst p, snd p) ->
                       amt_bounds C u = if zdefb (snd p) then (with_memo (with_edges u (fst p)) (snd p), snd p) else (with_edges u (fst p), snd p)).
          { intros u U1 U2 U3 U4. unfold amt_bounds. rewrite U1, U2, U3. cbv zeta. rewrite U4. reflexivity. }
          pose proof (Eq s Em ltac:(rewrite Ee; reflexivity) E ltac:(fold p; destruct p; reflexivity)) as Es.
          destruct (zdefb (snd p)) eqn:D.
          -- rewrite (def_point _ Wv A3 D) in Es. apply (Hfin _ I1 A2 eq_refl eq_refl eq_refl Es).
          -- rewrite Es. unfold ABspec. cbn [fst snd]. split; [exact I1|]. split; [exact A2|]. split; [exact A3|]. split.
             { rewrite (Eq (with_edges s (fst p)) Em ltac:(change (m_empty (with_edges s (fst p))) with (m_empty s); rewrite Ee; reflexivity)
                         E A4).
               reflexivity. }
             split; [reflexivity|]. split; [reflexivity|]. split; [reflexivity|].
             split; [intros D'; rewrite D in D'; discriminate|]. intros _ _.
             cbn [with_edges m_edges]. destruct (snd (amt_matched C (fst p) CH)) eqn:Ef; [reflexivity|]. exfalso.
             rewrite (A6 eq_refl) in D. rewrite zdefb_point in D. discriminate.
  Qed.

  Lemma amt_bounds_kvp : forall s l,
    amt_bounds C (with_kvp s l) = (with_kvp (fst (amt_bounds C s)) l, snd (amt_bounds C s)).
  Proof.
    intros s l. unfold amt_bounds. cbn [with_kvp m_memo]. destruct (m_memo s); [reflexivity|].
    change (m_empty (with_kvp s l)) with (m_empty s). destruct (m_empty s); [reflexivity|].
    cbn [with_kvp m_match m_edges]. destruct (m_match s); cbv zeta;
      change (mn (with_kvp s l)) with (mn s); change (mm (with_kvp s l)) with (mm s); destruct (zdefb _); reflexivity.
  Qed.

  Lemma uc_eq : forall s, MI s -> unmatched_cost s CH = UCv.
  Proof. intros s I. unfold unmatched_cost, UCv, UCc, unm, mn, mm. rewrite (mi_rem s I), (mi_ins s I). reflexivity. Qed.

  (* what MultiSetEdit.bounds() adds for the nodes the matching leaves (or will leave) unmatched *)
  Definition tailr (s : mset ast) : zr :=
    match m_match s with
    | Some mt => zconst (unmatched_cost s mt)
    | None => if Nat.ltb (mm s) (mn s) then (sum_smallest (mn s - mm s) (m_rem s), sum_largest (mn s - mm s) (m_rem s))
              else if Nat.ltb (mn s) (mm s) then (sum_smallest (mm s - mn s) (m_ins s), sum_largest (mm s - mn s) (m_ins s))
              else (0, 0)
    end.

  Lemma tailr_sound : forall s, MI s -> inr (tailr s) UCv /\ (m_match s = Some CH -> tailr s = (UCv, UCv)).
  Proof.
    intros s I. unfold tailr. destruct (mi_match s I) as [E|E]; rewrite E.
    - split; [|discriminate]. destruct (mi_mn s I) as [-> ->]. rewrite (mi_rem s I), (mi_ins s I). exact lpr_sound.
    - rewrite (uc_eq s I). unfold zconst, inr. cbn [fst snd]. split; [lia|reflexivity].
  Qed.

  Lemma ams_bounds_eq : forall s,
    ams_bounds C s =
    (with_kvp (fst (amt_bounds C s)) (fst (thread (k_bnd C) (m_kvp (fst (amt_bounds C s))))),
     zr_add (zr_add (snd (amt_bounds C s)) (zr_sum (snd (thread (k_bnd C) (m_kvp (fst (amt_bounds C s)))))))
            (tailr (with_kvp (fst (amt_bounds C s)) (fst (thread (k_bnd C) (m_kvp (fst (amt_bounds C s)))))))).
  Proof.
    intros s. unfold ams_bounds, tailr. cbv zeta. f_equal.
    destruct (m_match _); [reflexivity|]. destruct (Nat.ltb _ _); [reflexivity|]. destruct (Nat.ltb _ _); [reflexivity|].
    unfold zr_add. cbn [fst snd]. rewrite !Z.add_0_r. destruct (snd (amt_bounds C s)); destruct (zr_sum _); reflexivity.
  Qed.

  (* MultiSetEdit.bounds() *)
  Lemma ams_bounds_spec : forall s, MI s ->
    MI (fst (ams_bounds C s)) /\ (mmu (fst (ams_bounds C s)) <= mmu s)%nat /\ inr (snd (ams_bounds C s)) Vv /\
    ams_bounds C (fst (ams_bounds C s)) = (fst (ams_bounds C s), snd (ams_bounds C s)) /\
    m_match (fst (ams_bounds C s)) = m_match s /\ m_distinct (fst (ams_bounds C s)) = m_distinct s.
  Proof.
    intros s I. rewrite ams_bounds_eq. cbn [fst snd].
    destruct (amt_bounds_spec s I) as (A1 & A2 & A3 & A4 & A5 & A6 & A7 & _ & _).
    set (s1 := fst (amt_bounds C s)) in *. set (r1 := snd (amt_bounds C s)) in *.
    destruct (thread_bnd_spec q d PC HPC _ _ (mi_kvp s1 A1)) as (B1 & B2 & B3 & B4).
    set (t := thread (k_bnd C) (m_kvp s1)) in *.
    assert (I2 : MI (with_kvp s1 (fst t))) by (apply mi_kvp_upd; assumption).
    destruct (tailr_sound _ I2) as [T1 _].
    split; [exact I2|]. split.
    { unfold mmu. cbn [with_kvp m_kvp m_edges m_distinct m_match]. rewrite A5, A7, A6 in *. lia. }
    split.
    { unfold inr, Vv, zr_add in *. cbn [fst snd]. lia. }
    split; [|split; [exact A5|exact A7]].
    rewrite ams_bounds_eq. rewrite amt_bounds_kvp. fold s1. rewrite A4. cbn [fst snd with_kvp m_kvp]. fold t. rewrite B4. fold t.
    reflexivity.
  Qed.

  (* ---------------------------------------------------------------- make_distinct, the matching, the undecorated tighten *)
  Lemma aiter_spec : forall k x v, PC x v -> PC (aiter_tb C k x) v /\ (muA (aiter_tb C k x) <= muA x)%nat.
  Proof.
    induction k as [|k IH]; intros x v H; cbn [aiter_tb]; [split; [exact H|lia]|].
    destruct (pt x v H) as (T1 & T2 & T3). destruct (pb _ v T1) as (B1 & B2 & _).
    assert (M : (muA (fst (k_tig C x)) <= muA x)%nat).
    { destruct (snd (k_tig C x)); [specialize (T2 eq_refl); lia|apply (T3 eq_refl)]. }
    destruct (IH _ v B1) as [I1 I2]. split; [exact I1|lia].
  Qed.

  Lemma amd_spec : forall e, EOKA e -> EOKA (amd_edges C cnt e) /\ (mu2 (amd_edges C cnt e) <= mu2 e)%nat.
  Proof.
    intros e He. unfold amd_edges, mu2.
    apply (map_idx_F2 (Forall2 PC) (fun row => nat_sum (map muA row)) _ e evs 0%nat He).
    intros i row vrow Hrow. cbn [fst snd].
    apply (map_idx_F2 PC muA _ row vrow 0%nat Hrow).
    intros j x v Hx. cbn [fst snd]. destruct (pb x v Hx) as (B1 & B2 & _).
    destruct (aiter_spec (nth j (nth i cnt []) 0%nat) _ v B1) as [A1 A2]. split; [exact A1|lia].
  Qed.

  Lemma empty_CH : (Nat.eqb nn 0 || Nat.eqb mm' 0) = true -> CH = [].
  Proof. intros E. unfold ch. rewrite E. reflexivity. Qed.

  (* the `matching` property *)
  Lemma amt_force_spec : forall s, MI s ->
    MI (amt_force C s) /\ m_match (amt_force C s) = Some CH /\ m_kvp (amt_force C s) = m_kvp s /\
    m_memo (amt_force C s) = m_memo s /\
    (mmu (amt_force C s) <= mmu s)%nat /\ (m_match s = None -> (mmu (amt_force C s) < mmu s)%nat).
  Proof.
    intros s I. unfold amt_force. destruct (mi_match s I) as [E|E]; rewrite E.
    2:{ split; [exact I|]. split; [exact E|]. split; [reflexivity|]. split; [reflexivity|]. split; [lia|]. intros Q. congruence. }
    rewrite (mi_empty s I). destruct (Nat.eqb nn 0 || Nat.eqb mm' 0) eqn:E0.
    - rewrite <- (empty_CH E0). split; [apply mi_match_upd; exact I|]. split; [reflexivity|]. split; [reflexivity|]. split; [reflexivity|].
      unfold mmu. cbn [with_match m_kvp m_edges m_distinct m_match]. rewrite E. split; [lia|intros _; lia].
    - cbv zeta.
      set (s1 := if m_distinct s then s else with_distinct (with_edges s (amd_edges C (m_counts s) (m_edges s)))).
      assert (H1 : MI s1 /\ (mu2 (m_edges s1) <= mu2 (m_edges s))%nat /\ m_kvp s1 = m_kvp s /\ m_memo s1 = m_memo s /\
                   m_match s1 = m_match s /\ (m_distinct s = true -> m_distinct s1 = true) /\
                   (m_distinct s = false -> m_distinct s1 = true)).
      { unfold s1. destruct (m_distinct s) eqn:Ed.
        - split; [exact I|]. split; [lia|]. split; [reflexivity|]. split; [reflexivity|]. split; [reflexivity|]. split; [intros _; exact Ed|intros Q; congruence].
        - rewrite (mi_cnt s I). destruct (amd_spec _ (mi_edges s I)) as [A1 A2].
          split; [apply mi_distinct_upd; apply mi_edges_upd; assumption|]. split; [exact A2|]. split; [reflexivity|]. split; [reflexivity|]. split; [reflexivity|]. split; [intros Q; congruence|intros _; reflexivity]. }
      destruct H1 as (I1 & M1 & K1 & Me1 & Ma1 & D1 & D2).
      destruct (thread2_spec _ _ (mi_edges s1 I1)) as (A1 & A2 & _ & _).
      set (t := thread (thread (k_bnd C)) (m_edges s1)) in *.
      assert (I2 : MI (with_edges s1 (fst t))) by (apply mi_edges_upd; assumption).
      rewrite (mi_chosen _ I2).
      split; [apply mi_match_upd; exact I2|]. split; [reflexivity|]. split; [exact K1|]. split; [exact Me1|].
      unfold mmu. cbn [with_match with_edges m_kvp m_edges m_distinct m_match]. rewrite K1, E.
      assert (Dd : ((if m_distinct s1 then 0 else 1) <= (if m_distinct s then 0 else 1))%nat).
      { destruct (m_distinct s); [rewrite (D1 eq_refl); lia|rewrite (D2 eq_refl); lia]. }
      split; [lia|intros _; lia].
  Qed.

  Lemma amatched_spec : forall mt e, EOKA e -> (forall p, In p mt -> (fst p < nn)%nat /\ (snd p < mm')%nat) ->
    EOKA (fst (amt_matched C e mt)) /\ (mu2 (fst (amt_matched C e mt)) <= mu2 e)%nat /\
    (snd (amt_matched C e mt) = true -> (mu2 (fst (amt_matched C e mt)) < mu2 e)%nat).
  Proof.
    induction mt as [|p rest IH]; intros e He Hr.
    - cbn [amt_matched fst snd]. split; [exact He|]. split; [lia|discriminate].
    - destruct (e_dims e He) as [Le Lrow]. destruct (Hr p (or_introl eq_refl)) as [A B].
      destruct (mget_lt_some e (fst p) (snd p) ltac:(lia) ltac:(rewrite (Lrow _ A); exact B)) as [x Ex].
      cbn [amt_matched]. rewrite Ex. cbv zeta.
      pose proof (e_get e _ _ x He Ex) as Px. destruct (pt x _ Px) as (T1 & T2 & T3).
      assert (Ex' : nth_error (nth (fst p) e []) (snd p) = Some x) by (rewrite <- mget_nth; exact Ex).
      pose proof (mu2_set2 e (fst p) (snd p) x (fst (k_tig C x)) Ex') as Mu.
      assert (He1 : EOKA (set2 e (fst p) (snd p) (fst (k_tig C x)))) by (apply (e_set2 e _ _ x _ He Ex); exact T1).
      destruct (snd (k_tig C x)) eqn:Et.
      + cbn [fst snd]. specialize (T2 eq_refl). split; [exact He1|]. split; [lia|intros _; lia].
      + destruct (T3 eq_refl) as (M1 & _ & _).
        destruct (IH _ He1 (fun p0 Hp0 => Hr p0 (or_intror Hp0))) as (I1 & I2 & I3).
        split; [exact I1|]. split; [lia|]. intros Q. specialize (I3 Q). lia.
  Qed.

  (* the undecorated WeightedBipartiteMatcher.tighten_bounds() *)
  Lemma amt_func_spec : forall s, MI s ->
    (m_match s = Some CH -> snd (amt_matched C (m_edges s) CH) = true) ->
    MI (amt_func C s) /\ (mmu (amt_func C s) < mmu s)%nat /\ m_kvp (amt_func C s) = m_kvp s.
  Proof.
    intros s I Hp. unfold amt_func. destruct (mi_match s I) as [E|E]; rewrite E.
    - destruct (m_distinct s) eqn:Ed.
      + destruct (amt_force_spec s I) as (F1 & _ & F3 & _ & _ & F6). split; [exact F1|]. split; [apply F6; exact E|exact F3].
      + rewrite (mi_cnt s I). destruct (amd_spec _ (mi_edges s I)) as [A1 A2].
        split; [apply mi_distinct_upd; apply mi_edges_upd; assumption|]. split; [|reflexivity].
        unfold mmu. cbn [with_distinct with_edges m_kvp m_edges m_distinct m_match]. rewrite Ed. lia.
    - destruct ch_rows as [_ Hr]. destruct (amatched_spec CH _ (mi_edges s I) Hr) as (A1 & A2 & A3).
      split; [apply mi_edges_upd; assumption|]. split; [|reflexivity].
      unfold mmu. cbn [with_edges m_kvp m_edges m_distinct m_match]. specialize (A3 (Hp E)). lia.
  Qed.

  (* ---------------------------------------------------------------- repeat_until_tightened around the matcher *)
  Lemma mmu_bounds : forall u, MI u -> (mmu (fst (amt_bounds C u)) <= mmu u)%nat.
  Proof.
    intros u I. destruct (amt_bounds_spec u I) as (_ & A2 & _ & _ & A5 & A6 & A7 & _). unfold mmu. rewrite A5, A6, A7. lia.
  Qed.

  Lemma mloop_spec : forall fuel start u, MI u -> zdefb (snd (amt_bounds C u)) = false -> inr start Wv ->
    (mmu (fst (amt_bounds C u)) < fuel)%nat ->
    snd (arut_loop (amt_bounds C) (amt_func C) fuel start (fst (amt_bounds C u))) = false /\
    snd (fst (arut_loop (amt_bounds C) (amt_func C) fuel start (fst (amt_bounds C u)))) = true /\
    MI (fst (fst (arut_loop (amt_bounds C) (amt_func C) fuel start (fst (amt_bounds C u))))) /\
    (mmu (fst (fst (arut_loop (amt_bounds C) (amt_func C) fuel start (fst (amt_bounds C u))))) < mmu (fst (amt_bounds C u)))%nat /\
    m_kvp (fst (fst (arut_loop (amt_bounds C) (amt_func C) fuel start (fst (amt_bounds C u))))) = m_kvp u.
  Proof.
    induction fuel as [|fuel IH]; intros start u I D Hs Hf; [lia|].
    destruct (amt_bounds_spec u I) as (A1 & _ & _ & _ & A5 & A6 & _ & _ & A9).
    set (s := fst (amt_bounds C u)) in *.
    destruct (amt_func_spec s A1 ltac:(intros Q; apply A9; [rewrite <- A5; exact Q|exact D])) as (F1 & F2 & F3).
    pose proof (mmu_bounds _ F1) as M1.
    destruct (amt_bounds_spec _ F1) as (B1 & _ & B3 & _ & _ & B6 & _).
    cbn [arut_loop]. cbv zeta.
    set (s1 := fst (amt_bounds C (amt_func C s))) in *. set (nb := snd (amt_bounds C (amt_func C s))) in *.
    assert (Hrec : zdefb nb = false ->
              snd (arut_loop (amt_bounds C) (amt_func C) fuel start s1) = false /\
              snd (fst (arut_loop (amt_bounds C) (amt_func C) fuel start s1)) = true /\
              MI (fst (fst (arut_loop (amt_bounds C) (amt_func C) fuel start s1))) /\
              (mmu (fst (fst (arut_loop (amt_bounds C) (amt_func C) fuel start s1))) < mmu s)%nat /\
              m_kvp (fst (fst (arut_loop (amt_bounds C) (amt_func C) fuel start s1))) = m_kvp u).
    { intros Dn. destruct (IH start (amt_func C s) F1 Dn Hs ltac:(fold s1; lia)) as (R1 & R2 & R3 & R4 & R5). fold s1 in R1, R2, R3, R4, R5.
      split; [exact R1|]. split; [exact R2|]. split; [exact R3|]. split; [lia|]. rewrite R5, F3. exact A6. }
    destruct (widened nb start) eqn:Wd.
    - apply Hrec. destruct (zdefb nb) eqn:Dn; [|reflexivity]. exfalso.
      rewrite (def_point nb Wv B3 Dn) in Wd. unfold widened, inr in *. cbn [fst snd] in *.
      apply orb_true_iff in Wd. destruct Wd as [Q|Q]; apply Z.ltb_lt in Q; lia.
    - destruct (zdefb nb || tighter nb start) eqn:G.
      + cbn [fst snd]. split; [reflexivity|]. split; [reflexivity|]. split; [exact B1|]. split; [lia|]. rewrite B6, F3. exact A6.
      + apply Hrec. apply orb_false_iff in G. apply G.
  Qed.

  Lemma mrut_spec : forall fuel u, MI u -> (mmu u < fuel)%nat ->
    snd (arut (amt_bounds C) (amt_func C) fuel u) = false /\
    MI (fst (fst (arut (amt_bounds C) (amt_func C) fuel u))) /\
    m_kvp (fst (fst (arut (amt_bounds C) (amt_func C) fuel u))) = m_kvp u /\
    (snd (fst (arut (amt_bounds C) (amt_func C) fuel u)) = true ->
     (mmu (fst (fst (arut (amt_bounds C) (amt_func C) fuel u))) < mmu u)%nat) /\
    (snd (fst (arut (amt_bounds C) (amt_func C) fuel u)) = false ->
     fst (fst (arut (amt_bounds C) (amt_func C) fuel u)) = fst (amt_bounds C u) /\ snd (amt_bounds C u) = (Wv, Wv)).
  Proof.
    intros fuel u I Hf. unfold arut. cbv zeta. pose proof (mmu_bounds u I) as M0.
    destruct (amt_bounds_spec u I) as (A1 & _ & A3 & _ & _ & A6 & _).
    destruct (zdefb (snd (amt_bounds C u))) eqn:D.
    - cbn [fst snd]. split; [reflexivity|]. split; [exact A1|]. split; [exact A6|]. split; [discriminate|].
      intros _. split; [reflexivity|apply (def_point _ _ A3 D)].
    - destruct (mloop_spec fuel (snd (amt_bounds C u)) u I D A3 ltac:(lia)) as (R1 & R2 & R3 & R4 & R5).
      split; [exact R1|]. split; [exact R3|]. split; [exact R5|]. split; [intros _; lia|]. rewrite R2. discriminate.
  Qed.

  (* ---------------------------------------------------------------- MultiSetEdit.tighten_bounds() *)
  Notation KP := (fun u : mset ast => thread (k_bnd C) (m_kvp u) = (m_kvp u, pts kvs)).

  Lemma amt_bounds_memo : forall u, m_memo u = Some (Wv, Wv) -> amt_bounds C u = (u, (Wv, Wv)).
  Proof. intros u E. unfold amt_bounds. rewrite E. reflexivity. Qed.

  Lemma ams_bounds_stable : forall u, amt_bounds C u = (u, (Wv, Wv)) -> KP u ->
    ams_bounds C u = (u, zr_add (zr_add (Wv, Wv) (zsum kvs, zsum kvs)) (tailr u)).
  Proof.
    intros u H1 H2. rewrite ams_bounds_eq, H1. cbn [fst snd]. rewrite H2. cbn [fst snd]. rewrite with_kvp_same, zr_sum_pts. reflexivity.
  Qed.

  Lemma V_parts : zr_add (zr_add (Wv, Wv) (zsum kvs, zsum kvs)) (UCv, UCv) = (Vv, Vv).
  Proof. unfold zr_add, Vv. cbn [fst snd]. reflexivity. Qed.

  Lemma ams_tig_rest_spec : forall fuel s1, MI s1 -> KP s1 -> (mmu s1 < fuel)%nat ->
    snd (fst (ams_tig_rest C fuel s1)) = false /\ MI (fst (fst (ams_tig_rest C fuel s1))) /\
    (snd (ams_tig_rest C fuel s1) = true -> (mmu (fst (fst (ams_tig_rest C fuel s1))) < mmu s1)%nat) /\
    (snd (ams_tig_rest C fuel s1) = false ->
     (mmu (fst (fst (ams_tig_rest C fuel s1))) <= mmu s1)%nat /\
     ams_bounds C (fst (fst (ams_tig_rest C fuel s1))) = (fst (fst (ams_tig_rest C fuel s1)), (Vv, Vv)) /\
     snd (ams_bounds C s1) = (Vv, Vv)).
  Proof.
    intros fuel s1 I K Hf. unfold ams_tig_rest. cbv zeta.
    pose proof (mrut_spec fuel s1 I Hf) as R. revert R.
    generalize (arut (amt_bounds C) (amt_func C) fuel s1). intros [[s2 r] ex] (R1 & R2 & R3 & R4 & R5). cbn [fst snd] in *.
    subst ex. destruct r.
    - cbn [fst snd]. split; [reflexivity|]. split; [exact R2|]. split; [intros _; apply R4; reflexivity|discriminate].
    - destruct (R5 eq_refl) as [Es2 Eb]. clear R4 R5.
      destruct (amt_bounds_spec s1 I) as (A1 & _ & _ & A4 & A5 & A6 & _ & A8 & _).
      rewrite <- Es2 in A1, A4, A5, A6, A8. rewrite Eb in A4, A8. specialize (A8 (zdefb_point _)).
      assert (K2 : KP s2) by (rewrite A6; exact K).
      pose proof (ams_bounds_stable s2 A4 K2) as S2.
      assert (S1 : snd (ams_bounds C s1) = zr_add (zr_add (Wv, Wv) (zsum kvs, zsum kvs)) (tailr s2)).
      { rewrite ams_bounds_eq. cbn [snd]. rewrite Eb, <- Es2, A6, K. cbn [fst snd]. rewrite zr_sum_pts. reflexivity. }
      pose proof (mmu_bounds s1 I) as M2. rewrite <- Es2 in M2.
      destruct (tailr_sound s2 A1) as [T1 T2].
      destruct (m_match s2) as [mt|] eqn:Em.
      + cbn [fst snd]. split; [reflexivity|]. split; [exact A1|]. split; [discriminate|]. intros _.
        assert (Emt : Some mt = Some CH) by (destruct (mi_match s2 A1) as [Q|Q]; congruence).
        rewrite (T2 Emt), V_parts in S2, S1. split; [exact M2|]. split; [exact S2|exact S1].
      + rewrite S2. cbn [fst snd].
        destruct (amt_force_spec s2 A1) as (F1 & F2 & F3 & F4 & F5 & F6). specialize (F6 Em).
        set (sF := amt_force C s2) in *.
        assert (KF : KP sF) by (rewrite F3; exact K2).
        pose proof (ams_bounds_stable sF (amt_bounds_memo sF ltac:(rewrite F4; exact A8)) KF) as SF.
        destruct (tailr_sound sF F1) as [_ TF]. rewrite (TF F2), V_parts in SF. rewrite SF. cbn [fst snd].
        split; [reflexivity|]. split; [exact F1|]. split; [intros _; lia|]. intros Ht.
        split; [lia|]. split; [exact SF|]. rewrite S1.
        set (r0 := zr_add (zr_add (Wv, Wv) (zsum kvs, zsum kvs)) (tailr s2)) in *.
        assert (Hr0 : inr r0 Vv) by (unfold r0, inr, zr_add, Vv in *; cbn [fst snd] in *; lia).
        unfold tighter in Ht. cbn [fst snd] in Ht. apply orb_false_iff in Ht. destruct Ht as [H1 H2].
        apply Z.ltb_ge in H1. apply Z.ltb_ge in H2. destruct r0 as [lo hi]. unfold inr in Hr0. cbn [fst snd] in *. f_equal; lia.
  Qed.

  Lemma amset_mu_eq : forall u, amset_mu C u = mmu u.
  Proof. intros u. unfold amset_mu, mmu, mu2. rewrite mu_ops. reflexivity. Qed.

  Lemma ams_tig_spec : forall s, MI s ->
    snd (fst (ams_tig C s)) = false /\ MI (fst (fst (ams_tig C s))) /\
    (snd (ams_tig C s) = true -> (mmu (fst (fst (ams_tig C s))) < mmu s)%nat) /\
    (snd (ams_tig C s) = false ->
     (mmu (fst (fst (ams_tig C s))) <= mmu s)%nat /\
     ams_bounds C (fst (fst (ams_tig C s))) = (fst (fst (ams_tig C s)), (Vv, Vv)) /\
     snd (ams_bounds C s) = (Vv, Vv)).
  Proof.
    intros s I. unfold ams_tig. cbv zeta.
    destruct (first_true_spec q d PC HPC _ _ (mi_kvp s I)) as (T1 & T2 & T3).
    set (p := first_true (k_tig C) (m_kvp s)) in *.
    assert (I1 : MI (with_kvp s (fst p))) by (apply mi_kvp_upd; assumption).
    destruct (snd p) eqn:Ep.
    - cbn [fst snd]. split; [reflexivity|]. split; [exact I1|]. split; [|discriminate].
      intros _. specialize (T2 eq_refl). unfold mmu. cbn [with_kvp m_kvp m_edges m_distinct m_match]. lia.
    - destruct (T3 eq_refl) as (J1 & J2 & J3).
      assert (Mu : (mmu (with_kvp s (fst p)) <= mmu s)%nat) by (unfold mmu; cbn [with_kvp m_kvp m_edges m_distinct m_match]; lia).
      destruct (ams_tig_rest_spec (S (S (S (amset_mu C (with_kvp s (fst p)))))) (with_kvp s (fst p)) I1 J2
                                  ltac:(rewrite amset_mu_eq; lia)) as (R1 & R2 & R3 & R4).
      split; [exact R1|]. split; [exact R2|]. split; [intros Q; specialize (R3 Q); lia|].
      intros Q. destruct (R4 Q) as (Q1 & Q2 & Q3). split; [lia|]. split; [exact Q2|].
      rewrite <- Q3. rewrite !ams_bounds_eq. cbn [snd]. rewrite amt_bounds_kvp. cbn [fst snd with_kvp m_kvp].
      destruct (amt_bounds_spec s I) as (_ & _ & _ & _ & _ & A6 & _). rewrite A6, J2. cbn [fst snd]. rewrite J3. reflexivity.
  Qed.

  (* ---------------------------------------------------------------- the class lemma *)
  Lemma bnd_mset : forall ix m err,
    k_bnd (opsA q (S d)) (AMSet ix m err) = (AMSet ix (fst (ams_bounds C m)) err, snd (ams_bounds C m)).
  Proof. reflexivity. Qed.
  Lemma tig_mset : forall ix m err,
    k_tig (opsA q (S d)) (AMSet ix m err) = (AMSet ix (fst (fst (ams_tig C m))) (err || snd (fst (ams_tig C m))), snd (ams_tig C m)).
  Proof. reflexivity. Qed.
  Lemma cmp_mset : forall ix m err,
    k_cmp (opsA q (S d)) (AMSet ix m err) = (AMSet ix m err, match m_match m with Some _ => true | None => false end).
  Proof. reflexivity. Qed.

  Lemma f2_err2 : forall e vss, Forall2 (Forall2 PC) e vss -> existsb (fun row => existsb errA row) e = false.
  Proof.
    induction 1 as [|row vrow e vss Hrow _ IH]; [reflexivity|]. cbn [existsb]. rewrite IH, (f2_err q d PC HPC _ _ Hrow). reflexivity.
  Qed.

  Lemma mmu_muA : forall ix m err, muA (AMSet ix m err) = mmu m.
  Proof. reflexivity. Qed.

  Lemma mset_step : forall ix m, MI m ->
    astep_ok (AM q (S d)) (fun t => exists m', t = AMSet ix m' false /\ MI m') Vv (AMSet ix m false).
  Proof.
    intros ix m I. unfold astep_ok. cbn [AM ASt a_bnd a_tig a_cmp a_eds a_err a_mu].
    destruct (ams_bounds_spec m I) as (B1 & B2 & B3 & B4 & _).
    destruct (ams_tig_spec m I) as (T1 & T2 & T3 & T4).
    split. { cbn [errA orb]. rewrite (f2_err q d PC HPC _ _ (mi_kvp m I)), (f2_err2 _ _ (mi_edges m I)). reflexivity. }
    split; [|split; [|split]].
    - rewrite bnd_mset. cbn [fst snd]. rewrite !mmu_muA.
      split; [eexists; split; [reflexivity|exact B1]|]. split; [exact B2|]. split; [exact B3|].
      rewrite bnd_mset, B4. reflexivity.
    - rewrite tig_mset, T1. cbn [fst snd orb]. rewrite !mmu_muA.
      split; [eexists; split; [reflexivity|exact T2]|]. split; [exact T3|].
      intros E. destruct (T4 E) as (Q1 & Q2 & Q3). split; [exact Q1|]. split.
      + rewrite bnd_mset, Q2. reflexivity.
      + rewrite bnd_mset. cbn [snd]. exact Q3.
    - rewrite cmp_mset. cbn [fst]. split; [eexists; split; [reflexivity|exact I]|lia].
    - cbn [listing fst]. replace (S d - 1)%nat with d by lia. rewrite !mmu_muA.
      destruct (amt_force_spec m I) as (F1 & _ & _ & _ & F5 & _).
      split; [eexists; split; [reflexivity|exact F1]|exact F5].
  Qed.
End MSetC.

Lemma Forall2_of_nth : forall {A B} (R : A -> B -> Prop) l l', length l = length l' ->
  (forall i x y, nth_error l i = Some x -> nth_error l' i = Some y -> R x y) -> Forall2 R l l'.
Proof.
  intros A B R. induction l as [|a l IH]; intros [|b l'] Hl H; cbn [length] in Hl; try discriminate; constructor.
  - apply (H O a b); reflexivity.
  - apply IH; [lia|]. intros i x y Hx Hy. apply (H (S i) x y); assumption.
Qed.

(* ================================================================ Part 3c: EditCollection / FixedKeyDictNodeEdit over
   sub-edits under a contract *)
Definition smu (l : list (ast * Z)) : nat := nat_sum (map (fun p => muA (fst p)) l).

Lemma smu_app : forall l1 l2, smu (l1 ++ l2) = (smu l1 + smu l2)%nat.
Proof. intros l1 l2. induction l1 as [|a l IH]; [reflexivity|]. unfold smu in *. cbn [app map]. rewrite !nat_sum_cons, IH. lia. Qed.

Lemma thread_idem : forall {X R} (f : X -> X * R) l,
  Forall (fun x => f (fst (f x)) = (fst (f x), snd (f x))) l -> thread f (fst (thread f l)) = thread f l.
Proof.
  intros X R f l H. induction H as [|x l Hx _ IH]; [reflexivity|].
  cbn [thread]. cbv zeta. cbn [fst snd]. cbn [thread]. cbv zeta. rewrite Hx. cbn [fst snd]. rewrite IH. reflexivity.
Qed.

Lemma def_pt : forall (r : zr) v, inr r v -> zdefb r = true -> r = (v, v).
Proof. intros [lo hi] v [A B] D. unfold zdefb in D. cbn [fst snd] in *. apply Z.eqb_eq in D. f_equal; lia. Qed.

Ltac csimp := cbn [ccl cius cerr set_subs set_memo set_invalid c_set_subs c_set_memo c_fail k_U k_valid k_pend k_subs k_cost fst snd] in *.

Lemma nsum_set_nth : forall {A} (f : A -> nat) (l : list A) i x y, nth_error l i = Some x ->
  (nat_sum (map f (set_nth i y l)) + f x = nat_sum (map f l) + f y)%nat.
Proof.
  intros A f. induction l as [|z l IH]; intros [|i] x y H; cbn [nth_error] in H; try discriminate.
  - injection H as ->. cbn [set_nth map]. rewrite !nat_sum_cons. lia.
  - cbn [set_nth map]. rewrite !nat_sum_cons. specialize (IH i x y H). lia.
Qed.

Lemma map_snd_set_nth : forall {A B} (l : list (A * B)) i p p', nth_error l i = Some p -> snd p' = snd p ->
  map snd (set_nth i p' l) = map snd l.
Proof.
  intros A B. induction l as [|z l IH]; intros [|i] p p' H E; cbn [nth_error] in H; try discriminate.
  - injection H as ->. cbn [set_nth map]. rewrite E. reflexivity.
  - cbn [set_nth map]. f_equal. apply (IH i p p' H E).
Qed.

Section CollC.
  Variables (q : bool) (d : nat).
  Notation CM := (AM q d).
  Notation C := (opsA q d).
  Variable PC : ast -> Z -> Prop.
  Hypothesis HPC : forall x v, PC x v -> astep_ok (AM q d) (fun t => PC t v) v x.

  Definition SP (p : ast * Z) (v : Z) : Prop := PC (fst p) v /\ v <= snd p.

  Lemma rd1_pt : forall p v, SP p v ->
    SP (fst (rd1 C p)) v /\ (muA (fst (fst (rd1 C p))) <= muA (fst p))%nat /\ inr (snd (rd1 C p)) v /\
    rd1 C (fst (rd1 C p)) = (fst (rd1 C p), snd (rd1 C p)) /\ snd (fst (rd1 C p)) = snd p /\
    snd (rd1 C p) = snd (k_bnd C (fst p)).
  Proof.
    intros p v [Hp Hv]. destruct (pb q d PC HPC _ v Hp) as (B1 & B2 & B3 & B4). unfold rd1. cbv zeta. cbn [fst snd].
    split; [split; assumption|]. split; [exact B2|]. split; [exact B3|]. split; [rewrite B4; reflexivity|split; reflexivity].
  Qed.

  Lemma rd2_pt : forall p v, SP p v ->
    SP (fst (rd2 C p)) v /\ (muA (fst (fst (rd2 C p))) <= muA (fst p))%nat /\
    (fst (snd (rd2 C p)) <= v /\ v <= snd p - snd (snd (rd2 C p))) /\
    rd2 C (fst (rd2 C p)) = (fst (rd2 C p), snd (rd2 C p)) /\ snd (fst (rd2 C p)) = snd p.
  Proof.
    intros p v [Hp Hv]. destruct (pb q d PC HPC _ v Hp) as (B1 & B2 & B3 & B4).
    destruct (pb q d PC HPC _ v B1) as (C1 & C2 & C3 & C4). unfold rd2. cbv zeta. cbn [fst snd].
    split; [split; assumption|]. split; [lia|]. split; [unfold inr in *; lia|]. split; [|reflexivity].
    rewrite C4. cbn [fst snd]. rewrite C4. cbn [fst snd]. rewrite B4. reflexivity.
  Qed.

  (* a pass of reads over _sub_edits *)
  Lemma rd_pass : forall (rd : ast * Z -> (ast * Z) * zr),
    (forall p v, SP p v -> SP (fst (rd p)) v /\ (muA (fst (fst (rd p))) <= muA (fst p))%nat /\
                            rd (fst (rd p)) = (fst (rd p), snd (rd p)) /\ snd (fst (rd p)) = snd p) ->
    forall l vs, Forall2 SP l vs ->
    Forall2 SP (fst (thread rd l)) vs /\ (smu (fst (thread rd l)) <= smu l)%nat /\
    thread rd (fst (thread rd l)) = thread rd l /\ map snd (fst (thread rd l)) = map snd l.
  Proof.
    intros rd Hrd l vs H.
    assert (Hid : Forall (fun x => rd (fst (rd x)) = (fst (rd x), snd (rd x))) l).
    { clear - H Hrd. induction H as [|p v l vs Hp _ IH]; constructor; [apply (Hrd p v Hp)|exact IH]. }
    split; [|split; [|split; [apply (thread_idem rd l Hid)|]]]; clear Hid.
    - induction H as [|p v l vs Hp _ IH]; [constructor|]. cbn [thread]. cbv zeta. cbn [fst]. constructor; [apply (Hrd p v Hp)|exact IH].
    - induction H as [|p v l vs Hp _ IH]; [cbn; lia|]. cbn [thread]. cbv zeta. cbn [fst]. unfold smu in *. cbn [map].
      rewrite !nat_sum_cons. destruct (Hrd p v Hp) as (_ & M & _). lia.
    - induction H as [|p v l vs Hp _ IH]; [reflexivity|]. cbn [thread]. cbv zeta. cbn [fst map]. f_equal; [apply (Hrd p v Hp)|exact IH].
  Qed.

  Lemma rd1_pass : forall l vs, Forall2 SP l vs ->
    Forall2 SP (fst (thread (rd1 C) l)) vs /\ (smu (fst (thread (rd1 C) l)) <= smu l)%nat /\
    thread (rd1 C) (fst (thread (rd1 C) l)) = thread (rd1 C) l /\ map snd (fst (thread (rd1 C) l)) = map snd l.
  Proof.
    apply rd_pass. intros p v Hp. destruct (rd1_pt p v Hp) as (A1 & A2 & _ & A4 & A5 & _). auto.
  Qed.
  Lemma rd2_pass : forall l vs, Forall2 SP l vs ->
    Forall2 SP (fst (thread (rd2 C) l)) vs /\ (smu (fst (thread (rd2 C) l)) <= smu l)%nat /\
    thread (rd2 C) (fst (thread (rd2 C) l)) = thread (rd2 C) l /\ map snd (fst (thread (rd2 C) l)) = map snd l.
  Proof.
    apply rd_pass. intros p v Hp. destruct (rd2_pt p v Hp) as (A1 & A2 & _ & A4 & A5). auto.
  Qed.

  Lemma rd1_sum : forall l vs, Forall2 SP l vs -> inr (zr_sum (snd (thread (rd1 C) l))) (zsum vs).
  Proof.
    induction 1 as [|p v l vs Hp _ IH]; [unfold inr; cbn; lia|].
    cbn [thread]. cbv zeta. cbn [snd]. rewrite zr_sum_cons, zsum_cons. destruct (rd1_pt p v Hp) as (_ & _ & A3 & _).
    unfold inr, zr_add in *. cbn [fst snd]. lia.
  Qed.
  Lemma rd1_points : forall l vs, Forall2 (fun p v => snd (k_bnd C (fst p)) = (v, v)) l vs ->
    zr_sum (snd (thread (rd1 C) l)) = (zsum vs, zsum vs).
  Proof.
    induction 1 as [|p v l vs Hp _ IH]; [reflexivity|].
    cbn [thread]. cbv zeta. cbn [snd]. rewrite zr_sum_cons, zsum_cons, IH. unfold rd1. cbv zeta. cbn [snd]. rewrite Hp. reflexivity.
  Qed.
  Lemma rd2_sum : forall l vs, Forall2 SP l vs ->
    zsum (map fst (snd (thread (rd2 C) l))) <= zsum vs /\ zsum vs <= zsum (map snd l) - zsum (map snd (snd (thread (rd2 C) l))).
  Proof.
    induction 1 as [|p v l vs Hp _ IH]; [cbn; lia|].
    cbn [thread]. cbv zeta. cbn [snd map]. rewrite !zsum_cons. destruct (rd2_pt p v Hp) as (_ & _ & A3 & _). lia.
  Qed.

  (* ---------------------------------------------------------------- the invariant *)
  Variables (U : Z) (vs : list Z).
  Hypothesis Hnn : Forall (fun x => 0 <= x) vs.
  Definition Vc : Z := zsum vs.
  Notation cstA := (@cst ast).

  Definition cmu (s : cstA) : nat :=
    (match k_pend (ccl s) with Some l => S (length l + nat_sum (map muA l)) | None => O end + smu (k_subs (ccl s)))%nat.

  Record CI (s : cstA) : Prop := {
    ci_U : k_U (ccl s) = U; ci_valid : k_valid (ccl s) = true; ci_err : cerr s = false;
    ci_split : exists vs1 vs2, vs = vs1 ++ vs2 /\ Forall2 SP (k_subs (ccl s)) vs1 /\
        match k_pend (ccl s) with
        | Some l => Forall2 PC l vs2 /\ Forall2 (fun iu v => v <= iu) (cius s) vs2 /\
                    zsum (map snd (k_subs (ccl s))) + zsum (cius s) <= U
        | None => vs2 = [] /\ zsum (map snd (k_subs (ccl s))) <= U
        end;
    ci_memo : k_cost (ccl s) = None \/ (k_cost (ccl s) = Some (Vc, Vc) /\ k_pend (ccl s) = None) }.

  Lemma sp_sum_le : forall l vs1, Forall2 SP l vs1 -> zsum vs1 <= zsum (map snd l).
  Proof. induction 1 as [|p v l vs1 [_ Hv] _ IH]; [cbn; lia|]. cbn [map]. rewrite !zsum_cons. lia. Qed.
  Lemma le_sum_le : forall ius vs2, Forall2 (fun iu v => v <= iu) ius vs2 -> zsum vs2 <= zsum ius.
  Proof. induction 1 as [|iu v l vs2 Hv _ IH]; [cbn; lia|]. rewrite !zsum_cons. lia. Qed.
  Lemma nn_split : forall vs1 vs2, vs = vs1 ++ vs2 -> 0 <= zsum vs1 /\ 0 <= zsum vs2 /\ Vc = zsum vs1 + zsum vs2.
  Proof.
    intros vs1 vs2 E. unfold Vc. rewrite E, zsum_app. rewrite E in Hnn. apply Forall_app in Hnn. destruct Hnn as [H1 H2].
    split; [apply zsum_nonneg; exact H1|]. split; [apply zsum_nonneg; exact H2|reflexivity].
  Qed.

  (* bounds() *)
  Lemma acoll_bounds_spec : forall s, CI s ->
    CI (fst (acoll_bounds C s)) /\ (cmu (fst (acoll_bounds C s)) <= cmu s)%nat /\ inr (snd (acoll_bounds C s)) Vc /\
    acoll_bounds C (fst (acoll_bounds C s)) = (fst (acoll_bounds C s), snd (acoll_bounds C s)) /\
    k_pend (ccl (fst (acoll_bounds C s))) = k_pend (ccl s) /\ cius (fst (acoll_bounds C s)) = cius s /\
    (k_pend (ccl s) = None -> zdefb (snd (acoll_bounds C s)) = true -> k_cost (ccl (fst (acoll_bounds C s))) = Some (Vc, Vc)).
  Proof.
    intros [[c ius] err] I. destruct I as [IU IV IE (vs1 & vs2 & Evs & Hsubs & Hpend) IM]. csimp.
    destruct (nn_split vs1 vs2 Evs) as (N1 & N2 & EV). pose proof (sp_sum_le _ _ Hsubs) as S1.
    assert (Hmemo : forall (u : cstA), k_valid (ccl u) = true -> k_cost (ccl u) = Some (Vc, Vc) -> acoll_bounds C u = (u, (Vc, Vc))).
    { intros u E1 E2. unfold acoll_bounds. cbv zeta. rewrite E1, E2. reflexivity. }
    destruct (k_cost c) as [r|] eqn:Ec.
    - destruct IM as [Q|[Q Qp]]; [discriminate|]. injection Q as ->.
      rewrite (Hmemo (c, ius, err) IV Ec). cbn [fst snd ccl cius].
      split; [constructor; csimp; try assumption; [exists vs1, vs2; auto|right; auto]|].
      split; [lia|]. split; [unfold inr; cbn [fst snd]; lia|]. split; [apply (Hmemo (c, ius, err) IV Ec)|]. split; [reflexivity|]. split; [reflexivity|].
      intros _ _. exact Ec.
    - destruct (k_pend c) as [l|] eqn:Ep.
      + destruct Hpend as (Hl & Hius & HU).
        destruct (rd2_pass _ _ Hsubs) as (P1 & P2 & P3 & P4). destruct (rd2_sum _ _ Hsubs) as [L1 L2].
        pose proof (le_sum_le _ _ Hius) as S2.
        set (t := thread (rd2 C) (k_subs c)) in *.
        set (lo := zsum (map fst (snd t))) in *. set (hi := U - zsum (map snd (snd t))).
        assert (Eq : forall c', k_valid c' = true -> k_cost c' = None -> k_pend c' = Some l -> k_U c' = U -> thread (rd2 C) (k_subs c') = t ->
                     acoll_bounds C (c', ius, err) = ((set_subs c' (fst t), ius, err), (lo, Z.min U hi))).
        { intros c' E1 E2 E3 E4 E5. unfold acoll_bounds. cbv zeta. csimp. rewrite E1, E2, E3, E4, E5. cbn [negb].
          fold lo. destruct (U <? lo) eqn:Q; [apply Z.ltb_lt in Q; lia|]. reflexivity. }
        rewrite (Eq c IV Ec Ep IU eq_refl). cbn [fst snd ccl cius].
        split.
        { constructor; csimp; try assumption; [|left; exact Ec].
          exists vs1, vs2. split; [exact Evs|]. split; [exact P1|]. csimp. rewrite Ep. rewrite P4. auto. }
        split; [unfold cmu; csimp; rewrite Ep; lia|].
        split; [unfold inr, hi; cbn [fst snd]; lia|].
        split; [|split; [csimp; exact Ep|split; [reflexivity|intros Q; discriminate Q]]].
        rewrite (Eq (set_subs c (fst t)) IV Ec Ep IU P3). reflexivity.
      + destruct Hpend as (-> & HU). rewrite app_nil_r in Evs. subst vs1. cbn [zsum fold_right] in EV.
        destruct (rd1_pass _ _ Hsubs) as (P1 & P2 & P3 & P4). pose proof (rd1_sum _ _ Hsubs) as L.
        set (t := thread (rd1 C) (k_subs c)) in *. set (tot := zr_sum (snd t)) in *.
        set (r := (fst tot, Z.min U (snd tot))).
        assert (Hr : inr r Vc) by (unfold inr, r in *; fold Vc in L; cbn [fst snd]; lia).
        assert (Eq : forall c', k_valid c' = true -> k_cost c' = None -> k_pend c' = None -> k_U c' = U -> thread (rd1 C) (k_subs c') = t ->
                     acoll_bounds C (c', ius, err) = if zdefb r then ((set_memo (set_subs c' (fst t)) (Some r), ius, err), r)
                                                    else ((set_subs c' (fst t), ius, err), r)).
        { intros c' E1 E2 E3 E4 E5. unfold acoll_bounds. cbv zeta. csimp. rewrite E1, E2, E3, E4, E5. cbn [negb].
          fold tot. destruct (U <? fst tot) eqn:Q; [apply Z.ltb_lt in Q; unfold inr in L; fold Vc in L; lia|]. fold r. reflexivity. }
        rewrite (Eq c IV Ec Ep IU eq_refl).
        assert (I1 : CI (set_subs c (fst t), ius, err)).
        { constructor; csimp; try assumption; [|left; exact Ec].
          exists vs, []. rewrite app_nil_r. split; [reflexivity|]. split; [exact P1|]. csimp. rewrite Ep, P4. auto. }
        destruct (zdefb r) eqn:D; cbn [fst snd ccl cius].
        * rewrite (def_pt r Vc Hr D).
          split.
          { constructor; csimp; try assumption; [|right; auto].
            exists vs, []. rewrite app_nil_r. split; [reflexivity|]. split; [exact P1|]. csimp. rewrite Ep, P4. auto. }
          split; [unfold cmu; csimp; rewrite Ep; lia|].
          split; [unfold inr; cbn [fst snd]; lia|].
          split; [apply Hmemo; [exact IV|reflexivity]|]. split; [csimp; exact Ep|]. split; [reflexivity|].
          intros _ _. reflexivity.
        * split; [exact I1|]. split; [unfold cmu; csimp; rewrite Ep; lia|]. split; [exact Hr|].
          split; [|split; [csimp; exact Ep|split; [reflexivity|intros _ Q; rewrite D in Q; discriminate Q]]].
          rewrite (Eq (set_subs c (fst t)) IV Ec Ep IU P3). reflexivity.
  Qed.

  Lemma acoll_bounds_points : forall s, CI s -> k_pend (ccl s) = None ->
    Forall2 (fun p v => snd (k_bnd C (fst p)) = (v, v)) (k_subs (ccl s)) vs -> snd (acoll_bounds C s) = (Vc, Vc).
  Proof.
    intros [[c ius] err] I Ep Hp. destruct (acoll_bounds_spec _ I) as (_ & _ & B3 & _). revert B3.
    destruct I as [IU IV IE _ IM]. csimp. unfold acoll_bounds. cbv zeta. csimp. rewrite IV. cbn [negb].
    destruct (k_cost c) as [r|] eqn:Ec.
    - destruct IM as [Q|[Q _]]; [discriminate|]. intros _. cbn [snd]. congruence.
    - rewrite Ep. rewrite (rd1_points _ _ Hp). fold Vc. cbn [fst snd].
      destruct (k_U c <? Vc) eqn:Q.
      + cbn [snd]. unfold inr. cbn [fst snd]. intros B3. f_equal; lia.
      + destruct (zdefb (Vc, Z.min (k_U c) Vc)); cbn [snd]; unfold inr; cbn [fst snd]; intros B3; f_equal; lia.
  Qed.

  (* _is_tightened(starting_bounds) *)
  Lemma acoll_ist_spec : forall start s, CI s ->
    acoll_is_tightened C start s = (fst (acoll_bounds C s), tighter (snd (acoll_bounds C s)) start).
  Proof.
    intros start s I. destruct (acoll_bounds_spec s I) as (_ & _ & _ & B4 & _). unfold acoll_is_tightened. cbv zeta.
    rewrite (ci_valid s I). cbn [negb]. unfold tighter. destruct (fst start <? fst (snd (acoll_bounds C s))); [reflexivity|].
    rewrite B4. reflexivity.
  Qed.

  Lemma f2_app : forall {A B} (R : A -> B -> Prop) l1 l2 v1 v2, Forall2 R l1 v1 -> Forall2 R l2 v2 -> Forall2 R (l1 ++ l2) (v1 ++ v2).
  Proof. intros A B R l1 l2 v1 v2 H1 H2. induction H1; cbn [app]; [exact H2|constructor; assumption]. Qed.

  (* _expand_edits() *)
  Lemma acoll_expand_spec : forall s, CI s ->
    CI (fst (acoll_expand C s)) /\
    match k_pend (ccl s) with
    | None => acoll_expand C s = (s, false)
    | Some [] => snd (acoll_expand C s) = false /\ k_pend (ccl (fst (acoll_expand C s))) = None /\ (cmu (fst (acoll_expand C s)) < cmu s)%nat
    | Some (_ :: _) => snd (acoll_expand C s) = true /\ (cmu (fst (acoll_expand C s)) < cmu s)%nat
    end.
  Proof.
    intros [[c ius] err] I. pose proof I as [IU IV IE (vs1 & vs2 & Evs & Hsubs & Hpend) IM]. csimp. unfold acoll_expand. cbv zeta. csimp.
    destruct (k_pend c) as [[|x rest]|] eqn:Ep.
    - destruct Hpend as (Hl & Hius & HU). inversion Hl. subst vs2. inversion Hius. subst.
      split; [|split; [reflexivity|split; [reflexivity|unfold cmu; csimp; rewrite Ep; cbn [length map nat_sum fold_right]; lia]]].
      constructor; csimp; try assumption; try reflexivity.
      + exists vs1, []. split; [exact Evs|]. split; [exact Hsubs|]. cbn [zsum fold_right] in HU. split; [reflexivity|lia].
      + left. destruct IM as [Q|[_ Q]]; [exact Q|congruence].
    - destruct Hpend as (Hl & Hius & HU). inversion Hl as [|? v ? vs2' Hx Hrest]. subst. inversion Hius as [|iu ? ius' ? Hiu Hius']. subst.
      destruct (pb q d PC HPC x v Hx) as (B1 & B2 & _). cbn [hd tl].
      split; [|split; [reflexivity|]].
      + constructor; csimp; try assumption; try reflexivity; [|left; reflexivity].
        exists (vs1 ++ [v]), vs2'. split; [rewrite <- app_assoc; exact Evs|]. split.
        * apply f2_app; [exact Hsubs|]. constructor; [split; [exact B1|exact Hiu]|constructor].
        * split; [exact Hrest|]. split; [exact Hius'|]. rewrite map_app, zsum_app. rewrite zsum_cons in HU. cbn [map snd zsum fold_right]. lia.
      + unfold cmu. csimp. rewrite Ep. rewrite smu_app. unfold smu at 2. cbn [length map fst]. rewrite !nat_sum_cons. change (nat_sum []) with O. lia.
    - split; [exact I|reflexivity].
  Qed.

  (* list(edits()) *)
  Lemma acoll_edits_spec : forall s, CI s -> CI (acoll_edits C s) /\ (cmu (acoll_edits C s) <= cmu s)%nat /\ k_pend (ccl (acoll_edits C s)) = None.
  Proof.
    intros [[c ius] err] I. pose proof I as [IU IV IE (vs1 & vs2 & Evs & Hsubs & Hpend) IM]. csimp. unfold acoll_edits. cbv zeta. csimp.
    destruct (k_pend c) as [l|] eqn:Ep; [|split; [exact I|split; [lia|csimp; exact Ep]]].
    destruct Hpend as (Hl & Hius & HU).
    assert (Hnew : Forall2 SP (map (fun xi => (fst (k_bnd C (fst xi)), snd xi)) (combine l ius)) vs2 /\
                   map snd (map (fun xi : ast * Z => (fst (k_bnd C (fst xi)), snd xi)) (combine l ius)) = ius /\
                   (smu (map (fun xi : ast * Z => (fst (k_bnd C (fst xi)), snd xi)) (combine l ius)) <= nat_sum (map muA l))%nat).
    { clear - Hl Hius HPC. revert ius Hius. induction Hl as [|x v l vs2 Hx _ IH]; intros ius Hius; inversion Hius; subst.
      - cbn. repeat split; constructor.
      - destruct (IH _ H3) as (I1 & I2 & I3). destruct (pb q d PC HPC x v Hx) as (B1 & B2 & _).
        cbn [combine map fst snd]. unfold smu in *. cbn [map fst]. rewrite !nat_sum_cons.
        split; [constructor; [split; assumption|exact I1]|]. split; [f_equal; exact I2|lia]. }
    destruct Hnew as (N1 & N2 & N3).
    split; [|split; [|reflexivity]].
    - constructor; csimp; try assumption.
      + exists vs, []. rewrite app_nil_r. split; [reflexivity|]. split; [rewrite Evs; apply f2_app; assumption|].
        split; [reflexivity|]. rewrite map_app, zsum_app, N2. exact HU.
      + left. destruct IM as [Q|[_ Q]]; [|congruence]. destruct l; [exact Q|reflexivity].
    - unfold cmu. csimp. rewrite Ep, smu_app. lia.
  Qed.

  (* ---------------------------------------------------------------- one sub-edit *)
  Lemma ci_kid : forall s j p, CI s -> nth_error (k_subs (ccl s)) j = Some p -> exists v, nth_error vs j = Some v /\ SP p v.
  Proof.
    intros s j p I Hp. destruct (ci_split s I) as (vs1 & vs2 & Evs & Hsubs & _).
    destruct (Forall2_nth_error _ _ _ _ _ Hsubs Hp) as (v & Ev & Hv). exists v. split; [|exact Hv].
    rewrite Evs. rewrite nth_error_app1; [exact Ev|]. apply nth_error_Some. congruence.
  Qed.

  Lemma ci_set_kid : forall s j p p' v (memo_reset : bool), CI s -> nth_error (k_subs (ccl s)) j = Some p -> nth_error vs j = Some v ->
    SP p' v -> snd p' = snd p ->
    let s' := c_set_subs s (set_nth j p' (k_subs (ccl s))) in
    CI (if memo_reset then c_set_memo s' None else s') /\
    (cmu (if memo_reset then c_set_memo s' None else s') + muA (fst p) = cmu s + muA (fst p'))%nat.
  Proof.
    intros [[c ius] err] j p p' v mr I Hp Hv Hp' Es. cbv zeta.
    pose proof I as [IU IV IE (vs1 & vs2 & Evs & Hsubs & Hpend) IM]. csimp.
    destruct (Forall2_nth_error _ _ _ _ _ Hsubs Hp) as (v1 & Ev1 & _).
    assert (v1 = v).
    { rewrite Evs in Hv. rewrite nth_error_app1 in Hv by (apply nth_error_Some; congruence). congruence. }
    subst v1.
    pose proof (Forall2_set_nth _ _ _ _ _ _ Hsubs Ev1 Hp') as Hsubs'.
    pose proof (map_snd_set_nth _ _ _ _ Hp Es) as Em.
    pose proof (nsum_set_nth (fun p0 : ast * Z => muA (fst p0)) _ _ _ p' Hp) as Mu. cbv beta in Mu.
    split.
    - destruct mr; constructor; csimp; try assumption; try (left; reflexivity);
        exists vs1, vs2; (split; [exact Evs|]); (split; [exact Hsubs'|]); rewrite Em; exact Hpend.
    - destruct mr; unfold cmu, smu; csimp; lia.
  Qed.

  (* the `for child in self._sub_edits` loop *)
  Definition PtsAt (l : list (ast * Z)) (lo hi : nat) : Prop :=
    forall j p, (lo <= j)%nat -> (j < hi)%nat -> nth_error l j = Some p ->
                exists v, nth_error vs j = Some v /\ snd (k_bnd C (fst p)) = (v, v).

  Definition ForR (i n : nat) (s : cstA) (tg : bool) (res : afor cstA) : Prop :=
    match res with
    | AExit s' => CI s' /\ (cmu s' < cmu s)%nat
    | ADone s' tg' =>
        CI s' /\ (cmu s' <= cmu s)%nat /\ k_pend (ccl s') = k_pend (ccl s) /\
        (tg' = true -> tg = true \/ (cmu s' < cmu s)%nat) /\
        (tg' = false -> tg = false /\ PtsAt (k_subs (ccl s)) i (i + n) /\ PtsAt (k_subs (ccl s')) i (i + n) /\
                        (forall j, (j < i)%nat \/ (i + n <= j)%nat -> nth_error (k_subs (ccl s')) j = nth_error (k_subs (ccl s)) j))
    end.

  Lemma acoll_for_spec : forall n i start s tg, CI s -> ForR i n s tg (acoll_for C n i start s tg).
  Proof.
    induction n as [|n IH]; intros i start s tg I.
    - cbn [acoll_for ForR]. split; [exact I|]. split; [lia|]. split; [reflexivity|]. split; [intros ->; left; reflexivity|].
      intros ->. split; [reflexivity|]. split; [intros j p A B; lia|]. split; [intros j p A B; lia|reflexivity].
    - cbn [acoll_for]. destruct (nth_error (k_subs (ccl s)) i) as [xi|] eqn:Ei.
      2:{ cbn [ForR]. split; [exact I|]. split; [lia|]. split; [reflexivity|]. split; [intros ->; left; reflexivity|].
          intros ->. split; [reflexivity|]. apply nth_error_None in Ei.
          assert (Hnone : forall j, (i <= j)%nat -> nth_error (k_subs (ccl s)) j = None) by (intros j Hj; apply nth_error_None; lia).
          split; [intros j p A B E; rewrite (Hnone j A) in E; discriminate|].
          split; [intros j p A B E; rewrite (Hnone j A) in E; discriminate|reflexivity]. }
      cbv zeta. destruct (ci_kid s i xi I Ei) as (v & Ev & [Hx Hiu]). destruct (pt q d PC HPC _ v Hx) as (T1 & T2 & T3).
      destruct (snd (k_tig C (fst xi))) eqn:Et.
      + (* the child was tightened: _cost = None, bounds() *)
        destruct (ci_set_kid s i xi (fst (k_tig C (fst xi)), snd xi) v true I Ei Ev (conj T1 Hiu) eq_refl) as [Ia Ma]. cbv zeta in Ia, Ma.
        cbn [fst] in Ma. specialize (T2 eq_refl).
        set (sa := c_set_memo (c_set_subs s (set_nth i (fst (k_tig C (fst xi)), snd xi) (k_subs (ccl s)))) None) in *.
        destruct (acoll_bounds_spec sa Ia) as (B1 & B2 & _ & _ & B5 & _).
        rewrite (ci_err _ B1).
        assert (Epa : k_pend (ccl sa) = k_pend (ccl s)) by (destruct s as [[c ius] err]; reflexivity).
        destruct (tighter (snd (acoll_bounds C sa)) start).
        * cbn [ForR]. split; [exact B1|lia].
        * specialize (IH (S i) start (fst (acoll_bounds C sa)) true B1).
          destruct (acoll_for C n (S i) start (fst (acoll_bounds C sa)) true) as [s'|s' tg']; cbn [ForR] in *.
          -- destruct IH as [J1 J2]. split; [exact J1|lia].
          -- destruct IH as (J1 & J2 & J3 & J4 & J5). split; [exact J1|]. split; [lia|]. split; [congruence|].
             split; [intros _; right; lia|]. intros E. destruct (J5 E) as [Q _]. discriminate Q.
      + (* the child is done: assert child.bounds().definitive() *)
        destruct (T3 eq_refl) as (M1 & Eb & Ex). rewrite Eb. cbn [fst snd]. rewrite (zdefb_point v).
        destruct (ci_set_kid s i xi (fst (k_tig C (fst xi)), snd xi) v false I Ei Ev (conj T1 Hiu) eq_refl) as [Ia Ma]. cbv zeta in Ia, Ma.
        cbn [fst] in Ma.
        set (s1 := c_set_subs s (set_nth i (fst (k_tig C (fst xi)), snd xi) (k_subs (ccl s)))) in *.
        assert (Ep1 : k_pend (ccl s1) = k_pend (ccl s)) by (destruct s as [[c ius] err]; reflexivity).
        assert (Es1 : k_subs (ccl s1) = set_nth i (fst (k_tig C (fst xi)), snd xi) (k_subs (ccl s))) by (destruct s as [[c ius] err]; reflexivity).
        assert (Li : (i < length (k_subs (ccl s)))%nat) by (apply nth_error_Some; congruence).
        specialize (IH (S i) start s1 tg Ia).
        destruct (acoll_for C n (S i) start s1 tg) as [s'|s' tg']; cbn [ForR] in *.
        * destruct IH as [J1 J2]. split; [exact J1|lia].
        * destruct IH as (J1 & J2 & J3 & J4 & J5). split; [exact J1|]. split; [lia|]. split; [congruence|].
          split; [intros E; destruct (J4 E) as [Q|Q]; [left; exact Q|right; lia]|].
          intros E. destruct (J5 E) as (Q1 & Q2 & Q3 & Q4). split; [exact Q1|].
          assert (Hother : forall j, j <> i -> nth_error (k_subs (ccl s1)) j = nth_error (k_subs (ccl s)) j).
          { intros j Hj. rewrite Es1. apply nth_error_set_nth_neq. lia. }
          split; [|split].
          -- intros j p A B Hp. destruct (Nat.eq_dec j i) as [->|Ne].
             ++ rewrite Ei in Hp. injection Hp as <-. exists v. split; [exact Ev|exact Ex].
             ++ apply (Q2 j p); [lia|lia|]. rewrite (Hother j Ne). exact Hp.
          -- intros j p A B Hp. destruct (Nat.eq_dec j i) as [->|Ne].
             ++ rewrite (Q4 i (or_introl (Nat.lt_succ_diag_r i))), Es1, (nth_error_set_nth_eq _ _ _ Li) in Hp. injection Hp as <-.
                exists v. split; [exact Ev|]. cbn [fst]. rewrite Eb. reflexivity.
             ++ apply (Q3 j p); [lia|lia|exact Hp].
          -- intros j Hj. rewrite (Q4 j ltac:(lia)). apply Hother. lia.
  Qed.

  (* ---------------------------------------------------------------- the `while True` loop of tighten_bounds() *)
  Lemma pts_forall2 : forall s, CI s -> k_pend (ccl s) = None -> PtsAt (k_subs (ccl s)) 0 (length (k_subs (ccl s))) ->
    Forall2 (fun p v => snd (k_bnd C (fst p)) = (v, v)) (k_subs (ccl s)) vs.
  Proof.
    intros s I Ep Hp. destruct (ci_split s I) as (vs1 & vs2 & Evs & Hsubs & Hpend). rewrite Ep in Hpend. destruct Hpend as [-> _].
    rewrite app_nil_r in Evs. subst vs1.
    apply Forall2_of_nth; [apply (Forall2_length' _ _ _ Hsubs)|].
    intros i p v Hi Hv. destruct (Hp i p ltac:(lia) ltac:(apply nth_error_Some; congruence) Hi) as (v' & Ev' & Hb). congruence.
  Qed.

  Lemma ci_len_none : forall s, CI s -> k_pend (ccl s) = None -> length (k_subs (ccl s)) = length vs.
  Proof.
    intros s I Ep. destruct (ci_split s I) as (vs1 & vs2 & Evs & Hsubs & Hpend). rewrite Ep in Hpend. destruct Hpend as [-> _].
    rewrite app_nil_r in Evs. subst vs1. apply (Forall2_length' _ _ _ Hsubs).
  Qed.

  Lemma untight_point : forall start, inr start Vc -> tighter (Vc, Vc) start = false -> start = (Vc, Vc).
  Proof.
    intros [lo hi] [A B] Ht. unfold tighter in Ht. cbn [fst snd] in *. apply orb_false_iff in Ht. destruct Ht as [H1 H2].
    apply Z.ltb_ge in H1. apply Z.ltb_ge in H2. f_equal; lia.
  Qed.

  Lemma acoll_loop_spec : forall fuel start s mu0, CI s -> inr start Vc -> (cmu s < fuel)%nat -> (cmu s <= mu0)%nat ->
    (cmu s = mu0 -> acoll_bounds C s = (s, start)) ->
    CI (fst (acoll_loop C fuel start s)) /\
    (snd (acoll_loop C fuel start s) = true -> (cmu (fst (acoll_loop C fuel start s)) < mu0)%nat) /\
    (snd (acoll_loop C fuel start s) = false ->
     (cmu (fst (acoll_loop C fuel start s)) <= mu0)%nat /\
     acoll_bounds C (fst (acoll_loop C fuel start s)) = (fst (acoll_loop C fuel start s), (Vc, Vc)) /\ start = (Vc, Vc)).
  Proof.
    induction fuel as [|fuel IH]; intros start s mu0 I Hs Hf Hm Hst; [lia|].
    cbn [acoll_loop]. cbv zeta.
    destruct (acoll_expand_spec s I) as [Ie He].
    (* the state the for loop starts from *)
    assert (Hq : exists s2 r2, (if snd (acoll_expand C s) then acoll_is_tightened C start (fst (acoll_expand C s)) else (fst (acoll_expand C s), false)) = (s2, r2) /\
                  CI s2 /\ (cmu s2 <= cmu s)%nat /\
                  (r2 = true -> (cmu s2 < cmu s)%nat) /\
                  (r2 = false -> ((cmu s2 < cmu s)%nat \/ (s2 = s /\ k_pend (ccl s) = None)) /\
                                 (k_pend (ccl s2) <> None -> (cmu s2 < cmu s)%nat))).
    { destruct (k_pend (ccl s)) as [[|x rest]|] eqn:Ep.
      - destruct He as (E1 & E2 & E3). rewrite E1. eexists _, _. split; [reflexivity|]. split; [exact Ie|]. split; [lia|].
        split; [discriminate|]. intros _. split; [left; exact E3|intros _; exact E3].
      - destruct He as (E1 & E3). rewrite E1. rewrite (acoll_ist_spec start _ Ie).
        destruct (acoll_bounds_spec _ Ie) as (B1 & B2 & _). eexists _, _. split; [reflexivity|]. split; [exact B1|]. split; [lia|].
        split; [intros _; lia|]. intros _. split; [left; lia|intros _; lia].
      - rewrite He. cbn [fst snd]. eexists _, _. split; [reflexivity|]. split; [exact I|]. split; [lia|]. split; [discriminate|].
        intros _. split; [right; split; [reflexivity|first [exact Ep|reflexivity]]|]. intros Q. exfalso. apply Q. exact Ep. }
    destruct Hq as (s2 & r2 & Eq2 & I2 & M2 & R2t & R2f). rewrite Eq2. cbn [fst snd].
    destruct r2.
    { cbn [fst snd]. split; [exact I2|]. split; [intros _; specialize (R2t eq_refl); lia|discriminate]. }
    destruct (R2f eq_refl) as [Hprog Hpend2]. clear R2t R2f.
    pose proof (acoll_for_spec (length (k_subs (ccl s2))) 0 start s2 false I2) as HF.
    destruct (acoll_for C (length (k_subs (ccl s2))) 0 start s2 false) as [s3|s3 tg]; cbn [ForR] in HF.
    { destruct HF as [J1 J2]. cbn [fst snd]. split; [exact J1|]. split; [intros _; lia|discriminate]. }
    destruct HF as (J1 & J2 & J3 & J4 & J5).
    destruct (k_pend (ccl s3)) as [l3|] eqn:Ep3.
    { assert (P2 : (cmu s2 < cmu s)%nat) by (apply Hpend2; congruence).
      apply (IH start s3 mu0 J1 Hs ltac:(lia) ltac:(lia)). intros Q. lia. }
    destruct tg.
    { destruct (J4 eq_refl) as [Q|Q]; [discriminate|].
      apply (IH start s3 mu0 J1 Hs ltac:(lia) ltac:(lia)). intros Q'. lia. }
    destruct (J5 eq_refl) as (_ & P1 & P3 & P4). cbn [Nat.add] in P1, P3.
    rewrite (acoll_ist_spec start s3 J1).
    destruct (acoll_bounds_spec s3 J1) as (B1 & B2 & _ & B4 & _).
    assert (L3 : length (k_subs (ccl s3)) = length (k_subs (ccl s2))).
    { rewrite (ci_len_none s3 J1 Ep3). rewrite (ci_len_none s2 I2 ltac:(congruence)). reflexivity. }
    rewrite <- L3 in P3.
    assert (Eb3 : snd (acoll_bounds C s3) = (Vc, Vc)) by (apply (acoll_bounds_points s3 J1 Ep3); apply (pts_forall2 s3 J1 Ep3 P3)).
    rewrite Eb3. cbn [fst snd]. split; [exact B1|]. split.
    - intros Ht. destruct Hprog as [Q|[-> Eps]]; [lia|].
      destruct (Nat.eq_dec (cmu s) mu0) as [Em|Ne]; [|lia]. exfalso.
      specialize (Hst Em). assert (Es : snd (acoll_bounds C s) = (Vc, Vc)) by (apply (acoll_bounds_points s I Eps); apply (pts_forall2 s I Eps P1)).
      rewrite Hst in Es. cbn [snd] in Es. subst start. unfold tighter in Ht. cbn [fst snd] in Ht. rewrite !Z.ltb_irrefl in Ht. discriminate.
    - intros Ht. split; [lia|]. split; [rewrite B4, Eb3; reflexivity|apply (untight_point start Hs Ht)].
  Qed.

  (* ---------------------------------------------------------------- tighten_bounds(), is_complete(), the class lemma *)
  Lemma acoll_mu_eq : forall s : cstA, acoll_mu C (ccl s) = cmu s.
  Proof. intros s. unfold acoll_mu, cmu, smu. rewrite mu_ops. reflexivity. Qed.

  Lemma acoll_tig_spec : forall s, CI s ->
    CI (fst (acoll_tig C s)) /\
    (snd (acoll_tig C s) = true -> (cmu (fst (acoll_tig C s)) < cmu s)%nat) /\
    (snd (acoll_tig C s) = false ->
     (cmu (fst (acoll_tig C s)) <= cmu s)%nat /\
     acoll_bounds C (fst (acoll_tig C s)) = (fst (acoll_tig C s), (Vc, Vc)) /\ snd (acoll_bounds C s) = (Vc, Vc)).
  Proof.
    intros s I. unfold acoll_tig. cbv zeta. rewrite (ci_valid s I). cbn [negb].
    destruct (acoll_bounds_spec s I) as (B1 & B2 & B3 & B4 & _). rewrite (ci_err _ B1).
    destruct (acoll_loop_spec (S (S (acoll_mu C (ccl (fst (acoll_bounds C s)))))) (snd (acoll_bounds C s)) (fst (acoll_bounds C s))
                              (cmu (fst (acoll_bounds C s))) B1 B3 ltac:(rewrite acoll_mu_eq; lia) (le_n _) (fun _ => B4)) as (L1 & L2 & L3).
    split; [exact L1|]. split; [intros Q; specialize (L2 Q); lia|].
    intros Q. destruct (L3 Q) as (Q1 & Q2 & Q3). split; [lia|]. split; [exact Q2|exact Q3].
  Qed.

  Definition toA (ks : list ksub) (s : cstA) : ast := AColl ks (cius s) (ccl s) (cerr s).

  Lemma bnd_coll : forall ks ius c err,
    k_bnd (opsA q (S d)) (AColl ks ius c err) = (toA ks (fst (acoll_bounds C (c, ius, err))), snd (acoll_bounds C (c, ius, err))).
  Proof. reflexivity. Qed.
  Lemma tig_coll : forall ks ius c err,
    k_tig (opsA q (S d)) (AColl ks ius c err) = (toA ks (fst (acoll_tig C (c, ius, err))), snd (acoll_tig C (c, ius, err))).
  Proof. reflexivity. Qed.
  Lemma cmp_coll : forall ks ius c err,
    k_cmp (opsA q (S d)) (AColl ks ius c err) = (toA ks (fst (acoll_cmp C (c, ius, err))), snd (acoll_cmp C (c, ius, err))).
  Proof. reflexivity. Qed.

  Lemma toA_eta : forall ks (s : cstA), toA ks s = AColl ks (cius s) (ccl s) (cerr s).
  Proof. reflexivity. Qed.

  Lemma sp_err : forall l vs1, Forall2 SP l vs1 -> existsb (fun p => errA (fst p)) l = false.
  Proof.
    induction 1 as [|p v l vs1 [Hp _] _ IH]; [reflexivity|]. cbn [existsb]. rewrite IH.
    pose proof (p_err CM PC HPC _ _ Hp) as E. cbn [AM ASt a_err] in E. rewrite E. reflexivity.
  Qed.

  Lemma ci_errA : forall ks s, CI s -> errA (toA ks s) = false.
  Proof.
    intros ks [[c ius] err] I. pose proof I as [IU IV IE (vs1 & vs2 & Evs & Hsubs & Hpend) IM]. csimp. unfold toA. csimp. cbn [errA].
    rewrite IE, (sp_err _ _ Hsubs). destruct (k_pend c) as [l|]; [|reflexivity].
    destruct Hpend as (Hl & _). rewrite (f2_err q d PC HPC _ _ Hl). reflexivity.
  Qed.

  Lemma coll_step : forall ks s, CI s ->
    astep_ok (AM q (S d)) (fun t => exists s', t = toA ks s' /\ CI s') Vc (toA ks s).
  Proof.
    intros ks s I. unfold astep_ok. cbn [AM ASt a_bnd a_tig a_cmp a_eds a_err a_mu].
    destruct (acoll_bounds_spec s I) as (B1 & B2 & B3 & B4 & _).
    destruct (acoll_tig_spec s I) as (T1 & T2 & T3).
    split; [apply ci_errA; exact I|].
    assert (Hs : forall s0 : cstA, (s0 = (ccl s0, cius s0, cerr s0))) by (intros [[c0 i0] e0]; reflexivity).
    assert (Hmu : forall s0 : cstA, muA (toA ks s0) = cmu s0) by (intros [[c0 i0] e0]; reflexivity).
    split; [|split; [|split]].
    - rewrite toA_eta, bnd_coll, <- (Hs s). cbn [fst snd]. rewrite !Hmu.
      split; [eexists; split; [reflexivity|exact B1]|]. split; [exact B2|]. split; [exact B3|].
      rewrite toA_eta, bnd_coll, <- (Hs (fst (acoll_bounds C s))), B4. reflexivity.
    - rewrite toA_eta, tig_coll, <- (Hs s). cbn [fst snd]. rewrite !Hmu.
      split; [eexists; split; [reflexivity|exact T1]|]. split; [exact T2|].
      intros E. destruct (T3 E) as (Q1 & Q2 & Q3). split; [exact Q1|]. split.
      + rewrite toA_eta, bnd_coll, <- (Hs (fst (acoll_tig C s))), Q2. reflexivity.
      + rewrite bnd_coll, <- (Hs s). cbn [snd]. exact Q3.
    - rewrite toA_eta, cmp_coll, <- (Hs s). cbn [fst]. rewrite !Hmu. unfold acoll_cmp. cbv zeta. rewrite (ci_valid s I). cbn [negb fst].
      split; [eexists; split; [reflexivity|exact B1]|exact B2].
    - rewrite toA_eta. cbn [listing fst]. replace (S d - 1)%nat with d by lia. rewrite <- (Hs s).
      destruct (acoll_edits_spec s I) as (E1 & E2 & _). change (AColl ks (cius (acoll_edits C s)) (ccl (acoll_edits C s)) (cerr (acoll_edits C s))) with (toA ks (acoll_edits C s)).
      rewrite !Hmu. split; [eexists; split; [reflexivity|exact E1]|exact E2].
  Qed.
End CollC.

(* ================================================================ Part 6: calls addressed to sub-edits
   A structural invariant SI (by nesting depth): every sub-edit, at every level, is itself in the invariant of its
   class.  It is closed under every public call on the edit AND under every call addressed to a listed sub-edit
   (ApiModel.nav), so histories may mix both. *)
Fixpoint SI (q : bool) (d : nat) (s : ast) (v : Z) {struct d} : Prop :=
  match d with
  | O => match s with AConst c _ => v = c | _ => False end
  | S d' =>
      match s with
      | AConst c _ => v = c
      | ASum l => exists vs, v = zsum vs /\ Forall2 (SI q d') l vs
      | AFixed l rems inss err => err = false /\ exists vs, v = zsum vs + zsum rems + zsum inss /\ Forall2 (SI q d') l vs
      | AED sk p0 q0 e => exists K U rc ic mcs, EDH K U rc ic mcs /\ v = cc rc ic mcs (length ic) (length rc) /\
                                             FI q d' (SI q d') K U rc ic mcs e
      | AColl ks ius c err =>
          exists U vs, Forall (fun x => 0 <= x) vs /\ v = zsum vs /\ CI (SI q d') U vs (c, ius, err)
      | AMSet ix m err =>
          err = false /\ exists rem ins cnt asg kvs evs, length evs = length rem /\ Forall (fun r => length r = length ins) evs /\
                                                          v = Vv rem ins asg kvs evs /\ MI (SI q d') rem ins cnt asg kvs evs m
      end
  end.

Lemma astep_ok_mono : forall M (Inv Inv' : ASt M -> Prop) v t, (forall x, Inv x -> Inv' x) ->
  astep_ok M Inv v t -> astep_ok M Inv' v t.
Proof.
  intros M Inv Inv' v t H (E & (B1 & B2 & B3 & B4) & (T1 & T2 & T3) & (C1 & C2) & (D1 & D2)).
  unfold astep_ok. cbv zeta. split; [exact E|]. split; [split; [apply H; exact B1|split; [exact B2|split; [exact B3|exact B4]]]|].
  split; [split; [apply H; exact T1|split; [exact T2|exact T3]]|]. split; [split; [apply H; exact C1|exact C2]|].
  split; [apply H; exact D1|exact D2].
Qed.

Lemma si_const_step : forall q d c t, astep_ok (AM q d) (fun s => SI q d s c) c (AConst c t).
Proof.
  intros q d c t. unfold astep_ok. cbn [AM ASt a_bnd a_tig a_cmp a_eds a_err a_mu]. rewrite bnd_const, tig_const, cmp_const.
  cbn [fst snd errA muA listing].
  assert (Hs : SI q d (AConst c t) c) by (destruct d; reflexivity).
  repeat split; intros; try exact Hs; try reflexivity; try lia; try discriminate; apply bnd_const.
Qed.

(* (A) the invariant is closed under the public operations, which never raise on it *)
Theorem si_step : forall q d s v, SI q d s v -> astep_ok (AM q d) (fun t => SI q d t v) v s.
Proof.
  intros q. induction d as [|d IH]; intros s v H.
  - destruct s as [c t| | | | |]; cbn [SI] in H; try contradiction. subst v. apply si_const_step.
  - destruct s as [c t|l|l rems inss err|sk p0 q0 e|ks ius c err|ix m err]; cbn [SI] in H; try contradiction.
    + subst v. apply si_const_step.
    + destruct H as (vs & -> & HF).
      eapply astep_ok_mono; [|apply (sum_step q d (SI q d) IH vs l HF)].
      intros t (l' & -> & Hl). cbn [SI]. exists vs. split; [reflexivity|exact Hl].
    + destruct H as (-> & vs & -> & HF).
      eapply astep_ok_mono; [|apply (fixed_step q d rems inss vs (SI q d) IH l HF)].
      intros t (l' & -> & Hl). cbn [SI]. split; [reflexivity|]. exists vs. split; [reflexivity|exact Hl].
    + destruct H as (K & U & rc & ic & mcs & HE & -> & HFI).
      pose proof HE as (Hd & Hrc & Hic & Hmc & HK0 & HK & HU).
      eapply astep_ok_mono; [|apply (ed_step q d (SI q d) IH K U rc ic mcs Hd Hrc Hic Hmc HK0 HK HU sk p0 q0 e HFI)].
      intros t (e' & -> & Hl). cbn [SI]. exists K, U, rc, ic, mcs. split; [exact HE|]. split; [reflexivity|exact Hl].
    + destruct H as (U & vs & Hnn & -> & HC).
      eapply astep_ok_mono; [|apply (coll_step q d (SI q d) IH U vs Hnn ks (c, ius, err) HC)].
      intros t ([[c' ius'] err'] & -> & Hc'). unfold toA. cbn [ccl cius cerr fst snd SI]. exists U, vs. auto.
    + destruct H as (-> & rem & ins & cnt & asg & kvs & evs & Hd1 & Hd2 & -> & HM).
      eapply astep_ok_mono; [|apply (mset_step q d (SI q d) IH rem ins cnt asg kvs evs Hd1 Hd2 ix m HM)].
      intros t (m' & -> & Hm'). cbn [SI]. split; [reflexivity|]. exists rem, ins, cnt, asg, kvs, evs.
      split; [exact Hd1|]. split; [exact Hd2|]. split; [reflexivity|exact Hm'].
Qed.

Corollary si_contract : forall q d s v, SI q d s v -> AContract (AM q d) s v.
Proof. intros q d s v H. exists (fun t => SI q d t v). split; [exact H|]. intros t Ht. apply si_step. exact Ht. Qed.

Lemma si_const_any : forall q d c t, SI q d (AConst c t) c.
Proof. intros q [|d] c t; reflexivity. Qed.

(* (B1) a listed sub-edit is in the invariant one level down, and putting back any state of its invariant keeps the parent's *)
Lemma si_sub : forall q d s v i x, SI q (S d) s v -> sub_get s i = Some x ->
  exists vx, SI q d x vx /\ forall x', SI q d x' vx -> SI q (S d) (sub_put s i x') v.
Proof.
  intros q d s v i x H Hx. destruct s as [c t|l|l rems inss err|sk p0 q0 e|ks ius c err|ix m err]; cbn [SI] in H; cbn [sub_get] in Hx;
    try discriminate; try contradiction.
  - destruct H as (vs & -> & HF). destruct (Forall2_nth_error _ _ _ _ _ HF Hx) as (vx & Ev & Hv). exists vx. split; [exact Hv|].
    intros x' Hx'. cbn [sub_put SI]. exists vs. split; [reflexivity|]. apply (Forall2_set_nth _ _ _ _ _ _ HF Ev Hx').
  - destruct H as (-> & vs & -> & HF). destruct (Nat.ltb i (length l)) eqn:Li.
    + destruct (Forall2_nth_error _ _ _ _ _ HF Hx) as (vx & Ev & Hv). exists vx. split; [exact Hv|].
      intros x' Hx'. cbn [sub_put SI]. rewrite Li. cbn [SI]. split; [reflexivity|]. exists vs. split; [reflexivity|].
      apply (Forall2_set_nth _ _ _ _ _ _ HF Ev Hx').
    + assert (Hs : forall x', SI q (S d) (sub_put (AFixed l rems inss false) i x') (zsum vs + zsum rems + zsum inss)).
      { intros x'. cbn [sub_put]. rewrite Li. cbn [SI]. split; [reflexivity|]. exists vs. split; [reflexivity|exact HF]. }
      destruct (Nat.ltb i (length l + length rems)); [injection Hx as <-; eexists; split; [apply si_const_any|intros; apply Hs]|].
      destruct (Nat.ltb i (length l + length rems + length inss)); [|discriminate].
      injection Hx as <-. eexists. split; [apply si_const_any|intros; apply Hs].
  - destruct sk as [st|]; [discriminate|]. destruct (e_done e) as [c0|] eqn:Ed; [|discriminate].
    destruct H as (K & U & rc & ic & mcs & HE & -> & HFI). pose proof HE as (Hd & Hrc & Hic & Hmc & HK0 & HK & HU).
    destruct (FI_done q d (SI q d) K U rc ic mcs e HFI ltac:(congruence)) as (HD & HKI).
    assert (Hs : SI q (S d) (AED None p0 q0 e) (cc rc ic mcs (length ic) (length rc))).
    { cbn [SI]. exists K, U, rc, ic, mcs. split; [exact HE|]. split; [reflexivity|exact HFI]. }
    destruct (Nat.ltb i p0) eqn:Lp.
    + injection Hx as <-. eexists. split; [apply si_const_any|]. intros x' _. cbn [sub_put]. rewrite Ed, Lp. exact Hs.
    + destruct (nth_error (fed_alignment e) (i - p0)) as [[c r|c|r]|] eqn:Ea.
      * destruct (kid_in_range q d K U rc ic mcs e r c x (proj1 HD) Hx) as (Hr & Hc).
        exists (mcv mcs r c). split; [apply (HKI r c x Hr Hc Hx)|].
        intros x' Hx'. cbn [sub_put]. rewrite Ed, Lp, Ea.
        destruct (dn_upd q d (SI q d) (si_step q d) K U rc ic mcs e r c x x' HD HKI Hx Hx') as (D2 & K2).
        cbn [SI]. exists K, U, rc, ic, mcs. split; [exact HE|]. split; [reflexivity|]. split; [exact K2|right; right; exact D2].
      * injection Hx as <-. eexists. split; [apply si_const_any|]. intros x' _. cbn [sub_put]. rewrite Ed, Lp, Ea. exact Hs.
      * injection Hx as <-. eexists. split; [apply si_const_any|]. intros x' _. cbn [sub_put]. rewrite Ed, Lp, Ea. exact Hs.
      * destruct (Nat.ltb (i - p0 - length (fed_alignment e)) q0); [|discriminate].
        injection Hx as <-. eexists. split; [apply si_const_any|]. intros x' _. cbn [sub_put]. rewrite Ed, Lp, Ea. exact Hs.
  - destruct H as (U & vs & Hnn & -> & HC). destruct (k_pend c) eqn:Ep; [discriminate|].
    destruct (nth_error (k_subs c) i) as [p|] eqn:Ei; [|discriminate]. injection Hx as <-.
    destruct (ci_kid (SI q d) U vs (c, ius, err) i p HC Ei) as (vx & Ev & [Hp Hiu]). exists vx. split; [exact Hp|].
    intros x' Hx'. cbn [sub_put]. rewrite Ep, Ei.
    destruct (ci_set_kid (SI q d) U vs (c, ius, err) i p (x', snd p) vx false HC Ei Ev (conj Hx' Hiu) eq_refl) as [Hc' _].
    cbv zeta in Hc'. cbn [ccl cius cerr c_set_subs fst snd] in Hc'. cbn [SI]. exists U, vs. auto.
  - destruct H as (-> & rem & ins & cnt & asg & kvs & evs & Hd1 & Hd2 & -> & HM).
    assert (Hs : forall m', MI (SI q d) rem ins cnt asg kvs evs m' -> SI q (S d) (AMSet ix m' false) (Vv rem ins asg kvs evs)).
    { intros m' Hm'. cbn [SI]. split; [reflexivity|]. exists rem, ins, cnt, asg, kvs, evs. auto. }
    destruct (m_match m) as [mt|] eqn:Em; [|discriminate]. cbv zeta in Hx.
    destruct (Nat.ltb i (length (x_exact ix))) eqn:L0.
    { injection Hx as <-. eexists. split; [apply si_const_any|]. intros x' _. cbn [sub_put]. rewrite Em. cbv zeta. rewrite L0. apply Hs. exact HM. }
    destruct (Nat.ltb i (length (x_exact ix) + length (m_kvp m))) eqn:L1.
    { destruct (Forall2_nth_error _ _ _ _ _ (mi_kvp _ _ _ _ _ _ _ _ HM) Hx) as (vx & Ev & Hv). exists vx. split; [exact Hv|].
      intros x' Hx'. cbn [sub_put]. rewrite Em. cbv zeta. rewrite L0, L1. apply Hs. apply mi_kvp_upd; [exact HM|].
      apply (Forall2_set_nth _ _ _ _ _ _ (mi_kvp _ _ _ _ _ _ _ _ HM) Ev Hx'). }
    destruct (Nat.ltb i (length (x_exact ix) + length (m_kvp m) + length mt)) eqn:L2.
    { destruct (nth_error mt (i - length (x_exact ix) - length (m_kvp m))) as [ij|] eqn:Eij; [|discriminate].
      exists (mcv evs (fst ij) (snd ij)). split; [apply (e_get _ _ _ _ _ _ (mi_edges _ _ _ _ _ _ _ _ HM) Hx)|].
      intros x' Hx'. cbn [sub_put]. rewrite Em. cbv zeta. rewrite L0, L1, L2, Eij, Hx. apply Hs. apply mi_edges_upd; [exact HM|].
      apply (e_set2 _ _ _ _ _ _ _ (mi_edges _ _ _ _ _ _ _ _ HM) Hx Hx'). }
    assert (Hput : forall x', SI q (S d) (sub_put (AMSet ix m false) i x') (Vv rem ins asg kvs evs)).
    { intros x'. cbn [sub_put]. rewrite Em. cbv zeta. rewrite L0, L1, L2. apply Hs. exact HM. }
    destruct (nth_error (unm_rows m mt) _) as [r|]; [injection Hx as <-; eexists; split; [apply si_const_any|intros; apply Hput]|].
    destruct (nth_error (unm_cols m mt) _) as [c0|]; [|discriminate].
    injection Hx as <-. eexists. split; [apply si_const_any|intros; apply Hput].
Qed.

Lemma si_sub0 : forall q s v i, SI q O s v -> sub_get s i = None.
Proof. intros q s v i H. destruct s; cbn [SI] in H; try contradiction. reflexivity. Qed.

(* (B2) every call, whatever sub-edit it addresses, keeps the invariant and does not raise *)
Theorem si_nav : forall path q d o s v, SI q d s v ->
  SI q d (fst (nav q path d o s)) v /\ is_err (snd (nav q path d o s)) = false.
Proof.
  induction path as [|i rest IH]; intros q d o s v H.
  - cbn [nav]. rewrite apply_op_err, apply_op_fst.
    pose proof (g_step_inv (AM q d) (fun t => SI q d t v) v (fun t => si_step q d t v) s o H) as (I & _).
    split; [exact I|]. apply (inv_err (AM q d) (fun t => SI q d t v) v (fun t => si_step q d t v) _ I).
  - cbn [nav]. destruct d as [|d].
    + rewrite (si_sub0 q s v i H). cbn [fst snd is_err]. split; [exact H|reflexivity].
    + destruct (sub_get s i) as [x|] eqn:Ex; [|cbn [fst snd is_err]; split; [exact H|reflexivity]].
      destruct (si_sub q d s v i x H Ex) as (vx & Hvx & Hput). cbv zeta. cbn [fst snd].
      replace (S d - 1)%nat with d by lia. destruct (IH q d o x vx Hvx) as (I1 & I2).
      split; [apply Hput; exact I1|exact I2].
Qed.

(* (C) every history of calls, on the edit and on its listed sub-edits *)
Theorem si_history : forall q d v (h : history) s, SI q d s v ->
  SI q d (fst (run_hist q d h s)) v /\ existsb is_err (snd (run_hist q d h s)) = false /\
  length (snd (run_hist q d h s)) = length h /\ finish_cost q d (fst (run_hist q d h s)) = Some v.
Proof.
  intros q d v. induction h as [|c h IH]; intros s H.
  - cbn [run_hist fst snd existsb length]. split; [exact H|]. split; [reflexivity|]. split; [reflexivity|].
    rewrite finish_cost_generic. apply (g_final (AM q d) (fun t => SI q d t v) v (fun t => si_step q d t v) s H).
  - cbn [run_hist]. cbv zeta. unfold step. destruct (si_nav (fst c) q d (snd c) s v H) as (I1 & I2). rewrite I2.
    destruct (IH _ I1) as (J1 & J2 & J3 & J4). cbn [fst snd existsb length]. rewrite I2, J2. cbn [orb].
    split; [exact J1|]. split; [reflexivity|]. split; [f_equal; exact J3|exact J4].
Qed.

(* ================================================================ Part 4: a.edits(b) for every pair of the modelled fragment *)
Require Import GT.EdTie GT.ListAux GT.ScriptProofs GT.EqualSpec GT.EqualProofs GT.CostProofs.

Definition GoodV (s : ast) (v : Z) : Prop := 0 <= v /\ forall q d, (aheight s <= d)%nat -> SI q d s v.

Lemma goodv_good : forall s v, GoodV s v -> forall q, Good q s v.
Proof. intros s v (_ & H) q d Hd. apply si_contract. apply H. exact Hd. Qed.

Lemma goodv_kids : forall q d l vs, Forall2 GoodV l vs -> (ApiModel.nat_max_list (map aheight l) <= d)%nat ->
  Forall2 (SI q d) l vs.
Proof.
  intros q d l vs H Hd.
  assert (Hh : forall x, In x l -> (aheight x <= d)%nat).
  { intros x Hx. pose proof (amax_ge (map aheight l) (aheight x) (in_map aheight l x Hx)). lia. }
  clear Hd. induction H as [|x v l vs (_ & Hx) _ IH]; constructor.
  - apply Hx. apply Hh. left. reflexivity.
  - apply IH. intros y Hy. apply Hh. right. exact Hy.
Qed.
(* which documents the closing induction covers (the classes whose invariant is proved) *)
Definition COV_MSET : bool := true.
Definition COV_FDICT : bool := true.
Fixpoint covered (t : tree) : bool :=
  match t with
  | Leaf _ => true
  | Lst _ _ cs => forallb covered cs
  | Kvp _ k v => covered k && covered v
  | MSet _ cs => COV_MSET && forallb covered cs
  | FDict cs => COV_FDICT && forallb covered cs
  end.

(* documents without DictNode / MultiSetNode (lists, strings, scalars, key/value pairs, FixedKeyDictNodes: what the loaders
   build under the dictionary strategy `none`): the domain of the final-cost theorem *)
Fixpoint msetfree (t : tree) : bool :=
  match t with
  | Leaf _ => true
  | Lst _ _ cs => forallb msetfree cs
  | Kvp _ k v => msetfree k && msetfree v
  | MSet _ _ => false
  | FDict cs => forallb msetfree cs
  end.

Lemma forallb_Forall_impl : forall (cv : tree -> bool) (P : tree -> Prop) cs,
  Forall (fun c => cv c = true -> P c) cs -> forallb cv cs = true -> Forall P cs.
Proof.
  intros cv P cs H Hc. induction H as [|c cs Hc0 _ IH]; constructor; cbn [forallb] in Hc; apply andb_true_iff in Hc; destruct Hc as [C1 C2].
  - apply Hc0. exact C1.
  - apply IH. exact C2.
Qed.

Lemma mcv_nonneg : forall evs i j, Forall (Forall (fun x => 0 <= x)) evs -> 0 <= mcv evs i j.
Proof.
  intros evs i j H. unfold mcv. destruct (Nat.lt_ge_cases i (length evs)) as [Li|Li].
  - assert (Hr : Forall (fun x => 0 <= x) (nth i evs [])) by (rewrite Forall_forall in H; apply H; apply nth_In; exact Li).
    destruct (Nat.lt_ge_cases j (length (nth i evs []))) as [Lj|Lj].
    + rewrite Forall_forall in Hr. apply Hr. apply nth_In. exact Lj.
    + rewrite nth_overflow by exact Lj. lia.
  - rewrite (nth_overflow evs [] Li). destruct j; cbn; lia.
Qed.

Lemma nth_nonneg : forall (l : list Z) i, Forall (fun x => 0 <= x) l -> 0 <= nth i l 0.
Proof.
  intros l i H. destruct (Nat.lt_ge_cases i (length l)) as [L|L]; [rewrite Forall_forall in H; apply H; apply nth_In; exact L|].
  rewrite nth_overflow by exact L. lia.
Qed.

Lemma F2_rows_len : forall {A B} (R : A -> B -> Prop) (e : list (list A)) (evs : list (list B)) k,
  Forall2 (Forall2 R) e evs -> Forall (fun row => length row = k) e -> Forall (fun r => length r = k) evs.
Proof.
  intros A B R e evs k H. induction H as [|row vrow e evs Hrow _ IH]; intros Hl; constructor; inversion Hl; subst.
  - rewrite <- (Forall2_length' _ _ _ Hrow). reflexivity.
  - apply IH. assumption.
Qed.

(* MultiSetEdit.__init__ over pre-matched edits and edges that are good *)
Lemma goodv_mset : forall ix kv edges rem ins cnt asg kvs evs,
  Forall2 GoodV kv kvs -> Forall2 (Forall2 GoodV) edges evs ->
  length edges = length rem -> Forall (fun row => length row = length ins) edges ->
  Forall (fun x => 0 <= x) rem -> Forall (fun x => 0 <= x) ins ->
  GoodV (AMSet ix (mk_mset kv edges rem ins false None None cnt asg) false) (Vv rem ins asg kvs evs).
Proof.
  intros ix kv edges rem ins cnt asg kvs evs Hkv Hed L1 L2 Hrem Hins. split.
  - unfold Vv, Wv, UCv, UCc.
    assert (N1 : Forall (fun x => 0 <= x) kvs) by (clear - Hkv; induction Hkv as [|x v l vs (Hv & _) _ IH]; constructor; assumption).
    assert (N2 : Forall (Forall (fun x => 0 <= x)) evs).
    { clear - Hed. induction Hed as [|row vrow e evs Hrow _ IH]; constructor; [|exact IH].
      clear - Hrow. induction Hrow as [|x v l vs (Hv & _) _ IH]; constructor; assumption. }
    pose proof (zsum_nonneg _ N1) as Z1.
    assert (Z2 : 0 <= zsum (map (ev evs) (ch rem ins asg))) by (apply zsum_map_nonneg; intros p; unfold ev; apply mcv_nonneg; exact N2).
    assert (Z3 : forall l, 0 <= zsum (map (fun i => nth i rem 0) l)) by (intros l; apply zsum_map_nonneg; intros i; apply nth_nonneg; exact Hrem).
    assert (Z4 : forall l, 0 <= zsum (map (fun j => nth j ins 0) l)) by (intros l; apply zsum_map_nonneg; intros i; apply nth_nonneg; exact Hins).
    specialize (Z3 (unm (map fst (ch rem ins asg)) (length rem))). specialize (Z4 (unm (map snd (ch rem ins asg)) (length ins))). lia.
  - intros q d Hd. cbn [aheight m_kvp m_edges] in Hd. destruct d as [|d]; [lia|]. cbn [SI]. split; [reflexivity|].
    exists rem, ins, cnt, asg, kvs, evs.
    split; [rewrite <- (Forall2_length' _ _ _ Hed); exact L1|]. split; [apply (F2_rows_len _ _ _ _ Hed L2)|]. split; [reflexivity|].
    constructor; cbn [m_rem m_ins m_counts m_asg m_kvp m_edges m_match m_memo]; try reflexivity; try (left; reflexivity).
    + apply goodv_kids; [exact Hkv|lia].
    + eapply Forall2_impl2; [|exact Hed]. intros row vrow Hrow HF. cbv beta. apply goodv_kids; [exact HF|].
      pose proof (amax_ge _ _ (in_map (fun row => ApiModel.nat_max_list (map aheight row)) edges _ Hrow)) as M1. lia.
Qed.

(* initial_bounds.upper_bound of a good edit is at least its value *)
Lemma goodv_ub : forall x v, GoodV x v -> v <= ubA x.
Proof.
  intros x v [_ H]. unfold ubA. specialize (H true (aheight x) (le_n _)).
  destruct (si_step true (aheight x) x v H) as (_ & (_ & _ & B3 & _) & _). cbn [AM a_bnd] in B3. apply B3.
Qed.

(* EditCollection.__init__ (FixedKeyDictNodeEdit) over good edits whose initial upper bounds fit cost_upper_bound *)
Lemma goodv_coll : forall ks kids vs U, Forall2 GoodV kids vs -> zsum (map ubA kids) <= U ->
  GoodV (AColl ks (map ubA kids) (mk_coll U (Some kids) [] None true) false) (zsum vs).
Proof.
  intros ks kids vs U H HU.
  assert (N : Forall (fun x => 0 <= x) vs) by (clear - H; induction H as [|x v l vs (Hv & _) _ IH]; constructor; assumption).
  split; [apply zsum_nonneg; exact N|].
  intros q d Hd. cbn [aheight k_pend k_subs] in Hd. destruct d as [|d]; [lia|]. cbn [SI]. exists U, vs. split; [exact N|]. split; [reflexivity|].
  constructor; cbn [ccl cius cerr k_U k_valid k_pend k_subs k_cost fst snd]; try reflexivity; [|left; reflexivity].
  exists [], vs. split; [reflexivity|]. split; [constructor|]. split; [apply goodv_kids; [exact H|cbn [map ApiModel.nat_max_list] in Hd; lia]|].
  split; [|cbn [map zsum fold_right]; lia].
  clear - H. induction H as [|x v l vs Hx _ IH]; cbn [map]; constructor; [apply goodv_ub; exact Hx|exact IH].
Qed.

Section OrcA.
Variable orc : oracle.
Notation initA := (ApiModel.initA orc).

Definition PgoodU (a : tree) : Prop := forall b s, initA a b = Some s -> exists v, GoodV s v.
Definition PgoodA (a : tree) : Prop := covered a = true -> PgoodU a.

Lemma covered_forall : forall (P : tree -> Prop) cs, Forall (fun c => covered c = true -> P c) cs -> forallb covered cs = true -> Forall P cs.
Proof. intros P cs. apply (forallb_Forall_impl covered P cs). Qed.

Lemma const_tag_of_nonneg : forall a b c t, const_tag_of a b = Some (c, t) -> 0 <= c.
Proof.
  intros a b c t H. destruct a as [x|ale alsl cs|ake k v|amk cs|cs]; cbn [const_tag_of] in H.
  - unfold leaf_script in H. pose proof (replace_cost_pos (Leaf x) b) as Rp.
    destruct (lk x); destruct b as [y| | | |]; try (injection H as <- <-; lia);
      try (destruct (lk y); injection H as <- <-; try lia; apply leaf_match_cost_nonneg);
      try (injection H as <- <-; apply leaf_match_cost_nonneg).
    destruct (lk y); try (injection H as <- <-; apply leaf_match_cost_nonneg).
    destruct (str_eqb (ltext x) (ltext y)); [injection H as <- <-; lia|].
    destruct (Nat.eqb (length (ltext x)) 1 && Nat.eqb (length (ltext y)) 1); [injection H as <- <-; lia|].
    destruct (str_script (ltext x) (ltext y)). discriminate.
  - pose proof (replace_cost_pos (Lst ale alsl cs) b).
    destruct (list_dispatch (Lst ale alsl cs) b); try discriminate; injection H as <- <-; lia.
  - destruct b as [y| |ake' k' v'| |]; try discriminate.
    destruct (ake || node_eqb k k'); [discriminate|]. injection H as <- <-.
    pose proof (replace_cost_pos (Kvp ake k v) (Kvp ake' k' v')). lia.
  - pose proof (replace_cost_pos (MSet amk cs) b).
    destruct b as [y| | |amk' ds|ds]; try discriminate; try (injection H as <- <-; lia).
    destruct (_ || _); [injection H as <- <-; lia|discriminate].
  - pose proof (replace_cost_pos (FDict cs) b).
    destruct b as [y| | |amk' ds|ds]; try discriminate; try (injection H as <- <-; lia).
    destruct (_ || _); [injection H as <- <-; lia|discriminate].
Qed.

Lemma goodv_const : forall c t, 0 <= c -> GoodV (AConst c t) c.
Proof. intros c t H. split; [exact H|]. intros q d _. apply si_const_any. Qed.

(* from "every entry has a value" to a matrix of values *)
Lemma values_row : forall (row : list ast), Forall (fun x => exists v, GoodV x v) row ->
  exists vs, Forall2 GoodV row vs.
Proof. intros row H. apply Forall_exists_Forall2. exact H. Qed.

Lemma values_matrix : forall (kids : list (list ast)), Forall (Forall (fun x => exists v, GoodV x v)) kids ->
  exists mcs, Forall2 (Forall2 GoodV) kids mcs.
Proof.
  intros kids H. apply Forall_exists_Forall2. apply Forall_forall. intros row Hrow.
  rewrite Forall_forall in H. apply values_row. apply H. exact Hrow.
Qed.

Lemma goodv_sum : forall l vs, Forall2 GoodV l vs -> GoodV (ASum l) (zsum vs).
Proof.
  intros l vs H. split.
  - apply zsum_nonneg. induction H as [|x v l vs (Hv & _) _ IH]; constructor; assumption.
  - intros q d Hd. cbn [aheight] in Hd. destruct d as [|d]; [lia|]. cbn [SI]. exists vs. split; [reflexivity|].
    apply goodv_kids; [exact H|lia].
Qed.

Lemma goodv_fixed : forall l vs rems inss, Forall2 GoodV l vs -> Forall (fun x => 0 <= x) rems -> Forall (fun x => 0 <= x) inss ->
  GoodV (AFixed l rems inss false) (zsum vs + zsum rems + zsum inss).
Proof.
  intros l vs rems inss H Hr Hi. split.
  - assert (0 <= zsum vs) by (apply zsum_nonneg; induction H as [|x v l vs (Hv & _) _ IH]; constructor; assumption).
    pose proof (zsum_nonneg _ Hr). pose proof (zsum_nonneg _ Hi). lia.
  - intros q d Hd. cbn [aheight] in Hd. destruct d as [|d]; [lia|]. cbn [SI]. split; [reflexivity|]. exists vs.
    split; [reflexivity|]. apply goodv_kids; [exact H|lia].
Qed.

Lemma final_cost_nonneg : forall rc ic mcs, dims_ok rc ic mcs -> Forall (fun x => 0 <= x) rc -> Forall (fun x => 0 <= x) ic ->
  Forall (Forall (fun x => 0 <= x)) mcs -> 0 <= final_cost rc ic mcs.
Proof.
  intros rc ic mcs Hd Hrc Hic Hmc. change (final_cost rc ic mcs) with (cc rc ic mcs (length ic) (length rc)).
  apply (cc_nonneg rc ic mcs Hd Hrc Hic Hmc (length ic + length rc) (length ic) (length rc) eq_refl (le_n _) (le_n _)).
Qed.

Lemma goodv_ed : forall sk p0 q0 frc fic (kids : list (list ast)) (mcs : list (list Z)),
  (p0 + q0 <= length frc)%nat -> (p0 + q0 <= length fic)%nat ->
  Forall (fun x => 0 <= x) frc -> Forall (fun x => 0 <= x) fic ->
  length kids = length (middle p0 q0 fic) -> Forall (fun row => length row = length (middle p0 q0 frc)) kids ->
  Forall2 (Forall2 GoodV) kids mcs ->
  GoodV (AED sk p0 q0 (ed_init frc fic p0 q0 kids)) (final_cost (middle p0 q0 frc) (middle p0 q0 fic) mcs).
Proof.
  intros sk p0 q0 frc fic kids mcs Hp1 Hp2 Hf1 Hf2 Kl Kr H. split.
  - apply final_cost_nonneg; try (apply Forall_middle; assumption).
    + split; [rewrite <- (Forall2_length' _ _ _ H); exact Kl|].
      apply Forall_forall. intros row' Hrow'. apply In_nth_error in Hrow'. destruct Hrow' as (r & Er').
      assert (Lr : (r < length kids)%nat) by (rewrite (Forall2_length' _ _ _ H); apply nth_error_Some; congruence).
      destruct (nth_error kids r) as [row|] eqn:Er; [|apply nth_error_None in Er; lia].
      destruct (Forall2_nth_error _ _ _ _ _ H Er) as (row'' & Er'' & Hrow). rewrite Er' in Er''. injection Er'' as <-.
      rewrite <- (Forall2_length' _ _ _ Hrow). rewrite Forall_forall in Kr. apply Kr. apply (nth_error_In _ _ Er).
    + apply Forall_forall. intros row' Hrow'. apply In_nth_error in Hrow'. destruct Hrow' as (r & Er').
      assert (Lr : (r < length kids)%nat) by (rewrite (Forall2_length' _ _ _ H); apply nth_error_Some; congruence).
      destruct (nth_error kids r) as [row|] eqn:Er; [|apply nth_error_None in Er; lia].
      destruct (Forall2_nth_error _ _ _ _ _ H Er) as (row'' & Er'' & Hrow). rewrite Er' in Er''. injection Er'' as <-.
      clear - Hrow. induction Hrow as [|x v l l' (Hv & _) _ IH]; constructor; assumption.
  - intros q d Hd. cbn [aheight ed_init e_kids] in Hd. destruct d as [|d]; [lia|].
    assert (Hk2 : Forall2 (Forall2 (fun x v => 0 <= v /\ SI q d x v)) kids mcs).
    { eapply Forall2_impl2; [|exact H]. intros row vrow Hrow HF. eapply Forall2_impl2; [|exact HF].
      intros x v Hx (Hv & Hg). cbv beta. split; [exact Hv|]. apply Hg.
      pose proof (amax_ge _ _ (in_map (fun row => ApiModel.nat_max_list (map aheight row)) kids _ Hrow)) as M1.
      pose proof (amax_ge _ _ (in_map aheight _ x Hx)) as M2. lia. }
    destruct (ed_init_FI q d (SI q d) p0 q0 frc fic kids mcs (si_step q d) Hp1 Hp2 Hf1 Hf2 Kl Kr Hk2) as (HE & HFI).
    cbn [SI]. eexists _, _, _, _, mcs. split; [exact HE|]. split; [reflexivity|exact HFI].
Qed.

(* StringEdit: an EditDistance over the one-character edits *)
Theorem goodv_str : forall s t, exists v, GoodV (str_astate s t) v.
Proof.
  intros s t. unfold str_astate. destruct (trim Z.eqb s t) as [p q] eqn:E.
  destruct (trim_bounds Z.eqb s t p q E) as (_ & _ & B1 & B2).
  assert (N : forall l : str, Forall (fun x => 0 <= x) (map (fun _ : Z => 1) l)).
  { intros l. apply Forall_forall. intros x Hx. apply in_map_iff in Hx. destruct Hx as (_ & <- & _). lia. }
  destruct (values_matrix (map (fun d => map (fun c => AConst (char_cost c d) TMatch) (middle p q s)) (middle p q t)))
    as (mcs & Hm).
  { apply Forall_forall. intros row Hrow. apply in_map_iff in Hrow. destruct Hrow as (d & <- & _).
    apply Forall_forall. intros x Hx. apply in_map_iff in Hx. destruct Hx as (c & <- & _).
    eexists. apply goodv_const. apply char_cost_nonneg. }
  eexists. apply (goodv_ed _ p q _ _ _ mcs); try (rewrite map_length; assumption); try apply N; try exact Hm.
  - rewrite middle_map, !map_length. reflexivity.
  - apply Forall_forall. intros row Hrow. apply in_map_iff in Hrow. destruct Hrow as (d & <- & _).
    rewrite middle_map, !map_length. reflexivity.
Qed.

Lemma mget_initA_matrix : forall cs ds i j r,
  mget (map (fun c => map (fun d => initA c d) ds) cs) i j = Some r ->
  exists c d, nth_error cs i = Some c /\ nth_error ds j = Some d /\ r = initA c d.
Proof.
  intros cs ds i j r H. unfold mget in H. rewrite nth_error_map in H.
  destruct (nth_error cs i) as [c|] eqn:Ec; [|discriminate]. cbn [option_map] in H.
  rewrite nth_error_map in H. destruct (nth_error ds j) as [d|] eqn:Ed; [|discriminate].
  injection H as <-. exists c, d. auto.
Qed.

Lemma ed_kids_entryA : forall cs ds p nr nc ks r c x,
  all_some_l (map (fun r => all_some_l (map (fun c => match mget (map (fun c => map (fun d => initA c d) ds) cs) (p + c) (p + r) with
                                                         | Some (Some s) => Some s | _ => None end) (seq 0 nc))) (seq 0 nr)) = Some ks ->
  nth_error (nth r ks []) c = Some x ->
  (r < nr)%nat /\ (c < nc)%nat /\
  exists c0 d0, nth_error cs (p + c) = Some c0 /\ nth_error ds (p + r) = Some d0 /\ initA c0 d0 = Some x.
Proof.
  intros cs ds p nr nc ks r c x Hk Hx.
  assert (Hr : (r < length ks)%nat).
  { destruct (Nat.lt_ge_cases r (length ks)) as [L|L]; [exact L|]. rewrite nth_overflow in Hx by exact L. destruct c; discriminate. }
  destruct (nth_error ks r) as [row|] eqn:Er; [|apply nth_error_None in Er; lia].
  rewrite (nth_nth_error ks r row [] Er) in Hx.
  pose proof (all_some_l_nth _ _ _ _ Hk Er) as H1. apply nth_error_map_seq in H1. destruct H1 as [Lr H1].
  symmetry in H1. pose proof (all_some_l_nth _ _ _ _ H1 Hx) as H2. apply nth_error_map_seq in H2. destruct H2 as [Lc H2].
  split; [exact Lr|]. split; [exact Lc|].
  destruct (mget _ (p + c) (p + r)) as [[s'|]|] eqn:Em; try discriminate. injection H2 as ->.
  destruct (mget_initA_matrix _ _ _ _ _ Em) as (c0 & d0 & E1 & E2 & E3). exists c0, d0. auto.
Qed.

Lemma goodv_list_ed : forall ale alsl cs b pen s, Forall PgoodU cs ->
  list_dispatch (Lst ale alsl cs) b = LEditDist pen ->
  (let ds := match b with Lst _ _ ds => ds | _ => [] end in
   let M := map (fun c => map (fun d => initA c d) ds) cs in
   let '(p, q) := trim node_eqb cs ds in
   let nc := length (middle p q cs) in
   let nr := length (middle p q ds) in
   let kids := map (fun r => all_some_l (map (fun c => match mget M (p + c) (p + r) with
                                                       | Some (Some s) => Some s | _ => None end)
                                             (seq 0 nc))) (seq 0 nr) in
   match all_some_l kids with
   | Some ks => Some (AED None p q (ed_init (map (fun c => remove_cost c pen) cs) (map (fun d => insert_cost d pen) ds) p q ks))
   | None => None
   end) = Some s -> exists v, GoodV s v.
Proof.
  intros ale alsl cs b pen s IH Ed H.
  destruct (MachineProofs.dispatch_penalty _ _ _ _ _ Ed) as (ale' & alsl' & ds & -> & Epen). cbn zeta in H.
  destruct (trim node_eqb cs ds) as [p q] eqn:Et.
  destruct (trim_bounds node_eqb cs ds p q Et) as (_ & _ & B1 & B2).
  destruct (all_some_l _) as [ks|] eqn:Ek; [|discriminate]. injection H as <-.
  assert (Hpen : 0 <= pen) by (rewrite Epen; destruct (all_leaves cs && all_leaves ds); lia).
  destruct (values_matrix ks) as (mcs & Hm).
  { apply Forall_forall. intros row Hrow. apply Forall_forall. intros x Hx.
    destruct (In_nth_error _ _ Hrow) as [r Er]. destruct (In_nth_error _ _ Hx) as [c Ec].
    rewrite <- (nth_nth_error ks r row [] Er) in Ec.
    destruct (ed_kids_entryA cs ds p _ _ ks r c x Ek Ec) as (_ & _ & c0 & d0 & E1 & _ & E3).
    rewrite Forall_forall in IH. apply (IH c0 (nth_error_In _ _ E1) d0 x E3). }
  eexists. apply (goodv_ed None p q _ _ ks mcs); try (rewrite map_length; assumption);
    try (apply rcost_nonneg; exact Hpen); try (apply icost_nonneg; exact Hpen); try exact Hm.
  - rewrite middle_map, map_length. rewrite (all_some_l_length _ _ Ek), map_length, seq_length. reflexivity.
  - apply Forall_forall. intros row Hrow. rewrite middle_map, map_length.
    destruct (In_nth_error _ _ Hrow) as [r Er]. pose proof (all_some_l_nth _ _ _ _ Ek Er) as H1.
    apply nth_error_map_seq in H1. destruct H1 as [_ H1]. symmetry in H1.
    rewrite (all_some_l_length _ _ H1), map_length, seq_length. reflexivity.
Qed.

Lemma goodv_list_fixed : forall cs ds s, Forall PgoodU cs ->
  (let M := map (fun c => map (fun d => initA c d) ds) cs in
   let n := length cs in
   let m := length ds in
   let pairs := map (fun i => match mget M i i with Some (Some s) => Some s | _ => None end) (seq 0 (Nat.min n m)) in
   let rems := if Nat.ltb m n
               then map (fun i => remove_cost (nth i cs dummy) 1) (seq (remove_from_pos n m) (n - remove_from_pos n m))
               else [] in
   let inss := if Nat.ltb n m
               then map (fun j => insert_cost (nth j ds dummy) 1) (seq (insert_from_pos n m) (m - insert_from_pos n m))
               else [] in
   match all_some_l pairs with
   | Some l => Some (AFixed l rems inss false)
   | None => None
   end) = Some s -> exists v, GoodV s v.
Proof.
  intros cs ds s IH H. cbn zeta in H. destruct (all_some_l _) as [l|] eqn:El; [|discriminate]. injection H as <-.
  destruct (values_row l) as (vs & Hvs).
  { apply Forall_forall. intros x Hx. destruct (In_nth_error _ _ Hx) as [i Ei].
    pose proof (all_some_l_nth _ _ _ _ El Ei) as H1. apply nth_error_map_seq in H1. destruct H1 as [_ H1].
    destruct (mget _ i i) as [[s'|]|] eqn:Em; try discriminate. injection H1 as ->.
    destruct (mget_initA_matrix _ _ _ _ _ Em) as (c0 & d0 & E1 & _ & E3).
    rewrite Forall_forall in IH. apply (IH c0 (nth_error_In _ _ E1) d0 _ (eq_sym E3)). }
  eexists. apply (goodv_fixed l vs _ _ Hvs).
  - destruct (Nat.ltb (length ds) (length cs)); [|constructor]. apply Forall_forall. intros x Hx.
    apply in_map_iff in Hx. destruct Hx as (i & <- & _). rewrite remove_cost_eq. pose proof (size_nonneg (nth i cs dummy)). lia.
  - destruct (Nat.ltb (length cs) (length ds)); [|constructor]. apply Forall_forall. intros x Hx.
    apply in_map_iff in Hx. destruct Hx as (i & <- & _). rewrite insert_cost_eq. pose proof (size_nonneg (nth i ds dummy)). lia.
Qed.

(* closing induction: the edit of every pair of trees of the modelled fragment (scalars, strings, nested lists under
   all list options, key/value pairs) satisfies the C05 contract, under both settings of the status flag *)
Theorem initA_good : forall a, PgoodA a.
Proof.
  apply tree_rect'.
  - intros x _ b s H. cbn [ApiModel.initA] in H. destruct (const_tag_of (Leaf x) b) as [[c t]|] eqn:Ec.
    + injection H as <-. eexists. apply goodv_const. apply (const_tag_of_nonneg _ _ _ _ Ec).
    + destruct b as [y| | | |]; try discriminate. destruct (lk x); try discriminate; destruct (lk y); try discriminate.
      injection H as <-. apply goodv_str.
  - intros ale alsl cs IH0 Hcov b s H. cbn [covered] in Hcov. pose proof (covered_forall PgoodU cs IH0 Hcov) as IH.
    cbn [ApiModel.initA] in H. destruct (const_tag_of (Lst ale alsl cs) b) as [[c t]|] eqn:Ec.
    + injection H as <-. eexists. apply goodv_const. apply (const_tag_of_nonneg _ _ _ _ Ec).
    + destruct (list_dispatch (Lst ale alsl cs) b) eqn:Ed; try discriminate.
      * apply (goodv_list_fixed cs (match b with Lst _ _ ds => ds | _ => [] end) s IH H).
      * apply (goodv_list_ed ale alsl cs b penalty s IH Ed H).
  - intros ake k v IHk0 IHv0 Hcov b s H. cbn [covered] in Hcov. apply andb_true_iff in Hcov. destruct Hcov as [Ck Cv].
    pose proof (IHk0 Ck) as IHk. pose proof (IHv0 Cv) as IHv.
    cbn [ApiModel.initA] in H. destruct (const_tag_of (Kvp ake k v) b) as [[c t]|] eqn:Ec.
    + injection H as <-. eexists. apply goodv_const. apply (const_tag_of_nonneg _ _ _ _ Ec).
    + destruct b as [y| |ake' k' v'| |]; try discriminate.
      assert (Hk : forall x, (if node_eqb k k' then Some (AConst 0 TMatch) else initA k k') = Some x -> exists w, GoodV x w).
      { intros x Hx. destruct (node_eqb k k'); [injection Hx as <-; eexists; apply goodv_const; lia|apply (IHk k' x Hx)]. }
      assert (Hv : forall x, (if node_eqb v v' then Some (AConst 0 TMatch) else initA v v') = Some x -> exists w, GoodV x w).
      { intros x Hx. destruct (node_eqb v v'); [injection Hx as <-; eexists; apply goodv_const; lia|apply (IHv v' x Hx)]. }
      destruct (if node_eqb k k' then _ else _) as [x|]; [|discriminate].
      destruct (if node_eqb v v' then _ else _) as [y|]; [|discriminate]. injection H as <-.
      destruct (Hk x eq_refl) as (w1 & G1). destruct (Hv y eq_refl) as (w2 & G2).
      exists (zsum [w1; w2]). apply goodv_sum. constructor; [exact G1|]. constructor; [exact G2|constructor].
  - intros amk cs IH0 Hcov b s H. cbn [covered] in Hcov. unfold COV_MSET in Hcov. cbn [andb] in Hcov.
    pose proof (covered_forall PgoodU cs IH0 Hcov) as IH.
    cbn [ApiModel.initA] in H. destruct (const_tag_of (MSet amk cs) b) as [[c t]|] eqn:Ec.
    + injection H as <-. eexists. apply goodv_const. apply (const_tag_of_nonneg _ _ _ _ Ec).
    + destruct b as [y| | |amk' ds|]; try discriminate. cbv zeta in H.
      destruct (negb _); [discriminate|].
      destruct (all_some_l (map _ (if amk then _ else _))) as [kv|] eqn:Ek; [|discriminate].
      destruct (all_some_l (map _ (filter _ (filter _ (seq 0 (length cs)))))) as [edges|] eqn:Ee; [|discriminate].
      injection H as <-.
      assert (G : forall i j x, match mget (map (fun c => map (fun d => initA c d) ds) cs) i j with Some (Some s) => Some s | _ => None end = Some x ->
                                exists v, GoodV x v).
      { intros i j x Hx. destruct (mget _ i j) as [[s'|]|] eqn:Em; try discriminate. injection Hx as ->.
        destruct (mget_initA_matrix _ _ _ _ _ Em) as (c0 & d0 & E1 & _ & E3).
        rewrite Forall_forall in IH. apply (IH c0 (nth_error_In _ _ E1) d0 _ (eq_sym E3)). }
      destruct (values_row kv) as (kvs & Hkvs).
      { apply Forall_forall. intros x Hx. destruct (In_nth_error _ _ Hx) as [i Ei].
        pose proof (all_some_l_nth _ _ _ _ Ek Ei) as H1. rewrite nth_error_map in H1.
        destruct (nth_error (if amk then _ else _) i) as [[i0 j0]|]; [|discriminate]. cbn [option_map fst snd] in H1.
        injection H1 as H1. apply (G i0 j0 x H1). }
      destruct (values_matrix edges) as (evs & Hevs).
      { apply Forall_forall. intros row Hrow. apply Forall_forall. intros x Hx.
        destruct (In_nth_error _ _ Hrow) as [r Er]. destruct (In_nth_error _ _ Hx) as [c Ec'].
        pose proof (all_some_l_nth _ _ _ _ Ee Er) as H1. rewrite nth_error_map in H1.
        destruct (nth_error (filter _ (filter _ (seq 0 (length cs)))) r) as [i0|]; [|discriminate]. cbn [option_map] in H1. injection H1 as H1.
        pose proof (all_some_l_nth _ _ _ _ H1 Ec') as H2. rewrite nth_error_map in H2.
        destruct (nth_error (filter _ (filter _ (seq 0 (length ds)))) c) as [j0|]; [|discriminate]. cbn [option_map] in H2. injection H2 as H2.
        apply (G i0 j0 x H2). }
      eexists. apply (goodv_mset _ kv edges _ _ _ _ kvs evs Hkvs Hevs).
      * rewrite (all_some_l_length _ _ Ee), !map_length. reflexivity.
      * apply Forall_forall. intros row Hrow. destruct (In_nth_error _ _ Hrow) as [r Er].
        pose proof (all_some_l_nth _ _ _ _ Ee Er) as H1. rewrite nth_error_map in H1.
        destruct (nth_error (filter _ (filter _ (seq 0 (length cs)))) r) as [i0|]; [|discriminate]. cbn [option_map] in H1. injection H1 as H1.
        rewrite (all_some_l_length _ _ H1), !map_length. reflexivity.
      * apply Forall_forall. intros x Hx. apply in_map_iff in Hx. destruct Hx as (i & <- & _).
        rewrite remove_cost_eq. pose proof (size_nonneg (nth i cs dummy)). lia.
      * apply Forall_forall. intros x Hx. apply in_map_iff in Hx. destruct Hx as (j & <- & _).
        rewrite insert_cost_eq. pose proof (size_nonneg (nth j ds dummy)). lia.
  - intros cs IH0 Hcov b s H. cbn [covered] in Hcov. unfold COV_FDICT in Hcov. cbn [andb] in Hcov.
    pose proof (covered_forall PgoodU cs IH0 Hcov) as IH.
    cbn [ApiModel.initA] in H. destruct (const_tag_of (FDict cs) b) as [[c t]|] eqn:Ec.
    + injection H as <-. eexists. apply goodv_const. apply (const_tag_of_nonneg _ _ _ _ Ec).
    + destruct b as [y| | | |ds]; try discriminate. cbv zeta in H.
      destruct (_ || _); [discriminate|]. destruct (all_some_l _) as [sh|] eqn:Es; [|discriminate].
      destruct (_ <=? _) eqn:Eb; [|discriminate]. injection H as <-. apply Z.leb_le in Eb.
      match type of Eb with zsum (map ubA ?K) <= _ => destruct (values_row K) as (vs & Hvs) end.
      { apply Forall_app. split; [|apply Forall_app; split].
        - apply Forall_forall. intros x Hx. destruct (In_nth_error _ _ Hx) as [i Ei].
          pose proof (all_some_l_nth _ _ _ _ Es Ei) as H1. rewrite nth_error_map in H1.
          destruct (nth_error (flat_map _ _) i) as [[i0 j0]|]; [|discriminate]. cbn [option_map fst snd] in H1.
          destruct (node_eqb _ _); [injection H1 as <-; eexists; apply goodv_const; lia|].
          destruct (mget _ i0 j0) as [[s'|]|] eqn:Em; try discriminate. injection H1 as ->.
          destruct (mget_initA_matrix _ _ _ _ _ Em) as (c0 & d0 & E1 & _ & E3).
          rewrite Forall_forall in IH. apply (IH c0 (nth_error_In _ _ E1) d0 _ (eq_sym E3)).
        - apply Forall_forall. intros x Hx. apply in_map_iff in Hx. destruct Hx as (i & <- & _). eexists. apply goodv_const.
          rewrite remove_cost_eq. pose proof (size_nonneg (nth i cs dummy)). lia.
        - apply Forall_forall. intros x Hx. apply in_map_iff in Hx. destruct Hx as (j & <- & _). eexists. apply goodv_const.
          rewrite insert_cost_eq. pose proof (size_nonneg (nth j ds dummy)). lia. }
      eexists. apply (goodv_coll _ _ vs _ Hvs Eb).
Qed.

Lemma covered_all : forall a, covered a = true.
Proof.
  apply tree_rect'; intros; cbn [covered]; unfold COV_MSET, COV_FDICT; cbn [andb]; try reflexivity;
    try (apply forallb_forall; intros x Hx; match goal with H : Forall _ _ |- _ => rewrite Forall_forall in H; apply H; exact Hx end).
  apply andb_true_iff. split; assumption.
Qed.

(* ================================================================ the property for the modelled fragment
   For every pair of documents whose edit the model covers, every history of calls on the edit returned by a.edits(b)
   and both settings of DEFAULT_PRINTER.quiet: no call raises, every call is answered, and completion yields the same
   final cost v - a value that depends on the pair only. *)
Theorem C05_model : forall a b s, initA a b = Some s -> exists v, 0 <= v /\
  forall (quiet : bool) (h : history),
    existsb is_err (snd (run_hist quiet (aheight s) h s)) = false /\
    length (snd (run_hist quiet (aheight s) h s)) = length h /\
    finish_cost quiet (aheight s) (fst (run_hist quiet (aheight s) h s)) = Some v.
Proof.
  intros a b s H. destruct (initA_good a (covered_all a) b s H) as (v & Hv & Hg). exists v. split; [exact Hv|].
  intros quiet h. destruct (si_history quiet (aheight s) v h s (Hg quiet (aheight s) (le_n _))) as (_ & A & B & C0).
  auto.
Qed.

(* the status flag is irrelevant: both settings end every history with the same final cost *)
Corollary C05_quiet : forall a b s, initA a b = Some s -> forall (h1 h2 : history),
  finish_cost true (aheight s) (fst (run_hist true (aheight s) h1 s)) =
  finish_cost false (aheight s) (fst (run_hist false (aheight s) h2 s)).
Proof.
  intros a b s H h1 h2. destruct (C05_model a b s H) as (v & _ & Hv).
  destruct (Hv true h1) as (_ & _ & ->). destruct (Hv false h2) as (_ & _ & ->). reflexivity.
Qed.

End OrcA.
Notation initA0 := (ApiModel.initA []).

(* ================================================================ the hypotheses are satisfiable (non-trivial instances) *)
Definition lf (k : Z) : tree := Leaf (Build_leaf KInt [48 + k] k 0).
Definition ex_a : tree := Lst true true [Lst true true [lf 1; lf 2]; Lst true true [lf 3; lf 4]].      (* [[1,2],[3,4]] *)
Definition ex_b : tree := Lst true true [Lst true true [lf 3; lf 5]; Lst true true [lf 1; lf 2]; lf 7]. (* [[3,5],[1,2],7] *)
Definition ex_s : ast := match initA0 ex_a ex_b with Some s => s | None => AConst 0 TOther end.

(* the pair is in the modelled fragment: a nested EditDistance (an EditDistance whose cells are EditDistances) *)
Example ex_modelled : initA0 ex_a ex_b = Some ex_s /\ aheight ex_s = 2%nat /\ tag_of ex_s = TEditDist.
Proof. vm_compute. repeat split. Qed.

(* the history that raised TypeError before the repair of D6 (refine twice without reading the bounds), under both
   settings of the status flag, followed by every other operation: outcomes and final cost *)
Example ex_history_quiet :
  snd (run_hist true 2 (map root [OTighten; OTighten; OBounds; OIsComplete; OEdits; OTighten; OHasNonZero; OValid]) ex_s) =
  [RBool true; RBool true; RRange (Fin 8, Fin 22); RBool false;
   REdits [TEditDist; TEditDist; TInsert]; RBool false; RBool true; RBool true] /\
  finish_cost true 2 (fst (run_hist true 2 (map root [OTighten; OTighten; OBounds; OIsComplete; OEdits; OTighten; OHasNonZero; OValid]) ex_s))
  = Some 10.
Proof. vm_compute. split; reflexivity. Qed.

Example ex_history_status :
  existsb is_err (snd (run_hist false 2 (map root [OTighten; OTighten; OBounds; OIsComplete; OEdits; OTighten; OHasNonZero; OValid]) ex_s)) = false /\
  finish_cost false 2 (fst (run_hist false 2 (map root [OTighten; OTighten; OBounds; OIsComplete; OEdits; OTighten; OHasNonZero; OValid]) ex_s))
  = Some 10 /\
  finish_cost false 2 ex_s = Some 10.
Proof. vm_compute. repeat split. Qed.

(* C05_model applies to it *)
Example ex_instance : exists v, 0 <= v /\ forall quiet (h : history),
  existsb is_err (snd (run_hist quiet (aheight ex_s) h ex_s)) = false /\
  length (snd (run_hist quiet (aheight ex_s) h ex_s)) = length h /\
  finish_cost quiet (aheight ex_s) (fst (run_hist quiet (aheight ex_s) h ex_s)) = Some v.
Proof. apply (C05_model [] ex_a ex_b ex_s). apply ex_modelled. Qed.

(* a sub-edit addressed through a listing (calls on sub-edits are part of the model and of the correspondence run) *)
Example ex_sub_edit :
  snd (run_hist true 2 [([], OEdits); ([0%nat], OBounds); ([0%nat], OEdits); ([0%nat; 1%nat], OTighten); ([5%nat], OBounds)] ex_s) =
  [REdits [TEditDist; TEditDist; TInsert]; RRange (Fin 4, Fin 4); REdits [TInsert; TInsert; TRemove; TRemove]; RBool false; RNoSub].
Proof. vm_compute. reflexivity. Qed.

(* ================================================================ Part 5: the value is the cost of the big-step script
   Whenever the big-step model of the final script (ScriptModel.script, the model C01/C03 are about, tied to the code by
   exact correspondence) yields a script e for the pair, the value of the contract is cost e. *)
Lemma script_dispatch : forall ale alsl cs b,
  list_dispatch_gen (match b with Lst _ _ _ => true | _ => false end)
    ((fix go (xs ys : list tree) : bool :=
        match xs, ys with
        | [], [] => true
        | x :: xs', y :: ys' => node_eqb x y && go xs' ys'
        | _, _ => false
        end) cs (match b with Lst _ _ ds => ds | _ => [] end)) ale alsl
    (zlen cs) (zlen (match b with Lst _ _ ds => ds | _ => [] end)) (all_leaves cs)
    (all_leaves (match b with Lst _ _ ds => ds | _ => [] end)) = list_dispatch (Lst ale alsl cs) b.
Proof. intros ale alsl cs b. destruct b; reflexivity. Qed.

Section OrcB.
Variable orc : oracle.
Notation initA := (ApiModel.initA orc).
Definition PcostU (a : tree) : Prop :=
  forall b s O pa pb e, initA a b = Some s -> script O pa pb a b = OK e -> GoodV s (cost e).
Definition PcostA (a : tree) : Prop := msetfree a = true -> PcostU a.

Lemma cost_const_tag : forall a b c t O pa pb e, const_tag_of a b = Some (c, t) -> script O pa pb a b = OK e -> cost e = c.
Proof.
  intros a b c t O pa pb e H Hs. destruct a as [x|ale alsl cs|ake k v|amk cs|cs]; cbn [const_tag_of] in H; try discriminate.
  - cbn [script] in Hs. rewrite Hs in H. destruct e; try discriminate; injection H as <- _; reflexivity.
  - cbn [script] in Hs. rewrite script_dispatch in Hs.
    destruct (list_dispatch (Lst ale alsl cs) b); try discriminate; injection H as <- _; injection Hs as <-; reflexivity.
  - destruct b as [y| |ake' k' v'| |]; try discriminate. cbn [script] in Hs.
    destruct (ake || node_eqb k k'); [discriminate|]. injection H as <- _. injection Hs as <-. reflexivity.
  - cbn [script] in Hs. destruct b as [y| | |amk' ds|ds]; try discriminate; try (injection H as <- _; injection Hs as <-; reflexivity).
    destruct (_ || _); [|discriminate]. injection H as <- _. injection Hs as <-. reflexivity.
  - cbn [script] in Hs. destruct b as [y| | |amk' ds|ds]; try discriminate; try (injection H as <- _; injection Hs as <-; reflexivity).
    destruct (_ || _); [|discriminate]. injection H as <- _. injection Hs as <-. reflexivity.
Qed.

Lemma cost_str : forall u t, exists mcs,
  fst (str_script u t) = final_cost (middle (fst (trim Z.eqb u t)) (snd (trim Z.eqb u t)) (map (fun _ => 1) u))
                                    (middle (fst (trim Z.eqb u t)) (snd (trim Z.eqb u t)) (map (fun _ => 1) t)) mcs /\
  Forall2 (Forall2 GoodV)
    (map (fun d => map (fun c => AConst (char_cost c d) TMatch) (middle (fst (trim Z.eqb u t)) (snd (trim Z.eqb u t)) u))
         (middle (fst (trim Z.eqb u t)) (snd (trim Z.eqb u t)) t)) mcs.
Proof.
  intros u t. unfold str_script. destruct (trim Z.eqb u t) as [p q]. cbn [fst snd].
  exists (map (fun d => map (fun c => char_cost c d) (middle p q u)) (middle p q t)). split.
  - rewrite !middle_map. reflexivity.
  - assert (Hrow : forall d (lu : list Z), Forall2 GoodV (map (fun c => AConst (char_cost c d) TMatch) lu)
                                                        (map (fun c => char_cost c d) lu)).
    { intros d lu. induction lu as [|c lu IH']; constructor; [|exact IH']. apply goodv_const. apply char_cost_nonneg. }
    induction (middle p q t) as [|d l IH]; constructor; [apply Hrow|exact IH].
Qed.

Lemma cost_list_fixed : forall O pa pb cs ds s e, Forall PcostU cs ->
  (let M := map (fun c => map (fun d => initA c d) ds) cs in
   let n := length cs in
   let m := length ds in
   let pairs := map (fun i => match mget M i i with Some (Some s) => Some s | _ => None end) (seq 0 (Nat.min n m)) in
   let rems := if Nat.ltb m n
               then map (fun i => remove_cost (nth i cs dummy) 1) (seq (remove_from_pos n m) (n - remove_from_pos n m))
               else [] in
   let inss := if Nat.ltb n m
               then map (fun j => insert_cost (nth j ds dummy) 1) (seq (insert_from_pos n m) (m - insert_from_pos n m))
               else [] in
   match all_some_l pairs with
   | Some l => Some (AFixed l rems inss false)
   | None => None
   end) = Some s ->
  match fixed_len_subs cs ds (sub_matrix O pa pb cs ds) with
  | Some subs => OK (EComp KFixedLen (zsum (map sub_cost subs)) subs)
  | None => Err ENoOracle
  end = OK e -> GoodV s (cost e).
Proof.
  intros O pa pb cs ds s e IH H Hs. cbn zeta in H. destruct (all_some_l _) as [l|] eqn:El; [|discriminate]. injection H as <-.
  unfold fixed_len_subs in Hs. cbv zeta in Hs.
  destruct (all_some _) as [ps|] eqn:Ep; [|discriminate]. injection Hs as <-. cbn [cost].
  assert (Hv : Forall2 GoodV l (map sub_cost ps)).
  { apply Forall2_of_nth.
    - rewrite map_length, (all_some_l_length _ _ El), (all_some_length _ _ Ep), !map_length. reflexivity.
    - intros i x y Hx Hy.
      pose proof (all_some_l_nth _ _ _ _ El Hx) as H1. apply nth_error_map_seq in H1. destruct H1 as [Li H1].
      destruct (mget _ i i) as [[s'|]|] eqn:Em; try discriminate. injection H1 as Hxs. subst s'.
      destruct (mget_initA_matrix orc _ _ _ _ _ Em) as (c0 & d0 & E1 & E2 & E3).
      rewrite nth_error_map in Hy. destruct (nth_error ps i) as [sb|] eqn:Eps; [|discriminate]. injection Hy as <-.
      apply all_some_spec in Ep.
      assert (Hps : nth_error (map (fun i => match mget (sub_matrix O pa pb cs ds) i i with
                                            | Some (OK e) => Some (SPair i i e) | _ => None end)
                                   (seq 0 (Nat.min (length cs) (length ds)))) i = Some (Some sb)).
      { rewrite Ep. rewrite nth_error_map, Eps. reflexivity. }
      apply nth_error_map_seq in Hps. destruct Hps as [_ Hps].
      destruct (mget (sub_matrix O pa pb cs ds) i i) as [[e'|]|] eqn:Em2; try discriminate. injection Hps as ->.
      destruct (mget_sub_matrix _ _ _ _ _ _ _ _ Em2) as (c1 & d1 & F1 & F2 & F3).
      rewrite E1 in F1. injection F1 as <-. rewrite E2 in F2. injection F2 as <-.
      rewrite Forall_forall in IH. cbn [sub_cost]. apply (IH c0 (nth_error_In _ _ E1) d0 x O _ _ e' (eq_sym E3) (eq_sym F3)). }
  rewrite !map_app, !zsum_app.
  match goal with |- GoodV (AFixed l ?r ?i false) _ => pose proof (goodv_fixed l (map sub_cost ps) r i Hv) as G end.
  assert (Er : forall (X : list nat), map sub_cost (map (fun i => SRem i (remove_cost (nth i cs dummy) 1)) X) =
                                      map (fun i => remove_cost (nth i cs dummy) 1) X) by (intros X; rewrite map_map; reflexivity).
  assert (Ei : forall (X : list nat), map sub_cost (map (fun j => SIns j (insert_cost (nth j ds dummy) 1)) X) =
                                      map (fun j => insert_cost (nth j ds dummy) 1) X) by (intros X; rewrite map_map; reflexivity).
  destruct (Nat.ltb (length ds) (length cs)); destruct (Nat.ltb (length cs) (length ds));
    rewrite ?Er, ?Ei; cbn [map zsum fold_right] in *; rewrite ?Z.add_assoc;
    (apply G; [try constructor|try constructor]);
    try (apply Forall_forall; intros z Hz; apply in_map_iff in Hz; destruct Hz as (i & <- & _);
         rewrite ?remove_cost_eq, ?insert_cost_eq; pose proof (size_nonneg (nth i cs dummy)); pose proof (size_nonneg (nth i ds dummy)); lia).
Qed.

Lemma cost_list_ed : forall O pa pb ale alsl cs b pen s e, Forall PcostU cs ->
  list_dispatch (Lst ale alsl cs) b = LEditDist pen ->
  (let ds := match b with Lst _ _ ds => ds | _ => [] end in
   let M := map (fun c => map (fun d => initA c d) ds) cs in
   let '(p, q) := trim node_eqb cs ds in
   let nc := length (middle p q cs) in
   let nr := length (middle p q ds) in
   let kids := map (fun r => all_some_l (map (fun c => match mget M (p + c) (p + r) with
                                                       | Some (Some s) => Some s | _ => None end)
                                             (seq 0 nc))) (seq 0 nr) in
   match all_some_l kids with
   | Some ks => Some (AED None p q (ed_init (map (fun c => remove_cost c pen) cs) (map (fun d => insert_cost d pen) ds) p q ks))
   | None => None
   end) = Some s ->
  edit_dist_script pen cs (match b with Lst _ _ ds => ds | _ => [] end)
                   (sub_matrix O pa pb cs (match b with Lst _ _ ds => ds | _ => [] end)) = OK e ->
  GoodV s (cost e).
Proof.
  intros O pa pb ale alsl cs b pen s e IH Ed H Hs.
  destruct (MachineProofs.dispatch_penalty _ _ _ _ _ Ed) as (ale' & alsl' & ds & -> & Epen). cbn zeta in H.
  destruct (trim node_eqb cs ds) as [p q] eqn:Et.
  destruct (trim_bounds node_eqb cs ds p q Et) as (_ & _ & B1 & B2).
  destruct (all_some_l _) as [ks|] eqn:Ek; [|discriminate]. injection H as <-.
  assert (Hpen : 0 <= pen) by (rewrite Epen; destruct (all_leaves cs && all_leaves ds); lia).
  rewrite (edit_dist_script_unfold pen cs ds _ p q Et) in Hs. cbv zeta in Hs.
  destruct (ed_costs _) as [mcs|] eqn:Ec; [|discriminate]. injection Hs as <-. cbn [cost].
  pose proof (ed_costs_dims _ _ _ _ mcs (map (fun c => remove_cost c pen) (middle p q cs))
                            (map (fun d => insert_cost d pen) (middle p q ds)) Ec
                            ltac:(rewrite map_length; reflexivity) ltac:(rewrite map_length; reflexivity)) as (Dl & Dr).
  rewrite map_length in Dl.
  assert (Lks : length ks = length (middle p q ds)) by (rewrite (all_some_l_length _ _ Ek), map_length, seq_length; reflexivity).
  assert (Hm : Forall2 (Forall2 GoodV) ks mcs).
  { apply Forall2_of_nth; [lia|]. intros r row vrow Er Ev.
    pose proof (all_some_l_nth _ _ _ _ Ek Er) as H1. apply nth_error_map_seq in H1. destruct H1 as [Lr H1]. symmetry in H1.
    assert (Lrow : length row = length (middle p q cs)) by (rewrite (all_some_l_length _ _ H1), map_length, seq_length; reflexivity).
    assert (Lv : length vrow = length (middle p q cs)).
    { rewrite Forall_forall in Dr. rewrite (Dr vrow (nth_error_In _ _ Ev)), map_length. reflexivity. }
    apply Forall2_of_nth; [lia|]. intros c x v Hx Hv.
    assert (Hx' : nth_error (nth r ks []) c = Some x) by (rewrite (nth_nth_error ks r row [] Er); exact Hx).
    destruct (ed_kids_entryA orc cs ds p _ _ ks r c x Ek Hx') as (_ & Lc & c0 & d0 & E1 & E2 & E3).
    destruct (ed_costs_nth _ p _ _ mcs r c Ec Lr Lc) as (res & Em & Ecost).
    destruct (mget_sub_matrix _ _ _ _ _ _ _ _ Em) as (c1 & d1 & F1 & F2 & F3).
    rewrite E1 in F1. injection F1 as <-. rewrite E2 in F2. injection F2 as <-.
    rewrite (nth_nth_error mcs r vrow [] Ev), (nth_nth_error vrow c v 0 Hv) in Ecost.
    destruct res as [e'|]; [|discriminate]. cbn [res_cost] in Ecost. injection Ecost as <-.
    rewrite Forall_forall in IH. apply (IH c0 (nth_error_In _ _ E1) d0 x O _ _ e' E3 (eq_sym F3)). }
  rewrite <- !middle_map.
  apply (goodv_ed None p q _ _ ks mcs); try (rewrite map_length; assumption);
    try (apply rcost_nonneg; exact Hpen); try (apply icost_nonneg; exact Hpen); try exact Hm.
  - rewrite middle_map, map_length. exact Lks.
  - apply Forall_forall. intros row Hrow. rewrite middle_map, map_length.
    destruct (In_nth_error _ _ Hrow) as [r Er]. pose proof (all_some_l_nth _ _ _ _ Ek Er) as H1.
    apply nth_error_map_seq in H1. destruct H1 as [_ H1]. symmetry in H1.
    rewrite (all_some_l_length _ _ H1), map_length, seq_length. reflexivity.
Qed.

Theorem initA_cost : forall a, PcostA a.
Proof.
  apply tree_rect'.
  - intros x _ b s O pa pb e H Hs. cbn [ApiModel.initA] in H. destruct (const_tag_of (Leaf x) b) as [[c t]|] eqn:Ec.
    + injection H as <-. rewrite (cost_const_tag _ _ _ _ _ _ _ _ Ec Hs). apply goodv_const. apply (const_tag_of_nonneg _ _ _ _ Ec).
    + destruct b as [y| | | |]; try discriminate. destruct (lk x) eqn:Kx; try discriminate; destruct (lk y) eqn:Ky; try discriminate.
      injection H as <-. cbn [script] in Hs. cbn [const_tag_of] in Ec. unfold leaf_script in Hs, Ec. rewrite Kx, Ky in Hs, Ec.
      destruct (str_eqb (ltext x) (ltext y)); [discriminate|].
      destruct (Nat.eqb (length (ltext x)) 1 && Nat.eqb (length (ltext y)) 1); [discriminate|].
      destruct (cost_str (ltext x) (ltext y)) as (mcs & Ecst & Hm).
      destruct (str_script (ltext x) (ltext y)) as [c ops] eqn:Es. injection Hs as <-. cbn [cost fst] in *. subst c.
      unfold str_astate. destruct (trim Z.eqb (ltext x) (ltext y)) as [p q] eqn:E. cbn [fst snd] in *.
      destruct (trim_bounds Z.eqb _ _ p q E) as (_ & _ & B1 & B2).
      assert (N : forall l : str, Forall (fun x => 0 <= x) (map (fun _ : Z => 1) l)).
      { intros l. apply Forall_forall. intros z Hz. apply in_map_iff in Hz. destruct Hz as (_ & <- & _). lia. }
      apply (goodv_ed _ p q _ _ _ mcs); try (rewrite map_length; assumption); try apply N; try exact Hm.
      * rewrite middle_map, !map_length. reflexivity.
      * apply Forall_forall. intros row Hrow. apply in_map_iff in Hrow. destruct Hrow as (d & <- & _).
        rewrite middle_map, !map_length. reflexivity.
  - intros ale alsl cs IH0 Hcov b s O pa pb e H Hs. cbn [msetfree] in Hcov. pose proof (forallb_Forall_impl msetfree PcostU cs IH0 Hcov) as IH.
    cbn [ApiModel.initA] in H. destruct (const_tag_of (Lst ale alsl cs) b) as [[c t]|] eqn:Ec.
    + injection H as <-. rewrite (cost_const_tag _ _ _ _ _ _ _ _ Ec Hs). apply goodv_const. apply (const_tag_of_nonneg _ _ _ _ Ec).
    + cbn [script] in Hs. rewrite script_dispatch in Hs.
      destruct (list_dispatch (Lst ale alsl cs) b) eqn:Ed; try discriminate.
      * apply (cost_list_fixed O pa pb cs (match b with Lst _ _ ds => ds | _ => [] end) s e IH H Hs).
      * apply (cost_list_ed O pa pb ale alsl cs b penalty s e IH Ed H Hs).
  - intros ake k v IHk0 IHv0 Hcov b s O pa pb e H Hs. cbn [msetfree] in Hcov. apply andb_true_iff in Hcov. destruct Hcov as [Ck Cv].
    pose proof (IHk0 Ck) as IHk. pose proof (IHv0 Cv) as IHv. cbn [ApiModel.initA] in H. destruct (const_tag_of (Kvp ake k v) b) as [[c t]|] eqn:Ec.
    + injection H as <-. rewrite (cost_const_tag _ _ _ _ _ _ _ _ Ec Hs). apply goodv_const. apply (const_tag_of_nonneg _ _ _ _ Ec).
    + destruct b as [y| |ake' k' v'| |]; try discriminate. cbn [script] in Hs. cbn [const_tag_of] in Ec.
      destruct (ake || node_eqb k k'); [|discriminate].
      assert (Hk : forall x e1, (if node_eqb k k' then Some (AConst 0 TMatch) else initA k k') = Some x ->
                                (if node_eqb k k' then OK (EMatch 0) else script O (pa ++ [0%nat]) (pb ++ [0%nat]) k k') = OK e1 ->
                                GoodV x (cost e1)).
      { intros x e1 Hx He. destruct (node_eqb k k'); [injection Hx as <-; injection He as <-; cbn [cost]; apply goodv_const; lia|].
        apply (IHk k' x O _ _ e1 Hx He). }
      assert (Hv : forall x e2, (if node_eqb v v' then Some (AConst 0 TMatch) else initA v v') = Some x ->
                                (if node_eqb v v' then OK (EMatch 0) else script O (pa ++ [1%nat]) (pb ++ [1%nat]) v v') = OK e2 ->
                                GoodV x (cost e2)).
      { intros x e2 Hx He. destruct (node_eqb v v'); [injection Hx as <-; injection He as <-; cbn [cost]; apply goodv_const; lia|].
        apply (IHv v' x O _ _ e2 Hx He). }
      destruct (if node_eqb k k' then Some (AConst 0 TMatch) else initA k k') as [x|] eqn:Ex; [|discriminate].
      destruct (if node_eqb v v' then Some (AConst 0 TMatch) else initA v v') as [y|] eqn:Ey; [|discriminate]. injection H as <-.
      destruct (if node_eqb k k' then OK (EMatch 0) else script O (pa ++ [0%nat]) (pb ++ [0%nat]) k k') as [e1|] eqn:E1; [|discriminate].
      destruct (if node_eqb v v' then OK (EMatch 0) else script O (pa ++ [1%nat]) (pb ++ [1%nat]) v v') as [e2|] eqn:E2; [|discriminate].
      injection Hs as <-. cbn [cost].
      replace (cost e1 + cost e2) with (zsum [cost e1; cost e2]) by (cbn; lia).
      apply goodv_sum. constructor; [apply (Hk x e1 eq_refl eq_refl)|]. constructor; [apply (Hv y e2 eq_refl eq_refl)|constructor].
  - intros amk cs IH Hcov. cbn [msetfree] in Hcov. discriminate.
  - intros cs IH0 Hcov b s O pa pb e H Hs. cbn [msetfree] in Hcov. pose proof (forallb_Forall_impl msetfree PcostU cs IH0 Hcov) as IH.
    cbn [ApiModel.initA] in H. destruct (const_tag_of (FDict cs) b) as [[c t]|] eqn:Ec.
    + injection H as <-. rewrite (cost_const_tag _ _ _ _ _ _ _ _ Ec Hs). apply goodv_const. apply (const_tag_of_nonneg _ _ _ _ Ec).
    + destruct b as [y| | | |ds]; try discriminate. cbv zeta in H. cbn [script] in Hs. cbn [const_tag_of] in Ec.
      destruct (_ || _) eqn:Econd in Ec; [discriminate|]. rewrite Econd in Hs. clear Ec.
      unfold fixed_dict_script in Hs. cbv zeta in Hs. unfold fixed_dict_removals_in_hash_order in H, Hs. cbn [orb] in H.
      destruct (negb _); [discriminate|]. destruct (all_some_l _) as [sh|] eqn:Es; [|discriminate].
      destruct (_ <=? _) eqn:Eb in H; [|discriminate]. injection H as <-. apply Z.leb_le in Eb.
      destruct (all_some _) as [sh'|] eqn:Ep; [|discriminate]. destruct (_ <=? _) in Hs; [|discriminate]. injection Hs as <-. cbn [cost].
      apply goodv_coll; [|exact Eb]. rewrite !map_app.
      apply f2_app; [|apply f2_app].
      * apply Forall2_of_nth.
        -- rewrite map_length, (all_some_l_length _ _ Es), (all_some_length _ _ Ep), !map_length. reflexivity.
        -- intros i x y Hx Hy.
           pose proof (all_some_l_nth _ _ _ _ Es Hx) as H1. rewrite nth_error_map in H1.
           rewrite nth_error_map in Hy. destruct (nth_error sh' i) as [sb|] eqn:Esb; [|discriminate]. injection Hy as <-.
           apply all_some_spec in Ep.
           assert (H2 : nth_error (map (fun ij : nat * nat =>
                          if node_eqb (nth (fst ij) cs dummy) (nth (snd ij) ds dummy) then Some (SPair (fst ij) (snd ij) (EMatch 0))
                          else match mget (sub_matrix O pa pb cs ds) (fst ij) (snd ij) with
                               | Some (OK e) => Some (SPair (fst ij) (snd ij) e) | _ => None end)
                          (flat_map (fun i => match find_index (fun d => node_eqb (kvp_key (nth i cs dummy)) (kvp_key d)) ds 0 with
                                              | Some j => [(i, j)] | None => [] end) (seq 0 (length cs)))) i = Some (Some sb)).
           { unfold sub_matrix. rewrite Ep. rewrite nth_error_map, Esb. reflexivity. }
           rewrite nth_error_map in H2.
           destruct (nth_error (flat_map _ _) i) as [[i0 j0]|]; [|discriminate]. cbn [option_map fst snd] in H1, H2.
           destruct (node_eqb (nth i0 cs dummy) (nth j0 ds dummy)).
           ++ injection H1 as <-. injection H2 as <-. cbn [sub_cost cost]. apply goodv_const. lia.
           ++ destruct (mget (map _ cs) i0 j0) as [[s'|]|] eqn:Em; try discriminate. injection H1 as ->.
              destruct (mget_initA_matrix orc _ _ _ _ _ Em) as (c0 & d0 & E1 & E2 & E3).
              destruct (mget (sub_matrix O pa pb cs ds) i0 j0) as [[e'|]|] eqn:Em2; try discriminate. injection H2 as <-.
              destruct (mget_sub_matrix _ _ _ _ _ _ _ _ Em2) as (c1 & d1 & F1 & F2 & F3).
              rewrite E1 in F1. injection F1 as <-. rewrite E2 in F2. injection F2 as <-.
              rewrite Forall_forall in IH. cbn [sub_cost]. apply (IH c0 (nth_error_In _ _ E1) d0 x O _ _ e' (eq_sym E3) (eq_sym F3)).
      * rewrite !map_map. cbn [sub_cost].
        match goal with |- Forall2 _ (map _ ?L) _ => generalize L end. intros l0. induction l0 as [|i l0 IHL]; cbn [map]; constructor; [|exact IHL].
        apply goodv_const. rewrite remove_cost_eq. pose proof (size_nonneg (nth i cs dummy)). lia.
      * rewrite !map_map. cbn [sub_cost].
        match goal with |- Forall2 _ (map _ ?L) _ => generalize L end. intros l0. induction l0 as [|j l0 IHL]; cbn [map]; constructor; [|exact IHL].
        apply goodv_const. rewrite insert_cost_eq. pose proof (size_nonneg (nth j ds dummy)). lia.
Qed.

(* the property with the big-step final cost: every history, both flag settings *)
Theorem C05_model_cost : forall a b s O pa pb e, msetfree a = true -> initA a b = Some s -> script O pa pb a b = OK e ->
  forall (quiet : bool) (h : history),
    existsb is_err (snd (run_hist quiet (aheight s) h s)) = false /\
    length (snd (run_hist quiet (aheight s) h s)) = length h /\
    finish_cost quiet (aheight s) (fst (run_hist quiet (aheight s) h s)) = Some (cost e).
Proof.
  intros a b s O pa pb e Hcov H Hs quiet h. destruct (initA_cost a Hcov b s O pa pb e H Hs) as (_ & Hg).
  destruct (si_history quiet (aheight s) (cost e) h s (Hg quiet (aheight s) (le_n _))) as (_ & A & B & C0). auto.
Qed.

End OrcB.

Example ex_script_cost : exists e, script (Build_oracle [] []) [] [] ex_a ex_b = OK e /\ cost e = 10.
Proof. eexists. split; [vm_compute; reflexivity|reflexivity]. Qed.


(* ================================================================ mapping edits: the hypotheses are satisfiable
   {"a": "ab", "b": 1} -> {"a": "ac", "c": 1} as DictNodes (MultiSetEdit: one pre-matched pair, one edge) and as
   FixedKeyDictNodes (EditCollection: one shared key, one removal, one insertion).  The models share sub-results through
   `let`: closed instances are evaluated by vm_compute only. *)
Definition exm_a : tree := MSet true [ex_kvp true 97 (ex_str [97; 98]); ex_kvp true 98 ex_int].
Definition exm_b : tree := MSet true [ex_kvp true 97 (ex_str [97; 99]); ex_kvp true 99 ex_int].
Definition exf_a : tree := FDict [ex_kvp false 97 (ex_str [97; 98]); ex_kvp false 98 ex_int].
Definition exf_b : tree := FDict [ex_kvp false 97 (ex_str [97; 99]); ex_kvp false 99 ex_int].
Definition exm_s : ast := match initA0 exm_a exm_b with Some s => s | None => AConst 0 TOther end.
Definition exf_s : ast := match initA0 exf_a exf_b with Some s => s | None => AConst 0 TOther end.
Definition oz_eqb (x y : option Z) : bool :=
  match x, y with Some a, Some b => a =? b | None, None => true | _, _ => false end.

Example ex_maps_modelled :
  initA0 exm_a exm_b = Some exm_s /\ tag_of exm_s = TMultiSet /\ initA0 exf_a exf_b = Some exf_s /\ tag_of exf_s = TFixedDict.
Proof. vm_compute. repeat split. Qed.

(* listing first / refining first / both settings of the status flag: same outcomes where comparable, same final cost *)
Example ex_maps_histories :
  (oz_eqb (finish_cost true (aheight exm_s) (fst (run_hist true (aheight exm_s) [cE; cT; cB] exm_s)))
          (finish_cost false (aheight exm_s) (fst (run_hist false (aheight exm_s) [cT; cT; cB; cH; cE; ([1%nat], OTighten)] exm_s))) &&
   oz_eqb (finish_cost true (aheight exm_s) exm_s) (finish_cost true (aheight exm_s) (fst (run_hist true (aheight exm_s) [cE] exm_s))) &&
   negb (oz_eqb (finish_cost true (aheight exm_s) exm_s) None) &&
   oz_eqb (finish_cost true (aheight exf_s) (fst (run_hist true (aheight exf_s) [cE; ([0%nat], OTighten); cT; cB] exf_s)))
          (finish_cost false (aheight exf_s) (fst (run_hist false (aheight exf_s) [cT; cT; cC; cV; cH] exf_s))) &&
   negb (oz_eqb (finish_cost true (aheight exf_s) exf_s) None)) = true.
Proof. vm_compute. reflexivity. Qed.

(* C05_model applies to both *)
Example ex_maps_instance : (exists v, 0 <= v /\ forall quiet (h : history),
    existsb is_err (snd (run_hist quiet (aheight exm_s) h exm_s)) = false /\
    length (snd (run_hist quiet (aheight exm_s) h exm_s)) = length h /\
    finish_cost quiet (aheight exm_s) (fst (run_hist quiet (aheight exm_s) h exm_s)) = Some v) /\
  (exists v, 0 <= v /\ forall quiet (h : history),
    existsb is_err (snd (run_hist quiet (aheight exf_s) h exf_s)) = false /\
    length (snd (run_hist quiet (aheight exf_s) h exf_s)) = length h /\
    finish_cost quiet (aheight exf_s) (fst (run_hist quiet (aheight exf_s) h exf_s)) = Some v).
Proof.
  split; [apply (C05_model [] exm_a exm_b exm_s); apply ex_maps_modelled|apply (C05_model [] exf_a exf_b exf_s); apply ex_maps_modelled].
Qed.
