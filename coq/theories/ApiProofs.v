(* C05: proofs about the API machines of ApiModel.v.
   Part 1 (generic): from the contract AContract (an invariant closed under the public operations on which nothing
   raises, with a measure for tighten_bounds()) follow, for EVERY history of calls: no call raises, and the completion
   idiom followed by the serialiser's reading of the own cost yields the contract's value. *)
From Coq Require Import ZArith List Bool Lia.
Require Import GT.PyBase GT.Data GT.EdTypes GT.EdEngine GT.LevModel GTgen.EdGen GT.EdParams GT.ScriptSpec GT.ScriptModel
               GT.EdEngineProofs GT.MachineSpec GT.MachineModel GT.MachineProofs GT.ApiSpec GT.ApiModel.
Import ListNotations.
Open Scope Z_scope.

(* ================================================================ Part 1: histories, generically *)
Section Gen.
  Variable M : amachine.
  Variable Inv : ASt M -> Prop.
  Variable v : Z.
  Hypothesis Hinv : forall t, Inv t -> astep_ok M Inv v t.

  Lemma inv_bnd : forall t, Inv t ->
    Inv (fst (a_bnd M t)) /\ (a_mu M (fst (a_bnd M t)) <= a_mu M t)%nat /\
    (fst (snd (a_bnd M t)) = snd (snd (a_bnd M t)) -> snd (a_bnd M t) = (v, v)) /\
    a_bnd M (fst (a_bnd M t)) = (fst (a_bnd M t), snd (a_bnd M t)).
  Proof.
    intros t H. destruct (Hinv t H) as (_ & B & _). cbv zeta in B. destruct B as (B1 & B2 & B3 & B4).
    split; [exact B1|]. split; [exact B2|]. split; [|exact B4].
    intros E. destruct (snd (a_bnd M t)) as [lo hi]. cbn [fst snd] in *. f_equal; lia.
  Qed.

  Lemma inv_sound : forall t, Inv t -> fst (snd (a_bnd M t)) <= v <= snd (snd (a_bnd M t)).
  Proof. intros t H. destruct (Hinv t H) as (_ & B & _). cbv zeta in B. apply B. Qed.

  Lemma inv_tig : forall t, Inv t ->
    Inv (fst (a_tig M t)) /\ (snd (a_tig M t) = true -> (a_mu M (fst (a_tig M t)) < a_mu M t)%nat) /\
    (snd (a_tig M t) = false -> (a_mu M (fst (a_tig M t)) <= a_mu M t)%nat /\
                                a_bnd M (fst (a_tig M t)) = (fst (a_tig M t), (v, v))).
  Proof.
    intros t H. destruct (Hinv t H) as (_ & _ & T & _). cbv zeta in T. destruct T as (T1 & T2 & T3).
    split; [exact T1|]. split; [exact T2|]. intros E. split; apply (T3 E).
  Qed.

  Lemma inv_tig_strict : forall t, Inv t -> snd (a_tig M t) = false -> snd (a_bnd M t) = (v, v).
  Proof. intros t H E. destruct (Hinv t H) as (_ & _ & T & _). cbv zeta in T. apply T. exact E. Qed.

  Lemma inv_tig_mu : forall t, Inv t -> (a_mu M (fst (a_tig M t)) <= a_mu M t)%nat.
  Proof.
    intros t H. destruct (inv_tig t H) as (_ & T1 & T2). destruct (snd (a_tig M t)).
    - specialize (T1 eq_refl). lia.
    - apply T2. reflexivity.
  Qed.

  Lemma inv_cmp : forall t, Inv t -> Inv (fst (a_cmp M t)) /\ (a_mu M (fst (a_cmp M t)) <= a_mu M t)%nat.
  Proof. intros t H. destruct (Hinv t H) as (_ & _ & _ & Cm & _). cbv zeta in Cm. exact Cm. Qed.

  Lemma inv_eds : forall t, Inv t -> Inv (a_eds M t) /\ (a_mu M (a_eds M t) <= a_mu M t)%nat.
  Proof. intros t H. destruct (Hinv t H) as (_ & _ & _ & _ & E). cbv zeta in E. exact E. Qed.

  Lemma inv_err : forall t, Inv t -> a_err M t = false.
  Proof. intros t H. destruct (Hinv t H) as (E & _). exact E. Qed.

  Lemma g_hnz_inv : forall fuel s, Inv s ->
    Inv (fst (g_hnz M fuel s)) /\ (a_mu M (fst (g_hnz M fuel s)) <= a_mu M s)%nat.
  Proof.
    induction fuel as [|fuel IH]; intros s H.
    - cbn [g_hnz]. cbv zeta.
      destruct (inv_bnd s H) as (I1 & M1 & _). destruct (inv_bnd _ I1) as (I2 & M2 & _).
      destruct (inv_bnd _ I2) as (I3 & M3 & _).
      destruct (fst (snd (a_bnd M s)) =? snd (snd (a_bnd M s))); cbn [fst snd]; [split; [exact I2|lia]|].
      destruct (fst (snd (a_bnd M (fst (a_bnd M s)))) <=? 0); cbn [fst snd]; split; try assumption; lia.
    - cbn [g_hnz]. cbv zeta.
      destruct (inv_bnd s H) as (I1 & M1 & _). destruct (inv_bnd _ I1) as (I2 & M2 & _).
      destruct (inv_bnd _ I2) as (I3 & M3 & _).
      destruct (fst (snd (a_bnd M s)) =? snd (snd (a_bnd M s))); cbn [fst snd]; [split; [exact I2|lia]|].
      destruct (fst (snd (a_bnd M (fst (a_bnd M s)))) <=? 0); cbn [fst snd]; [|split; [exact I3|lia]].
      destruct (inv_tig _ I2) as (I4 & _). pose proof (inv_tig_mu _ I2) as M4.
      destruct (snd (a_tig M (fst (a_bnd M (fst (a_bnd M s)))))).
      + destruct (IH _ I4) as (I5 & M5). split; [exact I5|lia].
      + destruct (inv_bnd _ I4) as (I5 & M5 & _). cbn [fst snd]. split; [exact I5|lia].
  Qed.

  Lemma g_step_inv : forall s o, Inv s -> Inv (g_step M s o) /\ (a_mu M (g_step M s o) <= a_mu M s)%nat.
  Proof.
    intros s o H. destruct o; cbn [g_step].
    - destruct (inv_bnd s H) as (I & Mu & _). auto.
    - split; [apply (inv_tig s H)|apply (inv_tig_mu s H)].
    - apply (inv_cmp s H).
    - auto.
    - apply (inv_eds s H).
    - apply (g_hnz_inv _ s H).
  Qed.

  Lemma g_run_inv : forall h s, Inv s -> Inv (g_run M h s).
  Proof.
    induction h as [|o h IH]; intros s H; [exact H|]. cbn [g_run fold_left]. apply IH. apply (g_step_inv s o H).
  Qed.

  Lemma g_idiom_inv : forall fuel s, Inv s -> Inv (g_idiom M fuel s).
  Proof.
    induction fuel as [|fuel IH]; intros s H; cbn [g_idiom]; cbv zeta;
      destruct (inv_cmp s H) as (I1 & _); destruct (snd (a_cmp M s)); try exact I1.
    destruct (inv_tig _ I1) as (I2 & _). destruct (snd (a_tig M (fst (a_cmp M s)))); [apply IH; exact I2|exact I2].
  Qed.

  Lemma g_tighten_def_spec : forall fuel s, Inv s -> (a_mu M s < fuel)%nat ->
    Inv (g_tighten_def M fuel s) /\ a_bnd M (g_tighten_def M fuel s) = (g_tighten_def M fuel s, (v, v)).
  Proof.
    induction fuel as [|fuel IH]; intros s H Hf; [lia|]. cbn [g_tighten_def]. cbv zeta.
    destruct (inv_bnd s H) as (I1 & M1 & D1 & Id1).
    destruct (fst (snd (a_bnd M s)) =? snd (snd (a_bnd M s))) eqn:E.
    - apply Z.eqb_eq in E. split; [exact I1|]. rewrite Id1, (D1 E). reflexivity.
    - destruct (inv_tig _ I1) as (I2 & T1 & T2).
      destruct (snd (a_tig M (fst (a_bnd M s)))).
      + apply IH; [exact I2|]. specialize (T1 eq_refl). lia.
      + split; [exact I2|]. apply T2. reflexivity.
  Qed.

  Theorem g_final : forall s, Inv s -> g_final_cost M s = Some v.
  Proof.
    intros s H. unfold g_final_cost. cbv zeta.
    pose proof (g_idiom_inv (S (a_mu M s)) s H) as I0.
    destruct (g_tighten_def_spec (S (a_mu M (g_idiom M (S (a_mu M s)) s))) _ I0 ltac:(lia)) as (I1 & B1).
    rewrite B1. cbn [fst snd]. rewrite (inv_err _ I1). rewrite Z.eqb_refl. reflexivity.
  Qed.
End Gen.

(* every history: no call raises and the final cost is the contract's value *)
Theorem contract_history : forall M s v, AContract M s v ->
  forall h, a_err M (g_run M h s) = false /\ g_final_cost M (g_run M h s) = Some v.
Proof.
  intros M s v (Inv & H0 & Hinv) h.
  pose proof (g_run_inv M Inv v Hinv h s H0) as I.
  split; [apply (inv_err M Inv v Hinv _ I)|apply (g_final M Inv v Hinv _ I)].
Qed.

(* the contract is kept by every history *)
Theorem contract_kept : forall M s v, AContract M s v -> forall h, AContract M (g_run M h s) v.
Proof.
  intros M s v (Inv & H0 & Hinv) h. exists Inv. split; [apply (g_run_inv M Inv v Hinv h s H0)|exact Hinv].
Qed.

(* ================================================================ Part 2: the universal machine of ApiModel.v *)
Lemma hnz_generic : forall q d fuel s, hnz q d fuel s = g_hnz (AM q d) fuel s.
Proof.
  intros q d. induction fuel as [|fuel IH]; intros s; cbn [hnz g_hnz AM a_bnd a_tig]; cbv zeta; unfold zdefb.
  - reflexivity.
  - rewrite IH. reflexivity.
Qed.

Lemma idiom_generic : forall q d fuel s, idiom q d fuel s = g_idiom (AM q d) fuel s.
Proof.
  intros q d. induction fuel as [|fuel IH]; intros s; cbn [idiom g_idiom AM a_cmp a_tig]; cbv zeta.
  - reflexivity.
  - rewrite IH. reflexivity.
Qed.

Lemma tighten_def_generic : forall q d fuel s, tighten_def q d fuel s = g_tighten_def (AM q d) fuel s.
Proof.
  intros q d. induction fuel as [|fuel IH]; intros s; cbn [tighten_def g_tighten_def AM a_bnd a_tig]; cbv zeta; unfold zdefb.
  - reflexivity.
  - rewrite IH. reflexivity.
Qed.

Lemma finish_cost_generic : forall q d s, finish_cost q d s = g_final_cost (AM q d) s.
Proof.
  intros q d s. unfold finish_cost, final_cost_of, g_final_cost. cbv zeta.
  rewrite idiom_generic, tighten_def_generic. reflexivity.
Qed.

Lemma apply_op_fst : forall q d o s, fst (apply_op q d o s) = g_step (AM q d) s o.
Proof.
  intros q d o s. unfold apply_op. cbv zeta.
  match goal with |- fst (if errA (fst ?r) then _ else _) = _ => destruct (errA (fst r)); cbn [fst] end;
    destruct o; cbn [g_step AM a_bnd a_tig a_cmp a_eds a_mu fst]; try reflexivity; rewrite hnz_generic; reflexivity.
Qed.

Lemma apply_op_err : forall q d o s, is_err (snd (apply_op q d o s)) = errA (fst (apply_op q d o s)).
Proof.
  intros q d o s. unfold apply_op. cbv zeta.
  match goal with |- is_err (snd (if errA (fst ?r) then _ else _)) = _ => destruct (errA (fst r)) eqn:E end.
  - cbn [fst snd is_err]. symmetry. exact E.
  - rewrite E. destruct o; cbn [snd is_err]; try reflexivity.
    destruct (snd (listing q d s)); reflexivity.
Qed.

Definition root (o : bop) : call := ([], o).

(* Every history of calls on the root edit: the model's run is the generic run, no outcome is an error, every call is
   answered, and completion yields the contract's value. *)
Theorem model_root_history : forall q d s v, AContract (AM q d) s v -> forall h : list bop,
  fst (run_hist q d (map root h) s) = g_run (AM q d) h s /\
  existsb is_err (snd (run_hist q d (map root h) s)) = false /\
  length (snd (run_hist q d (map root h) s)) = length h /\
  finish_cost q d (fst (run_hist q d (map root h) s)) = Some v.
Proof.
  intros q d s v HC h. revert s HC. induction h as [|o h IH]; intros s HC.
  - cbn [map run_hist fst snd g_run fold_left existsb length]. repeat split.
    rewrite finish_cost_generic. apply (proj2 (contract_history _ _ _ HC [])).
  - cbn [map run_hist]. cbv zeta. unfold step, root. cbn [fst snd nav].
    pose proof (apply_op_fst q d o s) as Ef. pose proof (apply_op_err q d o s) as Ee.
    pose proof (contract_kept _ _ _ HC [o]) as HC1. cbn [g_run fold_left] in HC1.
    pose proof (proj1 (contract_history _ _ _ HC [o])) as Er. cbn [g_run fold_left AM a_err] in Er.
    rewrite Ef in Ee. rewrite Er in Ee. rewrite Ee. rewrite Ef.
    destruct (IH _ HC1) as (I1 & I2 & I3 & I4).
    cbn [fst snd g_run fold_left existsb length]. rewrite Ee. cbn [orb].
    repeat split; try assumption. f_equal. exact I3.
Qed.

(* ---------------------------------------------------------------- consequences of a contract, one operation at a time *)
Lemma ac_err : forall M x v, AContract M x v -> a_err M x = false.
Proof. intros M x v (Inv & H0 & Hinv). apply (inv_err M Inv v Hinv x H0). Qed.

Lemma ac_bnd : forall M x v, AContract M x v ->
  AContract M (fst (a_bnd M x)) v /\ (a_mu M (fst (a_bnd M x)) <= a_mu M x)%nat /\
  fst (snd (a_bnd M x)) <= v <= snd (snd (a_bnd M x)) /\
  a_bnd M (fst (a_bnd M x)) = (fst (a_bnd M x), snd (a_bnd M x)).
Proof.
  intros M x v (Inv & H0 & Hinv). destruct (inv_bnd M Inv v Hinv x H0) as (I & Mu & _ & Id).
  split; [exists Inv; split; assumption|]. split; [exact Mu|]. split; [apply (inv_sound M Inv v Hinv x H0)|exact Id].
Qed.

Lemma ac_tig : forall M x v, AContract M x v ->
  AContract M (fst (a_tig M x)) v /\ (snd (a_tig M x) = true -> (a_mu M (fst (a_tig M x)) < a_mu M x)%nat) /\
  (snd (a_tig M x) = false -> (a_mu M (fst (a_tig M x)) <= a_mu M x)%nat /\
                              a_bnd M (fst (a_tig M x)) = (fst (a_tig M x), (v, v)) /\ snd (a_bnd M x) = (v, v)).
Proof.
  intros M x v (Inv & H0 & Hinv). destruct (inv_tig M Inv v Hinv x H0) as (I & T1 & T2).
  split; [exists Inv; split; assumption|]. split; [exact T1|]. intros E. destruct (T2 E) as [A B].
  split; [exact A|]. split; [exact B|]. apply (inv_tig_strict M Inv v Hinv x H0 E).
Qed.

Lemma ac_cmp : forall M x v, AContract M x v ->
  AContract M (fst (a_cmp M x)) v /\ (a_mu M (fst (a_cmp M x)) <= a_mu M x)%nat.
Proof.
  intros M x v (Inv & H0 & Hinv). destruct (inv_cmp M Inv v Hinv x H0) as (I & Mu).
  split; [exists Inv; split; assumption|exact Mu].
Qed.

(* ---------------------------------------------------------------- unfolding the universal machine *)
Lemma bnd_const : forall q d c t, k_bnd (opsA q (S d)) (AConst c t) = (AConst c t, (c, c)).
Proof. reflexivity. Qed.
Lemma tig_const : forall q d c t, k_tig (opsA q (S d)) (AConst c t) = (AConst c t, false).
Proof. reflexivity. Qed.
Lemma cmp_const : forall q d c t, k_cmp (opsA q (S d)) (AConst c t) = (AConst c t, true).
Proof. reflexivity. Qed.
Lemma bnd_sum : forall q d l, k_bnd (opsA q (S d)) (ASum l) = (ASum (fst (sum_bnd (opsA q d) l)), snd (sum_bnd (opsA q d) l)).
Proof. reflexivity. Qed.
Lemma tig_sum : forall q d l,
  k_tig (opsA q (S d)) (ASum l) = (ASum (fst (first_true (k_tig (opsA q d)) l)), snd (first_true (k_tig (opsA q d)) l)).
Proof. reflexivity. Qed.
Lemma cmp_sum : forall q d l,
  k_cmp (opsA q (S d)) (ASum l) = (fst (k_bnd (opsA q (S d)) (ASum l)), zdefb (snd (k_bnd (opsA q (S d)) (ASum l)))).
Proof. reflexivity. Qed.

Definition Good (q : bool) (s : ast) (v : Z) : Prop := forall d, (aheight s <= d)%nat -> AContract (AM q d) s v.

(* ---------------------------------------------------------------- ConstantCostEdit *)
Theorem good_const : forall q c t, Good q (AConst c t) c.
Proof.
  intros q c t d Hd. cbn [aheight] in Hd. destruct d as [|d]; [lia|].
  exists (fun s => s = AConst c t). split; [reflexivity|]. intros s ->.
  unfold astep_ok. cbn [AM a_bnd a_tig a_cmp a_eds a_err a_mu]. rewrite bnd_const, tig_const, cmp_const.
  cbn [fst snd errA muA listing]. repeat split; intros; try reflexivity; try lia; try discriminate.
Qed.

(* ---------------------------------------------------------------- lists of sub-edits under a contract *)
Section Lists.
  Variable q : bool.
  Variable d : nat.
  Notation CM := (AM q d).
  Notation C := (opsA q d).

  Definition pts (vs : list Z) : list zr := map (fun v => (v, v)) vs.
  Lemma zr_sum_pts : forall vs, zr_sum (pts vs) = (zsum vs, zsum vs).
  Proof.
    unfold pts, zr_sum. induction vs as [|v vs IH]; [reflexivity|]. cbn [map fold_right zsum]. rewrite IH. reflexivity.
  Qed.

  Lemma f2_err : forall l vs, Forall2 (AContract CM) l vs -> existsb errA l = false.
  Proof.
    induction 1 as [|x v l vs Hx _ IH]; [reflexivity|]. cbn [existsb]. rewrite IH.
    pose proof (ac_err _ _ _ Hx) as E. cbn [AM a_err] in E. rewrite E. reflexivity.
  Qed.

  Lemma thread_bnd_spec : forall l vs, Forall2 (AContract CM) l vs ->
    Forall2 (AContract CM) (fst (thread (k_bnd C) l)) vs /\
    (nat_sum (map muA (fst (thread (k_bnd C) l))) <= nat_sum (map muA l))%nat /\
    fst (zr_sum (snd (thread (k_bnd C) l))) <= zsum vs <= snd (zr_sum (snd (thread (k_bnd C) l))) /\
    thread (k_bnd C) (fst (thread (k_bnd C) l)) = thread (k_bnd C) l.
  Proof.
    induction 1 as [|x v l vs Hx _ IH].
    - cbn. repeat split; try constructor; lia.
    - destruct IH as (I1 & I2 & I3 & I4). destruct (ac_bnd _ _ _ Hx) as (B1 & B2 & B3 & B4).
      cbn [AM a_bnd a_mu] in B2, B3, B4. cbn [thread]. cbv zeta. cbn [fst snd map nat_sum fold_right zr_sum zsum].
      split; [constructor; assumption|]. split; [lia|]. split.
      + unfold zr_add. cbn [fst snd]. fold (zr_sum (snd (thread (k_bnd C) l))). fold (zsum vs). lia.
      + rewrite B4. cbn [fst snd]. rewrite I4. destruct (thread (k_bnd C) l). reflexivity.
  Qed.

  Lemma thread_fixed : forall l rs, Forall2 (fun x r => k_bnd C x = (x, r)) l rs -> thread (k_bnd C) l = (l, rs).
  Proof.
    induction 1 as [|x r l rs Hx _ IH]; [reflexivity|]. cbn [thread]. cbv zeta. rewrite Hx, IH. reflexivity.
  Qed.

  Lemma first_true_spec : forall l vs, Forall2 (AContract CM) l vs ->
    Forall2 (AContract CM) (fst (first_true (k_tig C) l)) vs /\
    (snd (first_true (k_tig C) l) = true ->
     (nat_sum (map muA (fst (first_true (k_tig C) l))) < nat_sum (map muA l))%nat) /\
    (snd (first_true (k_tig C) l) = false ->
     (nat_sum (map muA (fst (first_true (k_tig C) l))) <= nat_sum (map muA l))%nat /\
     thread (k_bnd C) (fst (first_true (k_tig C) l)) = (fst (first_true (k_tig C) l), pts vs) /\
     snd (thread (k_bnd C) l) = pts vs).
  Proof.
    induction 1 as [|x v l vs Hx Hl IH].
    - cbn. repeat split; try constructor; intros; try discriminate; lia.
    - destruct IH as (I1 & I2 & I3). destruct (ac_tig _ _ _ Hx) as (T1 & T2 & T3).
      cbn [AM a_tig a_bnd a_mu] in T2, T3. cbn [first_true]. cbv zeta.
      destruct (snd (k_tig C x)) eqn:E; cbn [fst snd map nat_sum fold_right].
      + split; [constructor; assumption|]. split; [intros _; specialize (T2 eq_refl); lia|discriminate].
      + destruct (T3 eq_refl) as (M1 & B1 & B0).
        split; [constructor; assumption|]. split.
        * intros E2. specialize (I2 E2). lia.
        * intros E2. destruct (I3 E2) as (J1 & J2 & J3). split; [lia|]. split.
          -- cbn [thread]. cbv zeta. rewrite B1, J2. reflexivity.
          -- cbn [thread]. cbv zeta. cbn [snd]. rewrite B0, J3. reflexivity.
  Qed.

  Lemma thread_all_spec : forall l vs, Forall2 (AContract CM) l vs ->
    Forall2 (AContract CM) (fst (thread_all (k_cmp C) l)) vs /\
    (nat_sum (map muA (fst (thread_all (k_cmp C) l))) <= nat_sum (map muA l))%nat.
  Proof.
    induction 1 as [|x v l vs Hx Hl IH].
    - cbn. split; [constructor|lia].
    - destruct IH as (I1 & I2). destruct (ac_cmp _ _ _ Hx) as (C1 & C2). cbn [AM a_cmp a_mu] in C2.
      cbn [thread_all]. cbv zeta. destruct (snd (k_cmp C x)); cbn [fst snd map nat_sum fold_right].
      + split; [constructor; assumption|lia].
      + split; [constructor; assumption|lia].
  Qed.
End Lists.

(* ---------------------------------------------------------------- KeyValuePairEdit (component-wise sum) *)
Lemma sum_step : forall q d vs l, Forall2 (AContract (AM q d)) l vs ->
  astep_ok (AM q (S d)) (fun t => exists l', t = ASum l' /\ Forall2 (AContract (AM q d)) l' vs) (zsum vs) (ASum l).
Proof.
  intros q d vs l H. unfold astep_ok. cbn [AM a_bnd a_tig a_cmp a_eds a_err a_mu].
  destruct (thread_bnd_spec q d l vs H) as (B1 & B2 & B3 & B4).
  assert (Hb : let t' := fst (k_bnd (opsA q (S d)) (ASum l)) in let r := snd (k_bnd (opsA q (S d)) (ASum l)) in
               (exists l', t' = ASum l' /\ Forall2 (AContract (AM q d)) l' vs) /\ (muA t' <= muA (ASum l))%nat /\
               fst r <= zsum vs <= snd r /\ k_bnd (opsA q (S d)) t' = (t', r)).
  { rewrite bnd_sum. unfold sum_bnd. cbv zeta. cbn [fst snd muA].
    split; [eexists; split; [reflexivity|exact B1]|]. split; [exact B2|]. split; [exact B3|].
    rewrite bnd_sum. unfold sum_bnd. cbv zeta. rewrite B4. reflexivity. }
  split; [cbn [errA]; apply (f2_err q d l vs H)|]. split; [exact Hb|]. split; [|split].
  - rewrite tig_sum. cbn [fst snd muA]. destruct (first_true_spec q d l vs H) as (T1 & T2 & T3).
    split; [eexists; split; [reflexivity|exact T1]|]. split; [exact T2|].
    intros E. destruct (T3 E) as (J1 & J2 & J3). split; [exact J1|]. split.
    + rewrite bnd_sum. unfold sum_bnd. cbv zeta. rewrite J2. cbn [fst snd]. rewrite zr_sum_pts. reflexivity.
    + rewrite bnd_sum. unfold sum_bnd. cbv zeta. cbn [snd]. rewrite J3, zr_sum_pts. reflexivity.
  - rewrite cmp_sum. cbn [fst]. cbv zeta in Hb. destruct Hb as (H1 & H2 & _). split; assumption.
  - cbn [listing fst]. split; [eexists; split; [reflexivity|exact H]|lia].
Qed.

Theorem good_sum : forall q l vs, Forall2 (Good q) l vs -> Good q (ASum l) (zsum vs).
Proof.
  intros q l vs H d Hd. cbn [aheight] in Hd. destruct d as [|d]; [lia|].
  assert (Hk : Forall2 (AContract (AM q d)) l vs).
  { assert (Hh : forall x, In x l -> (aheight x <= d)%nat).
    { intros x Hx. pose proof (nat_max_list_ge (map aheight l) (aheight x) (in_map aheight l x Hx)). lia. }
    clear Hd. induction H as [|x v l vs Hx _ IH]; constructor.
    - apply Hx. apply Hh. left. reflexivity.
    - apply IH. intros y Hy. apply Hh. right. exact Hy. }
  exists (fun t => exists l', t = ASum l' /\ Forall2 (AContract (AM q d)) l' vs).
  split; [eexists; split; [reflexivity|exact Hk]|]. intros t (l' & -> & Hl'). apply sum_step. exact Hl'.
Qed.
