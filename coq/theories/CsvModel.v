(* C12: executable model of graphtage's CSV printing (CSVFormatter / CSVRows / CSVRowFormatter: every cell is
   written by csv.writer as a one-field row, QUOTE_MINIMAL, excel dialect) and of the loader
   (open(path) in text mode = universal newlines, then csv.reader's state machine).  Definitions only. *)
From Coq Require Import List Bool ZArith Lia.
Require Import GT.PyBase GT.JsonSpec GT.JsonModel.
Import ListNotations.
Open Scope Z_scope.

(* ================================================================== printer *)

(* csv.writer, QUOTE_MINIMAL: a field is quoted iff it contains the delimiter, the quote character or a
   character of the line terminator CR LF; quotes are doubled; a row whose only field is empty is written
   as two quotes.  CSVFormatter.print_LeafNode writes every cell as such a one-field row (line end stripped). *)
Definition csv_special (c : Z) : bool := (c =? 44) || (c =? 34) || (c =? 13) || (c =? 10).
Definition csv_quote_body (s : list Z) : list Z := flat_map (fun c => if c =? 34 then [34; 34] else [c]) s.
Definition csv_needs_quote (s : list Z) : bool :=
  match s with [] => true | _ => existsb csv_special s end.
Definition csv_cell (s : list Z) : list Z :=
  if csv_needs_quote s then 34 :: csv_quote_body s ++ [34] else s.

(* CSVRowFormatter: cells separated by ',', no newlines *)
Fixpoint csv_row (cells : list (list Z)) : list Z :=
  match cells with
  | [] => []
  | c :: r => csv_cell c ++ match r with [] => [] | _ => 44 :: csv_row r end
  end.
(* CSVRows: a newline before every row but the first and one after the last row, no indentation *)
Definition csv_print (t : table) : list Z := flat_map (fun r => csv_row r ++ [10]) t.

(* ================================================================== loader *)

(* text-mode open(): CR LF and lone CR are read as LF *)
Fixpoint univ_nl (s : list Z) : list Z :=
  match s with
  | [] => []
  | c :: t =>
      if c =? 13 then 10 :: match t with
                            | d :: t' => if d =? 10 then univ_nl t' else univ_nl t
                            | [] => []
                            end
      else c :: univ_nl t
  end.

(* Modules/_csv.c, excel dialect (delimiter ',', quotechar, doublequote, no escapechar, not strict) *)
Inductive cmode := StartRecord | StartField | InField | InQuoted | QuoteInQuoted | EatCRNL.
Record cstate := {
  c_mode : cmode;
  c_field : list Z;               (* current field, reversed *)
  c_fields : list (list Z);       (* fields of the current record, reversed *)
  c_recs : table;                 (* finished records, reversed *)
  c_partial : bool }.             (* the current line has characters and no line end yet *)

Definition cinit : cstate := {| c_mode := StartRecord; c_field := []; c_fields := []; c_recs := []; c_partial := false |}.

Definition set_mode (st : cstate) (m : cmode) : cstate :=
  {| c_mode := m; c_field := c_field st; c_fields := c_fields st; c_recs := c_recs st; c_partial := c_partial st |}.
Definition add_char (st : cstate) (c : Z) (m : cmode) : cstate :=
  {| c_mode := m; c_field := c :: c_field st; c_fields := c_fields st; c_recs := c_recs st; c_partial := c_partial st |}.
Definition save_field (st : cstate) (m : cmode) : cstate :=
  {| c_mode := m; c_field := []; c_fields := rev (c_field st) :: c_fields st; c_recs := c_recs st;
     c_partial := c_partial st |}.

(* parse_process_char on a character of the line *)
Definition cstep_field (st : cstate) (c : Z) : option cstate :=
  let nlc := (c =? 10) || (c =? 13) in
  if nlc then Some (save_field st EatCRNL)
  else if c =? 34 then Some (set_mode st InQuoted)
  else if c =? 44 then Some (save_field st StartField)
  else Some (add_char st c InField).
Definition cstep (st : cstate) (c : Z) : option cstate :=
  let nlc := (c =? 10) || (c =? 13) in
  match c_mode st with
  | StartRecord => if nlc then Some (set_mode st EatCRNL) else cstep_field st c
  | StartField => cstep_field st c
  | InField =>
      if nlc then Some (save_field st EatCRNL)
      else if c =? 44 then Some (save_field st StartField)
      else Some (add_char st c InField)
  | InQuoted => if c =? 34 then Some (set_mode st QuoteInQuoted) else Some (add_char st c InQuoted)
  | QuoteInQuoted =>
      if c =? 34 then Some (add_char st c InQuoted)
      else if c =? 44 then Some (save_field st StartField)
      else if nlc then Some (save_field st EatCRNL)
      else Some (add_char st c InField)
  | EatCRNL => if nlc then Some st else None      (* "new-line character seen in unquoted field" *)
  end.
(* parse_process_char on the end-of-line marker *)
Definition cstep_eol (st : cstate) : cstate :=
  match c_mode st with
  | StartRecord => st
  | StartField | InField | QuoteInQuoted => save_field st StartRecord
  | InQuoted => st
  | EatCRNL => set_mode st StartRecord
  end.
(* Reader_iternext returns the record when a line ends in START_RECORD *)
Definition cend_line (st : cstate) : cstate :=
  match c_mode st with
  | StartRecord => {| c_mode := StartRecord; c_field := []; c_fields := [];
                      c_recs := rev (c_fields st) :: c_recs st; c_partial := false |}
  | m => {| c_mode := m; c_field := c_field st; c_fields := c_fields st; c_recs := c_recs st; c_partial := false |}
  end.
Definition cchar (st : cstate) (c : Z) : option cstate :=
  match cstep st c with
  | None => None
  | Some st' =>
      if c =? 10 then Some (cend_line (cstep_eol st'))
      else Some {| c_mode := c_mode st'; c_field := c_field st'; c_fields := c_fields st'; c_recs := c_recs st';
                   c_partial := true |}
  end.
Fixpoint crun (st : cstate) (s : list Z) : option cstate :=
  match s with [] => Some st | c :: r => match cchar st c with Some st' => crun st' r | None => None end end.
(* end of input: a last line without line end is still a line; an unterminated quoted field is kept *)
Definition cfinish (st : cstate) : table :=
  let st1 := if c_partial st then cend_line (cstep_eol st) else st in
  match c_mode st1 with
  | InQuoted => rev (rev (rev (c_field st1) :: c_fields st1) :: c_recs st1)
  | _ => rev (c_recs st1)
  end.
Definition csv_read (src : list Z) : option table :=
  match crun cinit (univ_nl src) with Some st => Some (cfinish st) | None => None end.

(* ================================================================== correspondence *)

Definition otable_eqb (a b : option table) : bool :=
  match a, b with Some x, Some y => table_eqb x y | None, None => true | _, _ => false end.

(* the implementation's text is the model's; the model loader agrees with csv.reader (as csv.build_tree calls
   it) on the printed text; every cell is quoted as csv.writer quotes it *)
Definition corr_csv (t : csv_case) : bool :=
  zlist_eqb (csv_print (cc_rows t)) (cc_text t) &&
  otable_eqb (csv_read (cc_text t)) (cc_reader t) &&
  otable_eqb (csv_read (cc_src t)) (Some (cc_rows t)) &&
  forallb (fun p => zlist_eqb (csv_cell (fst p)) (snd p)) (cc_cells t).

Definition corr_C12 (c : case) : bool :=
  match c with
  | CJson j => corr_json j
  | CCsv t => corr_csv t
  | COther _ => true          (* YAML / plist / XML: no model; decided by reload equality *)
  end.
