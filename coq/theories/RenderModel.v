(* C06: executable model of the annotated diff JSONFormatter writes (graphtage/json.py:79-233,
   sequences.py:312-361 print_SequenceNode, edits.py:284-394 Match/Replace/Remove/Insert.print,
   graphtage.py:798-863 print_StringEdit, tree.py:28-76 GraphtageFormatter.print, printer.py) for the tree pair
   (a, b) and the final edit script e, as a stream of characters each with the mark the output gives it.
   Definitions only. *)
From Coq Require Import List Bool ZArith Lia.
Require Import GT.PyBase GT.Data GT.ScriptSpec GT.JsonSpec GT.JsonModel GT.EqualSpec GT.RenderSpec.
Import ListNotations.
Open Scope Z_scope.

Definition mk (m : mark) (s : list Z) : stream := map (fun c => (c, m)) s.

(* ------------------------------------------------------------------ plain printing of a tree *)

(* JSONFormatter.print_LeafNode: json.dumps(node.object); strings through JSONStringFormatter *)
Definition leaf_text (l : leaf) : list Z :=
  match lk l with
  | KStr => jstring (ltext l)
  | KNull => lit_null
  | KBool => if str_eqb (ltext l) s_True then lit_true else lit_false
  | KInt | KFloat => ltext l
  end.

(* the text printed for an unedited tree at indentation depth n (printer.indents = n when it is reached) *)
Fixpoint tprint (lay : layout) (n : nat) (t : tree) : list Z :=
  match t with
  | Leaf l => leaf_text l
  | Lst _ _ cs => seq_text 91 93 (sep (fst lay) (S n)) (sep (fst lay) n) (map (tprint lay (S n)) cs)
  | Kvp _ k v => tprint lay n k ++ [58; 32] ++ tprint lay n v          (* print_KeyValuePairNode *)
  | MSet _ cs | FDict cs => seq_text 123 125 (sep (snd lay) (S n)) (sep (snd lay) n) (map (tprint lay (S n)) cs)
  end.

(* ------------------------------------------------------------------ sequences *)

Inductive ikind := IKeep | IRem | IIns.

(* Printer.newline writes the line feed at once; the indentation is written by the next write(), hence inside
   whatever colour context that write happens in: it carries the (background) mark of the item's first
   character.  item_newline prints nothing when the join option of the container is set. *)
Definition first_mark (s : stream) : mark := match s with (_, m) :: _ => m | [] => Plain end.
Definition item_lead (join : bool) (n : nat) (body : stream) : stream :=
  if join then [] else (10, Plain) :: mk (first_mark body) (indent n).

(* the loop of print_SequenceNode with its two counters: the delimiter before item i > 0 is struck if a
   removal is pending, under-plussed if an insertion is pending, plain otherwise; pending removals and
   insertions cancel pairwise first *)
Fixpoint ritems (join : bool) (n : nat) (first : bool) (tr ti : nat) (items : list (ikind * stream)) : stream :=
  match items with
  | [] => []
  | (k, body) :: r =>
      let tr1 := match k with IRem => S tr | _ => tr end in
      let ti1 := match k with IIns => S ti | _ => ti end in
      let c := Nat.min tr1 ti1 in
      let tr2 := (tr1 - c)%nat in
      let ti2 := (ti1 - c)%nat in
      if first then item_lead join n body ++ body ++ ritems join n false tr2 ti2 r
      else match tr2, ti2 with
           | S tr3, _ => (44, Removed) :: item_lead join n body ++ body ++ ritems join n false tr3 ti2 r
           | O, S ti3 => (44, Inserted) :: item_lead join n body ++ body ++ ritems join n false O ti3 r
           | O, O => (44, Plain) :: item_lead join n body ++ body ++ ritems join n false O O r
           end
  end.

(* start symbol, the items one indentation step in, a last item_newline iff the FROM node has children
   (len(node) > 0), end symbol *)
Definition rseq (open close : Z) (join : bool) (n : nat) (from_nonempty : bool) (items : list (ikind * stream)) : stream :=
  (open, Plain) :: ritems join (S n) true 0 0 items ++
  (if from_nonempty then mk Plain (sep join n) else []) ++ [(close, Plain)].

(* ------------------------------------------------------------------ strings: print_StringEdit
   substitutions are collected; every other operation first writes the collected removed run (struck, red),
   then the collected added run (under-plus, green) *)
Fixpoint rstr (rs ad : list Z) (ops : list sop) : stream :=
  match ops with
  | [] => mk Removed (escape_string rs) ++ mk Inserted (escape_string ad)
  | SSub c d :: r => rstr (rs ++ [c]) (ad ++ [d]) r
  | SKeep c :: r => mk Removed (escape_string rs) ++ mk Inserted (escape_string ad) ++ mk Plain (escape_cp c) ++ rstr [] [] r
  | SDel c :: r => mk Removed (escape_string rs) ++ mk Inserted (escape_string ad) ++ rstr [c] [] r
  | SAdd d :: r => mk Removed (escape_string rs) ++ mk Inserted (escape_string ad) ++ rstr [] [d] r
  end.
Definition rstredit (ops : list sop) : stream := (34, Plain) :: rstr [] [] ops ++ [(34, Plain)].

Definition arrow : stream := mk Arrow [32; 45; 62; 32].          (* cyan " -> " *)

Definition dummy : tree := Leaf {| lk := KNull; ltext := []; lnum := 0; lexp := 0 |}.
Definition child (t : tree) (i : nat) : tree := nth i (children t) dummy.

Definition is_seq_kind (k : kind) : bool := match k with KKvp => false | _ => true end.
Definition brackets (lay : layout) (a : tree) : option (Z * Z * bool) :=
  match a with
  | Lst _ _ _ => Some (91, 93, fst lay)
  | MSet _ _ | FDict _ => Some (123, 125, snd lay)
  | _ => None
  end.
Definition nonempty {A} (l : list A) : bool := match l with [] => false | _ => true end.

(* Match.print / Replace.print with a non-zero cost: from-node red (Match: and struck), the arrow, to-node green *)
Definition from_to (lay : layout) (n : nat) (a b : tree) : stream :=
  mk Removed (tprint lay n a) ++ arrow ++ mk Inserted (tprint lay n b).

(* The same edit when it is an ITEM OF A LIST and its from-node is a MAPPING.  The edit is then printed by
   JSONListFormatter, whose lookup for a DictNode / FixedKeyDictNode finds its own print_SequenceNode, which
   "delegates to the parent formatter" by  self.parent.print(printer, node)  - with_edits is back to its default
   True and the from-node still carries this very edit, so Replace.print runs a second time INSIDE the red
   context of the first: from-node, " -> " (cyan on red: reads as removed) and the to-node (green) are written
   there, then the outer call writes its own arrow and the to-node again:   from -> to -> to. *)
Definition from_to_twice (lay : layout) (n : nat) (a b : tree) : stream :=
  mk Removed (tprint lay n a) ++ mk Removed [32; 45; 62; 32] ++ mk Inserted (tprint lay n b) ++
  arrow ++ mk Inserted (tprint lay n b).

Definition is_mapping (t : tree) : bool := match t with MSet _ _ | FDict _ => true | _ => false end.
Definition is_lst (t : tree) : bool := match t with Lst _ _ _ => true | _ => false end.
Definition from_to_in (inl : bool) (lay : layout) (n : nat) (a b : tree) : stream :=
  if inl && is_mapping a then from_to_twice lay n a b else from_to lay n a b.

(* formatter.print(printer, EDIT): the edit is used whatever its cost.
     Match / Replace  -> their print methods; at cost 0 the TO node, plainly;
     StringEdit       -> print_StringEdit;
     KeyValuePairEdit -> print raises NotImplementedError: print_KeyValuePairNode(from node), whose key and
                         value are printed as NODES (rnode below);
     sequence edits   -> SequenceEdit.print = print_SequenceNode(from node), which walks node.edit.edits().
   A zero-cost Match listed by a MultiSetEdit is Match(n, n, 0): it prints the FROM node. *)
Fixpoint redit (lay : layout) (n : nat) (inl : bool) (a b : tree) (e : edit) {struct e} : stream :=
  match e with
  | EMatch c => if 0 <? c then from_to_in inl lay n a b else mk Plain (tprint lay n b)
  | EReplace c => if 0 <? c then from_to_in inl lay n a b else mk Plain (tprint lay n b)
  | EStr _ ops => rstredit ops
  | EComp k _ subs =>
      if is_seq_kind k then
        match brackets lay a with
        | Some (open, close, join) =>
            rseq open close join n (nonempty (children a))
              ((fix items (ss : list sub) : list (ikind * stream) :=
                  match ss with
                  | [] => []
                  | SPair i j e' :: r =>
                      (IKeep,
                       match k, e' with
                       | KMultiSet, EMatch c => if 0 <? c then from_to lay (S n) (child a i) (child b j)
                                                else mk Plain (tprint lay (S n) (child a i))
                       | _, _ => redit lay (S n) (is_lst a) (child a i) (child b j) e'
                       end) :: items r
                  | SRem i _ :: r => (IRem, mk Removed (tprint lay (S n) (child a i))) :: items r
                  | SIns j _ :: r => (IIns, mk Inserted (tprint lay (S n) (child b j))) :: items r
                  end) subs)
        | None => mk Plain (tprint lay n a)
        end
      else
        match subs with
        | [SPair _ _ ke; SPair _ _ ve] =>
            (* formatter.print(printer, NODE): the node's edit is used only when has_non_zero_cost();
               a sequence node printed plainly still walks its own SequenceEdit *)
            (match ke with
             | EComp _ _ _ => redit lay n false (child a 0) (child b 0) ke
             | _ => if 0 <? cost ke then redit lay n false (child a 0) (child b 0) ke else mk Plain (tprint lay n (child a 0))
             end) ++ mk Plain [58; 32] ++
            (match ve with
             | EComp _ _ _ => redit lay n false (child a 1) (child b 1) ve
             | _ => if 0 <? cost ve then redit lay n false (child a 1) (child b 1) ve else mk Plain (tprint lay n (child a 1))
             end)
        | _ => mk Plain (tprint lay n a)
        end
  end.

Definition rnode (lay : layout) (n : nat) (a b : tree) (e : edit) : stream :=
  match e with
  | EComp _ _ _ => redit lay n false a b e
  | _ => if 0 <? cost e then redit lay n false a b e else mk Plain (tprint lay n a)
  end.

(* GraphtageFormatter.print(printer, a.diff(b)): the root formatter is JSONFormatter itself *)
Definition jrender (lay : layout) (a b : tree) (e : edit) : stream := rnode lay 0 a b e.

(* ------------------------------------------------------------------ the documents the two projections spell
   (what is left of the rendering of (a, b, e) after deleting the inserted resp. removed characters is,
   token for token, the plain print of these trees: RenderProofs.v) *)
Definition str_leaf (s : list Z) : tree := Leaf {| lk := KStr; ltext := s; lnum := 0; lexp := 0 |}.
Definition rebuild (a : tree) (cs : list tree) : tree :=
  match a with
  | Lst x y _ => Lst x y cs
  | MSet x _ => MSet x cs
  | FDict _ => FDict cs
  | _ => a
  end.

(* side = false: the first document (inserted text deleted); side = true: the second *)
Fixpoint proj (side : bool) (a b : tree) (e : edit) {struct e} : tree :=
  match e with
  | EMatch c | EReplace c => if 0 <? c then (if side then b else a) else b
  | EStr _ ops => str_leaf (flat_map (if side then sop_to else sop_from) ops)
  | EComp k _ subs =>
      if is_seq_kind k then
        match brackets (false, false) a with
        | Some _ =>
            rebuild a
              ((fix items (ss : list sub) : list tree :=
                  match ss with
                  | [] => []
                  | SPair i j e' :: r =>
                      match k, e' with
                      | KMultiSet, EMatch c => if 0 <? c then (if side then child b j else child a i) else child a i
                      | _, _ => proj side (child a i) (child b j) e'
                      end :: items r
                  | SRem i _ :: r => if side then items r else child a i :: items r
                  | SIns j _ :: r => if side then child b j :: items r else items r
                  end) subs)
        | None => a
        end
      else
        match subs with
        | [SPair _ _ ke; SPair _ _ ve] =>
            Kvp true
              (match ke with
               | EComp _ _ _ => proj side (child a 0) (child b 0) ke
               | _ => if 0 <? cost ke then proj side (child a 0) (child b 0) ke else child a 0
               end)
              (match ve with
               | EComp _ _ _ => proj side (child a 1) (child b 1) ve
               | _ => if 0 <? cost ve then proj side (child a 1) (child b 1) ve else child a 1
               end)
        | _ => a
        end
  end.
Definition nproj (side : bool) (a b : tree) (e : edit) : tree :=
  match e with
  | EComp _ _ _ => proj side a b e
  | _ => if 0 <? cost e then proj side a b e else a
  end.

(* ------------------------------------------------------------------ the hypotheses of the theorems, as booleans
   (definitions only; the theorems about them are in RenderProofs.v / RenderScriptProofs.v) *)

(* no list element that is a mapping is replaced (Match / Replace at a cost): the shape of finding D33, where
   the edit is printed twice (RenderModel.from_to_twice) *)
Fixpoint clean (inl : bool) (a : tree) (e : edit) {struct e} : bool :=
  match e with
  | EMatch c | EReplace c => negb ((0 <? c) && (inl && is_mapping a))
  | EStr _ _ => true
  | EComp k _ subs =>
      if is_seq_kind k then
        (fix all (ss : list sub) : bool :=
           match ss with
           | [] => true
           | SPair i _ e' :: r => clean (is_lst a) (child a i) e' && all r
           | _ :: r => all r
           end) subs
      else
        match subs with
        | [SPair _ _ ke; SPair _ _ ve] => clean false (child a 0) ke && clean false (child a 1) ve
        | _ => true
        end
  end.

(* ------------------------------------------------------------------ the D33 carve-out on the document alone:
   no mapping is an element of a list of the first document (then no script can replace one there) *)
Fixpoint nomil (t : tree) : bool :=
  match t with
  | Leaf _ => true
  | Lst _ _ cs => forallb (fun c => negb (is_mapping c) && nomil c) cs
  | Kvp _ k v => nomil k && nomil v
  | MSet _ cs | FDict cs => forallb nomil cs
  end.

(* JSON-shaped trees: mapping members are key/value pairs with string keys; pairs occur nowhere else *)
Definition is_str_leaf (t : tree) : bool := match t with Leaf l => lkind_eqb (lk l) KStr | _ => false end.
Fixpoint jshape (t : tree) : bool :=
  match t with
  | Leaf _ => true
  | Lst _ _ cs => forallb (fun c => negb (is_kvp c) && jshape c) cs
  | Kvp _ k v => is_str_leaf k && negb (is_kvp v) && jshape v
  | MSet _ cs | FDict cs => forallb (fun c => is_kvp c && jshape c) cs
  end.

(* the shape of the script that `priced` does not record: string edits are between two strings, a
   KeyValuePairEdit lists exactly its key edit and its value edit *)
Fixpoint shaped (a b : tree) (e : edit) {struct e} : bool :=
  match e with
  | EMatch _ | EReplace _ => true
  | EStr _ _ => match a, b with
                | Leaf x, Leaf y => lkind_eqb (lk x) KStr && lkind_eqb (lk y) KStr
                | _, _ => false
                end
  | EComp k _ subs =>
      (if is_seq_kind k then true else match subs with [SPair _ _ _; SPair _ _ _] => true | _ => false end) &&
      (fix all (ss : list sub) : bool :=
         match ss with
         | [] => true
         | SPair i j e' :: r =>
             match nth_error (children a) i, nth_error (children b) j with
             | Some x, Some y => shaped x y e' && all r
             | _, _ => false
             end
         | _ :: r => all r
         end) subs
  end.

(* documents json.loads can produce: JSON-shaped, not a bare key/value pair, JSON-domain value (C12's domain) *)
Definition jdocb (t : tree) : bool := jshape t && negb (is_kvp t) && json_domainb (value_of t).

(* a case inside the hypotheses of RenderProofs.C06_priced_text_all / C06_priced_marks_all: the documents are JSON
   documents, the implementation's script is valid (C01), additive (C03), priced (C02) and shaped, and the case is
   outside the classes of the open findings D4 (typed), D16 (nozero) and D33 (clean) *)
Definition thm_C06 (c : render_case) : bool :=
  let a := sc_a (rc_script c) in
  let b := sc_b (rc_script c) in
  let e := sc_edit (rc_script c) in
  jdocb a && jdocb b && numtext_ok a && numtext_ok b && valid a b e && additive e && priced a b e && shaped a b e &&
  typed a b && nozero a && nozero b && clean false a e.

(* ------------------------------------------------------------------ correspondence *)
Fixpoint stream_eqb (x y : stream) : bool :=
  match x, y with
  | [], [] => true
  | (c, m) :: x', (d, m') :: y' => (c =? d) && mark_eqb m m' && stream_eqb x' y'
  | _, _ => false
  end.

(* the model's stream, computed from the implementation's own script, is the decoded output, character by
   character and mark by mark *)
Definition corr_C06 (c : render_case) : bool :=
  match classify (rc_obs c) with
  | Some st => stream_eqb (jrender (rc_lay c) (sc_a (rc_script c)) (sc_b (rc_script c)) (sc_edit (rc_script c))) st
  | None => false
  end.

(* first position where they differ, for the replay files *)
Fixpoint first_diff (x y : stream) (i : nat) : option nat :=
  match x, y with
  | [], [] => None
  | (c, m) :: x', (d, m') :: y' => if (c =? d) && mark_eqb m m' then first_diff x' y' (S i) else Some i
  | _, _ => Some i
  end.
