(* C12, structured formats (YAML, plist, XML): the documents the structure printers are modelled on, their domains,
   and the extended case type carrying the printed text.  Hand-written, independent of any translated code. *)
From Coq Require Import List Bool ZArith Lia.
Require Import GT.JsonSpec.
Import ListNotations.
Open Scope Z_scope.

(* ------------------------------------------------------------------ trees with opaque scalars *)

(* A YAML-like document: scalars of an arbitrary type A (for the cases: the token the third-party emitter wrote for
   the scalar), sequences, mappings with scalar keys (entries in the tree's order). *)
Inductive stree (A : Type) :=
| SLeaf (x : A)
| SList (l : list (stree A))
| SDict (kvs : list (A * stree A)).
Arguments SLeaf {A}. Arguments SList {A}. Arguments SDict {A}.

Section stree_induction.
  Variable A : Type.
  Variable P : stree A -> Prop.
  Hypothesis HLeaf : forall x, P (SLeaf x).
  Hypothesis HList : forall l, Forall P l -> P (SList l).
  Hypothesis HDict : forall kvs, Forall (fun kv => P (snd kv)) kvs -> P (SDict kvs).
  Fixpoint stree_ind2 (t : stree A) : P t :=
    match t with
    | SLeaf x => HLeaf x
    | SList l => HList l ((fix go (l : list (stree A)) : Forall P l :=
                             match l with [] => Forall_nil _ | x :: r => Forall_cons _ (stree_ind2 x) (go r) end) l)
    | SDict kvs => HDict kvs ((fix go (l : list (A * stree A)) : Forall (fun kv => P (snd kv)) l :=
                             match l with [] => Forall_nil _
                                     | kv :: r => Forall_cons kv (stree_ind2 (snd kv)) (go r) end) kvs)
    end.
End stree_induction.

Fixpoint stree_map {A B : Type} (f : A -> B) (t : stree A) : stree B :=
  match t with
  | SLeaf x => SLeaf (f x)
  | SList l => SList (map (stree_map f) l)
  | SDict kvs => SDict (map (fun kv => match kv with (k, v) => (f k, stree_map f v) end) kvs)
  end.

(* every scalar (keys included) satisfies p; no empty sequence or mapping *)
Fixpoint stree_all {A : Type} (p : A -> bool) (t : stree A) : bool :=
  match t with
  | SLeaf x => p x
  | SList l => forallb (stree_all p) l
  | SDict kvs => forallb (fun kv => match kv with (k, v) => p k && stree_all p v end) kvs
  end.
Fixpoint stree_nonempty {A : Type} (t : stree A) : bool :=
  match t with
  | SLeaf _ => true
  | SList l => negb (match l with [] => true | _ => false end) && forallb stree_nonempty l
  | SDict kvs => negb (match kvs with [] => true | _ => false end) &&
                 forallb (fun kv => match kv with (_, v) => stree_nonempty v end) kvs
  end.

Notation ytree := (stree (list Z)).

Fixpoint ytree_eqb (a b : ytree) {struct a} : bool :=
  match a, b with
  | SLeaf x, SLeaf y => zlist_eqb x y
  | SList l, SList m =>
      (fix go (l m : list ytree) : bool :=
         match l, m with
         | [], [] => true
         | x :: l', y :: m' => ytree_eqb x y && go l' m'
         | _, _ => false
         end) l m
  | SDict l, SDict m =>
      (fix go (l m : list (list Z * ytree)) : bool :=
         match l, m with
         | [], [] => true
         | (k, x) :: l', (k', y) :: m' => zlist_eqb k k' && ytree_eqb x y && go l' m'
         | _, _ => false
         end) l m
  | _, _ => false
  end.
Definition oytree_eqb (a b : option ytree) : bool :=
  match a, b with Some x, Some y => ytree_eqb x y | None, None => true | _, _ => false end.

(* ------------------------------------------------------------------ the YAML domain *)

(* a scalar token: non-empty, without line feed, space or colon - the three characters the block structure is made
   of.  Plain alphanumeric scalars (and what PyYAML writes for numbers, booleans, null and the quoted forms 'true',
   '12', ...) are of this kind. *)
Definition tokc (c : Z) : bool := negb ((c =? 10) || (c =? 32) || (c =? 58)).
Definition tok_ok (s : list Z) : bool := negb (match s with [] => true | _ => false end) && forallb tokc s.
Definition yaml_domainb (t : ytree) : bool := stree_all tok_ok t && stree_nonempty t.
Definition yaml_domain (t : ytree) : Prop := yaml_domainb t = true.

(* ------------------------------------------------------------------ plist documents *)

(* what plist.build_tree can load: strings, integers, reals (as the text graphtage's f-strings write for them),
   booleans, arrays, dictionaries with string keys (entries in the tree's order).  Dates and data are rejected by
   json.build_tree, so no loaded document contains them. *)
Inductive ptree :=
| PStr (s : list Z)
| PInt (tok : list Z)
| PReal (tok : list Z)
| PBool (b : bool)
| PArr (l : list ptree)
| PDict (kvs : list (list Z * ptree)).

Section ptree_induction.
  Variable P : ptree -> Prop.
  Hypothesis HStr : forall s, P (PStr s).
  Hypothesis HInt : forall s, P (PInt s).
  Hypothesis HReal : forall s, P (PReal s).
  Hypothesis HBool : forall b, P (PBool b).
  Hypothesis HArr : forall l, Forall P l -> P (PArr l).
  Hypothesis HDict : forall kvs, Forall (fun kv => P (snd kv)) kvs -> P (PDict kvs).
  Fixpoint ptree_ind2 (t : ptree) : P t :=
    match t with
    | PStr s => HStr s
    | PInt s => HInt s
    | PReal s => HReal s
    | PBool b => HBool b
    | PArr l => HArr l ((fix go (l : list ptree) : Forall P l :=
                           match l with [] => Forall_nil _ | x :: r => Forall_cons _ (ptree_ind2 x) (go r) end) l)
    | PDict kvs => HDict kvs ((fix go (l : list (list Z * ptree)) : Forall (fun kv => P (snd kv)) l :=
                           match l with [] => Forall_nil _
                                   | kv :: r => Forall_cons kv (ptree_ind2 (snd kv)) (go r) end) kvs)
    end.
End ptree_induction.

Fixpoint ptree_eqb (a b : ptree) {struct a} : bool :=
  match a, b with
  | PStr x, PStr y | PInt x, PInt y | PReal x, PReal y => zlist_eqb x y
  | PBool x, PBool y => Bool.eqb x y
  | PArr l, PArr m =>
      (fix go (l m : list ptree) : bool :=
         match l, m with
         | [], [] => true
         | x :: l', y :: m' => ptree_eqb x y && go l' m'
         | _, _ => false
         end) l m
  | PDict l, PDict m =>
      (fix go (l m : list (list Z * ptree)) : bool :=
         match l, m with
         | [], [] => true
         | (k, x) :: l', (k', y) :: m' => zlist_eqb k k' && ptree_eqb x y && go l' m'
         | _, _ => false
         end) l m
  | _, _ => false
  end.
Definition optree_eqb (a b : option ptree) : bool :=
  match a, b with Some x, Some y => ptree_eqb x y | None, None => true | _, _ => false end.

(* character data of the markup formats: no markup character (< > &), no white space (space, tab, LF, CR) -
   plain alphanumeric text is of this kind *)
Definition textc (c : Z) : bool :=
  negb ((c =? 60) || (c =? 62) || (c =? 38) || (c =? 32) || (c =? 10) || (c =? 9) || (c =? 13)).
Definition text_ok (s : list Z) : bool := forallb textc s.
Definition ntext_ok (s : list Z) : bool := negb (match s with [] => true | _ => false end) && forallb textc s.

(* the plist domain: strings and keys any markup-free text (empty allowed), number tokens non-empty, any nesting,
   empty arrays and dictionaries allowed *)
Fixpoint plist_domainb (t : ptree) : bool :=
  match t with
  | PStr s => text_ok s
  | PInt s | PReal s => ntext_ok s
  | PBool _ => true
  | PArr l => forallb plist_domainb l
  | PDict kvs => forallb (fun kv => match kv with (k, v) => text_ok k && plist_domainb v end) kvs
  end.
Definition plist_domain (t : ptree) : Prop := plist_domainb t = true.

(* ------------------------------------------------------------------ XML documents *)

(* an element as xml.build_tree loads it: tag, attributes (in the tree's order), text (None when absent or empty;
   the tail text after an element is dropped by the loader), child elements *)
Inductive xtree := XElem (tag : list Z) (attrs : list (list Z * list Z)) (text : option (list Z)) (kids : list xtree).

Section xtree_induction.
  Variable P : xtree -> Prop.
  Hypothesis HElem : forall tag attrs text kids, Forall P kids -> P (XElem tag attrs text kids).
  Fixpoint xtree_ind2 (t : xtree) : P t :=
    match t with
    | XElem tag attrs text kids =>
        HElem tag attrs text kids
          ((fix go (l : list xtree) : Forall P l :=
              match l with [] => Forall_nil _ | x :: r => Forall_cons _ (xtree_ind2 x) (go r) end) kids)
    end.
End xtree_induction.

Definition attrs_eqb (a b : list (list Z * list Z)) : bool :=
  (fix go (l m : list (list Z * list Z)) : bool :=
     match l, m with
     | [], [] => true
     | (k, x) :: l', (k', y) :: m' => zlist_eqb k k' && zlist_eqb x y && go l' m'
     | _, _ => false
     end) a b.
Fixpoint xtree_eqb (a b : xtree) {struct a} : bool :=
  match a, b with
  | XElem t1 a1 x1 k1, XElem t2 a2 x2 k2 =>
      zlist_eqb t1 t2 && attrs_eqb a1 a2 &&
      match x1, x2 with Some s, Some s' => zlist_eqb s s' | None, None => true | _, _ => false end &&
      (fix go (l m : list xtree) : bool :=
         match l, m with
         | [], [] => true
         | x :: l', y :: m' => xtree_eqb x y && go l' m'
         | _, _ => false
         end) k1 k2
  end.
Definition oxtree_eqb (a b : option xtree) : bool :=
  match a, b with Some x, Some y => xtree_eqb x y | None, None => true | _, _ => false end.

(* names (tags, attribute keys): non-empty, no markup, white space, '=', '"' or '/';  attribute values: no markup,
   white space or '"' (may be empty);  text: non-empty, no markup or white space *)
Definition namec (c : Z) : bool := textc c && negb ((c =? 61) || (c =? 34) || (c =? 47)).
Definition name_ok (s : list Z) : bool := negb (match s with [] => true | _ => false end) && forallb namec s.
Definition valc (c : Z) : bool := textc c && negb (c =? 34).
Definition val_ok (s : list Z) : bool := forallb valc s.
Fixpoint xml_domainb (t : xtree) : bool :=
  match t with
  | XElem tag attrs text kids =>
      name_ok tag && forallb (fun kv => match kv with (k, v) => name_ok k && val_ok v end) attrs &&
      match text with None => true | Some s => ntext_ok s end &&
      forallb xml_domainb kids
  end.
Definition xml_domain (t : xtree) : Prop := xml_domainb t = true.

(* ------------------------------------------------------------------ cases *)

(* what the harness knows about a structured document beyond `other_case`: the printed text, and the document and
   its reload as model trees (scalars as the tokens graphtage's own scalar writer produced for them) *)
Inductive smodel :=
| MNone
| MYaml (t : ytree)
| MPlist (t : ptree)
| MXml (t : xtree).

Record struct_case := {
  sc_base : other_case;              (* reload observations: decides holds_C12 *)
  sc_text : list Z;                  (* the implementation's printed text *)
  sc_doc : smodel;                   (* the loaded document *)
  sc_reload : smodel }.              (* the document the real loader made of the printed text *)

Inductive xcase := XBase (c : case) | XStruct (s : struct_case).
Definition base_case (x : xcase) : case := match x with XBase c => c | XStruct s => COther (sc_base s) end.

(* the property and the finding classes are those of JsonSpec, on the underlying case *)
Definition holds_C12x (x : xcase) : bool := holds_C12 (base_case x).

(* class of a proposed finding (outside the property's alphanumeric plist domain): a plist document with '<' or '&'
   in a string or key - PLISTFormatter.print_StringNode / print_KeyValuePairNode write the text unescaped, the
   printed file is not well-formed *)
Definition has_markup (s : list Z) : bool := existsb (fun c => (c =? 60) || (c =? 38)) s.
Fixpoint ptree_markup (t : ptree) : bool :=
  match t with
  | PStr s => has_markup s
  | PArr l => existsb ptree_markup l
  | PDict kvs => existsb (fun kv => match kv with (k, v) => has_markup k || ptree_markup v end) kvs
  | _ => false
  end.
Definition kf_plist_markup (x : xcase) : bool :=
  match x with
  | XStruct s => match sc_doc s with MPlist t => ptree_markup t | _ => false end
  | _ => false
  end.

(* is the document inside the domain the theorems quantify over?  (reported in the evidence) *)
Definition in_domain_C12x (x : xcase) : bool :=
  match x with
  | XBase (CCsv t) => csv_domainb (cc_rows t)
  | XBase c => in_domain_C12 c
  | XStruct s => match sc_doc s with MYaml t => yaml_domainb t | MPlist t => plist_domainb t | MXml t => xml_domainb t | MNone => false end
  end.
