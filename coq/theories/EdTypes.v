(* Result types of the functions translated from graphtage's edit engine (GTgen.EdGen). *)
From Coq Require Import ZArith.
Inductive eref := ECell | EIns | ERem.                  (* which edit _best_match returns *)
Inductive ldispatch := LMatch0 | LFixed | LEditDist (penalty : Z) | LReplace.   (* ListNode.edits *)
Definition range := (Z * Z)%type.                       (* (lower_bound, upper_bound), finite *)
(* Range.__lt__: upper bound first, then lower bound *)
Definition range_ltb (a b : range) : bool :=
  (Z.ltb (snd a) (snd b) || (Z.eqb (snd a) (snd b) && Z.ltb (fst a) (fst b)))%bool.
