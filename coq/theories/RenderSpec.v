(* C06 - both documents can be read back from the rendered diff.
   Data of a case (the two trees, the implementation's final script, the layout and the DECODED output of the
   real JSONFormatter: one observation per written character) and the executable statement of the property.
   Hand-written; independent of the model of the renderer (RenderModel.v) and of any translated code.
   The strict JSON reader  jparse  is the one of C12 (JsonModel.v, validated there against json.loads). *)
From Coq Require Import List Bool ZArith Lia.
Require Import GT.PyBase GT.Data GT.ScriptSpec GT.ScriptKnown GT.JsonSpec GT.JsonModel.
Import ListNotations.
Open Scope Z_scope.

(* ------------------------------------------------------------------ marked character streams *)

Inductive mark := Plain | Removed | Inserted | Arrow.
Definition mark_eqb (a b : mark) : bool :=
  match a, b with
  | Plain, Plain | Removed, Removed | Inserted, Inserted | Arrow, Arrow => true
  | _, _ => false
  end.

Definition stream := list (Z * mark).

(* delete the characters carrying mark m, and the arrows *)
Definition keeps (m : mark) (p : Z * mark) : bool := negb (mark_eqb (snd p) m) && negb (mark_eqb (snd p) Arrow).
Definition erase (m : mark) (s : stream) : list Z := map fst (filter (keeps m) s).

(* the change marks of a stream *)
Definition marks (s : stream) : stream := filter (fun p => negb (mark_eqb (snd p) Plain)) s.
Definition no_marks (s : stream) : bool := match marks s with [] => true | _ => false end.

(* What the decoder (harness/pC06.py, a pure SGR / combining-mark decoder) reports for a written character:
   bit 0 red background, bit 1 green background, bit 2 any other background, bit 3 followed by U+0336
   (strike), bit 4 followed by U+031F (under-plus), bit 5 cyan foreground.
   Removed = red background or strike; Inserted = green background or under-plus; Arrow = cyan foreground;
   contradictory observations are not a stream. *)
Definition classify_obs (o : Z) : option mark :=
  let red := Z.testbit o 0 || Z.testbit o 3 in
  let green := Z.testbit o 1 || Z.testbit o 4 in
  if Z.testbit o 2 then None
  else if red && green then None
  else if red then Some Removed
  else if green then Some Inserted
  else if Z.testbit o 5 then Some Arrow
  else Some Plain.

(* the harness ships runs of characters with the same observation *)
Fixpoint classify (runs : list (Z * list Z)) : option stream :=
  match runs with
  | [] => Some []
  | (o, cs) :: r =>
      match classify_obs o, classify r with
      | Some m, Some s => Some (map (fun c => (c, m)) cs ++ s)
      | _, _ => None
      end
  end.

(* ------------------------------------------------------------------ the lenient reader
   "separator placement aside": outside string literals, commas and layout whitespace only SEPARATE tokens;
   they are never part of one and their number and position are forgotten.  Nothing else is forgotten:
   string literals (verbatim, escapes included), atoms (numbers, true/false/null: maximal runs of other
   characters) and the structural characters [ ] { } : are kept, in order. *)

Inductive tok := TLB | TRB | TLC | TRC | TCol | TStr (body : list Z) | TAtom (s : list Z) | TBad.

Inductive lstate := LOut | LAt (acc : list Z) | LStr (acc : list Z) | LEsc (acc : list Z).

Definition is_sepch (c : Z) : bool := is_ws c || (c =? 44).
Definition punct (c : Z) : option tok :=
  if c =? 91 then Some TLB else if c =? 93 then Some TRB else if c =? 123 then Some TLC
  else if c =? 125 then Some TRC else if c =? 58 then Some TCol else None.

Definition flush (st : lstate) : list tok :=
  match st with LOut => [] | LAt acc => [TAtom acc] | LStr _ | LEsc _ => [TBad] end.

(* one character: the new state and the tokens completed by it *)
Definition lstep (st : lstate) (c : Z) : lstate * list tok :=
  match st with
  | LStr acc => if c =? 34 then (LOut, [TStr acc]) else if c =? 92 then (LEsc (acc ++ [c]), []) else (LStr (acc ++ [c]), [])
  | LEsc acc => (LStr (acc ++ [c]), [])
  | _ =>
      if is_sepch c then (LOut, flush st)
      else match punct c with
           | Some t => (LOut, flush st ++ [t])
           | None => if c =? 34 then (LStr [], flush st)
                     else match st with LAt acc => (LAt (acc ++ [c]), []) | _ => (LAt [c], []) end
           end
  end.

Fixpoint lex (st : lstate) (s : list Z) : list tok :=
  match s with
  | [] => flush st
  | c :: r => let (st', out) := lstep st c in out ++ lex st' r
  end.
Definition toks (s : list Z) : list tok := lex LOut s.

(* the relation "~" of the property: the same tokens *)
Definition sim (s t : list Z) : Prop := toks s = toks t.

(* strict JSON text of a token list: a comma exactly between a token that ends a value and one that starts one *)
Definition starts_value (t : tok) : bool := match t with TLB | TLC | TStr _ | TAtom _ | TBad => true | _ => false end.
Definition ends_value (t : tok) : bool := match t with TRB | TRC | TStr _ | TAtom _ | TBad => true | _ => false end.
Definition tok_text (t : tok) : list Z :=
  match t with
  | TLB => [91] | TRB => [93] | TLC => [123] | TRC => [125] | TCol => [58; 32]
  | TStr b => 34 :: b ++ [34] | TAtom s => s | TBad => [34]
  end.
Fixpoint untoks (prev : bool) (ts : list tok) : list Z :=
  match ts with
  | [] => []
  | t :: r => (if prev && starts_value t then [44] else []) ++ tok_text t ++ untoks (ends_value t) r
  end.

Definition jparse_lenient (s : list Z) : option jvalue := jparse (untoks false (toks s)).

(* ------------------------------------------------------------------ documents *)

Definition s_True : list Z := [84; 114; 117; 101].

Definition leaf_value (l : leaf) : jvalue :=
  match lk l with
  | KStr => JStr (ltext l)
  | KNull => JNull
  | KBool => JBool (str_eqb (ltext l) s_True)
  | KInt | KFloat => JNum (ltext l)
  end.

(* the JSON document a tree stands for (a key/value pair outside a mapping stands for its value) *)
Fixpoint value_of (t : tree) : jvalue :=
  match t with
  | Leaf l => leaf_value l
  | Lst _ _ cs => JArr (map value_of cs)
  | Kvp _ _ v => value_of v
  | MSet _ cs | FDict cs =>
      JObj (map (fun c => match c with
                          | Kvp _ (Leaf k) v => (ltext k, value_of v)
                          | _ => ([], value_of c)
                          end) cs)
  end.

(* ------------------------------------------------------------------ cases *)

Record render_case := {
  rc_lay : bool * bool;               (* join_lists, join_dict_items *)
  rc_script : script_case;            (* trees and the script of the very diff that was printed *)
  rc_obs : list (Z * list Z) }.       (* decoded output of JSONFormatter on Printer(ansi_color=True) *)

Definition reads_as (s : list Z) (t : tree) : bool :=
  match jparse_lenient s with Some v => jv_equiv v (value_of t) | None => false end.

(* The property on the IMPLEMENTATION's output: deleting what is marked inserted leaves text that reads as the
   first document, deleting what is marked removed leaves text that reads as the second, and there are no
   change marks exactly when the documents are equal as data. *)
Definition holds_C06 (c : render_case) : bool :=
  match classify (rc_obs c) with
  | None => false
  | Some st =>
      reads_as (erase Inserted st) (sc_a (rc_script c)) &&
      reads_as (erase Removed st) (sc_b (rc_script c)) &&
      Bool.eqb (no_marks st) (data_eqb (sc_a (rc_script c)) (sc_b (rc_script c)))
  end.

(* the three clauses separately (for the evidence) *)
Definition holds_C06_first (c : render_case) : bool :=
  match classify (rc_obs c) with Some st => reads_as (erase Inserted st) (sc_a (rc_script c)) | None => false end.
Definition holds_C06_second (c : render_case) : bool :=
  match classify (rc_obs c) with Some st => reads_as (erase Removed st) (sc_b (rc_script c)) | None => false end.
Definition holds_C06_marks (c : render_case) : bool :=
  match classify (rc_obs c) with
  | Some st => Bool.eqb (no_marks st) (data_eqb (sc_a (rc_script c)) (sc_b (rc_script c)))
  | None => false
  end.

(* ------------------------------------------------------------------ classes of the open findings
   D4 (Python-equal scalars of different type cost 0 inside containers) reaches the renderer wherever the
   script pairs two nodes at cost 0 that differ as data: that pair is printed once, plainly.  The class is
   "some position of the script is in ScriptKnown.kf_cross_type_py_equal". *)
Fixpoint positions (a b : tree) (e : edit) {struct e} : list script_case :=
  {| sc_a := a; sc_b := b; sc_edit := e; sc_flat_total := 0; sc_edited_cost := 0 |} ::
  match e with
  | EComp _ _ subs =>
      (fix go (ss : list sub) : list script_case :=
         match ss with
         | [] => []
         | SPair i j e' :: r =>
             match nth_error (children a) i, nth_error (children b) j with
             | Some x, Some y => positions x y e' ++ go r
             | _, _ => go r
             end
         | _ :: r => go r
         end) subs
  | _ => []
  end.

Definition kf_C06_cross_type (c : render_case) : bool :=
  existsb kf_cross_type_py_equal (positions (sc_a (rc_script c)) (sc_b (rc_script c)) (sc_edit (rc_script c))).
Definition kf_C06_zero_size (c : render_case) : bool :=
  existsb kf_zero_size_in_leaf_list (positions (sc_a (rc_script c)) (sc_b (rc_script c)) (sc_edit (rc_script c))).

(* D33 (found by this property): a MAPPING that is an element of a LIST and is replaced (Replace / Match at a
   cost) by something else is rendered  from -> to -> to : the edit is printed a second time inside the removed
   region (see RenderModel.from_to_twice), so neither projection reads back. *)
Definition is_mapping_node (t : tree) : bool := match t with MSet _ _ | FDict _ => true | _ => false end.
Definition is_list_node (t : tree) : bool := match t with Lst _ _ _ => true | _ => false end.
Definition costly_swap (e : edit) : bool := match e with EMatch c | EReplace c => 0 <? c | _ => false end.
Fixpoint mapping_replaced_in_list (a b : tree) (e : edit) {struct e} : bool :=
  match e with
  | EComp _ _ subs =>
      (fix go (ss : list sub) : bool :=
         match ss with
         | [] => false
         | SPair i j e' :: r =>
             match nth_error (children a) i, nth_error (children b) j with
             | Some x, Some y =>
                 (is_list_node a && is_mapping_node x && costly_swap e') || mapping_replaced_in_list x y e' || go r
             | _, _ => go r
             end
         | _ :: r => go r
         end) subs
  | _ => false
  end.
Definition kf_C06_mapping_replaced_in_list (c : render_case) : bool :=
  mapping_replaced_in_list (sc_a (rc_script c)) (sc_b (rc_script c)) (sc_edit (rc_script c)).

(* inside the domain of the theorems?  (documents json.loads can produce; reported in the evidence) *)
Definition in_domain_C06 (c : render_case) : bool :=
  json_domainb (value_of (sc_a (rc_script c))) && json_domainb (value_of (sc_b (rc_script c))).
