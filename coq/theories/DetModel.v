(* C07: what the models declare as adversaries, the audited-site predicate for the sites the translator finds in the
   current source, and the correspondence between a runtime observation and the script model.  Definitions only.

   Purity.  The model's inputs are VALUES: `script O pa pb a b` is a Gallina function of two trees, so "a comparison
   never alters the trees it was given" and "repeated calls return the same result" hold of the model by
   construction (no theorem is stated for it: it would be `f x = f x`).  What is observed at run time for the
   implementation is in DetSpec.inputs_unchanged / repeats_equal. *)
From Coq Require Import String List Bool ZArith.
Require Import GT.PyBase GT.Data GT.ScriptSpec GT.ScriptModel GT.DetSpec GTgen.DetGen.
Import ListNotations.

(* Every place where the implementation consults hash order, insertion history of a hash container, or an object
   address is an explicit argument of a model: *)
Definition declared_adversaries : list (string * string) :=
  [("pi",    "ScriptModel.o_order: order in which FixedKeyDictNode._child_edits emits the removed pairs (consulted only when GTgen.EdGen.fixed_dict_removals_in_hash_order = true)");
   ("tau",   "ScriptModel.o_match: the assignment the matcher returns for a MultiSetEdit (make_distinct's interval-tree order decides which edges are tightened before scipy sees their upper bounds; scipy picks among equally cheap assignments)");
   ("iota",  "the comparison handed to SearchModel / FibHeapModel (BoundedComparator's id() tie-break); off the document diff path");
   ("sigma", "BuilderModel: the expansion order of a Python set given to BasicBuilder (library path only; no file type produces one)");
   ("alpha", "BuilderModel.TCyc: the identity of the object behind a CyclicReference placeholder (its address-bearing default repr is the leaf text; ignore_cycles=True, library path only)")]%string.

Definition site_is_audited (s : site) : bool :=
  site_is_audited_in (map fst declared_adversaries) audit_table s.

Definition unaudited_sites : list site := filter (fun s => negb (site_is_audited s)) nondeterminism_sites.

(* ---------------------------------------------------------------- correspondence *)
Open Scope Z_scope.

(* the oracle with the set-order adversary erased *)
Definition strip_order (O : oracle) : oracle := {| o_match := o_match O; o_order := [] |}.

(* the observation of a pair in the modelled JSON fragment, with the script the implementation computed in-process
   and the matchings it obtained (cc_oracle's o_order is what the harness read off the script; it is NOT used) *)
Record det_corr := { dr_case : det_case; dr_script : option corr_case }.

(* `python -m graphtage` exits with 1 iff the diff has edits, i.e. iff its cost is positive *)
Definition status_of_cost (c : Z) : Z := if 0 <? c then 1 else 0.

Definition corr_C07 (c : det_corr) : bool :=
  match dr_script c with
  | None => true
  | Some cc =>
      match script (strip_order (cc_oracle cc)) [] [] (sc_a (cc_case cc)) (sc_b (cc_case cc)) with
      | OK e => edit_eqb e (sc_edit (cc_case cc)) &&
                forallb (fun r => ro_status r =? status_of_cost (cost e)) (dc_runs (dr_case c))
      | Err _ => false
      end
  end.
