(* Trees of graphtage's intermediate representation (JSON path: leaves, lists, key/value pairs,
   DictNode/MultiSetNode, FixedKeyDictNode), sizes, the implementation's equality and the typed
   data equality.  Mirrors graphtage/graphtage.py, sequences.py (calculate_total_size, __eq__). *)
From Coq Require Import ZArith List Bool Lia.
Import ListNotations.
Open Scope Z_scope.

Definition str := list Z.                        (* code points *)

Fixpoint str_eqb (a b : str) : bool :=
  match a, b with
  | [], [] => true
  | x :: a', y :: b' => (x =? y) && str_eqb a' b'
  | _, _ => false
  end.

Inductive lkind := KInt | KFloat | KBool | KStr | KNull.
Definition lkind_eqb (a b : lkind) : bool :=
  match a, b with
  | KInt, KInt | KFloat, KFloat | KBool, KBool | KStr, KStr | KNull, KNull => true
  | _, _ => false
  end.

(* A leaf: its node class, str(object) (supplied by the harness, = Python's str()), and for the numeric
   classes its exact value  lnum / 2^lexp  (float.as_integer_ratio; ints and bools have lexp = 0). *)
Record leaf := { lk : lkind; ltext : str; lnum : Z; lexp : Z }.

Definition is_numeric (k : lkind) : bool := match k with KInt | KFloat | KBool => true | _ => false end.

Definition num_eqb (a b : leaf) : bool := (lnum a * 2 ^ lexp b =? lnum b * 2 ^ lexp a).

(* Python ==  on the wrapped objects (LeafNode.__eq__ / NullNode.__eq__) *)
Definition py_eqb (a b : leaf) : bool :=
  match lk a, lk b with
  | KStr, KStr => str_eqb (ltext a) (ltext b)
  | KNull, KNull => true
  | KStr, _ | _, KStr | KNull, _ | _, KNull => false
  | _, _ => num_eqb a b
  end.

(* typed equality of scalars: what "equal as data" means for the property: same node class and same str()
   (str() is injective on the values of each scalar type; -0.0 and 0.0 are different data) *)
Definition leaf_data_eqb (a b : leaf) : bool :=
  lkind_eqb (lk a) (lk b) && match lk a with KNull => true | _ => str_eqb (ltext a) (ltext b) end.

(* the serialiser's invariant: for two leaves of the same numeric class, equal str() means equal value *)
Definition leaf_consistent (a b : leaf) : bool :=
  if is_numeric (lk a) && lkind_eqb (lk a) (lk b) && str_eqb (ltext a) (ltext b) then num_eqb a b else true.

Inductive tree :=
  | Leaf (l : leaf)
  | Lst (ale alsl : bool) (cs : list tree)      (* ListNode: allow_list_edits, allow_list_edits_when_same_length *)
  | Kvp (ake : bool) (k v : tree)               (* KeyValuePairNode: allow_key_edits *)
  | MSet (amk : bool) (cs : list tree)          (* DictNode / MultiSetNode: auto_match_keys; elements() order *)
  | FDict (cs : list tree).                     (* FixedKeyDictNode: key/value pairs in insertion order *)

Definition children (t : tree) : list tree :=
  match t with
  | Leaf _ => []
  | Lst _ _ cs => cs
  | Kvp _ k v => [k; v]
  | MSet _ cs => cs
  | FDict cs => cs
  end.

Definition is_leaf (t : tree) : bool := match t with Leaf _ => true | _ => false end.
Definition is_kvp (t : tree) : bool := match t with Kvp _ _ _ => true | _ => false end.
Definition kvp_key (t : tree) : tree := match t with Kvp _ k _ => k | _ => t end.
Definition kvp_val (t : tree) : tree := match t with Kvp _ _ v => v | _ => t end.

Definition zlen {A} (l : list A) : Z := Z.of_nat (length l).
Definition zsum (l : list Z) : Z := fold_right Z.add 0 l.

(* calculate_total_size *)
Definition leaf_size (l : leaf) : Z := match lk l with KNull => 0 | _ => zlen (ltext l) end.

Fixpoint size (t : tree) : Z :=
  match t with
  | Leaf l => leaf_size l
  | Lst _ _ cs => zsum (map (fun c => size c + 1) cs)
  | Kvp _ k v => size k + size v + 2
  | MSet _ cs => zsum (map (fun c => size c + 1) cs)
  | FDict cs => zsum (map (fun c => size c + 1) cs)
  end.

(* the implementation's  ==  on nodes *)
Section NodeEq.
  Variable eqb : tree -> tree -> bool.
  Fixpoint list_eqb (a b : list tree) : bool :=
    match a, b with
    | [], [] => true
    | x :: a', y :: b' => eqb x y && list_eqb a' b'
    | _, _ => false
    end.
End NodeEq.

Fixpoint node_eqb (a b : tree) {struct a} : bool :=
  match a, b with
  | Leaf x, Leaf y => py_eqb x y
  | Lst _ _ xs, Lst _ _ ys =>
      (fix go (xs ys : list tree) {struct xs} : bool :=
         match xs, ys with
         | [], [] => true
         | x :: xs', y :: ys' => node_eqb x y && go xs' ys'
         | _, _ => false
         end) xs ys
  | Kvp _ k v, Kvp _ k' v' => node_eqb k k' && node_eqb v v'
  | MSet _ xs, MSet _ ys =>
      (* Counter equality, all counts 1: same number of keys, each key of xs is a key of ys *)
      Nat.eqb (length xs) (length ys) &&
      (fix all (xs : list tree) : bool :=
         match xs with
         | [] => true
         | x :: xs' => existsb (fun y => node_eqb x y) ys && all xs'
         end) xs
  | FDict xs, FDict ys =>
      (* dict {key: kvp} equality: same length, every pair of xs has an equal pair in ys *)
      Nat.eqb (length xs) (length ys) &&
      (fix all (xs : list tree) : bool :=
         match xs with
         | [] => true
         | x :: xs' => existsb (fun y => node_eqb x y) ys && all xs'
         end) xs
  | _, _ => false
  end.

(* typed, structural "equal as data": lists ordered, mappings unordered, scalars by type and value *)
Fixpoint data_eqb (a b : tree) {struct a} : bool :=
  match a, b with
  | Leaf x, Leaf y => leaf_data_eqb x y
  | Lst _ _ xs, Lst _ _ ys =>
      (fix go (xs ys : list tree) {struct xs} : bool :=
         match xs, ys with
         | [], [] => true
         | x :: xs', y :: ys' => data_eqb x y && go xs' ys'
         | _, _ => false
         end) xs ys
  | Kvp _ k v, Kvp _ k' v' => data_eqb k k' && data_eqb v v'
  | MSet _ xs, MSet _ ys | FDict xs, FDict ys =>
      (* mappings are unordered: same number of members, mutual inclusion *)
      Nat.eqb (length xs) (length ys) &&
      (fix all (xs : list tree) : bool :=
         match xs with
         | [] => true
         | x :: xs' => existsb (fun y => data_eqb x y) ys && all xs'
         end) xs &&
      forallb (fun y => existsb (fun x => data_eqb x y) xs) ys
  | _, _ => false
  end.

(* every pair of leaves (one from each tree) satisfies the serialiser's invariant *)
Fixpoint leaves (t : tree) : list leaf :=
  match t with
  | Leaf l => [l]
  | Lst _ _ cs | MSet _ cs | FDict cs => flat_map leaves cs
  | Kvp _ k v => leaves k ++ leaves v
  end.
Definition consistent (a b : tree) : bool :=
  forallb (fun x => forallb (fun y => leaf_consistent x y) (leaves b)) (leaves a).

Definition all_leaves (cs : list tree) : bool := forallb is_leaf cs.

(* documents the loaders can produce: mapping keys are leaves and pairwise different (under ==),
   mappings contain only key/value pairs, pairs occur only inside mappings; the binary exponent of a numeric
   leaf (float.as_integer_ratio's denominator) is non-negative *)
Fixpoint keys_distinct (eqb : tree -> tree -> bool) (cs : list tree) : bool :=
  match cs with
  | [] => true
  | c :: cs' => negb (existsb (fun d => eqb (kvp_key c) (kvp_key d)) cs') && keys_distinct eqb cs'
  end.

Fixpoint wf (t : tree) : bool :=
  match t with
  | Leaf l => 0 <=? lexp l
  | Lst _ _ cs => forallb (fun c => negb (is_kvp c) && wf c) cs
  | Kvp _ k v => is_leaf k && wf k && negb (is_kvp v) && wf v
  | MSet _ cs => forallb (fun c => is_kvp c && wf c) cs && keys_distinct node_eqb cs
  | FDict cs => forallb (fun c => is_kvp c && wf c) cs && keys_distinct node_eqb cs
  end.
