(* C12 - printing an unedited document yields text that parses back equal.
   Data of a case (document, the implementation's printed text, what the real parser made of it, what the
   implementation reloaded) and the executable statement of the property.  Hand-written, independent of
   any translated code. *)
From Coq Require Import List Bool ZArith Lia String Ascii.
Import ListNotations.
Open Scope Z_scope.

(* ------------------------------------------------------------------ documents *)

(* A JSON-like document.  Strings and keys are lists of code points; numbers are the opaque tokens
   json.dumps prints for them (supplied by the harness, checked for well-formedness in Coq). *)
Inductive jvalue :=
| JNull
| JBool (b : bool)
| JNum (tok : list Z)
| JStr (s : list Z)
| JArr (l : list jvalue)
| JObj (kvs : list (list Z * jvalue)).

Section jvalue_induction.
  Variable P : jvalue -> Prop.
  Hypothesis HNull : P JNull.
  Hypothesis HBool : forall b, P (JBool b).
  Hypothesis HNum : forall t, P (JNum t).
  Hypothesis HStr : forall s, P (JStr s).
  Hypothesis HArr : forall l, Forall P l -> P (JArr l).
  Hypothesis HObj : forall kvs, Forall (fun kv => P (snd kv)) kvs -> P (JObj kvs).

  Fixpoint jvalue_ind2 (v : jvalue) : P v :=
    match v with
    | JNull => HNull
    | JBool b => HBool b
    | JNum t => HNum t
    | JStr s => HStr s
    | JArr l => HArr l ((fix go (l : list jvalue) : Forall P l :=
                           match l with [] => Forall_nil _ | x :: r => Forall_cons _ (jvalue_ind2 x) (go r) end) l)
    | JObj kvs => HObj kvs ((fix go (l : list (list Z * jvalue)) : Forall (fun kv => P (snd kv)) l :=
                           match l with [] => Forall_nil _
                                   | kv :: r => Forall_cons kv (jvalue_ind2 (snd kv)) (go r) end) kvs)
    end.
End jvalue_induction.

(* ------------------------------------------------------------------ equality, order, canonical form *)

Fixpoint zlist_eqb (a b : list Z) : bool :=
  match a, b with
  | [], [] => true
  | x :: a', y :: b' => (x =? y) && zlist_eqb a' b'
  | _, _ => false
  end.

(* Python's str comparison: lexicographic by code point *)
Fixpoint zlist_leb (a b : list Z) : bool :=
  match a, b with
  | [], _ => true
  | _ :: _, [] => false
  | x :: a', y :: b' => (x <? y) || ((x =? y) && zlist_leb a' b')
  end.

Fixpoint jv_eqb (a b : jvalue) {struct a} : bool :=
  match a, b with
  | JNull, JNull => true
  | JBool x, JBool y => Bool.eqb x y
  | JNum s, JNum t => zlist_eqb s t
  | JStr s, JStr t => zlist_eqb s t
  | JArr l, JArr m =>
      (fix go (l m : list jvalue) : bool :=
         match l, m with
         | [], [] => true
         | x :: l', y :: m' => jv_eqb x y && go l' m'
         | _, _ => false
         end) l m
  | JObj l, JObj m =>
      (fix go (l m : list (list Z * jvalue)) : bool :=
         match l, m with
         | [], [] => true
         | (k, x) :: l', (k', y) :: m' => zlist_eqb k k' && jv_eqb x y && go l' m'
         | _, _ => false
         end) l m
  | _, _ => false
  end.

Definition ojv_eqb (a b : option jvalue) : bool :=
  match a, b with Some x, Some y => jv_eqb x y | None, None => true | _, _ => false end.

(* DictNode.from_dict: sorted(KeyValuePairNode ...) - a stable sort by key *)
Fixpoint ins_member (kv : list Z * jvalue) (l : list (list Z * jvalue)) : list (list Z * jvalue) :=
  match l with
  | [] => [kv]
  | h :: t => if zlist_leb (fst kv) (fst h) then kv :: l else h :: ins_member kv t
  end.
Definition sort_members (l : list (list Z * jvalue)) : list (list Z * jvalue) := fold_right ins_member [] l.

(* the document up to the order of mapping entries: members sorted by key, recursively *)
Fixpoint canon (v : jvalue) : jvalue :=
  match v with
  | JArr l => JArr (map canon l)
  | JObj kvs => JObj (sort_members (map (fun kv => match kv with (k, x) => (k, canon x) end) kvs))
  | _ => v
  end.

(* documents equal up to the order of mapping entries *)
Definition jv_equiv (a b : jvalue) : bool := jv_eqb (canon a) (canon b).

(* ------------------------------------------------------------------ the domain of the JSON theorems *)

Definition is_high (c : Z) : bool := (55296 <=? c) && (c <=? 56319).    (* D800..DBFF *)
Definition is_low (c : Z) : bool := (56320 <=? c) && (c <=? 57343).     (* DC00..DFFF *)
Definition cp_ok (c : Z) : bool := (0 <=? c) && (c <=? 1114111).

(* json.loads' image: any code points, lone surrogates allowed, but never high immediately followed by low *)
Fixpoint no_pair (s : list Z) : bool :=
  match s with
  | a :: t => match t with b :: _ => negb (is_high a && is_low b) | [] => true end && no_pair t
  | [] => true
  end.
(* strings of the JSON domain (j5 = false) and of the JSON5 domain (j5 = true: no astral code point, D17) *)
Definition str_okb (j5 : bool) (s : list Z) : bool :=
  if j5 then forallb (fun c => (0 <=? c) && (c <? 65536)) s else forallb cp_ok s && no_pair s.

(* JSON number grammar:  optional '-', then '0' or a non-zero digit followed by digits, an optional
   fraction '.' digits+, an optional exponent [eE] [-+]? digits+ ; as a DFA over the token *)
Definition is_digit (c : Z) : bool := (48 <=? c) && (c <=? 57).
Definition is_numchar (c : Z) : bool :=
  is_digit c || (c =? 45) || (c =? 43) || (c =? 46) || (c =? 101) || (c =? 69).
Definition num_step (st : Z) (c : Z) : Z :=
  match st with
  | 0 => if c =? 45 then 1 else if c =? 48 then 2 else if is_digit c then 3 else 9
  | 1 => if c =? 48 then 2 else if is_digit c then 3 else 9
  | 2 => if c =? 46 then 4 else if (c =? 101) || (c =? 69) then 6 else 9
  | 3 => if is_digit c then 3 else if c =? 46 then 4 else if (c =? 101) || (c =? 69) then 6 else 9
  | 4 => if is_digit c then 5 else 9
  | 5 => if is_digit c then 5 else if (c =? 101) || (c =? 69) then 6 else 9
  | 6 => if (c =? 45) || (c =? 43) then 7 else if is_digit c then 8 else 9
  | 7 => if is_digit c then 8 else 9
  | 8 => if is_digit c then 8 else 9
  | _ => 9
  end.
Definition num_accept (st : Z) : bool :=
  match st with 2 | 3 | 5 | 8 => true | _ => false end.
Definition num_ok (tok : list Z) : bool := forallb is_numchar tok && num_accept (fold_left num_step tok 0).

Fixpoint jwfb (j5 : bool) (v : jvalue) : bool :=
  match v with
  | JNum t => num_ok t
  | JStr s => str_okb j5 s
  | JArr l => forallb (jwfb j5) l
  | JObj kvs => forallb (fun kv => match kv with (k, x) => str_okb j5 k && jwfb j5 x end) kvs
  | _ => true
  end.

Fixpoint keys_distinct (ks : list (list Z)) : bool :=
  match ks with [] => true | k :: r => negb (existsb (zlist_eqb k) r) && keys_distinct r end.
Fixpoint keys_uniqueb (v : jvalue) : bool :=
  match v with
  | JArr l => forallb keys_uniqueb l
  | JObj kvs => keys_distinct (map fst kvs) &&
                forallb (fun kv => match kv with (_, x) => keys_uniqueb x end) kvs
  | _ => true
  end.

Definition json_domainb (v : jvalue) : bool := jwfb false v && keys_uniqueb v.
Definition json5_domainb (v : jvalue) : bool := jwfb true v && keys_uniqueb v.
Definition json_domain (v : jvalue) : Prop := json_domainb v = true.
Definition json5_domain (v : jvalue) : Prop := json5_domainb v = true.

(* ASCII text as code points (the harness writes ASCII-only texts as string literals) *)
Definition zs (s : string) : list Z := map (fun a => Z.of_N (N_of_ascii a)) (list_ascii_of_string s).

(* ------------------------------------------------------------------ cases *)

Inductive format := FJson | FJson5 | FCsv | FYaml | FPlist | FXml.
Definition format_eqb (a b : format) : bool :=
  match a, b with
  | FJson, FJson | FJson5, FJson5 | FCsv, FCsv | FYaml, FYaml | FPlist, FPlist | FXml, FXml => true
  | _, _ => false
  end.

(* JSON / JSON5: the document is loaded from a source file, printed by JSONFormatter under a layout, the text
   is parsed by the real library (json.loads / json5.loads) and reloaded through Filetype.build_tree. *)
Record json_case := {
  jc_json5 : bool;
  jc_lay : bool * bool;              (* join_lists, join_dict_items *)
  jc_doc : jvalue;                   (* what the library parsed from the source file (mapping entries in file order) *)
  jc_tobj : jvalue;                  (* to_obj() of the loaded tree (mapping entries in the tree's order) *)
  jc_text : list Z;                  (* the implementation's printed text, code points *)
  jc_loads : option jvalue;          (* the real parser's result on jc_text (None: it raised) *)
  jc_reload : option jvalue;         (* to_obj() of Filetype.build_tree(printed file) (None: it raised) *)
  jc_eq : bool }.                    (* loaded tree == reloaded tree, by the implementation's own __eq__ *)

(* CSV: rows of cells, every cell a string *)
Definition table := list (list (list Z)).
Record csv_case := {
  cc_src : list Z;                   (* the source file *)
  cc_rows : table;                   (* the loaded document *)
  cc_text : list Z;                  (* printed text *)
  cc_reader : option table;          (* csv.reader on the printed file, opened as csv.build_tree opens it *)
  cc_cells : list (list Z * list Z); (* (cell, what csv.writer made of the one-cell row, line end stripped) *)
  cc_reload : option table;
  cc_eq : bool }.

(* YAML / plist / XML: decided by reload equality only (plus, for YAML and plist, the document for the
   known-finding classes) *)
Record other_case := {
  oc_fmt : format;
  oc_doc : option jvalue;            (* to_obj() of the loaded tree; XML: elements as mappings, text stripped *)
  oc_loaded : bool;                  (* printing succeeded and the printed text was accepted by the same loader *)
  oc_reload : option jvalue;         (* the same view of the reloaded tree *)
  oc_eq : bool }.                    (* loaded tree == reloaded tree (implementation's __eq__) *)

Inductive case := CJson (c : json_case) | CCsv (c : csv_case) | COther (c : other_case).

Fixpoint table_eqb (a b : table) : bool :=
  match a, b with
  | [], [] => true
  | r :: a', s :: b' =>
      (fix row (r s : list (list Z)) : bool :=
         match r, s with
         | [], [] => true
         | x :: r', y :: s' => zlist_eqb x y && row r' s'
         | _, _ => false
         end) r s && table_eqb a' b'
  | _, _ => false
  end.
(* CSVNode.__eq__ : equal children, or neither side has a non-empty row *)
Definition table_blank (t : table) : bool := forallb (fun r => match r with [] => true | _ => false end) t.
Definition table_equiv (a b : table) : bool := table_eqb a b || (table_blank a && table_blank b).

(* the domain of the CSV theorem: any rows (ragged, empty, empty cells), every cell any string without a carriage
   return.  csv.build_tree opens the file in text mode: universal newlines turn every CR (lone, or in CR LF, inside
   quotes or not) into LF before csv.reader sees the text, so no loaded cell contains one. *)
Definition csv_domainb (t : table) : bool := forallb (forallb (forallb (fun c => negb (c =? 13)))) t.
Definition csv_domain (t : table) : Prop := csv_domainb t = true.

Definition docs_agree (o : other_case) : bool :=
  match oc_doc o, oc_reload o with Some a, Some b => jv_equiv a b | _, _ => false end.

(* The property, evaluated on the IMPLEMENTATION's behaviour alone: the printed text was accepted by the
   same loader and the reloaded document equals the original one. *)
Definition holds_C12 (c : case) : bool :=
  match c with
  | CJson j => jc_eq j && match jc_reload j with Some r => jv_equiv r (jc_tobj j) && jv_equiv r (jc_doc j) | None => false end
  | CCsv t => cc_eq t && match cc_reload t with Some r => table_equiv r (cc_rows t) | None => false end
  | COther o => oc_loaded o && oc_eq o && docs_agree o
  end.

(* ------------------------------------------------------------------ classes of the open findings *)

Fixpoint has_astral (v : jvalue) : bool :=
  match v with
  | JStr s => existsb (fun c => 65536 <=? c) s
  | JArr l => existsb has_astral l
  | JObj kvs => existsb (fun kv => match kv with (k, x) => existsb (fun c => 65536 <=? c) k || has_astral x end) kvs
  | _ => false
  end.
(* D17: a JSON5 document containing a code point >= U+10000 *)
Definition kf_json5_astral (c : case) : bool :=
  match c with CJson j => jc_json5 j && has_astral (jc_doc j) | _ => false end.

Fixpoint has_empty (v : jvalue) : bool :=
  match v with
  | JStr [] | JArr [] | JObj [] => true
  | JArr l => existsb has_empty l
  | JObj kvs => existsb (fun kv => match kv with (k, x) => match k with [] => true | _ => false end || has_empty x end) kvs
  | _ => false
  end.
(* D15: a YAML document containing {}, [] or "" *)
Definition kf_yaml_empty (c : case) : bool :=
  match c with
  | COther o => format_eqb (oc_fmt o) FYaml && match oc_doc o with Some d => has_empty d | None => false end
  | _ => false
  end.
(* D8: PLISTNode has no __eq__ : every plist document; only the == observation is excused *)
Definition kf_plist_eq (c : case) : bool :=
  match c with
  | COther o => format_eqb (oc_fmt o) FPlist && oc_loaded o && docs_agree o && negb (oc_eq o)
  | _ => false
  end.

(* is the document inside the domain the theorems quantify over?  (reported in the evidence) *)
Definition in_domain_C12 (c : case) : bool :=
  match c with
  | CJson j => if jc_json5 j then json5_domainb (jc_doc j) else json_domainb (jc_doc j)
  | _ => true
  end.
