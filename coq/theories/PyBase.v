(* Small helpers shared by the generated files and the hand-written models. *)
From Coq Require Import String List Bool ZArith.
Import ListNotations.

Definition is_some {A} (o : option A) : bool := match o with Some _ => true | None => false end.
Definition truthy_ob (o : option bool) : bool := match o with Some b => b | None => false end.
Definition truthy_os (o : option string) : bool :=
  match o with Some s => negb (String.eqb s EmptyString) | None => false end.
Definition ostr_eqb (o : option string) (s : string) : bool :=
  match o with Some t => String.eqb t s | None => false end.
Definition oostr_eqb (a b : option string) : bool :=
  match a, b with Some x, Some y => String.eqb x y | None, None => true | _, _ => false end.
Definition obool_eqb (a b : option bool) : bool :=
  match a, b with Some x, Some y => Bool.eqb x y | None, None => true | _, _ => false end.

Fixpoint first_some {A} (l : list (option A)) : option A :=
  match l with [] => None | Some x :: _ => Some x | None :: r => first_some r end.

Fixpoint assoc {B} (k : string) (l : list (string * B)) : option B :=
  match l with [] => None | (k', v) :: r => if String.eqb k k' then Some v else assoc k r end.

(* lexicographic comparison of pairs of integers (Python tuple comparison) *)
Definition zz_eqb (a b : Z * Z) : bool := Z.eqb (fst a) (fst b) && Z.eqb (snd a) (snd b).
Definition zz_ltb (a b : Z * Z) : bool :=
  Z.ltb (fst a) (fst b) || (Z.eqb (fst a) (fst b) && Z.ltb (snd a) (snd b)).
Definition zz_leb (a b : Z * Z) : bool := zz_ltb a b || zz_eqb a b.

(* indices of the cases on which a boolean check fails *)
Definition bad_cases {C} (f : C -> bool) (cases : list (nat * C)) : list nat :=
  map fst (filter (fun c => negb (f (snd c))) cases).
