(* C07 - diffing is a pure, deterministic function of its inputs.
   Data types of a case (what the harness observed when it ran the same diff several times) and the executable
   statement of the property.  Independent of everything translated from the code. *)
From Coq Require Import String List Bool ZArith.
Import ListNotations.
Open Scope Z_scope.

(* ---------------------------------------------------------------- the site audit (translator pass) *)
(* (file, qualified name of the enclosing function, kind:expression) *)
Definition site := (string * string * string)%type.
Inductive site_class := Adversary (name : string) | Benign (reason : string).

Definition site_eqb (a b : site) : bool :=
  let '(f, q, k) := a in let '(f', q', k') := b in (String.eqb f f' && String.eqb q q' && String.eqb k k')%bool.

Fixpoint classify (tbl : list (site * site_class)) (s : site) : option site_class :=
  match tbl with
  | [] => None
  | (s', c) :: tbl' => if site_eqb s s' then Some c else classify tbl' s
  end.

(* a site is audited if the table has a row for it and the row either names a DECLARED adversary of the models or
   gives a (non-empty) reason why the site is benign *)
Definition site_is_audited_in (declared : list string) (tbl : list (site * site_class)) (s : site) : bool :=
  match classify tbl s with
  | Some (Adversary n) => existsb (String.eqb n) declared
  | Some (Benign r) => negb (String.eqb r "")
  | None => false
  end.

(* ---------------------------------------------------------------- the runtime observation *)
(* one run of `python -m graphtage --no-status <flags> a.json b.json`: in a fresh process (ro_warm = 0), or as call
   number ro_pos of graphtage.__main__.main inside ONE long-lived process that executes a whole batch of cases in
   the order ro_warm (1: forward, 2: reversed, 3: shuffled, 4: replay of a stored sequence), i.e. after ro_pos other
   diffs in the same process ("warm" run) *)
Record run_obs := {
  ro_seed : Z;         (* PYTHONHASHSEED *)
  ro_alloc : Z;        (* 0: plain; n > 0: n dummy objects of assorted sizes allocated (and partly freed) before graphtage is
                          imported; -1: PYTHONMALLOC=malloc *)
  ro_warm : Z;         (* 0: fresh process; k > 0: warm process, batch order k *)
  ro_pos : Z;          (* number of cases the warm process executed before this one *)
  ro_status : Z;       (* exit status (99: a traceback on stderr) *)
  ro_len : Z;          (* number of bytes on stdout *)
  ro_digest : Z        (* SHA-256 of stdout, as a number *)
}.

(* a structural snapshot of one input tree taken before and after an operation (SHA-256 of: repr, the id() of every
   node and of its parent, the sorted __dict__ keys of every node, total_size) *)
Record snap := { sn_before : Z; sn_after : Z }.

Record det_case := {
  dc_runs : list run_obs;            (* same documents, same flags; seeds / allocation histories differ *)
  dc_inproc : list (Z * Z);          (* (length, digest) of the rendering of repeated diffs inside ONE process *)
  dc_snaps : list snap               (* both input trees around diff(), get_all_edits() and printing *)
}.

Definition same_output (r r' : run_obs) : bool :=
  (ro_status r =? ro_status r') && (ro_len r =? ro_len r') && (ro_digest r =? ro_digest r').

Definition all_same {A} (eqb : A -> A -> bool) (l : list A) : bool :=
  match l with [] => true | x :: l' => forallb (eqb x) l' end.

Definition pair_eqb (p q : Z * Z) : bool := (fst p =? fst q) && (snd p =? snd q).

(* byte-identical output and the same exit status in every process - fresh under every seed / allocation history, and
   at every position of every order of a warm process (the first run of a case is a fresh one, so every warm run is
   compared with the fresh result); identical renderings when repeated in one process; no input tree altered *)
Definition outputs_equal (c : det_case) : bool := all_same same_output (dc_runs c).
Definition repeats_equal (c : det_case) : bool := all_same pair_eqb (dc_inproc c).
Definition inputs_unchanged (c : det_case) : bool := forallb (fun s => sn_before s =? sn_after s) (dc_snaps c).
(* no run ended in an uncaught exception (status 99) - an exception is not "the same output" even if it is
   raised under every seed *)
Definition no_crash (c : det_case) : bool := forallb (fun r => negb (ro_status r =? 99)) (dc_runs c).

Definition holds_C07 (c : det_case) : bool :=
  outputs_equal c && repeats_equal c && inputs_unchanged c && no_crash c.

Definition bad_cases {A} (f : A -> bool) (cases : list (nat * A)) : list nat :=
  map fst (filter (fun ic => negb (f (snd ic))) cases).

(* which runs differ from the first one (for the replay: the two seeds that differ) *)
Definition differing_runs (c : det_case) : list (Z * Z * Z * Z) :=
  match dc_runs c with
  | [] => []
  | r :: l => map (fun r' => (ro_seed r', ro_alloc r', ro_warm r', ro_pos r')) (filter (fun r' => negb (same_output r r')) l)
  end.
