(* C12: the readers of StructModel invert graphtage's structure printers on the non-empty, structural-character
   free domain.  YAML:
   - lexing: split_nl / lex_line invert join_nl / render_line on well-formed lines;
   - block structure: pval inverts yv (invariant: the lines that follow a value printed at level n are indented
     less, or - after a sequence - equally without "- "; fuel 2 * lines + 1 suffices);
   - C12_struct_yaml_tokens (scalars = their tokens) and C12_struct_yaml_codec (any scalar codec with the two
     hypotheses scalar_rt, scalar_lex).
   plist and XML: the tag lexer (a state machine over the characters) yields exactly the token list of the printed
   value; the token parsers invert it (fuel 2 * tokens + 1 suffices): C12_struct_plist_all, C12_struct_xml_all. *)
From Coq Require Import List Bool ZArith Lia Arith.
Require Import GT.PyBase GT.JsonSpec GT.StructSpec GT.JsonModel GT.CsvModel GT.StructModel.
Import ListNotations.
Open Scope Z_scope.

(* ================================================================== lines *)

Definition nonl (s : list Z) : bool := forallb (fun c => negb (c =? 10)) s.

Lemma split_nonl : forall l, nonl l = true -> split_nl l = [l].
Proof.
  induction l as [|c l IH]; simpl; intros H; [reflexivity|].
  apply andb_true_iff in H. destruct H as [H1 H2].
  destruct (c =? 10); [discriminate|]. now rewrite IH.
Qed.

Lemma split_app : forall l s, nonl l = true -> split_nl (l ++ 10 :: s) = l :: split_nl s.
Proof.
  induction l as [|c l IH]; simpl; intros s H; [reflexivity|].
  apply andb_true_iff in H. destruct H as [H1 H2].
  destruct (c =? 10); [discriminate|]. now rewrite IH.
Qed.

Lemma split_join : forall ls, ls <> [] -> forallb nonl ls = true -> split_nl (join_nl ls) = ls.
Proof.
  induction ls as [|l r IH]; intros Hne H; [congruence|].
  simpl in H. apply andb_true_iff in H. destruct H as [H1 H2].
  simpl. destruct r as [|l2 r].
  - rewrite app_nil_r. apply split_nonl, H1.
  - rewrite split_app by assumption. f_equal. apply IH; [discriminate | assumption].
Qed.

(* ================================================================== one line *)

Definition wf_body (b : ybody) : bool :=
  match b with
  | BEmpty => true
  | BTok x => tok_ok x
  | BKey k => tok_ok k
  | BKeyTok k x => tok_ok k && tok_ok x
  end.
Definition wf_line (l : yline) : bool := match l with (_, _, b) => wf_body b end.

Lemma tokc_nonl : forall c, tokc c = true -> negb (c =? 10) = true.
Proof. intros c H. unfold tokc in H. destruct (c =? 10); [discriminate | reflexivity]. Qed.

Lemma tok_nonl : forall x, forallb tokc x = true -> nonl x = true.
Proof.
  induction x as [|c x IH]; simpl; intros H; [reflexivity|].
  apply andb_true_iff in H. destruct H as [H1 H2]. rewrite tokc_nonl, IH by assumption. reflexivity.
Qed.

Lemma tok_ok_inv : forall x, tok_ok x = true -> x <> [] /\ forallb tokc x = true.
Proof.
  intros x H. unfold tok_ok in H. apply andb_true_iff in H. destruct H as [H1 H2].
  split; [|assumption]. destruct x; [discriminate | discriminate].
Qed.

Lemma nonl_ind : forall k, nonl (ind k) = true.
Proof. induction k; simpl; auto. Qed.

Lemma nonl_app : forall a b, nonl (a ++ b) = nonl a && nonl b.
Proof. intros. apply forallb_app. Qed.

Lemma nonl_body : forall b, wf_body b = true -> nonl (render_body b) = true.
Proof.
  intros [|x|k|k x] H; simpl in *.
  - reflexivity.
  - apply tok_nonl, tok_ok_inv, H.
  - rewrite nonl_app, tok_nonl by (apply tok_ok_inv, H). reflexivity.
  - apply andb_true_iff in H. destruct H as [H1 H2].
    rewrite nonl_app, tok_nonl by (apply tok_ok_inv, H1). simpl. apply tok_nonl, tok_ok_inv, H2.
Qed.

Lemma nonl_line : forall l, wf_line l = true -> nonl (render_line l) = true.
Proof.
  intros [[k d] b] H. simpl in *. rewrite !nonl_app, nonl_ind, nonl_body by assumption.
  destruct d; reflexivity.
Qed.

Definition nosp (r : list Z) : Prop := match r with c :: _ => (c =? 32) = false | [] => True end.

Lemma unind_ind : forall k r, nosp r -> unind (ind k ++ r) = (k, r).
Proof.
  induction k as [|k IH]; intros r H.
  - simpl. destruct r as [|a [|b r]]; try reflexivity.
    simpl in H. simpl. rewrite H. reflexivity.
  - simpl. rewrite IH by assumption. reflexivity.
Qed.

Definition notok (r : list Z) : Prop := match r with c :: _ => tokc c = false | [] => True end.

Lemma take_tok_app : forall x r, forallb tokc x = true -> notok r -> take_tok (x ++ r) = (x, r).
Proof.
  induction x as [|c x IH]; intros r H Hr.
  - simpl. destruct r as [|c r]; [reflexivity|]. simpl in *. rewrite Hr. reflexivity.
  - simpl in H. apply andb_true_iff in H. destruct H as [H1 H2].
    simpl. rewrite H1, IH by assumption. reflexivity.
Qed.

Lemma take_tok_all : forall x, forallb tokc x = true -> take_tok x = (x, []).
Proof. intros x H. rewrite <- (app_nil_r x) at 1. apply take_tok_app; simpl; auto. Qed.

Lemma lex_body_ok : forall b, wf_body b = true -> lex_body (render_body b) = Some b.
Proof.
  intros [|x|k|k x] H; simpl in H; unfold lex_body; simpl render_body.
  - reflexivity.
  - destruct (tok_ok_inv x H) as [Hne Hx]. rewrite take_tok_all by assumption.
    destruct x; [congruence | reflexivity].
  - destruct (tok_ok_inv k H) as [Hne Hk]. rewrite take_tok_app by (simpl; auto).
    simpl. destruct k; [congruence | reflexivity].
  - apply andb_true_iff in H. destruct H as [H1 H2].
    destruct (tok_ok_inv k H1) as [Hnk Hk]. destruct (tok_ok_inv x H2) as [Hnx Hx].
    rewrite take_tok_app by (simpl; auto). simpl.
    destruct k; [congruence|]. rewrite take_tok_all by assumption.
    destruct x; [congruence | reflexivity].
Qed.

(* a body never begins with a space, nor with "- " *)
Lemma body_head : forall b, wf_body b = true ->
  nosp (render_body b) /\ starts2 45 32 (render_body b) = None.
Proof.
  assert (T : forall c, tokc c = true -> (c =? 32) = false).
  { intros c H. unfold tokc in H. destruct (c =? 32); [|reflexivity].
    rewrite orb_true_r in H. discriminate. }
  assert (K : forall x r, tok_ok x = true -> (r = [] \/ exists r', r = 58 :: r') ->
              nosp (x ++ r) /\ starts2 45 32 (x ++ r) = None).
  { intros x r H Hr. destruct (tok_ok_inv x H) as [Hne Hx].
    destruct x as [|c x]; [congruence|]. simpl in Hx. apply andb_true_iff in Hx. destruct Hx as [Hc Hx].
    split; [simpl; apply T, Hc|].
    simpl. destruct x as [|c2 x]; simpl.
    - destruct Hr as [->|[r' ->]]; [reflexivity|]. simpl. rewrite andb_false_r. reflexivity.
    - simpl in Hx. apply andb_true_iff in Hx. destruct Hx as [Hc2 _]. rewrite (T c2 Hc2), andb_false_r. reflexivity. }
  intros [|x|k|k x] H; simpl in *.
  - split; [exact I | reflexivity].
  - rewrite <- (app_nil_r x). apply K; auto.
  - apply K; eauto.
  - apply andb_true_iff in H. apply K; [apply H | eauto].
Qed.

Lemma lex_line_ok : forall l, wf_line l = true -> lex_line (render_line l) = Some l.
Proof.
  intros [[k d] b] H. simpl in H. unfold lex_line, render_line.
  destruct (body_head b H) as [Hsp Hd].
  destruct d.
  - rewrite unind_ind by (simpl; reflexivity). simpl. rewrite lex_body_ok by assumption. reflexivity.
  - simpl app. rewrite unind_ind by assumption. rewrite Hd.
    destruct (render_body b) as [|c r] eqn:E.
    + destruct b as [|x|k0|k0 x]; simpl in *; try reflexivity.
      * destruct (tok_ok_inv x H) as [Hne _]. congruence.
      * destruct k0; discriminate.
      * destruct k0; discriminate.
    + simpl in Hsp. rewrite Hsp. rewrite <- E, lex_body_ok by assumption. reflexivity.
Qed.

Lemma lex_lines_ok : forall ls, forallb wf_line ls = true -> lex_lines (map render_line ls) = Some ls.
Proof.
  induction ls as [|l r IH]; simpl; intros H; [reflexivity|].
  apply andb_true_iff in H. destruct H as [H1 H2]. rewrite lex_line_ok, IH by assumption. reflexivity.
Qed.

Lemma lex_text_ok : forall ls, ls <> [] -> forallb wf_line ls = true ->
  lex_lines (split_nl (join_nl (map render_line ls))) = Some ls.
Proof.
  intros ls Hne H. rewrite split_join.
  - apply lex_lines_ok, H.
  - destruct ls; [congruence | discriminate].
  - clear Hne. induction ls as [|l r IH]; simpl in *; [reflexivity|].
    apply andb_true_iff in H. destruct H as [H1 H2]. rewrite nonl_line, IH by assumption. reflexivity.
Qed.

(* ================================================================== block structure *)

Definition stopd (n : nat) (rest : list yline) : Prop :=
  match rest with [] => True | (m, _, _) :: _ => (m < n)%nat end.
Definition stopl (n : nat) (rest : list yline) : Prop :=
  match rest with [] => True | (m, d, _) :: _ => (m < n)%nat \/ (m = n /\ d = false) end.
Definition le_hd (n : nat) (rest : list yline) : Prop :=
  match rest with [] => True | (m, _, _) :: _ => (m <= n)%nat end.

Lemma stopd_stopl : forall n rest, stopd n rest -> stopl n rest.
Proof. intros n [|[[m d] b] r]; simpl; auto. Qed.
Lemma stopl_le : forall n rest, stopl n rest -> le_hd n rest.
Proof. intros n [|[[m d] b] r]; simpl; auto. intros [H|[H _]]; lia. Qed.
Lemma le_stopd : forall n rest, le_hd n rest -> stopd (S n) rest.
Proof. intros n [|[[m d] b] r]; simpl; auto. lia. Qed.

Lemma pitems_stop : forall fuel n rest, stopl n rest -> pitems fuel n rest = Some ([], rest).
Proof.
  intros fuel n [|[[m d] b] r] H; destruct fuel; simpl; try reflexivity;
    destruct d; try reflexivity; destruct H as [H|[_ H]]; try discriminate;
    (replace (Nat.eqb m n) with false by (symmetry; apply Nat.eqb_neq; lia)); reflexivity.
Qed.

Lemma pkvs_stop : forall fuel n rest, stopd n rest -> pkvs fuel n rest = Some ([], rest).
Proof.
  intros fuel n [|[[m d] b] r] H; destruct fuel; simpl; try reflexivity;
    destruct d; try reflexivity; simpl in H;
    (replace (Nat.eqb m n) with false by (symmetry; apply Nat.eqb_neq; lia)); reflexivity.
Qed.

Definition tdom (t : ytree) : bool := yaml_domainb t.

(* the statement proved by induction on the tree *)
Definition PV (t : ytree) : Prop :=
  yaml_domainb t = true ->
  forall n fuel rest,
    (match t with SDict _ => stopd n rest | _ => stopl n rest end) ->
    (2 * length (snd (yv n t) ++ rest) + 1 <= fuel)%nat ->
    pval fuel n (fst (yv n t)) (snd (yv n t) ++ rest) = Some (t, rest).

Lemma dom_list : forall x l, yaml_domainb (SList (x :: l)) = true ->
  yaml_domainb x = true /\ (l = [] \/ yaml_domainb (SList l) = true).
Proof.
  intros x l H. unfold yaml_domainb in *. simpl in H.
  apply andb_true_iff in H. destruct H as [H1 H2].
  apply andb_true_iff in H1. destruct H1 as [Hx Hl].
  apply andb_true_iff in H2. destruct H2 as [Hx2 Hl2].
  split; [now rewrite Hx, Hx2|].
  destruct l; [now left|right]. simpl in *. now rewrite Hl, Hl2.
Qed.

Lemma dom_dict : forall k v r, yaml_domainb (SDict ((k, v) :: r)) = true ->
  tok_ok k = true /\ yaml_domainb v = true /\ (r = [] \/ yaml_domainb (SDict r) = true).
Proof.
  intros k v r H. unfold yaml_domainb in *. simpl in H.
  apply andb_true_iff in H. destruct H as [H1 H2].
  apply andb_true_iff in H1. destruct H1 as [Hkv Hr].
  apply andb_true_iff in Hkv. destruct Hkv as [Hk Hv].
  apply andb_true_iff in H2. destruct H2 as [Hv2 Hr2].
  split; [assumption|]. split; [now rewrite Hv, Hv2|].
  destruct r; [now left|right]. simpl in *. now rewrite Hr, Hr2.
Qed.

Arguments yitems : simpl never.
Arguments ykvlines : simpl never.
Arguments ykvf : simpl never.

Lemma yv_list : forall n x l, yv n (SList (x :: l)) = (BEmpty, yitems n (x :: l)).
Proof. reflexivity. Qed.
Lemma yv_dict : forall n kv r, yv n (SDict (kv :: r)) = (fst (ykvf n kv), snd (ykvf n kv) ++ ykvlines n r).
Proof. intros n [k v] r. reflexivity. Qed.

Lemma yitems_cons : forall n x l,
  yitems n (x :: l) = (n, true, fst (yv (S n) x)) :: snd (yv (S n) x) ++ yitems n l.
Proof. reflexivity. Qed.
Lemma ykvlines_cons : forall n kv r,
  ykvlines n (kv :: r) = (n, false, fst (ykvf n kv)) :: snd (ykvf n kv) ++ ykvlines n r.
Proof. reflexivity. Qed.

Lemma le_hd_items : forall n l rest, stopl n rest -> le_hd n (yitems n l ++ rest).
Proof.
  intros n [|x l] rest H.
  - simpl. apply stopl_le, H.
  - rewrite yitems_cons. simpl. lia.
Qed.

(* the items of a sequence *)
Lemma items_ok : forall l, Forall PV l -> (l = [] \/ yaml_domainb (SList l) = true) ->
  forall n fuel rest, stopl n rest ->
    (2 * length (yitems n l ++ rest) <= fuel)%nat ->
    pitems fuel n (yitems n l ++ rest) = Some (l, rest).
Proof.
  induction l as [|x l IH]; intros HP Hd n fuel rest Hs Hf.
  - simpl. apply pitems_stop, Hs.
  - destruct Hd as [Hd|Hd]; [discriminate|].
    apply dom_list in Hd. destruct Hd as [Hx Hl].
    inversion HP as [|? ? Px Pl]; subst.
    rewrite yitems_cons in *. rewrite <- app_comm_cons, <- app_assoc in *.
    simpl length in Hf.
    destruct fuel as [|f]; [lia|].
    simpl. rewrite Nat.eqb_refl.
    assert (L : le_hd n (yitems n l ++ rest)) by (apply le_hd_items, Hs).
    rewrite (Px Hx (S n) f (yitems n l ++ rest)).
    + rewrite IH; auto. rewrite app_length in Hf. lia.
    + destruct x; [| |apply le_stopd, L]; apply stopd_stopl, le_stopd, L.
    + lia.
Qed.

Lemma ykvf_key : forall n kv, is_key (fst (ykvf n kv)) = true.
Proof. intros n [k [x|l|[|kv r]]]; reflexivity. Qed.

Lemma yv_dict_key : forall n kv r, is_key (fst (yv n (SDict (kv :: r)))) = true.
Proof. intros. rewrite yv_dict. apply ykvf_key. Qed.

(* one entry of a mapping *)
Lemma kv1_ok : forall k v, PV v -> tok_ok k = true -> yaml_domainb v = true ->
  forall n f rest, stopl n rest ->
    (2 * length (snd (ykvf n (k, v)) ++ rest) <= f)%nat ->
    pkv1 (pval f) (pitems f) n (fst (ykvf n (k, v))) (snd (ykvf n (k, v)) ++ rest) = Some ((k, v), rest).
Proof.
  intros k v Pv Hk Hv n f rest Hs Hf.
  destruct v as [x|l|kvs].
  - reflexivity.
  - (* a sequence value, at the same level *)
    destruct l as [|x l]; [discriminate|].
    assert (E : pval (S f) n BEmpty (yitems n (x :: l) ++ rest) = Some (SList (x :: l), rest)).
    { specialize (Pv Hv n (S f) rest Hs). rewrite yv_list in Pv. apply Pv.
      change (snd (BEmpty, yitems n (x :: l))) with (yitems n (x :: l)).
      change (snd (ykvf n (k, SList (x :: l)))) with (yitems n (x :: l)) in Hf. lia. }
    change (fst (ykvf n (k, SList (x :: l)))) with (BKey k).
    change (snd (ykvf n (k, SList (x :: l)))) with (yitems n (x :: l)).
    simpl in E. unfold pkv1.
    rewrite yitems_cons in *. rewrite <- app_comm_cons in *.
    rewrite Nat.eqb_refl.
    destruct (pitems f n _) as [[[|y l'] r']|]; try discriminate.
    inversion E; subst. reflexivity.
  - (* a mapping value, one level deeper *)
    destruct kvs as [|kv r]; [discriminate|].
    change (fst (ykvf n (k, SDict (kv :: r)))) with (BKey k).
    change (snd (ykvf n (k, SDict (kv :: r))))
      with ((S n, false, fst (yv (S n) (SDict (kv :: r)))) :: snd (yv (S n) (SDict (kv :: r)))) in *.
    unfold pkv1. rewrite <- app_comm_cons. rewrite Nat.eqb_refl.
    rewrite yv_dict_key. simpl andb. cbv iota.
    match goal with |- match ?X with _ => _ end = _ => assert (E : X = Some (SDict (kv :: r), rest)) end.
    { apply (Pv Hv (S n) f rest).
      - apply le_stopd, stopl_le, Hs.
      - simpl length in Hf. simpl length. lia. }
    rewrite E. reflexivity.
Qed.

Lemma le_hd_kvs : forall n r rest, stopd n rest -> stopl n (ykvlines n r ++ rest).
Proof.
  intros n [|kv r] rest H.
  - simpl. apply stopd_stopl, H.
  - rewrite ykvlines_cons. simpl. right. auto.
Qed.

(* the further entries of a mapping *)
Lemma kvs_ok : forall r, Forall (fun kv => PV (snd kv)) r -> (r = [] \/ yaml_domainb (SDict r) = true) ->
  forall n fuel rest, stopd n rest ->
    (2 * length (ykvlines n r ++ rest) <= fuel)%nat ->
    pkvs fuel n (ykvlines n r ++ rest) = Some (r, rest).
Proof.
  induction r as [|[k v] r IH]; intros HP Hd n fuel rest Hs Hf.
  - simpl. apply pkvs_stop, Hs.
  - destruct Hd as [Hd|Hd]; [discriminate|].
    apply dom_dict in Hd. destruct Hd as (Hk & Hv & Hr).
    inversion HP as [|? ? Pv Pr]; subst. simpl in Pv.
    rewrite ykvlines_cons in *. rewrite <- app_comm_cons, <- app_assoc in *.
    simpl length in Hf.
    destruct fuel as [|f]; [lia|].
    simpl pkvs. rewrite Nat.eqb_refl, ykvf_key. simpl andb. cbv iota.
    rewrite kv1_ok; auto.
    + rewrite IH; auto. rewrite app_length in Hf. lia.
    + apply le_hd_kvs, Hs.
    + lia.
Qed.

Lemma pval_empty : forall f n r,
  pval (S f) n BEmpty r = match pitems f n r with Some (x :: l, r') => Some (SList (x :: l), r') | _ => None end.
Proof. reflexivity. Qed.

Lemma pval_all : forall t, PV t.
Proof.
  induction t as [x|l IH|kvs IH] using stree_ind2; intros Hd n fuel rest Hs Hf.
  - destruct fuel; [lia|]. reflexivity.
  - destruct l as [|x l]; [discriminate|].
    rewrite yv_list in *. simpl fst; simpl snd in *.
    destruct fuel as [|f]; [lia|]. rewrite pval_empty.
    rewrite items_ok; auto. lia.
  - destruct kvs as [|[k v] r]; [discriminate|].
    rewrite yv_dict in *. simpl fst in *; simpl snd in *.
    destruct fuel as [|f]; [lia|].
    pose proof (dom_dict _ _ _ Hd) as (Hk & Hv & Hr).
    inversion IH as [|? ? Pv Pr]; subst. simpl in Pv.
    rewrite <- app_assoc in *.
    assert (E : forall h, is_key h = true -> forall X,
              pval (S f) n h X =
              match pkv1 (pval f) (pitems f) n h X with
              | Some (kv, r') => match pkvs f n r' with Some (kvs, r'') => Some (SDict (kv :: kvs), r'') | None => None end
              | None => None
              end).
    { intros [| | |] Hh X; try discriminate; reflexivity. }
    rewrite E by apply ykvf_key.
    rewrite kv1_ok; auto.
    + rewrite kvs_ok; auto. rewrite app_length in Hf. lia.
    + apply le_hd_kvs, Hs.
    + lia.
Qed.

(* ================================================================== well-formed lines *)

Lemma wf_yv : forall t, yaml_domainb t = true -> forall n,
  wf_body (fst (yv n t)) = true /\ forallb wf_line (snd (yv n t)) = true.
Proof.
  induction t as [x|l IH|kvs IH] using stree_ind2; intros Hd n.
  - unfold yaml_domainb in Hd. simpl in *. rewrite andb_true_r in Hd. auto.
  - destruct l as [|x l]; [discriminate|]. rewrite yv_list. simpl fst; simpl snd. split; [reflexivity|].
    revert Hd IH. generalize (x :: l) as l0. clear x l.
    induction l0 as [|x l IHl]; intros Hd IH; [reflexivity|].
    apply dom_list in Hd. destruct Hd as [Hx Hl].
    inversion IH as [|? ? Px Pl]; subst.
    rewrite yitems_cons. simpl forallb. rewrite forallb_app.
    destruct (Px Hx (S n)) as [A B]. rewrite A, B. simpl.
    destruct Hl as [->|Hl]; [reflexivity|]. apply IHl; assumption.
  - destruct kvs as [|kv r]; [discriminate|]. rewrite yv_dict. simpl fst; simpl snd.
    assert (K : forall k v, tok_ok k = true -> yaml_domainb v = true ->
                (forall n, wf_body (fst (yv n v)) = true /\ forallb wf_line (snd (yv n v)) = true) ->
                wf_body (fst (ykvf n (k, v))) = true /\ forallb wf_line (snd (ykvf n (k, v))) = true).
    { intros k v Hk Hv Pv. destruct v as [x|l|[|kv' r']].
      - unfold yaml_domainb in Hv. simpl in Hv. rewrite andb_true_r in Hv.
        change (ykvf n (k, SLeaf x)) with (BKeyTok k x, @nil yline). simpl. rewrite Hk, Hv. auto.
      - change (ykvf n (k, SList l)) with (BKey k, snd (yv n (SList l))).
        split; [exact Hk | apply (Pv n)].
      - discriminate.
      - change (ykvf n (k, SDict (kv' :: r')))
          with (BKey k, (S n, false, fst (yv (S n) (SDict (kv' :: r')))) :: snd (yv (S n) (SDict (kv' :: r')))).
        destruct (Pv (S n)) as [A B]. split; [exact Hk|].
        change (wf_body (fst (yv (S n) (SDict (kv' :: r')))) &&
                forallb wf_line (snd (yv (S n) (SDict (kv' :: r')))) = true).
        rewrite A, B. reflexivity. }
    destruct kv as [k v].
    pose proof (dom_dict _ _ _ Hd) as (Hk & Hv & Hr).
    inversion IH as [|? ? Pv Pr]; subst. simpl in Pv.
    destruct (K k v Hk Hv (Pv Hv)) as [A B].
    split; [assumption|]. rewrite forallb_app, B. simpl.
    clear A B Pv Hv Hk Hd IH. revert Hr Pr.
    induction r as [|[k2 v2] r IHr]; intros Hr Pr; [reflexivity|].
    destruct Hr as [Hr|Hr]; [discriminate|].
    apply dom_dict in Hr. destruct Hr as (Hk & Hv & Hr).
    inversion Pr as [|? ? Pv Pr']; subst. simpl in Pv.
    rewrite ykvlines_cons. simpl forallb. rewrite forallb_app.
    destruct (K k2 v2 Hk Hv (Pv Hv)) as [A B]. rewrite A, B. simpl. apply IHr; assumption.
Qed.

(* ================================================================== the YAML theorems *)

Theorem C12_struct_yaml_tokens : forall t, yaml_domain t -> yaml_parse (yaml_print t) = Some t.
Proof.
  intros t H. unfold yaml_parse, yaml_print, ylines.
  destruct (wf_yv t H O) as [A B].
  rewrite lex_text_ok; [| discriminate | simpl; rewrite A; exact B].
  pose proof (pval_all t H O (S (2 * length (snd (yv 0 t)))) []) as E.
  rewrite app_nil_r in E. rewrite E; [reflexivity | destruct t; exact I | lia].
Qed.

Section YamlScalarCodec.
  Variable A : Type.
  Variable dump : A -> list Z.
  Variable lexs : list Z -> option A.
  Variable in_dom : A -> bool.
  (* PyYAML's part, tested by the harness on every scalar of every case: *)
  Hypothesis scalar_rt : forall x, in_dom x = true -> lexs (dump x) = Some x.
  Hypothesis scalar_lex : forall x, in_dom x = true -> tok_ok (dump x) = true.

  Lemma straverse_map : forall t, stree_all in_dom t = true -> straverse A lexs (stree_map dump t) = Some t.
  Proof.
    induction t as [x|l IH|kvs IH] using stree_ind2; intros H; simpl in *.
    - rewrite scalar_rt by assumption. reflexivity.
    - match goal with |- option_map _ ?X = _ => assert (E : X = Some l) end.
      { induction l as [|x l IHl]; [reflexivity|].
        simpl in H. apply andb_true_iff in H. destruct H as [H1 H2].
        inversion IH as [|? ? Px Pl]; subst. simpl. rewrite Px, IHl by assumption. reflexivity. }
      rewrite E. reflexivity.
    - match goal with |- option_map _ ?X = _ => assert (E : X = Some kvs) end.
      { induction kvs as [|[k v] r IHr]; [reflexivity|].
        simpl in H. apply andb_true_iff in H. destruct H as [H1 H2].
        apply andb_true_iff in H1. destruct H1 as [Hk Hv].
        inversion IH as [|? ? Pv Pr]; subst. simpl in Pv. simpl.
        rewrite scalar_rt, Pv, IHr by assumption. reflexivity. }
      rewrite E. reflexivity.
  Qed.

  Lemma dom_map : forall t, stree_all in_dom t = true -> stree_nonempty t = true ->
    yaml_domainb (stree_map dump t) = true.
  Proof.
    unfold yaml_domainb.
    induction t as [x|l IH|kvs IH] using stree_ind2; intros H N; simpl in *.
    - rewrite scalar_lex by assumption. reflexivity.
    - apply andb_true_iff in N. destruct N as [N1 N2].
      destruct l as [|x0 l0]; [discriminate|]. simpl negb. rewrite andb_true_l, andb_true_iff.
      revert H N2 IH. generalize (x0 :: l0) as l. clear. intros l H N2 IH.
      induction l as [|x l IHl]; [split; reflexivity|].
      simpl in *. apply andb_true_iff in H. destruct H as [H1 H2].
      apply andb_true_iff in N2. destruct N2 as [N1 N2].
      inversion IH as [|? ? Px Pl]; subst.
      destruct (IHl H2 N2 Pl) as [E1 E2]. rewrite E1, E2.
      specialize (Px H1 N1). apply andb_true_iff in Px. destruct Px as [P1 P2]. rewrite P1, P2. split; reflexivity.
    - apply andb_true_iff in N. destruct N as [N1 N2].
      destruct kvs as [|kv0 r0]; [discriminate|]. simpl negb. rewrite andb_true_l, andb_true_iff.
      revert H N2 IH. generalize (kv0 :: r0) as l. clear - scalar_lex. intros l H N2 IH.
      induction l as [|[k v] l IHl]; [split; reflexivity|].
      simpl in *. apply andb_true_iff in H. destruct H as [H1 H2].
      apply andb_true_iff in H1. destruct H1 as [Hk Hv].
      apply andb_true_iff in N2. destruct N2 as [N1 N2].
      inversion IH as [|? ? Pv Pl]; subst. simpl in Pv.
      destruct (IHl H2 N2 Pl) as [E1 E2]. rewrite E1, E2.
      specialize (Pv Hv N1). apply andb_true_iff in Pv. destruct Pv as [P1 P2].
      rewrite P1, P2, scalar_lex by assumption. split; reflexivity.
  Qed.

  Theorem C12_struct_yaml_codec : forall t, stree_all in_dom t = true -> stree_nonempty t = true ->
    yaml_parse_s A lexs (yaml_print_s A dump t) = Some t.
  Proof.
    intros t H N. unfold yaml_parse_s, yaml_print_s.
    rewrite C12_struct_yaml_tokens by (apply dom_map; assumption).
    apply straverse_map, H.
  Qed.
End YamlScalarCodec.

(* the hypotheses are satisfiable and the domain is inhabited: scalars as their own tokens *)
Definition example_ytree : ytree :=
  SDict [([97], SList [SLeaf [49]; SList [SLeaf [45; 49]; SDict [([100], SLeaf [52])]]]);
         ([98], SDict [([99], SList [SLeaf [51]; SDict [([100], SLeaf [39; 52; 39]); ([101], SList [SLeaf [120]])]])]);
         ([45], SLeaf [45])].
Example C12_struct_yaml_inhabited :
  yaml_domain example_ytree /\
  yaml_parse_s (list Z) Some (yaml_print_s (list Z) (fun x => x) example_ytree) = Some example_ytree.
Proof.
  split; [vm_compute; reflexivity|].
  apply (C12_struct_yaml_codec (list Z) (fun x => x) Some tok_ok); auto; vm_compute; reflexivity.
Qed.

(* outside the non-empty domain the statement fails for the model as it does for the code (D15): an empty sequence,
   an empty mapping and an empty string are all printed as nothing *)
Theorem C12_struct_yaml_empty_refuted :
  exists t, stree_all (forallb tokc) t = true /\ yaml_parse (yaml_print t) <> Some t.
Proof. exists (SDict [([97], SList [])]). split; [reflexivity | vm_compute; discriminate]. Qed.

(* ================================================================== plist *)

Arguments pind : simpl never.
Arguments tagtext : simpl never.
Arguments pleaf : simpl never.

Lemma flat_map_cons1 : forall (A B : Type) (f : A -> list B) x l, flat_map f (x :: l) = f x ++ flat_map f l.
Proof. reflexivity. Qed.

(* the tokens of a printed value *)
Definition leaf_toks (g : ptag) (s : list Z) : list ptok :=
  KOpen g :: match s with [] => [] | _ => [KText s] end ++ [KClose g].
Fixpoint ptoks (t : ptree) : list ptok :=
  match t with
  | PStr s => leaf_toks Gstring s
  | PInt s => leaf_toks Ginteger s
  | PReal s => leaf_toks Greal s
  | PBool b => [KSelf (if b then Gtrue else Gfalse)]
  | PArr l => KOpen Garray :: flat_map ptoks l ++ [KClose Garray]
  | PDict kvs => KOpen Gdict :: flat_map (fun kv => match kv with (k, v) => leaf_toks Gkey k ++ ptoks v end) kvs
                 ++ [KClose Gdict]
  end.

(* ------------------------------------------------------------------ lexing *)

Lemma strip_app : forall p r, strip p (p ++ r) = Some r.
Proof. induction p as [|a p IH]; intros r; simpl; [reflexivity|]. rewrite Z.eqb_refl. apply IH. Qed.

Definition no_gt (s : list Z) : bool := forallb (fun c => negb (c =? 62)) s.

Lemma tag_tok_inner : forall k, In k all_tag_toks -> tag_tok (inner k) = Some k /\ no_gt (inner k) = true.
Proof.
  intros k H. unfold all_tag_toks in H. simpl in H.
  repeat (destruct H as [<-|H]; [split; vm_compute; reflexivity|]). destruct H.
Qed.

Lemma plex_intag : forall b r buf acc, no_gt b = true ->
  plex (b ++ 62 :: r) true buf acc =
  match tag_tok (rev (rev b ++ buf)) with Some k => plex r false [] (k :: acc) | None => None end.
Proof.
  induction b as [|c b IH]; intros r buf acc H.
  - reflexivity.
  - simpl in H. apply andb_true_iff in H. destruct H as [H1 H2].
    simpl. destruct (c =? 62); [discriminate|]. rewrite IH by assumption.
    rewrite <- app_assoc. reflexivity.
Qed.

Lemma plex_ws : forall w r buf acc, forallb pws w = true -> forallb (fun c => negb (c =? 60)) w = true ->
  plex (w ++ r) false buf acc = plex r false buf acc.
Proof.
  induction w as [|c w IH]; intros r buf acc H L; [reflexivity|].
  simpl in H, L. apply andb_true_iff in H. destruct H as [H1 H2]. apply andb_true_iff in L. destruct L as [L1 L2].
  simpl. destruct (c =? 60); [discriminate|]. rewrite H1. apply IH; assumption.
Qed.

Lemma plex_text : forall s r buf acc, text_ok s = true ->
  plex (s ++ r) false buf acc = plex r false (rev s ++ buf) acc.
Proof.
  induction s as [|c s IH]; intros r buf acc H; [reflexivity|].
  simpl in H. apply andb_true_iff in H. destruct H as [H1 H2].
  unfold textc in H1. apply negb_true_iff in H1.
  repeat (apply orb_false_iff in H1; destruct H1 as [H1 ?]).
  simpl. unfold pws. repeat match goal with E : (c =? _) = false |- _ => rewrite E; clear E end. simpl.
  rewrite IH by assumption. rewrite <- app_assoc. reflexivity.
Qed.

Definition text_acc (s : list Z) (acc : list ptok) : list ptok :=
  match s with [] => acc | _ => KText s :: acc end.

(* character data followed by a tag *)
Lemma plex_text_tag : forall s k r acc, text_ok s = true -> In k all_tag_toks ->
  plex (s ++ tagtext k ++ r) false [] acc = plex r false [] (k :: text_acc s acc).
Proof.
  intros s k r acc Hs Hk. destruct (tag_tok_inner k Hk) as [T G].
  rewrite plex_text by assumption. rewrite app_nil_r.
  unfold tagtext. simpl. rewrite <- app_assoc. simpl.
  rewrite plex_intag by assumption. rewrite app_nil_r, rev_involutive, T.
  f_equal. f_equal. unfold pflush, text_acc.
  destruct s as [|c s]; [reflexivity|].
  destruct (rev (c :: s)) eqn:E.
  - apply (f_equal (@length Z)) in E. rewrite rev_length in E. discriminate.
  - rewrite <- E, rev_involutive. reflexivity.
Qed.

Lemma plex_tag : forall k r acc, In k all_tag_toks ->
  plex (tagtext k ++ r) false [] acc = plex r false [] (k :: acc).
Proof. intros k r acc H. apply (plex_text_tag [] k r acc); auto. Qed.

Lemma pws_pind : forall n, forallb pws (10 :: pind n) = true /\ forallb (fun c => negb (c =? 60)) (10 :: pind n) = true.
Proof. induction n as [|n [A B]]; [split; reflexivity|]. simpl in *. auto. Qed.

Lemma plex_nl : forall n r acc, plex (10 :: pind n ++ r) false [] acc = plex r false [] acc.
Proof.
  intros n r acc. destruct (pws_pind n) as [A B].
  change (10 :: pind n ++ r) with ((10 :: pind n) ++ r). apply plex_ws; assumption.
Qed.

Ltac in_tags := unfold all_tag_toks; simpl; tauto.

Lemma plex_leaf : forall g s r acc, text_ok s = true ->
  In (KOpen g) all_tag_toks -> In (KClose g) all_tag_toks ->
  plex (pleaf g s ++ r) false [] acc = plex r false [] (rev (leaf_toks g s) ++ acc).
Proof.
  intros g s r acc Hs Ho Hc. unfold pleaf. rewrite <- !app_assoc.
  rewrite plex_tag by assumption. rewrite plex_text_tag by assumption.
  unfold leaf_toks, text_acc. destruct s; simpl; reflexivity.
Qed.

Lemma pp_arr : forall n l, pp n (PArr l) =
  tagtext (KOpen Garray) ++ flat_map (fun c => 10 :: pind (S n) ++ pp (S n) c) l ++
  match l with [] => [] | _ => 10 :: pind n end ++ tagtext (KClose Garray).
Proof. reflexivity. Qed.
Lemma pp_dict : forall n kvs, pp n (PDict kvs) =
  tagtext (KOpen Gdict) ++
  flat_map (fun kv => match kv with (k, v) =>
              10 :: pind (S n) ++ pleaf Gkey k ++ 10 :: pind (S n) ++ pp (S n) v end) kvs ++
  match kvs with [] => [] | _ => 10 :: pind n end ++ tagtext (KClose Gdict).
Proof. reflexivity. Qed.
Lemma pp_bool : forall n b, pp n (PBool b) = tagtext (KSelf (if b then Gtrue else Gfalse)).
Proof. reflexivity. Qed.

Lemma plex_pp : forall t, plist_domainb t = true -> forall n r acc,
  plex (pp n t ++ r) false [] acc = plex r false [] (rev (ptoks t) ++ acc).
Proof.
  induction t as [s|s|s|b|l IH|kvs IH] using ptree_ind2; intros Hd n r acc; simpl in Hd.
  - apply plex_leaf; [assumption | in_tags | in_tags].
  - apply plex_leaf; [|in_tags|in_tags]. unfold ntext_ok in Hd. apply andb_true_iff in Hd. apply Hd.
  - apply plex_leaf; [|in_tags|in_tags]. unfold ntext_ok in Hd. apply andb_true_iff in Hd. apply Hd.
  - rewrite pp_bool. rewrite plex_tag by (destruct b; in_tags). destruct b; reflexivity.
  - rewrite pp_arr. rewrite <- ?app_assoc. rewrite plex_tag by in_tags.
    assert (R : rev (ptoks (PArr l)) ++ acc = KClose Garray :: rev (flat_map ptoks l) ++ KOpen Garray :: acc).
    { simpl. rewrite rev_app_distr. simpl. rewrite <- app_assoc. reflexivity. }
    rewrite R. clear R.
    assert (E : forall acc0 tl, plex (flat_map (fun c => 10 :: pind (S n) ++ pp (S n) c) l ++ tl) false [] acc0
                = plex tl false [] (rev (flat_map ptoks l) ++ acc0)).
    { clear r acc. induction l as [|x l IHl]; intros acc0 tl; [reflexivity|].
      simpl in Hd. apply andb_true_iff in Hd. destruct Hd as [Hx Hl].
      inversion IH as [|? ? Px Pl]; subst.
      rewrite !flat_map_cons1. rewrite <- !app_assoc. rewrite <- app_comm_cons. rewrite <- app_assoc. rewrite plex_nl.
      rewrite Px by assumption. rewrite IHl by assumption.
      rewrite rev_app_distr, <- app_assoc. reflexivity. }
    rewrite E.
    destruct l as [|x l].
    + rewrite app_nil_l. rewrite plex_tag by in_tags. reflexivity.
    + rewrite <- app_comm_cons, <- ?app_assoc, plex_nl. rewrite plex_tag by in_tags. reflexivity.
  - rewrite pp_dict. rewrite <- ?app_assoc. rewrite plex_tag by in_tags.
    assert (R : rev (ptoks (PDict kvs)) ++ acc =
                KClose Gdict :: rev (flat_map (fun kv : list Z * ptree =>
                                      match kv with (k, v) => leaf_toks Gkey k ++ ptoks v end) kvs) ++ KOpen Gdict :: acc).
    { simpl. rewrite rev_app_distr. simpl. rewrite <- app_assoc. reflexivity. }
    rewrite R. clear R.
    set (F := fun kv : list Z * ptree => match kv with (k, v) =>
                 10 :: pind (S n) ++ pleaf Gkey k ++ 10 :: pind (S n) ++ pp (S n) v end).
    set (G := fun kv : list Z * ptree => match kv with (k, v) => leaf_toks Gkey k ++ ptoks v end).
    assert (E : forall acc0 tl, plex (flat_map F kvs ++ tl) false [] acc0
                = plex tl false [] (rev (flat_map G kvs) ++ acc0)).
    { clear r acc. induction kvs as [|[k v] kvs IHl]; intros acc0 tl; [reflexivity|].
      simpl in Hd. apply andb_true_iff in Hd. destruct Hd as [Hkv Hl].
      apply andb_true_iff in Hkv. destruct Hkv as [Hk Hv].
      inversion IH as [|? ? Pv Pl]; subst. simpl in Pv.
      rewrite !flat_map_cons1. unfold F at 1, G at 1. rewrite <- !app_assoc. rewrite <- app_comm_cons.
      rewrite <- !app_assoc. rewrite plex_nl.
      rewrite plex_leaf by (try assumption; in_tags).
      rewrite <- app_comm_cons. rewrite <- !app_assoc. rewrite plex_nl.
      rewrite Pv by assumption. rewrite IHl by assumption.
      rewrite !rev_app_distr, <- !app_assoc. reflexivity. }
    rewrite E.
    destruct kvs as [|kv kvs].
    + rewrite app_nil_l. rewrite plex_tag by in_tags. reflexivity.
    + rewrite <- app_comm_cons, <- ?app_assoc, plex_nl. rewrite plex_tag by in_tags. reflexivity.
Qed.

(* ------------------------------------------------------------------ structure *)

Definition is_close (k : ptok) : bool := match k with KClose _ => true | _ => false end.

Lemma ptoks_head : forall t, exists k tl, ptoks t = k :: tl /\ is_close k = false.
Proof. intros [s|s|s|b|l|kvs]; simpl; unfold leaf_toks; do 2 eexists; (split; [reflexivity|reflexivity]). Qed.

Lemma ppis_step : forall f k tl, is_close k = false ->
  ppis (S f) (k :: tl) =
  match ppv f (k :: tl) with
  | Some (x, r') => match ppis f r' with Some (l, r'') => Some (x :: l, r'') | None => None end
  | None => None
  end.
Proof. intros f [g|g|g|s] tl H; try discriminate; reflexivity. Qed.

Lemma pleaf_toks_ok : forall g s r t, leaf_of g s = Some t -> text_ok s = true ->
  pleaf_toks g (match s with [] => [] | _ => [KText s] end ++ KClose g :: r) = Some (t, r).
Proof.
  intros g s r t H _. unfold pleaf_toks.
  assert (E : ptag_eqb g g = true) by (destruct g; reflexivity).
  destruct s as [|c s]; simpl; rewrite E, H; reflexivity.
Qed.

Definition PP (t : ptree) : Prop :=
  plist_domainb t = true -> forall fuel r,
    (2 * length (ptoks t ++ r) <= fuel)%nat -> ppv fuel (ptoks t ++ r) = Some (t, r).

Lemma ppv_leaf : forall g s t r fuel, leaf_of g s = Some t -> text_ok s = true ->
  (g = Gstring \/ g = Ginteger \/ g = Greal) ->
  (2 * length (leaf_toks g s ++ r) <= fuel)%nat -> ppv fuel (leaf_toks g s ++ r) = Some (t, r).
Proof.
  intros g s t r fuel H Hs Hg Hf. destruct fuel as [|f]; [simpl in Hf; lia|].
  unfold leaf_toks. rewrite <- app_comm_cons, <- app_assoc. simpl ([KClose g] ++ r).
  destruct Hg as [ -> | [ -> | -> ] ]; simpl ppv; apply pleaf_toks_ok; assumption.
Qed.

Lemma ppis_ok : forall l, Forall PP l -> forallb plist_domainb l = true ->
  forall fuel r, (2 * length (flat_map ptoks l ++ KClose Garray :: r) + 1 <= fuel)%nat ->
    ppis fuel (flat_map ptoks l ++ KClose Garray :: r) = Some (l, r).
Proof.
  induction l as [|x l IH]; intros HP Hd fuel r Hf.
  - destruct fuel; [lia|]. reflexivity.
  - simpl in Hd. apply andb_true_iff in Hd. destruct Hd as [Hx Hl].
    inversion HP as [|? ? Px Pl]; subst.
    simpl flat_map in *. rewrite <- app_assoc in *.
    destruct fuel as [|f]; [lia|].
    destruct (ptoks_head x) as (k & tl & E & Hk).
    rewrite E at 1. rewrite <- app_comm_cons. rewrite ppis_step by assumption.
    rewrite app_comm_cons, <- E.
    rewrite app_length in Hf.
    assert (1 <= length (ptoks x))%nat by (rewrite E; simpl; lia).
    rewrite (Px Hx) by (rewrite app_length; lia).
    rewrite IH; auto. lia.
Qed.

Lemma ppks_step : forall f k tl, is_close k = false ->
  ppks (S f) (k :: tl) =
  match pkey_toks (k :: tl) with
  | Some (k, r1) =>
      match ppv f r1 with
      | Some (v, r') => match ppks f r' with Some (l, r'') => Some ((k, v) :: l, r'') | None => None end
      | None => None
      end
  | None => None
  end.
Proof. intros f [g|g|g|s] tl H; try discriminate; reflexivity. Qed.

Definition kv_toks (kv : list Z * ptree) : list ptok := match kv with (k, v) => leaf_toks Gkey k ++ ptoks v end.

Lemma ppks_ok : forall kvs, Forall (fun kv => PP (snd kv)) kvs ->
  forallb (fun kv => match kv with (k, v) => text_ok k && plist_domainb v end) kvs = true ->
  forall fuel r,
    (2 * length (flat_map kv_toks kvs ++ KClose Gdict :: r) + 1 <= fuel)%nat ->
    ppks fuel (flat_map kv_toks kvs ++ KClose Gdict :: r) = Some (kvs, r).
Proof.
  induction kvs as [|[k v] kvs IH]; intros HP Hd fuel r Hf.
  - destruct fuel; [lia|]. reflexivity.
  - simpl in Hd. apply andb_true_iff in Hd. destruct Hd as [Hkv Hl].
    apply andb_true_iff in Hkv. destruct Hkv as [Hk Hv].
    inversion HP as [|? ? Pv Pl]; subst. simpl in Pv.
    rewrite flat_map_cons1 in *. unfold kv_toks at 1 in Hf. unfold kv_toks at 1.
    rewrite <- !app_assoc in *.
    destruct fuel as [|f]; [lia|].
    set (REST := flat_map kv_toks kvs ++ KClose Gdict :: r) in *.
    assert (K : pkey_toks (leaf_toks Gkey k ++ ptoks v ++ REST) = Some (k, ptoks v ++ REST))
      by (destruct k; reflexivity).
    assert (L : (2 <= length (leaf_toks Gkey k))%nat) by (destruct k; simpl; lia).
    rewrite !app_length in Hf.
    unfold leaf_toks at 1. rewrite <- app_comm_cons. rewrite ppks_step by reflexivity.
    rewrite app_comm_cons. change (KOpen Gkey :: match k with [] => [] | _ => [KText k] end ++ [KClose Gkey])
      with (leaf_toks Gkey k).
    rewrite K. rewrite (Pv Hv) by (rewrite app_length; lia).
    unfold REST. rewrite IH; auto. fold REST. lia.
Qed.

Lemma ptoks_dict : forall kvs, ptoks (PDict kvs) = KOpen Gdict :: flat_map kv_toks kvs ++ [KClose Gdict].
Proof. reflexivity. Qed.

Lemma ppv_all : forall t, PP t.
Proof.
  induction t as [s|s|s|b|l IH|kvs IH] using ptree_ind2; intros Hd fuel r Hf; simpl in Hd.
  - apply ppv_leaf; auto.
  - unfold ntext_ok in Hd. apply andb_true_iff in Hd. destruct Hd as [Hn Hs].
    apply ppv_leaf; auto. destruct s; [discriminate | reflexivity].
  - unfold ntext_ok in Hd. apply andb_true_iff in Hd. destruct Hd as [Hn Hs].
    apply ppv_leaf; auto. destruct s; [discriminate | reflexivity].
  - destruct fuel as [|f]; [simpl in Hf; lia|]. destruct b; reflexivity.
  - simpl ptoks in *. rewrite <- app_comm_cons, <- app_assoc in *. simpl ([KClose Garray] ++ r) in *.
    destruct fuel as [|f]; [simpl in Hf; lia|].
    simpl ppv. rewrite ppis_ok; auto. simpl length in Hf. lia.
  - rewrite ptoks_dict in *. rewrite <- app_comm_cons, <- app_assoc in *. simpl ([KClose Gdict] ++ r) in *.
    destruct fuel as [|f]; [simpl in Hf; lia|].
    simpl ppv. rewrite ppks_ok; auto. simpl length in Hf. lia.
Qed.

(* ------------------------------------------------------------------ the plist theorem *)

Theorem C12_struct_plist_all : forall t, plist_domain t -> plist_parse (plist_print t) = Some t.
Proof.
  intros t H. unfold plist_parse, plist_print.
  rewrite strip_app.
  unfold pl_footer. rewrite plex_pp by exact H.
  change (10 :: tagtext (KClose Gplist) ++ [10]) with ((10 :: pind 0) ++ tagtext (KClose Gplist) ++ [10]).
  rewrite plex_ws by reflexivity.
  rewrite plex_tag by in_tags.
  simpl plex. rewrite app_nil_r. simpl rev. rewrite rev_involutive.
  rewrite (ppv_all t H); [reflexivity|]. rewrite app_length. lia.
Qed.

Definition example_ptree : ptree :=
  PDict [([97], PArr [PInt [49]; PDict [([99], PBool true); ([100], PReal [49; 46; 53])]; PArr []; PStr []]);
         ([], PDict []); ([98; 49], PStr [104; 105]); ([122], PBool false)].
Example C12_struct_plist_inhabited :
  plist_domain example_ptree /\ plist_parse (plist_print example_ptree) = Some example_ptree.
Proof. split; [vm_compute; reflexivity | apply C12_struct_plist_all; vm_compute; reflexivity]. Qed.

(* the domain hypothesis is needed: markup characters in a string are written raw by graphtage's f-string
   (print_StringNode does not escape), so the text is not what the reader - or plistlib - takes it for *)
Theorem C12_struct_plist_markup_refuted :
  exists t, plist_parse (plist_print t) <> Some t.
Proof. exists (PStr [60]). vm_compute. discriminate. Qed.

(* ================================================================== XML *)

Arguments xind : simpl never.
Arguments xctag : simpl never.
Arguments render_attrs : simpl never.

Definition otext_toks (text : option (list Z)) : list xtok := match text with Some s => [XText s] | None => [] end.
Fixpoint xtoks (t : xtree) : list xtok :=
  match t with
  | XElem tag attrs text kids =>
      match kids, text with
      | [], None => [XSelf tag attrs]
      | _, _ => XOpen tag attrs :: otext_toks text ++ flat_map xtoks kids ++ [XClose tag]
      end
  end.

(* ------------------------------------------------------------------ inside a tag *)

Lemma take_while_app : forall p x r, forallb p x = true ->
  match r with c :: _ => p c = false | [] => True end -> take_while p (x ++ r) = (x, r).
Proof.
  induction x as [|c x IH]; intros r H Hr.
  - simpl. destruct r as [|c r]; [reflexivity|]. simpl. rewrite Hr. reflexivity.
  - simpl in H. apply andb_true_iff in H. destruct H as [H1 H2].
    simpl. rewrite H1, IH by assumption. reflexivity.
Qed.

Lemma name_inv : forall s, name_ok s = true -> s <> [] /\ forallb namec s = true.
Proof.
  intros s H. unfold name_ok in H. apply andb_true_iff in H. destruct H as [H1 H2].
  split; [destruct s; discriminate | assumption].
Qed.

Lemma namec_not47 : forall c, namec c = true -> (c =? 47) = false.
Proof.
  intros c H. unfold namec in H. apply andb_true_iff in H. destruct H as [_ H].
  apply negb_true_iff in H. repeat (apply orb_false_iff in H; destruct H as [H ?]). assumption.
Qed.

Definition attr_ok (kv : list Z * list Z) : bool := match kv with (k, v) => name_ok k && val_ok v end.

Definition self_tail (b : bool) : list Z := if b then [32; 47] else [].

Lemma render_attrs_cons : forall k v attrs tl,
  render_attrs ((k, v) :: attrs) ++ tl = 32 :: k ++ 61 :: 34 :: v ++ 34 :: render_attrs attrs ++ tl.
Proof.
  intros. change (render_attrs ((k, v) :: attrs)) with ((32 :: k ++ 61 :: 34 :: v ++ [34]) ++ render_attrs attrs).
  rewrite <- app_assoc. simpl. f_equal. rewrite <- app_assoc. f_equal. simpl. f_equal. f_equal.
  rewrite <- app_assoc. reflexivity.
Qed.

Lemma pattrs_ok : forall attrs b fuel, forallb attr_ok attrs = true ->
  (length (render_attrs attrs ++ self_tail b) <= fuel)%nat ->
  pattrs fuel (render_attrs attrs ++ self_tail b) = Some (attrs, b).
Proof.
  induction attrs as [|[k v] attrs IH]; intros b fuel H Hf.
  - destruct b; simpl in *.
    + destruct fuel as [|f]; [lia|]. reflexivity.
    + destruct fuel; reflexivity.
  - simpl in H. apply andb_true_iff in H. destruct H as [Hkv Hr].
    apply andb_true_iff in Hkv. destruct Hkv as [Hk Hv].
    destruct (name_inv k Hk) as [Hne Hkc].
    rewrite render_attrs_cons in *.
    destruct fuel as [|f]; [simpl in Hf; lia|].
    destruct k as [|c k]; [congruence|].
    pose proof Hkc as Hkc'. simpl in Hkc'. apply andb_true_iff in Hkc'. destruct Hkc' as [Hc _].
    set (TL := render_attrs attrs ++ self_tail b) in *.
    assert (E1 : zlist_eqb ((c :: k) ++ 61 :: 34 :: v ++ 34 :: TL) [47] = false).
    { simpl. rewrite (namec_not47 c Hc). reflexivity. }
    unfold pattrs; fold pattrs. rewrite Z.eqb_refl. rewrite E1.
    rewrite take_while_app; [| exact Hkc | reflexivity].
    simpl starts2. cbv beta iota.
    rewrite take_while_app; [| exact Hv | reflexivity].
    rewrite Z.eqb_refl.
    unfold TL. rewrite IH; auto.
    simpl in Hf. rewrite !app_length in Hf. simpl in Hf. rewrite !app_length in Hf. simpl in Hf. fold TL. lia.
Qed.

Lemma self_tail_head : forall attrs b,
  match render_attrs attrs ++ self_tail b with c :: _ => namec c = false | [] => True end.
Proof. intros [|[k v] attrs] [|]; simpl; auto. Qed.

Lemma xtag_open : forall tag attrs b, name_ok tag = true -> forallb attr_ok attrs = true ->
  xtag_tok (tag ++ render_attrs attrs ++ self_tail b) = Some (if b then XSelf tag attrs else XOpen tag attrs).
Proof.
  intros tag attrs b Ht Ha. destruct (name_inv tag Ht) as [Hne Hc].
  destruct tag as [|c tag]; [congruence|].
  pose proof Hc as Hc'. simpl in Hc'. apply andb_true_iff in Hc'. destruct Hc' as [Hc1 _].
  unfold xtag_tok. rewrite <- app_comm_cons. rewrite (namec_not47 c Hc1).
  rewrite app_comm_cons. rewrite take_while_app; [| exact Hc | apply self_tail_head].
  rewrite pattrs_ok by auto. destruct b; reflexivity.
Qed.

Lemma xtag_close : forall tag, name_ok tag = true -> xtag_tok (47 :: tag) = Some (XClose tag).
Proof.
  intros tag Ht. destruct (name_inv tag Ht) as [Hne Hc].
  unfold xtag_tok. simpl (47 =? 47). cbv iota.
  rewrite <- (app_nil_r tag) at 1. rewrite take_while_app; [| exact Hc | exact I].
  destruct tag; [congruence | reflexivity].
Qed.

(* ------------------------------------------------------------------ lexing *)

Lemma xlex_intag : forall b r buf acc, no_gt b = true ->
  xlex (b ++ 62 :: r) true buf acc =
  match xtag_tok (rev (rev b ++ buf)) with Some k => xlex r false [] (k :: acc) | None => None end.
Proof.
  induction b as [|c b IH]; intros r buf acc H.
  - reflexivity.
  - simpl in H. apply andb_true_iff in H. destruct H as [H1 H2].
    simpl. destruct (c =? 62); [discriminate|]. rewrite IH by assumption.
    rewrite <- app_assoc. reflexivity.
Qed.

Lemma xlex_ws : forall w r buf acc, forallb pws w = true -> forallb (fun c => negb (c =? 60)) w = true ->
  xlex (w ++ r) false buf acc = xlex r false buf acc.
Proof.
  induction w as [|c w IH]; intros r buf acc H L; [reflexivity|].
  simpl in H, L. apply andb_true_iff in H. destruct H as [H1 H2]. apply andb_true_iff in L. destruct L as [L1 L2].
  simpl. destruct (c =? 60); [discriminate|]. rewrite H1. apply IH; assumption.
Qed.

Lemma xlex_text : forall s r buf acc, text_ok s = true ->
  xlex (s ++ r) false buf acc = xlex r false (rev s ++ buf) acc.
Proof.
  induction s as [|c s IH]; intros r buf acc H; [reflexivity|].
  simpl in H. apply andb_true_iff in H. destruct H as [H1 H2].
  unfold textc in H1. apply negb_true_iff in H1.
  repeat (apply orb_false_iff in H1; destruct H1 as [H1 ?]).
  simpl. unfold pws. repeat match goal with E : (c =? _) = false |- _ => rewrite E; clear E end. simpl.
  rewrite IH by assumption. rewrite <- app_assoc. reflexivity.
Qed.

Lemma textc_no_gt : forall s, forallb textc s = true -> no_gt s = true.
Proof.
  induction s as [|c s IH]; simpl; intros H; [reflexivity|].
  apply andb_true_iff in H. destruct H as [H1 H2]. rewrite IH by assumption.
  unfold textc in H1. apply negb_true_iff in H1.
  repeat (apply orb_false_iff in H1; destruct H1 as [H1 ?]).
  match goal with E : (c =? 62) = false |- _ => rewrite E end. reflexivity.
Qed.

Lemma namec_textc : forall s, forallb namec s = true -> forallb textc s = true.
Proof.
  induction s as [|c s IH]; simpl; intros H; [reflexivity|].
  apply andb_true_iff in H. destruct H as [H1 H2]. rewrite IH by assumption.
  unfold namec in H1. apply andb_true_iff in H1. destruct H1 as [H1 _]. rewrite H1. reflexivity.
Qed.
Lemma valc_textc : forall s, forallb valc s = true -> forallb textc s = true.
Proof.
  induction s as [|c s IH]; simpl; intros H; [reflexivity|].
  apply andb_true_iff in H. destruct H as [H1 H2]. rewrite IH by assumption.
  unfold valc in H1. apply andb_true_iff in H1. destruct H1 as [H1 _]. rewrite H1. reflexivity.
Qed.

Lemma no_gt_app : forall a b, no_gt (a ++ b) = no_gt a && no_gt b.
Proof. intros. apply forallb_app. Qed.

Lemma no_gt_attrs : forall attrs, forallb attr_ok attrs = true -> no_gt (render_attrs attrs) = true.
Proof.
  induction attrs as [|[k v] attrs IH]; intros H; [reflexivity|].
  simpl in H. apply andb_true_iff in H. destruct H as [Hkv Hr].
  apply andb_true_iff in Hkv. destruct Hkv as [Hk Hv]. destruct (name_inv k Hk) as [_ Hkc].
  change (render_attrs ((k, v) :: attrs)) with (render_attr (k, v) ++ render_attrs attrs).
  rewrite no_gt_app, IH by assumption. unfold render_attr.
  change (32 :: k ++ 61 :: 34 :: v ++ [34]) with ([32] ++ k ++ [61; 34] ++ v ++ [34]).
  rewrite !no_gt_app. rewrite (textc_no_gt k (namec_textc k Hkc)), (textc_no_gt v (valc_textc v Hv)). reflexivity.
Qed.

(* an opening or self-closing tag *)
Lemma xlex_otag : forall tag attrs b r acc, name_ok tag = true -> forallb attr_ok attrs = true ->
  xlex (60 :: tag ++ render_attrs attrs ++ self_tail b ++ 62 :: r) false [] acc
  = xlex r false [] ((if b then XSelf tag attrs else XOpen tag attrs) :: acc).
Proof.
  intros tag attrs b r acc Ht Ha. destruct (name_inv tag Ht) as [_ Hc].
  simpl xlex. rewrite !app_assoc. rewrite xlex_intag.
  - rewrite app_nil_r, rev_involutive. rewrite <- app_assoc. rewrite xtag_open by assumption. reflexivity.
  - rewrite !no_gt_app. rewrite (textc_no_gt tag (namec_textc tag Hc)), no_gt_attrs by assumption.
    destruct b; reflexivity.
Qed.

(* character data (possibly none) followed by a closing tag *)
Lemma xlex_text_ctag : forall s tag r acc, text_ok s = true -> name_ok tag = true ->
  xlex (s ++ xctag tag ++ r) false [] acc
  = xlex r false [] (XClose tag :: match s with [] => acc | _ => XText s :: acc end).
Proof.
  intros s tag r acc Hs Ht. destruct (name_inv tag Ht) as [_ Hc].
  rewrite xlex_text by assumption. rewrite app_nil_r.
  unfold xctag. simpl. rewrite <- app_assoc. simpl.
  change (47 :: tag ++ 62 :: r) with ((47 :: tag) ++ 62 :: r).
  rewrite xlex_intag by (simpl; apply (textc_no_gt tag (namec_textc tag Hc))).
  rewrite rev_app_distr, rev_involutive. simpl rev. simpl app. rewrite xtag_close by assumption.
  f_equal. f_equal. unfold xflush.
  destruct s as [|c s]; [reflexivity|].
  destruct (rev (c :: s)) eqn:E.
  - apply (f_equal (@length Z)) in E. rewrite rev_length in E. discriminate.
  - rewrite <- E, rev_involutive. reflexivity.
Qed.

Lemma pws_xind : forall n, forallb pws (10 :: xind n) = true /\ forallb (fun c => negb (c =? 60)) (10 :: xind n) = true.
Proof. induction n as [|n [A B]]; [split; reflexivity|]. unfold xind; fold xind. simpl in *. auto. Qed.

Lemma xlex_nl : forall n r acc, xlex (10 :: xind n ++ r) false [] acc = xlex r false [] acc.
Proof.
  intros n r acc. destruct (pws_xind n) as [A B].
  change (10 :: xind n ++ r) with ((10 :: xind n) ++ r). apply xlex_ws; assumption.
Qed.

Lemma xdom_inv : forall tag attrs text kids, xml_domainb (XElem tag attrs text kids) = true ->
  name_ok tag = true /\ forallb attr_ok attrs = true /\
  match text with None => True | Some s => ntext_ok s = true end /\ forallb xml_domainb kids = true.
Proof.
  intros tag attrs text kids H. unfold xml_domainb in H; fold xml_domainb in H.
  apply andb_true_iff in H. destruct H as [H Hk].
  apply andb_true_iff in H. destruct H as [H Hx].
  apply andb_true_iff in H. destruct H as [Ht Ha].
  repeat split; try assumption. destruct text; [assumption | exact I].
Qed.

Lemma xtext_id : forall s, text_ok s = true -> xtext s = s.
Proof.
  induction s as [|c s IH]; intros H; [reflexivity|].
  simpl in H. apply andb_true_iff in H. destruct H as [H1 H2].
  simpl. destruct s as [|c2 s].
  - unfold textc in H1. apply negb_true_iff in H1.
    repeat (apply orb_false_iff in H1; destruct H1 as [H1 ?]).
    match goal with E : (c =? 10) = false |- _ => rewrite E end. reflexivity.
  - rewrite IH by assumption. reflexivity.
Qed.

(* on texts of the domain the printer writes the text itself *)
Definition otext0 (text : option (list Z)) : list Z := match text with Some s => s | None => [] end.
Lemma xp_eq0 : forall n tag attrs text kids, xp n (XElem tag attrs text kids) =
  60 :: tag ++ render_attrs attrs ++
  match kids with
  | [] => match text with None => [32; 47; 62] | Some s => 62 :: xtext s ++ xctag tag end
  | k0 :: ks =>
      62 :: otext text ++ xp (S n) k0 ++ flat_map (fun k => 10 :: xind (S n) ++ xp (S n) k) ks ++
      10 :: xind n ++ xctag tag
  end.
Proof. reflexivity. Qed.
Lemma xp_eq : forall n tag attrs text kids,
  match text with None => True | Some s => ntext_ok s = true end ->
  xp n (XElem tag attrs text kids) =
  60 :: tag ++ render_attrs attrs ++
  match kids with
  | [] => match text with None => [32; 47; 62] | Some s => 62 :: s ++ xctag tag end
  | k0 :: ks =>
      62 :: otext0 text ++ xp (S n) k0 ++ flat_map (fun k => 10 :: xind (S n) ++ xp (S n) k) ks ++
      10 :: xind n ++ xctag tag
  end.
Proof.
  intros n tag attrs text kids H. rewrite xp_eq0. destruct text as [s|]; [|reflexivity].
  unfold ntext_ok in H. apply andb_true_iff in H. destruct H as [_ H].
  unfold otext. rewrite (xtext_id s H). reflexivity.
Qed.

Lemma flat_map_cons2 : forall (A B : Type) (f : A -> list B) x l, flat_map f (x :: l) = f x ++ flat_map f l.
Proof. reflexivity. Qed.

Lemma xlex_xp : forall t, xml_domainb t = true -> forall n r acc,
  xlex (xp n t ++ r) false [] acc = xlex r false [] (rev (xtoks t) ++ acc).
Proof.
  induction t as [tag attrs text kids IH] using xtree_ind2; intros Hd n r acc.
  destruct (xdom_inv _ _ _ _ Hd) as (Ht & Ha & Hx & Hk).
  rewrite xp_eq by exact Hx.
  destruct kids as [|k0 ks].
  - destruct text as [s|].
    + (* text only *)
      unfold ntext_ok in Hx. apply andb_true_iff in Hx. destruct Hx as [Hn Hs].
      rewrite <- app_comm_cons, <- !app_assoc.
      change (62 :: s ++ xctag tag) with (self_tail false ++ 62 :: s ++ xctag tag).
      rewrite <- !app_assoc. rewrite <- app_comm_cons. rewrite <- !app_assoc.
      rewrite xlex_otag by assumption.
      rewrite xlex_text_ctag by assumption.
      destruct s; [discriminate|]. reflexivity.
    + (* empty element *)
      rewrite <- app_comm_cons, <- !app_assoc.
      change ([32; 47; 62] ++ r) with (self_tail true ++ 62 :: r).
      rewrite xlex_otag by assumption. reflexivity.
  - (* children *)
    rewrite <- app_comm_cons, <- !app_assoc.
    change ((62 :: otext0 text ++ xp (S n) k0 ++
             flat_map (fun k => 10 :: xind (S n) ++ xp (S n) k) ks ++ 10 :: xind n ++ xctag tag) ++ r)
      with (self_tail false ++ 62 :: (otext0 text ++ xp (S n) k0 ++
             flat_map (fun k => 10 :: xind (S n) ++ xp (S n) k) ks ++ 10 :: xind n ++ xctag tag) ++ r).
    rewrite xlex_otag by assumption.
    rewrite <- !app_assoc.
    replace ((10 :: xind n ++ xctag tag) ++ r) with (10 :: xind n ++ xctag tag ++ r)
      by (rewrite <- app_comm_cons, <- app_assoc; reflexivity).
    assert (T : forall acc0 tl, xlex (otext0 text ++ tl) false [] acc0 =
                                match text with
                                | Some s => xlex tl false (rev s) acc0
                                | None => xlex tl false [] acc0
                                end).
    { intros acc0 tl. destruct text as [s|]; [|reflexivity].
      unfold ntext_ok in Hx. apply andb_true_iff in Hx. destruct Hx as [_ Hs].
      simpl otext0. rewrite xlex_text by assumption. rewrite app_nil_r. reflexivity. }
    (* the first child begins with '<', which flushes the text *)
    assert (F : forall s tl acc0, s <> [] -> xlex (60 :: tl) false (rev s) acc0 = xlex (60 :: tl) false [] (XText s :: acc0)).
    { intros s tl acc0 Hs. simpl. unfold xflush.
      destruct (rev s) eqn:E.
      - apply (f_equal (@length Z)) in E. rewrite rev_length in E. destruct s; [congruence | discriminate].
      - rewrite <- E, rev_involutive. reflexivity. }
    assert (H60 : forall m k tl, exists tl', xp m k ++ tl = 60 :: tl').
    { intros m [tg at' tx kd] tl. rewrite xp_eq0. eexists. rewrite <- app_comm_cons. reflexivity. }
    simpl in Hk. apply andb_true_iff in Hk. destruct Hk as [Hk0 Hks].
    inversion IH as [|? ? P0 Ps]; subst.
    assert (K : forall acc0 tl, xlex (flat_map (fun k => 10 :: xind (S n) ++ xp (S n) k) ks ++ tl) false [] acc0
                = xlex tl false [] (rev (flat_map xtoks ks) ++ acc0)).
    { clear - Hks Ps. induction ks as [|x l IHl]; intros acc0 tl; [reflexivity|].
      simpl in Hks. apply andb_true_iff in Hks. destruct Hks as [Hx Hl].
      inversion Ps as [|? ? Px Pl]; subst.
      rewrite !flat_map_cons2. rewrite <- !app_assoc. rewrite <- app_comm_cons. rewrite <- app_assoc. rewrite xlex_nl.
      rewrite Px by assumption. rewrite IHl by assumption.
      rewrite rev_app_distr, <- app_assoc. reflexivity. }
    rewrite T.
    assert (R : rev (xtoks (XElem tag attrs text (k0 :: ks))) ++ acc =
                XClose tag :: rev (flat_map xtoks ks) ++ rev (xtoks k0) ++ rev (otext_toks text) ++ XOpen tag attrs :: acc).
    { unfold xtoks; fold xtoks. destruct text; simpl; rewrite ?rev_app_distr; simpl;
        rewrite ?rev_app_distr; rewrite <- ?app_assoc; simpl; rewrite <- ?app_assoc; reflexivity. }
    rewrite R. clear R.
    destruct text as [s|].
    + unfold ntext_ok in Hx. apply andb_true_iff in Hx. destruct Hx as [Hn _].
      destruct (H60 (S n) k0 (flat_map (fun k => 10 :: xind (S n) ++ xp (S n) k) ks ++ 10 :: xind n ++ xctag tag ++ r))
        as [tl' E].
      rewrite E. rewrite F by (destruct s; [discriminate | congruence]). rewrite <- E.
      rewrite P0 by assumption. rewrite K. rewrite xlex_nl.
      rewrite (xlex_text_ctag [] tag r) by auto. reflexivity.
    + rewrite P0 by assumption. rewrite K. rewrite xlex_nl.
      rewrite (xlex_text_ctag [] tag r) by auto. reflexivity.
Qed.

(* ------------------------------------------------------------------ structure *)

Definition x_is_elem (k : xtok) : bool := match k with XOpen _ _ | XSelf _ _ => true | _ => false end.

Lemma xtoks_head : forall t, exists k tl, xtoks t = k :: tl /\ x_is_elem k = true.
Proof.
  intros [tag attrs text kids]. unfold xtoks; fold xtoks.
  destruct kids; destruct text; do 2 eexists; (split; [reflexivity|reflexivity]).
Qed.

Lemma pxkids_step : forall f k tl, x_is_elem k = true ->
  pxkids (S f) (k :: tl) =
  match pxv f (k :: tl) with
  | Some (x, r') => match pxkids f r' with Some (l, r'') => Some (x :: l, r'') | None => None end
  | None => None
  end.
Proof. intros f [tg a|tg|tg a|s] tl H; try discriminate; reflexivity. Qed.

Definition PX (t : xtree) : Prop :=
  xml_domainb t = true -> forall fuel r,
    (2 * length (xtoks t ++ r) <= fuel)%nat -> pxv fuel (xtoks t ++ r) = Some (t, r).

Lemma pxkids_ok : forall kids, Forall PX kids -> forallb xml_domainb kids = true ->
  forall fuel tag r, (2 * length (flat_map xtoks kids ++ XClose tag :: r) + 1 <= fuel)%nat ->
    pxkids fuel (flat_map xtoks kids ++ XClose tag :: r) = Some (kids, XClose tag :: r).
Proof.
  induction kids as [|x l IH]; intros HP Hd fuel tag r Hf.
  - destruct fuel; [lia|]. reflexivity.
  - simpl in Hd. apply andb_true_iff in Hd. destruct Hd as [Hx Hl].
    inversion HP as [|? ? Px Pl]; subst.
    rewrite flat_map_cons2 in *. rewrite <- app_assoc in *.
    destruct fuel as [|f]; [lia|].
    destruct (xtoks_head x) as (k & tl & E & Hk).
    rewrite E at 1. rewrite <- app_comm_cons. rewrite pxkids_step by assumption.
    rewrite app_comm_cons, <- E.
    rewrite app_length in Hf.
    assert (1 <= length (xtoks x))%nat by (rewrite E; simpl; lia).
    rewrite (Px Hx) by (rewrite app_length; lia).
    rewrite IH; auto. lia.
Qed.

Lemma zlist_eqb_refl : forall s, zlist_eqb s s = true.
Proof. induction s as [|c s IH]; simpl; [reflexivity|]. now rewrite Z.eqb_refl. Qed.

Lemma pxv_all : forall t, PX t.
Proof.
  induction t as [tag attrs text kids IH] using xtree_ind2; intros Hd fuel r Hf.
  destruct (xdom_inv _ _ _ _ Hd) as (Ht & Ha & Hx & Hk).
  destruct fuel as [|f]; [destruct (xtoks_head (XElem tag attrs text kids)) as (k & tl & E & _); rewrite E in Hf; simpl in Hf; lia|].
  assert (G : forall txt, (kids <> [] \/ txt <> None) ->
              (2 * length ((XOpen tag attrs :: otext_toks txt ++ flat_map xtoks kids ++ [XClose tag]) ++ r) <= S f)%nat ->
              (match txt with None => True | Some s => ntext_ok s = true end) ->
              pxv (S f) ((XOpen tag attrs :: otext_toks txt ++ flat_map xtoks kids ++ [XClose tag]) ++ r)
              = Some (XElem tag attrs txt kids, r)).
  { intros txt _ Hf' Hx'. rewrite <- app_comm_cons, <- !app_assoc in *. simpl ([XClose tag] ++ r) in *.
    simpl length in Hf'. rewrite app_length in Hf'.
    destruct txt as [s|].
    - simpl otext_toks in *. simpl pxv. simpl length in Hf'.
      rewrite pxkids_ok; auto; [|lia]. rewrite zlist_eqb_refl. reflexivity.
    - simpl otext_toks in *. simpl app in *.
      assert (E : forall X : list xtok,
                match X with XText _ :: _ => False | _ => True end ->
                pxv (S f) (XOpen tag attrs :: X) =
                match pxkids f X with
                | Some (kids, XClose tag' :: r2) =>
                    if zlist_eqb tag tag' then Some (XElem tag attrs None kids, r2) else None
                | _ => None
                end).
      { intros [|[tg a|tg|tg a|s] X] HX; try reflexivity. destruct HX. }
      rewrite E.
      + rewrite pxkids_ok; auto; [|simpl length in Hf'; lia]. rewrite zlist_eqb_refl. reflexivity.
      + destruct kids as [|k0 ks]; [exact I|].
        rewrite flat_map_cons2. destruct (xtoks_head k0) as (k & tl & E0 & Hk0). rewrite E0.
        simpl. destruct k; try discriminate; exact I. }
  unfold xtoks in *; fold xtoks in *.
  destruct kids as [|k0 ks]; destruct text as [s|].
  - apply G; auto. right; discriminate.
  - reflexivity.
  - apply G; auto. left; discriminate.
  - apply G; auto. left; discriminate.
Qed.

(* ------------------------------------------------------------------ the XML theorem *)

Theorem C12_struct_xml_all : forall t, xml_domain t -> xml_parse (xml_print t) = Some t.
Proof.
  intros t H. unfold xml_parse, xml_print.
  rewrite <- (app_nil_r (xp 0 t)). rewrite xlex_xp by exact H.
  simpl xlex. rewrite app_nil_r, rev_involutive.
  pose proof (pxv_all t H (S (2 * length (xtoks t))) []) as E. rewrite app_nil_r in E.
  rewrite E; [reflexivity | lia].
Qed.

Definition example_xtree : xtree :=
  XElem [97] [] None
    [XElem [98] [] None [XElem [99] [] (Some [100]) []];
     XElem [101] [([102], [103]); ([104], [])] (Some [104; 105]) [XElem [120] [] None []];
     XElem [122; 49] [([113], [49])] None []].
Example C12_struct_xml_inhabited :
  xml_domain example_xtree /\ xml_parse (xml_print example_xtree) = Some example_xtree.
Proof. split; [vm_compute; reflexivity | apply C12_struct_xml_all; vm_compute; reflexivity]. Qed.
