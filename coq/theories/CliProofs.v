(* C14: the translated option resolution refines the documented one; alias spellings coincide. *)
From Coq Require Import String List Bool.
From RecordUpdate Require Import RecordSet.
Require Import GT.PyBase GTgen.CliTables GT.CliSpec GTgen.CliGen GT.CliModel.
Import ListNotations RecordSetNotations.
Open Scope string_scope.

#[export] Instance eta_args : Settable _ := settable! Build_args
  <a_from_mime; a_to_mime; a_no_color; a_color; a_html; a_condensed; a_join_lists; a_join_dict_items;
   a_dict_strategy; a_no_key_edits; a_no_list_edits; a_no_list_edits_when_same_length; a_no_status;
   a_quiet; a_only_edits; a_edit_digest; a_format; a_from_ty; a_to_ty>.

Local Opaque mime_table typenames.
Arguments assoc : simpl never.

(* what argparse guarantees about the namespace: --dict-strategy has choices auto/match/none *)
Definition wf_args (a : args) : Prop :=
  match a_dict_strategy a with
  | None => True
  | Some s => s = "auto" \/ s = "match" \/ s = "none"
  end.

Lemma get_filetype_spec : forall guess mime, get_filetype guess mime = spec_type mime guess.
Proof.
  intros guess mime. unfold get_filetype, spec_type, in_mime_table, lookup_mime.
  destruct mime as [m|]; cbn.
  - destruct (assoc m mime_table); reflexivity.
  - destruct guess as [g|]; cbn; [destruct (assoc g mime_table); reflexivity | reflexivity].
Qed.

Lemma mime_spec : forall e f, (if is_some e then e else first_some (map f typenames)) = spec_mime e f.
Proof. intros [m|] f; reflexivity. Qed.

Theorem resolve_refines_spec : forall a gf gt, wf_args a -> resolve a gf gt = spec_resolve a gf gt.
Proof.
  intros a gf gt Hwf. unfold resolve, spec_resolve.
  rewrite !get_filetype_spec.
  unfold r_from_mime, r_to_mime. rewrite !mime_spec.
  unfold r_printer_ansi, r_ansi_color, spec_ansi, r_printer_quiet, r_join_lists, r_join_dict_items,
    r_opt_allow_key_edits, r_opt_auto_match_keys, r_allow_key_edits, r_auto_match_keys,
    r_opt_allow_list_edits, r_opt_allow_list_edits_when_same_length, spec_keys.
  unfold wf_args in Hwf.
  destruct (a_dict_strategy a) as [s|]; cbn.
  - destruct Hwf as [-> | [-> | ->]]; cbn; reflexivity.
  - destruct (a_no_key_edits a); reflexivity.
Qed.

Lemma first_some_single : forall (tys : list string) ty m,
  In ty tys -> first_some (map (fun t => if String.eqb t ty then Some (m : string) else None) tys) = Some m.
Proof.
  induction tys as [|t tys IH]; intros ty m Hin; [destruct Hin|].
  cbn. destruct (String.eqb_spec t ty) as [->|Hne]; [reflexivity|].
  destruct Hin as [->|Hin]; [contradiction|]. apply IH; exact Hin.
Qed.

(* -k  ==  --dict-strategy none *)
Theorem alias_k : forall a gf gt, a_dict_strategy a = None ->
  resolve (a <| a_no_key_edits := true |>) gf gt =
  resolve (a <| a_dict_strategy := Some "none" |> <| a_no_key_edits := false |>) gf gt.
Proof.
  intros a gf gt H. rewrite !resolve_refines_spec.
  - unfold spec_resolve, spec_keys, spec_ansi; cbn. rewrite H; reflexivity.
  - unfold wf_args; cbn; auto.
  - unfold wf_args; cbn. rewrite H; exact I.
Qed.

(* -j  ==  -jl -jd *)
Theorem alias_j : forall a gf gt,
  resolve (a <| a_condensed := true |> <| a_join_lists := false |> <| a_join_dict_items := false |>) gf gt =
  resolve (a <| a_condensed := false |> <| a_join_lists := true |> <| a_join_dict_items := true |>) gf gt.
Proof. intros a gf gt. unfold resolve. cbn. reflexivity. Qed.

(* --from-TYPE == --from-mime MIME(TYPE), and the same for --to-*; argparse stores the MIME string m
   of the type in namespace slot from_TYPE / to_TYPE *)
Theorem alias_from : forall a gf gt ty m, In ty typenames -> a_from_mime a = None ->
  a_from_ty a = (fun t => if String.eqb t ty then Some m else None) ->
  resolve a gf gt = resolve (a <| a_from_mime := Some m |> <| a_from_ty := fun _ => None |>) gf gt.
Proof.
  intros a gf gt ty m Hin Hnone Hty. unfold resolve, r_from_mime, r_to_mime. cbn.
  rewrite Hnone, Hty. cbn. rewrite (first_some_single typenames ty m Hin). reflexivity.
Qed.

Theorem alias_to : forall a gf gt ty m, wf_args a -> In ty typenames -> a_to_mime a = None ->
  a_to_ty a = (fun t => if String.eqb t ty then Some m else None) ->
  resolve a gf gt = resolve (a <| a_to_mime := Some m |> <| a_to_ty := fun _ => None |>) gf gt.
Proof.
  intros a gf gt ty m Hwf Hin Hnone Hty. rewrite !resolve_refines_spec.
  - unfold spec_resolve, spec_mime, spec_keys, spec_ansi. cbn. rewrite Hnone, Hty.
    rewrite (first_some_single typenames ty m Hin). reflexivity.
  - exact Hwf.
  - exact Hwf.
Qed.

(* an explicitly given type is the one used, whatever the file name suggests *)
Theorem explicit_from : forall a gf gt m, wf_args a -> a_from_mime a = Some m ->
  o_from_type (resolve a gf gt) = assoc m mime_table.
Proof. intros a gf gt m Hwf H. rewrite resolve_refines_spec by exact Hwf. cbn. unfold spec_mime. rewrite H. reflexivity. Qed.

Theorem explicit_to : forall a gf gt m, wf_args a -> a_to_mime a = Some m ->
  o_to_type (resolve a gf gt) = assoc m mime_table.
Proof. intros a gf gt m Hwf H. rewrite resolve_refines_spec by exact Hwf. cbn. unfold spec_mime. rewrite H. reflexivity. Qed.

Theorem explicit_type_flag_to : forall a gf gt ty m, wf_args a -> In ty typenames -> a_to_mime a = None ->
  a_to_ty a = (fun t => if String.eqb t ty then Some m else None) ->
  o_to_type (resolve a gf gt) = assoc m mime_table.
Proof.
  intros a gf gt ty m Hwf Hin Hn Hty. rewrite resolve_refines_spec by exact Hwf. cbn. unfold spec_mime.
  rewrite Hn, Hty, (first_some_single typenames ty m Hin). reflexivity.
Qed.

(* every registered type's own MIME string resolves to that type: --from-TYPE parses as TYPE *)
Theorem default_mime_roundtrip :
  forallb (fun p => oostr_eqb (assoc (snd p) mime_table) (Some (fst p))) default_mime = true.
Proof. vm_compute. reflexivity. Qed.

(* non-vacuity: a namespace meeting the hypotheses of the alias theorems *)
Definition sample_args : args :=
  {| a_from_mime := None; a_to_mime := None; a_no_color := None; a_color := None; a_html := false;
     a_condensed := false; a_join_lists := false; a_join_dict_items := false; a_dict_strategy := None;
     a_no_key_edits := false; a_no_list_edits := false; a_no_list_edits_when_same_length := false;
     a_no_status := false; a_quiet := false; a_only_edits := false; a_edit_digest := false; a_format := None;
     a_from_ty := fun _ => None; a_to_ty := fun t => if String.eqb t "yaml" then Some "application/x-yaml" else None |}.
Example sample_meets_hyps : wf_args sample_args /\ In "yaml" typenames /\ a_to_mime sample_args = None /\
  o_to_type (resolve sample_args (Some "application/json") (Some "application/json")) = Some "yaml".
Proof. unfold wf_args; cbn. repeat split; auto. vm_compute; tauto. Qed.
Transparent mime_table typenames.
