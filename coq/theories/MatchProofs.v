(* C15: proofs about the model of min_weight_bipartite_matching (GT.MatchModel) over the generated
   get_dtype / INTEGER_DTYPE_INTERVALS (GTgen.MatchGen). *)
From Coq Require Import String List Bool ZArith Lia.
Require Import GT.PyBase GT.MatchSpec GTgen.MatchGen GT.MatchModel.
Import ListNotations.
Open Scope Z_scope.

(* ================================================================== A. get_dtype (generated) *)

Definition dt_lo (d : np_dtype) : Z := let '(_, signed, bits) := d in if signed then - 2 ^ (bits - 1) else 0.
Definition dt_hi (d : np_dtype) : Z := let '(_, signed, bits) := d in if signed then 2 ^ (bits - 1) else 2 ^ bits.

Lemma fitsb_iff : forall d x, fitsb d x = true <-> dt_lo d <= x < dt_hi d.
Proof.
  intros [[nm sg] bits] x. unfold fitsb, dt_lo, dt_hi. destruct sg;
    rewrite andb_true_iff, Z.leb_le, Z.ltb_lt; tauto.
Qed.

(* every row's dtype can hold the row's own interval [lo, hi) *)
Definition row_soundb (row : Z * Z * np_dtype) : bool :=
  let '(lo, hi, d) := row in (dt_lo d <=? lo) && (hi <=? dt_hi d).

Lemma table_sound : forallb row_soundb INTEGER_DTYPE_INTERVALS = true.
Proof. vm_compute. reflexivity. Qed.

(* some row of the table covers [lo, hi] *)
Definition in_table (lo hi : Z) : Prop :=
  exists row, In row INTEGER_DTYPE_INTERVALS /\ fst (fst row) <= lo /\ hi < snd (fst row).

Lemma get_dtype_loop_fits : forall rows lo hi,
  lo <= hi -> forallb row_soundb rows = true ->
  (exists row, In row rows /\ fst (fst row) <= lo /\ hi < snd (fst row)) ->
  fitsb (get_dtype_loop rows lo hi) lo = true /\ fitsb (get_dtype_loop rows lo hi) hi = true.
Proof.
  induction rows as [|[[rlo rhi] d] rest IH]; intros lo hi Hle Hs Hex.
  - destruct Hex as [row [[] _]].
  - simpl in Hs. apply andb_true_iff in Hs. destruct Hs as [Hrow Hrest].
    cbn [get_dtype_loop].
    destruct (andb (Z.leb rlo lo) (Z.gtb rhi hi)) eqn:E.
    + apply andb_true_iff in E. destruct E as [E1 E2].
      apply Z.leb_le in E1. rewrite Z.gtb_ltb in E2. apply Z.ltb_lt in E2.
      unfold row_soundb in Hrow. apply andb_true_iff in Hrow. destruct Hrow as [R1 R2].
      apply Z.leb_le in R1. apply Z.leb_le in R2.
      rewrite !fitsb_iff. lia.
    + apply IH; auto.
      destruct Hex as [row [[Heq | Hin] [H1 H2]]].
      * subst row. simpl in H1, H2.
        assert (andb (Z.leb rlo lo) (Z.gtb rhi hi) = true).
        { apply andb_true_iff. split.
          - apply Z.leb_le. lia.
          - rewrite Z.gtb_ltb. apply Z.ltb_lt. lia. }
        congruence.
      * exists row. auto.
Qed.

(* the cast is lossless: the chosen dtype holds both ends (hence everything between them) *)
Lemma get_dtype_fits : forall lo hi, lo <= hi -> in_table lo hi ->
  fitsb (get_dtype lo hi) lo = true /\ fitsb (get_dtype lo hi) hi = true.
Proof. intros. unfold get_dtype. apply get_dtype_loop_fits; auto using table_sound. Qed.

Lemma fitsb_between : forall d lo hi x, fitsb d lo = true -> fitsb d hi = true -> lo <= x <= hi -> fitsb d x = true.
Proof. intros d lo hi x. rewrite !fitsb_iff. lia. Qed.

Lemma table_has_u64 :
  existsb (fun row : Z * Z * np_dtype => (fst (fst row) =? 0) && (snd (fst row) =? 2 ^ 64)) INTEGER_DTYPE_INTERVALS = true.
Proof. vm_compute. reflexivity. Qed.
Lemma table_has_i64 :
  existsb (fun row : Z * Z * np_dtype => (fst (fst row) =? - 2 ^ 63) && (snd (fst row) =? 2 ^ 63)) INTEGER_DTYPE_INTERVALS = true.
Proof. vm_compute. reflexivity. Qed.

(* the documented range (union of numpy's integer types) is covered by the table *)
Lemma int_range_in_table : forall lo hi, int_range_okb lo hi = true -> in_table lo hi.
Proof.
  intros lo hi H. unfold int_range_okb in H. apply orb_true_iff in H.
  destruct H as [H | H]; apply andb_true_iff in H; destruct H as [H1 H2];
    apply Z.leb_le in H1; apply Z.ltb_lt in H2.
  - destruct (proj1 (existsb_exists _ _) table_has_u64) as [row [Hin Hr]].
    apply andb_true_iff in Hr. destruct Hr as [R1 R2]. apply Z.eqb_eq in R1. apply Z.eqb_eq in R2.
    exists row. split; auto. lia.
  - destruct (proj1 (existsb_exists _ _) table_has_i64) as [row [Hin Hr]].
    apply andb_true_iff in Hr. destruct Hr as [R1 R2]. apply Z.eqb_eq in R1. apply Z.eqb_eq in R2.
    exists row. split; auto. lia.
Qed.

Example get_dtype_fits_ex : in_table (-5) 300 /\ get_dtype (-5) 300 = ("int16"%string, true, 16).
Proof. split. apply int_range_in_table. reflexivity. reflexivity. Qed.

(* ================================================================== B. the scan *)

Lemma scan_from_spec : forall cs st,
  scan_from st cs =
  match ty_from (s_ty st) cs with
  | None => None
  | Some t => Some {| s_ty := t; s_max := max_from (s_max st) cs; s_min := min_from (s_min st) cs;
                      s_null := s_null st || has_null_cells cs |}
  end.
Proof.
  induction cs as [|c r IH]; intros [ty mx mn nl]; simpl.
  - rewrite orb_false_r. reflexivity.
  - destruct c as [w|]; simpl.
    + destruct ty as [t|]; simpl.
      * destruct (ety_eqb t (wty w)); [|reflexivity].
        rewrite IH. simpl.
        replace (match mx with Some m => if m <? wnum w then wnum w else m | None => wnum w end)
          with (match mx with Some m => Z.max m (wnum w) | None => wnum w end)
          by (destruct mx; auto; destruct (Z.ltb_spec z (wnum w)); lia).
        replace (match mn with Some m => if m >? wnum w then wnum w else m | None => wnum w end)
          with (match mn with Some m => Z.min m (wnum w) | None => wnum w end)
          by (destruct mn; auto; rewrite Z.gtb_ltb; destruct (Z.ltb_spec (wnum w) z); lia).
        reflexivity.
      * rewrite IH. simpl.
        replace (match mx with Some m => if m <? wnum w then wnum w else m | None => wnum w end)
          with (match mx with Some m => Z.max m (wnum w) | None => wnum w end)
          by (destruct mx; auto; destruct (Z.ltb_spec z (wnum w)); lia).
        replace (match mn with Some m => if m >? wnum w then wnum w else m | None => wnum w end)
          with (match mn with Some m => Z.min m (wnum w) | None => wnum w end)
          by (destruct mn; auto; rewrite Z.gtb_ltb; destruct (Z.ltb_spec (wnum w) z); lia).
        reflexivity.
    + rewrite IH. simpl. rewrite orb_true_r. reflexivity.
Qed.

Lemma scan_spec : forall W,
  scan_from scan_init (cells W) =
  if mixedb W then None
  else Some {| s_ty := edge_ty W; s_max := max_edge W; s_min := min_edge W; s_null := has_null W |}.
Proof.
  intros W. rewrite scan_from_spec. unfold mixedb, edge_ty, max_edge, min_edge, has_null. simpl.
  destruct (ty_from None (cells W)); reflexivity.
Qed.

(* ---- facts about the summaries *)
Lemma max_from_ge : forall cs acc m, max_from acc cs = Some m ->
  (forall a, acc = Some a -> a <= m) /\ (forall w, In (Some w) cs -> wnum w <= m).
Proof.
  induction cs as [|c r IH]; intros acc m H; simpl in H.
  - subst acc. split; intros. inversion H; lia. destruct H.
  - destruct c as [w|].
    + apply IH in H. destruct H as [H1 H2]. split.
      * intros a Ha. subst acc. specialize (H1 _ eq_refl). lia.
      * intros w' [Hw | Hw]. inversion Hw; subst w'. specialize (H1 _ eq_refl). destruct acc; lia. auto.
    + apply IH in H. destruct H as [H1 H2]. split; auto.
      intros w' [Hw | Hw]. discriminate. auto.
Qed.

Lemma min_from_le : forall cs acc m, min_from acc cs = Some m ->
  (forall a, acc = Some a -> m <= a) /\ (forall w, In (Some w) cs -> m <= wnum w).
Proof.
  induction cs as [|c r IH]; intros acc m H; simpl in H.
  - subst acc. split; intros. inversion H; lia. destruct H.
  - destruct c as [w|].
    + apply IH in H. destruct H as [H1 H2]. split.
      * intros a Ha. subst acc. specialize (H1 _ eq_refl). lia.
      * intros w' [Hw | Hw]. inversion Hw; subst w'. specialize (H1 _ eq_refl). destruct acc; lia. auto.
    + apply IH in H. destruct H as [H1 H2]. split; auto.
      intros w' [Hw | Hw]. discriminate. auto.
Qed.

Lemma max_from_in : forall cs acc m, max_from acc cs = Some m ->
  acc = Some m \/ exists w, In (Some w) cs /\ wnum w = m.
Proof.
  induction cs as [|c r IH]; intros acc m H; simpl in H; auto.
  destruct c as [w|].
  - apply IH in H. destruct H as [H | [w' [Hin Hw]]].
    + inversion H. destruct acc as [a|].
      * destruct (Z.max_spec a (wnum w)) as [[_ E] | [_ E]]; rewrite E.
        right. exists w. split; simpl; auto. left. reflexivity.
      * right. exists w. split; simpl; auto.
    + right. exists w'. split; simpl; auto.
  - apply IH in H. destruct H as [H | [w' [Hin Hw]]]; auto. right. exists w'. split; simpl; auto.
Qed.

Lemma min_from_in : forall cs acc m, min_from acc cs = Some m ->
  acc = Some m \/ exists w, In (Some w) cs /\ wnum w = m.
Proof.
  induction cs as [|c r IH]; intros acc m H; simpl in H; auto.
  destruct c as [w|].
  - apply IH in H. destruct H as [H | [w' [Hin Hw]]].
    + inversion H. destruct acc as [a|].
      * destruct (Z.min_spec a (wnum w)) as [[_ E] | [_ E]]; rewrite E.
        left. reflexivity. right. exists w. split; simpl; auto.
      * right. exists w. split; simpl; auto.
    + right. exists w'. split; simpl; auto.
  - apply IH in H. destruct H as [H | [w' [Hin Hw]]]; auto. right. exists w'. split; simpl; auto.
Qed.

Lemma has_null_cells_false : forall cs, has_null_cells cs = false -> ~ In None cs.
Proof.
  induction cs as [|c r IH]; simpl; intros H; auto.
  destruct c; [|discriminate]. intros [E | E]. discriminate. apply IH; auto.
Qed.
Lemma has_null_cells_true : forall cs, has_null_cells cs = true -> In None cs.
Proof.
  induction cs as [|c r IH]; simpl; intros H. discriminate. destruct c; auto.
Qed.

(* all present weights have the scanned type *)
Lemma ty_from_all : forall cs acc t, ty_from acc cs = Some (Some t) ->
  (forall a, acc = Some a -> a = t) /\ (forall w, In (Some w) cs -> wty w = t).
Proof.
  induction cs as [|c r IH]; intros acc t H; simpl in H.
  - inversion H. split; intros. congruence. destruct H0.
  - destruct c as [w|].
    + destruct acc as [a|].
      * destruct (ety_eqb a (wty w)) eqn:E; [|discriminate].
        apply IH in H. destruct H as [H1 H2]. split; auto.
        intros w' [Hw | Hw]; auto. inversion Hw; subst w'. specialize (H1 _ eq_refl). subst t.
        destruct a, (wty w); simpl in E; congruence.
      * apply IH in H. destruct H as [H1 H2]. split. intros; discriminate.
        intros w' [Hw | Hw]; auto. inversion Hw; subst w'. auto.
    + apply IH in H. destruct H as [H1 H2]. split; auto.
      intros w' [Hw | Hw]; auto. discriminate.
Qed.

(* no present weight at all *)
Lemma ty_from_none : forall cs acc, ty_from acc cs = Some None ->
  acc = None /\ (forall w, ~ In (Some w) cs).
Proof.
  induction cs as [|c r IH]; intros acc H; simpl in H.
  - inversion H. split; auto.
  - destruct c as [w|].
    + destruct acc as [a|].
      * destruct (ety_eqb a (wty w)); [|discriminate]. apply IH in H. destruct H; discriminate.
      * apply IH in H. destruct H; discriminate.
    + apply IH in H. destruct H as [H1 H2]. split; auto.
      intros w' [Hw | Hw]. discriminate. eapply H2; eauto.
Qed.

Lemma max_from_no_present : forall cs acc, (forall w, ~ In (Some w) cs) -> max_from acc cs = acc.
Proof.
  induction cs as [|c r IH]; intros acc H; simpl; auto.
  destruct c as [w|]. exfalso. apply (H w). left; auto. apply IH. intros w Hw. apply (H w). right; auto.
Qed.

Lemma max_from_some : forall cs acc w, In (Some w) cs -> exists m, max_from acc cs = Some m.
Proof.
  induction cs as [|c r IH]; intros acc w H. destruct H.
  simpl. destruct c as [w'|].
  - destruct (max_from (Some match acc with Some m => Z.max m (wnum w') | None => wnum w' end) r) eqn:E.
    eauto. exfalso.
    assert (forall r a, max_from (Some a) r <> None).
    { clear. induction r as [|c r IH]; simpl; intros. discriminate. destruct c; apply IH. }
    eapply H0; eauto.
  - destruct H as [H | H]. discriminate. eapply IH; eauto.
Qed.
Lemma min_from_some : forall cs acc w, In (Some w) cs -> exists m, min_from acc cs = Some m.
Proof.
  induction cs as [|c r IH]; intros acc w H. destruct H.
  simpl. destruct c as [w'|].
  - destruct (min_from (Some match acc with Some m => Z.min m (wnum w') | None => wnum w' end) r) eqn:E.
    eauto. exfalso.
    assert (forall r a, min_from (Some a) r <> None).
    { clear. induction r as [|c r IH]; simpl; intros. discriminate. destruct c; apply IH. }
    eapply H0; eauto.
  - destruct H as [H | H]. discriminate. eapply IH; eauto.
Qed.
