(* C15: proofs about the model of min_weight_bipartite_matching (GT.MatchModel) over the generated
   get_dtype / INTEGER_DTYPE_INTERVALS (GTgen.MatchGen). *)
From Coq Require Import String List Bool ZArith Lia.
Require Import GT.PyBase GT.MatchSpec GTgen.MatchGen GT.MatchModel.
Import ListNotations.
Open Scope Z_scope.

(* ================================================================== A. get_dtype (generated) *)

Definition dt_lo (d : np_dtype) : Z := let '(_, signed, bits) := d in if signed then - 2 ^ (bits - 1) else 0.
Definition dt_hi (d : np_dtype) : Z := let '(_, signed, bits) := d in if signed then 2 ^ (bits - 1) else 2 ^ bits.

Lemma fitsb_iff : forall d x, fitsb d x = true <-> dt_lo d <= x < dt_hi d.
Proof.
  intros [[nm sg] bits] x. unfold fitsb, dt_lo, dt_hi. destruct sg;
    rewrite andb_true_iff, Z.leb_le, Z.ltb_lt; tauto.
Qed.

(* every row's dtype can hold the row's own interval [lo, hi) *)
Definition row_soundb (row : Z * Z * np_dtype) : bool :=
  let '(lo, hi, d) := row in (dt_lo d <=? lo) && (hi <=? dt_hi d).

Lemma table_sound : forallb row_soundb INTEGER_DTYPE_INTERVALS = true.
Proof. vm_compute. reflexivity. Qed.

(* some row of the table covers [lo, hi] *)
Definition in_table (lo hi : Z) : Prop :=
  exists row, In row INTEGER_DTYPE_INTERVALS /\ fst (fst row) <= lo /\ hi < snd (fst row).

Lemma get_dtype_loop_fits : forall rows lo hi,
  lo <= hi -> forallb row_soundb rows = true ->
  (exists row, In row rows /\ fst (fst row) <= lo /\ hi < snd (fst row)) ->
  fitsb (get_dtype_loop rows lo hi) lo = true /\ fitsb (get_dtype_loop rows lo hi) hi = true.
Proof.
  induction rows as [|[[rlo rhi] d] rest IH]; intros lo hi Hle Hs Hex.
  - destruct Hex as [row [[] _]].
  - simpl in Hs. apply andb_true_iff in Hs. destruct Hs as [Hrow Hrest].
    cbn [get_dtype_loop].
    destruct (andb (Z.leb rlo lo) (Z.gtb rhi hi)) eqn:E.
    + apply andb_true_iff in E. destruct E as [E1 E2].
      apply Z.leb_le in E1. rewrite Z.gtb_ltb in E2. apply Z.ltb_lt in E2.
      unfold row_soundb in Hrow. apply andb_true_iff in Hrow. destruct Hrow as [R1 R2].
      apply Z.leb_le in R1. apply Z.leb_le in R2.
      rewrite !fitsb_iff. lia.
    + apply IH; auto.
      destruct Hex as [row [[Heq | Hin] [H1 H2]]].
      * subst row. simpl in H1, H2.
        assert (andb (Z.leb rlo lo) (Z.gtb rhi hi) = true).
        { apply andb_true_iff. split.
          - apply Z.leb_le. lia.
          - rewrite Z.gtb_ltb. apply Z.ltb_lt. lia. }
        congruence.
      * exists row. auto.
Qed.

(* the cast is lossless: the chosen dtype holds both ends (hence everything between them) *)
Lemma get_dtype_fits : forall lo hi, lo <= hi -> in_table lo hi ->
  fitsb (get_dtype lo hi) lo = true /\ fitsb (get_dtype lo hi) hi = true.
Proof. intros. unfold get_dtype. apply get_dtype_loop_fits; auto using table_sound. Qed.

Lemma fitsb_between : forall d lo hi x, fitsb d lo = true -> fitsb d hi = true -> lo <= x <= hi -> fitsb d x = true.
Proof. intros d lo hi x. rewrite !fitsb_iff. lia. Qed.

Lemma table_has_u64 :
  existsb (fun row : Z * Z * np_dtype => (fst (fst row) =? 0) && (snd (fst row) =? 2 ^ 64)) INTEGER_DTYPE_INTERVALS = true.
Proof. vm_compute. reflexivity. Qed.
Lemma table_has_i64 :
  existsb (fun row : Z * Z * np_dtype => (fst (fst row) =? - 2 ^ 63) && (snd (fst row) =? 2 ^ 63)) INTEGER_DTYPE_INTERVALS = true.
Proof. vm_compute. reflexivity. Qed.

(* the documented range (union of numpy's integer types) is covered by the table *)
Lemma int_range_in_table : forall lo hi, int_range_okb lo hi = true -> in_table lo hi.
Proof.
  intros lo hi H. unfold int_range_okb in H. apply orb_true_iff in H.
  destruct H as [H | H]; apply andb_true_iff in H; destruct H as [H1 H2];
    apply Z.leb_le in H1; apply Z.ltb_lt in H2.
  - destruct (proj1 (existsb_exists _ _) table_has_u64) as [row [Hin Hr]].
    apply andb_true_iff in Hr. destruct Hr as [R1 R2]. apply Z.eqb_eq in R1. apply Z.eqb_eq in R2.
    exists row. split; auto. lia.
  - destruct (proj1 (existsb_exists _ _) table_has_i64) as [row [Hin Hr]].
    apply andb_true_iff in Hr. destruct Hr as [R1 R2]. apply Z.eqb_eq in R1. apply Z.eqb_eq in R2.
    exists row. split; auto. lia.
Qed.

Example get_dtype_fits_ex : in_table (-5) 300 /\ get_dtype (-5) 300 = ("int16"%string, true, 16).
Proof. split. apply int_range_in_table. reflexivity. reflexivity. Qed.

(* ================================================================== B. the scan *)

Lemma scan_from_spec : forall cs st,
  scan_from st cs =
  match ty_from (s_ty st) cs with
  | None => None
  | Some t => Some {| s_ty := t; s_max := max_from (s_max st) cs; s_min := min_from (s_min st) cs;
                      s_null := s_null st || has_null_cells cs |}
  end.
Proof.
  induction cs as [|c r IH]; intros [ty mx mn nl]; simpl.
  - rewrite orb_false_r. reflexivity.
  - destruct c as [w|]; simpl.
    + destruct ty as [t|]; simpl.
      * destruct (ety_eqb t (wty w)); [|reflexivity].
        rewrite IH. simpl.
        replace (match mx with Some m => if m <? wnum w then wnum w else m | None => wnum w end)
          with (match mx with Some m => Z.max m (wnum w) | None => wnum w end)
          by (destruct mx; auto; destruct (Z.ltb_spec z (wnum w)); lia).
        replace (match mn with Some m => if m >? wnum w then wnum w else m | None => wnum w end)
          with (match mn with Some m => Z.min m (wnum w) | None => wnum w end)
          by (destruct mn; auto; rewrite Z.gtb_ltb; destruct (Z.ltb_spec (wnum w) z); lia).
        reflexivity.
      * rewrite IH. simpl.
        replace (match mx with Some m => if m <? wnum w then wnum w else m | None => wnum w end)
          with (match mx with Some m => Z.max m (wnum w) | None => wnum w end)
          by (destruct mx; auto; destruct (Z.ltb_spec z (wnum w)); lia).
        replace (match mn with Some m => if m >? wnum w then wnum w else m | None => wnum w end)
          with (match mn with Some m => Z.min m (wnum w) | None => wnum w end)
          by (destruct mn; auto; rewrite Z.gtb_ltb; destruct (Z.ltb_spec (wnum w) z); lia).
        reflexivity.
    + rewrite IH. simpl. rewrite orb_true_r. reflexivity.
Qed.

Lemma scan_spec : forall W,
  scan_from scan_init (cells W) =
  if mixedb W then None
  else Some {| s_ty := edge_ty W; s_max := max_edge W; s_min := min_edge W; s_null := has_null W |}.
Proof.
  intros W. rewrite scan_from_spec. unfold mixedb, edge_ty, max_edge, min_edge, has_null. simpl.
  destruct (ty_from None (cells W)); reflexivity.
Qed.

(* ---- facts about the summaries *)
Lemma max_from_ge : forall cs acc m, max_from acc cs = Some m ->
  (forall a, acc = Some a -> a <= m) /\ (forall w, In (Some w) cs -> wnum w <= m).
Proof.
  induction cs as [|c r IH]; intros acc m H; simpl in H.
  - subst acc. split; intros. inversion H; lia. destruct H.
  - destruct c as [w|].
    + apply IH in H. destruct H as [H1 H2]. split.
      * intros a Ha. subst acc. specialize (H1 _ eq_refl). lia.
      * intros w' [Hw | Hw]. inversion Hw; subst w'. specialize (H1 _ eq_refl). destruct acc; lia. auto.
    + apply IH in H. destruct H as [H1 H2]. split; auto.
      intros w' [Hw | Hw]. discriminate. auto.
Qed.

Lemma min_from_le : forall cs acc m, min_from acc cs = Some m ->
  (forall a, acc = Some a -> m <= a) /\ (forall w, In (Some w) cs -> m <= wnum w).
Proof.
  induction cs as [|c r IH]; intros acc m H; simpl in H.
  - subst acc. split; intros. inversion H; lia. destruct H.
  - destruct c as [w|].
    + apply IH in H. destruct H as [H1 H2]. split.
      * intros a Ha. subst acc. specialize (H1 _ eq_refl). lia.
      * intros w' [Hw | Hw]. inversion Hw; subst w'. specialize (H1 _ eq_refl). destruct acc; lia. auto.
    + apply IH in H. destruct H as [H1 H2]. split; auto.
      intros w' [Hw | Hw]. discriminate. auto.
Qed.

Lemma max_from_in : forall cs acc m, max_from acc cs = Some m ->
  acc = Some m \/ exists w, In (Some w) cs /\ wnum w = m.
Proof.
  induction cs as [|c r IH]; intros acc m H; simpl in H; auto.
  destruct c as [w|].
  - apply IH in H. destruct H as [H | [w' [Hin Hw]]].
    + inversion H. destruct acc as [a|].
      * destruct (Z.max_spec a (wnum w)) as [[_ E] | [_ E]]; rewrite E.
        right. exists w. split; simpl; auto. left. reflexivity.
      * right. exists w. split; simpl; auto.
    + right. exists w'. split; simpl; auto.
  - apply IH in H. destruct H as [H | [w' [Hin Hw]]]; auto. right. exists w'. split; simpl; auto.
Qed.

Lemma min_from_in : forall cs acc m, min_from acc cs = Some m ->
  acc = Some m \/ exists w, In (Some w) cs /\ wnum w = m.
Proof.
  induction cs as [|c r IH]; intros acc m H; simpl in H; auto.
  destruct c as [w|].
  - apply IH in H. destruct H as [H | [w' [Hin Hw]]].
    + inversion H. destruct acc as [a|].
      * destruct (Z.min_spec a (wnum w)) as [[_ E] | [_ E]]; rewrite E.
        left. reflexivity. right. exists w. split; simpl; auto.
      * right. exists w. split; simpl; auto.
    + right. exists w'. split; simpl; auto.
  - apply IH in H. destruct H as [H | [w' [Hin Hw]]]; auto. right. exists w'. split; simpl; auto.
Qed.

Lemma has_null_cells_false : forall cs, has_null_cells cs = false -> ~ In None cs.
Proof.
  induction cs as [|c r IH]; simpl; intros H; auto.
  destruct c; [|discriminate]. intros [E | E]. discriminate. apply IH; auto.
Qed.
Lemma has_null_cells_true : forall cs, has_null_cells cs = true -> In None cs.
Proof.
  induction cs as [|c r IH]; simpl; intros H. discriminate. destruct c; auto.
Qed.

(* all present weights have the scanned type *)
Lemma ty_from_all : forall cs acc t, ty_from acc cs = Some (Some t) ->
  (forall a, acc = Some a -> a = t) /\ (forall w, In (Some w) cs -> wty w = t).
Proof.
  induction cs as [|c r IH]; intros acc t H; simpl in H.
  - inversion H. split; intros. congruence. destruct H0.
  - destruct c as [w|].
    + destruct acc as [a|].
      * destruct (ety_eqb a (wty w)) eqn:E; [|discriminate].
        apply IH in H. destruct H as [H1 H2]. split; auto.
        intros w' [Hw | Hw]; auto. inversion Hw; subst w'. specialize (H1 _ eq_refl). subst t.
        destruct a, (wty w); simpl in E; congruence.
      * apply IH in H. destruct H as [H1 H2]. split. intros; discriminate.
        intros w' [Hw | Hw]; auto. inversion Hw; subst w'. auto.
    + apply IH in H. destruct H as [H1 H2]. split; auto.
      intros w' [Hw | Hw]; auto. discriminate.
Qed.

(* no present weight at all *)
Lemma ty_from_none : forall cs acc, ty_from acc cs = Some None ->
  acc = None /\ (forall w, ~ In (Some w) cs).
Proof.
  induction cs as [|c r IH]; intros acc H; simpl in H.
  - inversion H. split; auto.
  - destruct c as [w|].
    + destruct acc as [a|].
      * destruct (ety_eqb a (wty w)); [|discriminate]. apply IH in H. destruct H; discriminate.
      * apply IH in H. destruct H; discriminate.
    + apply IH in H. destruct H as [H1 H2]. split; auto.
      intros w' [Hw | Hw]. discriminate. eapply H2; eauto.
Qed.

Lemma max_from_no_present : forall cs acc, (forall w, ~ In (Some w) cs) -> max_from acc cs = acc.
Proof.
  induction cs as [|c r IH]; intros acc H; simpl; auto.
  destruct c as [w|]. exfalso. apply (H w). left; auto. apply IH. intros w Hw. apply (H w). right; auto.
Qed.

Lemma max_from_some : forall cs acc w, In (Some w) cs -> exists m, max_from acc cs = Some m.
Proof.
  induction cs as [|c r IH]; intros acc w H. destruct H.
  simpl. destruct c as [w'|].
  - destruct (max_from (Some match acc with Some m => Z.max m (wnum w') | None => wnum w' end) r) eqn:E.
    eauto. exfalso.
    assert (forall r a, max_from (Some a) r <> None).
    { clear. induction r as [|c r IH]; simpl; intros. discriminate. destruct c; apply IH. }
    eapply H0; eauto.
  - destruct H as [H | H]. discriminate. eapply IH; eauto.
Qed.
Lemma min_from_some : forall cs acc w, In (Some w) cs -> exists m, min_from acc cs = Some m.
Proof.
  induction cs as [|c r IH]; intros acc w H. destruct H.
  simpl. destruct c as [w'|].
  - destruct (min_from (Some match acc with Some m => Z.min m (wnum w') | None => wnum w' end) r) eqn:E.
    eauto. exfalso.
    assert (forall r a, min_from (Some a) r <> None).
    { clear. induction r as [|c r IH]; simpl; intros. discriminate. destruct c; apply IH. }
    eapply H0; eauto.
  - destruct H as [H | H]. discriminate. eapply IH; eauto.
Qed.

(* ================================================================== C. tables and matrices *)

Definition dense (M : matrix) (r c : nat) : Prop := length M = r /\ Forall (fun row => length row = c) M.
Definition assignment (r c : nat) (a : list (nat * nat)) : Prop :=
  NoDup (map fst a) /\ NoDup (map snd a) /\ Forall (fun p => (fst p < r)%nat /\ (snd p < c)%nat) a.
Definition float_safe (M : matrix) : Prop := 4 * msum_abs M <= 2 ^ 53.

(* the contract of scipy.optimize.linear_sum_assignment: on a dense matrix on which float64 arithmetic is
   exact it returns min(r, c) pairs forming an injective partial assignment of minimum total *)
Definition optimal_full (solve : matrix -> list (nat * nat)) : Prop :=
  forall M r c, dense M r c -> float_safe M ->
    assignment r c (solve M) /\ length (solve M) = Nat.min r c /\
    forall a', assignment r c a' -> length a' = Nat.min r c -> mtotal M (solve M) <= mtotal M a'.

Lemma float_safeb_iff : forall M, float_safeb M = true <-> float_safe M.
Proof. intros. unfold float_safeb, float_safe. apply Z.leb_le. Qed.

Lemma nth_cells : forall (W : table) i j row c,
  nth_error W i = Some row -> nth_error row j = Some c -> In c (cells W).
Proof.
  intros. unfold cells. apply in_concat. exists row. split; eapply nth_error_In; eauto.
Qed.

Lemma lookup_cells : forall W i j w, lookup W i j = Some w -> In (Some w) (cells W).
Proof.
  unfold lookup. intros W i j w H.
  destruct (nth_error W i) as [row|] eqn:E1; [|discriminate].
  destruct (nth_error row j) as [c|] eqn:E2; [|discriminate]. subst c. eapply nth_cells; eauto.
Qed.

Lemma rectb_spec : forall W, rectb W = true -> forall row, In row W -> length row = ncols W.
Proof.
  unfold rectb. intros W H row Hin. rewrite forallb_forall in H. apply Nat.eqb_eq. auto.
Qed.

Lemma lookup_range : forall W i j w, rectb W = true -> lookup W i j = Some w ->
  (i < nrows W)%nat /\ (j < ncols W)%nat.
Proof.
  unfold lookup. intros W i j w Hr H.
  destruct (nth_error W i) as [row|] eqn:E1; [|discriminate].
  destruct (nth_error row j) as [c|] eqn:E2; [|discriminate].
  split. apply nth_error_Some. congruence.
  rewrite <- (rectb_spec W Hr row) by (eapply nth_error_In; eauto). apply nth_error_Some. congruence.
Qed.

Lemma fill_dense : forall s W, rectb W = true -> dense (fill s W) (nrows W) (ncols W).
Proof.
  intros s W H. split. unfold fill. apply map_length.
  unfold fill. apply Forall_forall. intros row Hin. apply in_map_iff in Hin.
  destruct Hin as [row0 [E Hin]]. subst row. rewrite map_length. apply rectb_spec; auto.
Qed.

Definition rsum (row : list Z) : Z := fold_right (fun x a => Z.abs x + a) 0 row.
Lemma msum_abs_cons : forall row M, msum_abs (row :: M) = rsum row + msum_abs M.
Proof. reflexivity. Qed.
Lemma rsum_nonneg : forall row, 0 <= rsum row.
Proof. induction row; simpl; lia. Qed.
Lemma msum_abs_nonneg : forall M, 0 <= msum_abs M.
Proof. induction M as [|row M IH]. simpl; lia. rewrite msum_abs_cons. pose proof (rsum_nonneg row). lia. Qed.
Lemma rsum_in : forall row x, In x row -> Z.abs x <= rsum row.
Proof.
  induction row as [|y row IH]; intros x H. destruct H.
  simpl. pose proof (rsum_nonneg row). destruct H as [H | H]. subst; lia. apply IH in H. lia.
Qed.
Lemma msum_abs_in : forall M row x, In row M -> In x row -> Z.abs x <= msum_abs M.
Proof.
  induction M as [|r M IH]; intros row x H Hx. destruct H.
  rewrite msum_abs_cons. pose proof (rsum_nonneg r). pose proof (msum_abs_nonneg M).
  destruct H as [H | H]. subst r. apply rsum_in in Hx. lia. specialize (IH _ _ H Hx). lia.
Qed.

Lemma fill_present : forall s W w, In (Some w) (cells W) -> exists row, In row (fill s W) /\ In (wnum w) row.
Proof.
  intros s W w H. unfold cells in H. apply in_concat in H. destruct H as [row [Hr Hc]].
  exists (map (fun c => match c with Some w => wnum w | None => s end) row). split.
  unfold fill. apply in_map. auto.
  apply in_map_iff. exists (Some w). split; auto.
Qed.
Lemma fill_missing : forall s W, In None (cells W) -> exists row, In row (fill s W) /\ In s row.
Proof.
  intros s W H. unfold cells in H. apply in_concat in H. destruct H as [row [Hr Hc]].
  exists (map (fun c => match c with Some w => wnum w | None => s end) row). split.
  unfold fill. apply in_map. auto.
  apply in_map_iff. exists None. split; auto.
Qed.
Lemma fill_entries : forall s W row x, In row (fill s W) -> In x row ->
  x = s /\ In None (cells W) \/ exists w, In (Some w) (cells W) /\ x = wnum w.
Proof.
  intros s W row x Hr Hx. unfold fill in Hr. apply in_map_iff in Hr. destruct Hr as [row0 [E Hr]]. subst row.
  apply in_map_iff in Hx. destruct Hx as [c [E Hc]].
  assert (In c (cells W)) by (unfold cells; apply in_concat; eauto).
  destruct c as [w|]. right. exists w. auto. left. auto.
Qed.

Lemma fill_complete : forall s s' W, ~ In None (cells W) -> fill s W = fill s' W.
Proof.
  intros s s' W H. unfold fill. apply map_ext_in. intros row Hr. apply map_ext_in. intros c Hc.
  destruct c; auto. exfalso. apply H. unfold cells. apply in_concat. eauto.
Qed.

Lemma rsum_cast_bool : forall row, rsum (map (fun x => if x =? 0 then 0 else 1) row) <= rsum row.
Proof.
  induction row as [|x row IH]; simpl. lia. destruct (Z.eqb_spec x 0); lia.
Qed.

Lemma cast_matrix_props : forall dt M M', cast_matrix dt M = Some M' ->
  msum_abs M' <= msum_abs M /\ (forall r c, dense M r c -> dense M' r c).
Proof.
  intros dt M M' H. destruct dt; simpl in H.
  - inversion H; subst M'. clear H. split.
    + induction M as [|row M IH]. simpl. lia. simpl map. rewrite !msum_abs_cons.
      pose proof (rsum_cast_bool row). lia.
    + intros r c [H1 H2]. split. rewrite map_length; auto.
      apply Forall_forall. intros row Hin. apply in_map_iff in Hin. destruct Hin as [row0 [E Hin]]. subst row.
      rewrite map_length. rewrite Forall_forall in H2. auto.
  - inversion H; subst. split. lia. auto.
  - destruct (forallb (forallb (fitsb d)) M); inversion H; subst. split. lia. auto.
Qed.

Lemma cast_bool_id : forall W s, ~ In None (cells W) -> (forall w, In (Some w) (cells W) -> wty w = TBool) ->
  map (map (fun x => if x =? 0 then 0 else 1)) (fill s W) = fill s W.
Proof.
  intros W s Hn Hb. unfold fill. rewrite map_map. apply map_ext_in. intros row Hr.
  rewrite map_map. apply map_ext_in. intros c Hc.
  assert (In c (cells W)) by (unfold cells; apply in_concat; eauto).
  destruct c as [w|]. specialize (Hb _ H). destruct w as [[|]| |]; simpl in *; try discriminate; reflexivity.
  contradiction.
Qed.

(* ================================================================== D. everything before the solver *)

Lemma present_of_max : forall W me, max_edge W = Some me -> exists w, In (Some w) (cells W) /\ wnum w = me.
Proof. unfold max_edge. intros W me H. apply max_from_in in H. destruct H as [H | H]. discriminate. auto. Qed.
Lemma present_of_min : forall W lo, min_edge W = Some lo -> exists w, In (Some w) (cells W) /\ wnum w = lo.
Proof. unfold min_edge. intros W me H. apply min_from_in in H. destruct H as [H | H]. discriminate. auto. Qed.

Lemma edge_ty_some : forall W w, mixedb W = false -> In (Some w) (cells W) ->
  exists t, edge_ty W = Some t /\ forall w', In (Some w') (cells W) -> wty w' = t.
Proof.
  unfold mixedb, edge_ty. intros W w Hm Hin. destruct (ty_from None (cells W)) as [o|] eqn:E; [|discriminate].
  destruct o as [t|].
  - exists t. split; auto. apply ty_from_all in E. tauto.
  - apply ty_from_none in E. destruct E as [_ E]. exfalso. eapply E; eauto.
Qed.
Lemma edge_ty_none : forall W, mixedb W = false -> edge_ty W = None -> forall w, ~ In (Some w) (cells W).
Proof.
  unfold mixedb, edge_ty. intros W Hm He. destruct (ty_from None (cells W)) as [o|] eqn:E; [|discriminate].
  subst o. apply ty_from_none in E. tauto.
Qed.

Lemma ncols_pos : forall W c, rectb W = true -> In c (cells W) -> (0 < ncols W)%nat.
Proof.
  intros W c Hr Hc. unfold cells in Hc. apply in_concat in Hc. destruct Hc as [row [H1 H2]].
  rewrite <- (rectb_spec W Hr row H1). destruct row. destruct H2. simpl. lia.
Qed.
Lemma zmax_col_sums : forall W, (0 < ncols W)%nat -> exists mx, zmax_list (col_sums W) = Some mx.
Proof.
  intros W H. unfold col_sums. destruct (ncols W) as [|n]. lia. simpl. eauto.
Qed.

Lemma pow2_53 : 2 ^ 53 = 9007199254740992. Proof. reflexivity. Qed.
Lemma pow2_63 : 2 ^ 63 = 9223372036854775808. Proof. reflexivity. Qed.
Lemma pow2_64 : 2 ^ 64 = 18446744073709551616. Proof. reflexivity. Qed.

(* on a float64-exact matrix the generated get_dtype yields a dtype that holds every entry: no OverflowError *)
Lemma int_cast_fits : forall W s lo hi,
  float_safe (fill s W) -> min_edge W = Some lo ->
  (forall w, In (Some w) (cells W) -> lo <= wnum w <= hi) ->
  (In None (cells W) -> lo <= s <= hi) ->
  (exists row, In row (fill s W) /\ In hi row) ->
  forallb (forallb (fitsb (get_dtype lo hi))) (fill s W) = true.
Proof.
  intros W s lo hi Hsafe Hmin Hpres Hmiss Hhi.
  destruct (present_of_min _ _ Hmin) as [w0 [Hw0 Elo]].
  destruct (fill_present s W w0 Hw0) as [row0 [Hr0 Hx0]]. rewrite Elo in Hx0.
  pose proof (msum_abs_in _ _ _ Hr0 Hx0) as Blo.
  destruct Hhi as [row1 [Hr1 Hx1]]. pose proof (msum_abs_in _ _ _ Hr1 Hx1) as Bhi.
  unfold float_safe in Hsafe. rewrite pow2_53 in Hsafe.
  assert (Hle : lo <= hi) by (specialize (Hpres _ Hw0); lia).
  assert (Hok : int_range_okb lo hi = true).
  { unfold int_range_okb. apply orb_true_iff. right. apply andb_true_iff. rewrite pow2_63. split.
    apply Z.leb_le. lia. apply Z.ltb_lt. lia. }
  destruct (get_dtype_fits lo hi Hle (int_range_in_table _ _ Hok)) as [F1 F2].
  apply forallb_forall. intros row Hr. apply forallb_forall. intros x Hx.
  apply (fitsb_between _ lo hi); auto.
  destruct (fill_entries _ _ _ _ Hr Hx) as [[E Hn] | [w [Hw E]]]; subst x; auto.
Qed.

(* a scanned type means some pair exists *)
Lemma ty_from_present : forall cs t, ty_from None cs = Some (Some t) -> exists w, In (Some w) cs.
Proof.
  induction cs as [|c r IH]; intros t H; simpl in H. discriminate.
  destruct c as [w|]. exists w. left; auto.
  destruct (IH _ H) as [w Hw]. exists w. right; auto.
Qed.
Lemma ty_from_no_present : forall cs acc, (forall w, ~ In (Some w) cs) -> ty_from acc cs = Some acc.
Proof.
  induction cs as [|c r IH]; intros acc H; simpl; auto.
  destruct c as [w|]. exfalso. apply (H w). left; auto. apply IH. intros w Hw. apply (H w). right; auto.
Qed.

Lemma prepare_in_domain : forall u W, in_domainb u W = true ->
  (edge_ty W = None /\ prepare u W = PEmpty) \/
  (exists s M, prepare u W = PSolve (has_null W) s M /\ dense M (nrows W) (ncols W) /\ float_safe M /\
               (has_null W = false -> M = fill 0 W)).
Proof.
  intros u W H. unfold in_domainb in H.
  repeat (apply andb_true_iff in H; let H' := fresh "D" in destruct H as [H H']).
  rename H into Hrect. apply negb_true_iff in D, D0, D1, D2.
  rename D2 into Hmix, D1 into Hneg, D0 into Hso, D into Hb.
  unfold prepare. rewrite scan_spec, Hmix. cbn [s_ty s_max s_min s_null].
  unfold kf_beyond_2p53 in Hb. apply negb_false_iff in Hb. apply float_safeb_iff in Hb.
  destruct (edge_ty W) as [t|] eqn:Et; [right | left; auto].
  (* some pair exists *)
  assert (Hpres : exists w, In (Some w) (cells W)).
  { unfold edge_ty in Et. destruct (ty_from None (cells W)) as [o|] eqn:E; [|discriminate]. subst o.
    eapply ty_from_present; eauto. }
  destruct Hpres as [w0 Hw0].
  destruct (edge_ty_some _ _ Hmix Hw0) as [t' [Et' Hall]]. rewrite Et in Et'. inversion Et'; subst t'.
  destruct (min_from_some (cells W) None w0 Hw0) as [lo Elo]. fold (min_edge W) in Elo.
  destruct (max_from_some (cells W) None w0 Hw0) as [me Eme]. fold (max_edge W) in Eme.
  destruct (has_null W) eqn:Hn.
  - (* some pair is missing *)
    unfold has_null in Hn. pose proof (has_null_cells_true _ Hn) as HNone.
    destruct (zmax_col_sums W (ncols_pos _ _ Hrect HNone)) as [mx Emx]. rewrite Emx.
    unfold kf_negative_with_missing in Hneg. unfold has_null in Hneg. rewrite Hn, Eme in Hneg. simpl in Hneg.
    unfold filled in Hb. unfold sentinel in Hneg, Hb. rewrite Emx in Hneg, Hb. unfold one_of in Hneg, Hb.
    rewrite Et in Hneg, Hb. rewrite Eme.
    destruct (present_of_max _ _ Eme) as [wm [Hwm Ewm]].
    set (nev := mx + match t with TFloat => u | _ => 1 end) in *.
    apply Z.leb_gt in Hneg.
    replace (nev >? me) with true by (symmetry; rewrite Z.gtb_ltb; apply Z.ltb_lt; lia).
    assert (Hd : dense (fill nev W) (nrows W) (ncols W)) by (apply fill_dense; auto).
    assert (Hcast : exists M, cast_matrix match t with TBool => DBool | TInt => DInt (get_dtype (oz (min_edge W)) (oz (Some nev))) | TFloat => DFloat end (fill nev W) = Some M).
    { destruct t; simpl; eauto.
      rewrite Elo. simpl. rewrite int_cast_fits; eauto.
      - intros w Hw. unfold min_edge in Elo. apply min_from_le in Elo. destruct Elo as [_ L].
        unfold max_edge in Eme. apply max_from_ge in Eme. destruct Eme as [_ G].
        specialize (L _ Hw). specialize (G _ Hw). lia.
      - intros _. unfold min_edge in Elo. apply min_from_le in Elo. destruct Elo as [_ L].
        specialize (L _ Hwm). lia.
      - apply fill_missing. auto. }
    destruct Hcast as [M EM]. rewrite EM. exists nev, M.
    destruct (cast_matrix_props _ _ _ EM) as [P1 P2].
    split; [reflexivity|]. split; [auto|]. split; [unfold float_safe in *; lia|]. discriminate.
  - (* no pair is missing *)
    unfold has_null in Hn. pose proof (has_null_cells_false _ Hn) as HNone.
    unfold filled in Hb. rewrite (fill_complete _ 0 W HNone) in Hb.
    assert (Hd : dense (fill 0 W) (nrows W) (ncols W)) by (apply fill_dense; auto).
    assert (Hcast : cast_matrix match t with TBool => DBool | TInt => DInt (get_dtype (oz (min_edge W)) (oz (max_edge W))) | TFloat => DFloat end (fill 0 W) = Some (fill 0 W)).
    { destruct t; simpl; auto.
      - rewrite cast_bool_id; auto.
      - rewrite Elo, Eme. simpl. rewrite int_cast_fits; eauto.
        + intros w Hw. unfold min_edge in Elo. apply min_from_le in Elo. destruct Elo as [_ L].
          unfold max_edge in Eme. apply max_from_ge in Eme. destruct Eme as [_ G].
          specialize (L _ Hw). specialize (G _ Hw). lia.
        + intros Hc. contradiction.
        + destruct (present_of_max _ _ Eme) as [wm [Hwm Ewm]]. rewrite <- Ewm. apply fill_present. auto. }
    rewrite Hcast. exists 0, (fill 0 W). auto.
Qed.

(* ================================================================== E. the final filter *)

Lemma report_sound : forall W hn s a m, report W hn s a = Some m ->
  Forall (fun p => lookup W (fst p) (fst (snd p)) = Some (snd (snd p))) m /\
  (forall i, In i (m_rows m) -> In i (map fst a)) /\
  (forall j, In j (m_cols m) -> In j (map snd a)).
Proof.
  induction a as [|[i j] r IH]; intros m H; simpl in H.
  - inversion H. simpl. repeat split; auto.
  - destruct (nth_error W i) as [row|] eqn:E1; [|discriminate].
    destruct (nth_error row j) as [cell|] eqn:E2; [|discriminate].
    destruct (report W hn s r) as [m0|] eqn:E3; [|discriminate].
    destruct (IH m0 eq_refl) as [I1 [I2 I3]].
    assert (Hbase : Forall (fun p => lookup W (fst p) (fst (snd p)) = Some (snd (snd p))) m0 /\
                    (forall i0, In i0 (m_rows m0) -> In i0 (map fst ((i, j) :: r))) /\
                    (forall j0, In j0 (m_cols m0) -> In j0 (map snd ((i, j) :: r)))).
    { repeat split; auto; intros; simpl; right; auto. }
    destruct cell as [w|].
    + destruct (negb hn || (wnum w <? s)); inversion H; subst m; auto.
      split; [|split].
      * constructor; auto. simpl. unfold lookup. rewrite E1, E2. reflexivity.
      * intros i0 [Hi | Hi]; simpl; auto.
      * intros j0 [Hj | Hj]; simpl; auto.
    + inversion H; subst m; auto.
Qed.

Lemma report_nodup : forall W hn s a m, report W hn s a = Some m ->
  NoDup (map fst a) -> NoDup (map snd a) -> NoDup (m_rows m) /\ NoDup (m_cols m).
Proof.
  induction a as [|[i j] r IH]; intros m H N1 N2; simpl in H.
  - inversion H. simpl. split; constructor.
  - destruct (nth_error W i) as [row|] eqn:E1; [|discriminate].
    destruct (nth_error row j) as [cell|] eqn:E2; [|discriminate].
    destruct (report W hn s r) as [m0|] eqn:E3; [|discriminate].
    simpl in N1, N2. inversion N1; subst. inversion N2; subst.
    destruct (IH m0 eq_refl H3 H5) as [I1 I2].
    destruct (report_sound _ _ _ _ _ E3) as [_ [S1 S2]].
    destruct cell as [w|].
    + destruct (negb hn || (wnum w <? s)); inversion H; subst m; auto.
      split; simpl; constructor; auto.
    + inversion H; subst m; auto.
Qed.

Lemma report_total : forall W hn s a, rectb W = true ->
  Forall (fun p => (fst p < nrows W)%nat /\ (snd p < ncols W)%nat) a -> exists m, report W hn s a = Some m.
Proof.
  induction a as [|[i j] r IH]; intros Hr Ha; simpl. eauto.
  inversion Ha; subst. simpl in H1. destruct H1 as [Hi Hj].
  destruct (nth_error W i) as [row|] eqn:E1; [|apply nth_error_None in E1; unfold nrows in Hi; lia].
  assert (length row = ncols W) by (apply rectb_spec; auto; eapply nth_error_In; eauto).
  destruct (nth_error row j) as [cell|] eqn:E2; [|apply nth_error_None in E2; lia].
  destruct (IH Hr H2) as [m0 E]. rewrite E. destruct cell; eauto.
Qed.

Lemma mget_fill : forall W s i j w, lookup W i j = Some w -> mget (fill s W) i j = wnum w.
Proof.
  unfold lookup, mget, fill. intros W s i j w H.
  destruct (nth_error W i) as [row|] eqn:E1; [|discriminate].
  destruct (nth_error row j) as [c|] eqn:E2; [|discriminate]. subst c.
  rewrite (nth_error_nth _ _ _ (map_nth_error _ _ _ E1)).
  rewrite (nth_error_nth _ _ _ (map_nth_error _ _ _ E2)). reflexivity.
Qed.

(* on a complete table nothing is filtered: the dict is the solver's answer with the table's weights *)
Lemma report_complete : forall W s s' a m, ~ In None (cells W) -> report W false s a = Some m ->
  length m = length a /\ total m = mtotal (fill s' W) a.
Proof.
  induction a as [|[i j] r IH]; intros m Hn H; simpl in H.
  - inversion H. auto.
  - destruct (nth_error W i) as [row|] eqn:E1; [|discriminate].
    destruct (nth_error row j) as [cell|] eqn:E2; [|discriminate].
    destruct (report W false s r) as [m0|] eqn:E3; [|discriminate].
    destruct (IH m0 Hn eq_refl) as [I1 I2].
    destruct cell as [w|].
    + simpl in H. inversion H; subst m. simpl. split. lia.
      rewrite I2. f_equal. symmetry. apply mget_fill. unfold lookup. rewrite E1, E2. reflexivity.
    + exfalso. apply Hn. eapply nth_cells; eauto.
Qed.

(* a valid pairing read as an assignment on the filled matrix *)
Definition pairs_of (m : matching) : list (nat * nat) := map (fun p => (fst p, fst (snd p))) m.
Lemma pairs_of_assignment : forall W m, rectb W = true -> valid W m -> assignment (nrows W) (ncols W) (pairs_of m).
Proof.
  intros W m Hr [V1 [V2 V3]]. unfold assignment, pairs_of. rewrite !map_map. simpl.
  split; [exact V1|]. split; [exact V2|].
  apply Forall_forall. intros p Hp. apply in_map_iff in Hp. destruct Hp as [q [E Hq]]. subst p. simpl.
  rewrite Forall_forall in V3. eapply lookup_range; eauto.
Qed.
Lemma pairs_of_total : forall W s m, valid W m -> mtotal (fill s W) (pairs_of m) = total m.
Proof.
  intros W s m [_ [_ V3]]. induction m as [|p m IH]. reflexivity.
  inversion V3; subst. simpl. rewrite IH; auto. f_equal. apply mget_fill. auto.
Qed.

(* ================================================================== F. the main theorems *)

Definition in_domain (u : Z) (W : table) : Prop := in_domainb u W = true.
Definition complete (W : table) : Prop := has_null W = false.

Section WithSolver.
  Variable solve : matrix -> list (nat * nat).
  Hypothesis solve_contract : optimal_full solve.

  (* on the domain the routine returns a pairing (no exception) *)
  Theorem C15_total : forall u W, in_domain u W -> exists m, mwbm solve u W = OK m.
  Proof.
    intros u W Hd. pose proof Hd as Hd'. unfold in_domain, in_domainb in Hd'.
    assert (Hrect : rectb W = true).
    { repeat (apply andb_true_iff in Hd'; destruct Hd' as [Hd' _]). exact Hd'. }
    unfold mwbm. destruct (prepare_in_domain u W Hd) as [[_ E] | [s [M [E [HD [HS _]]]]]]; rewrite E.
    - eauto.
    - destruct (solve_contract M _ _ HD HS) as [[_ [_ A]] _].
      destruct (report_total W (has_null W) s (solve M) Hrect A) as [m Em]. rewrite Em. eauto.
  Qed.

  (* the returned pairing is one-to-one, uses only existing pairs, reports their true weights *)
  Theorem C15_valid : forall u W m, in_domain u W -> mwbm solve u W = OK m -> valid W m.
  Proof.
    intros u W m Hd H. unfold mwbm in H.
    destruct (prepare_in_domain u W Hd) as [[_ E] | [s [M [E [HD [HS _]]]]]]; rewrite E in H.
    - inversion H. repeat split; constructor.
    - destruct (report W (has_null W) s (solve M)) as [m0|] eqn:Er; inversion H; subst m0.
      destruct (solve_contract M _ _ HD HS) as [[A1 [A2 _]] _].
      destruct (report_nodup _ _ _ _ _ Er A1 A2) as [N1 N2].
      destruct (report_sound _ _ _ _ _ Er) as [S _]. repeat split; auto.
  Qed.

  (* with no missing pair: as many pairs as possible, and no pairing of that size is lighter *)
  Theorem C15_opt : forall u W m, in_domain u W -> complete W -> mwbm solve u W = OK m ->
    length m = Nat.min (nrows W) (ncols W) /\
    forall m', valid W m' -> length m' = length m -> total m <= total m'.
  Proof.
    intros u W m Hd Hc H. pose proof Hd as Hd'. unfold in_domain, in_domainb in Hd'.
    assert (Hrect : rectb W = true).
    { repeat (apply andb_true_iff in Hd'; destruct Hd' as [Hd' _]). exact Hd'. }
    assert (Hmix : mixedb W = false).
    { repeat (apply andb_true_iff in Hd'; destruct Hd' as [Hd' ?]). apply negb_true_iff. assumption. }
    unfold complete in Hc. pose proof (has_null_cells_false _ Hc) as HNone.
    unfold mwbm in H.
    destruct (prepare_in_domain u W Hd) as [[Et E] | [s [M [E [HD [HS HM]]]]]]; rewrite E in H.
    - inversion H; subst m. simpl.
      assert (Hcells : cells W = []).
      { destruct (cells W) as [|c r] eqn:Ec; auto. exfalso. destruct c as [w|].
        eapply (edge_ty_none W Hmix Et w). rewrite Ec. left; auto. apply HNone. left; auto. }
      split.
      + destruct W as [|row W']. reflexivity. unfold cells in Hcells. simpl in Hcells.
        apply app_eq_nil in Hcells. destruct Hcells as [Hrow _]. subst row. simpl. lia.
      + intros m' _ Hl. destruct m'; [simpl; lia | discriminate].
    - rewrite Hc in H. specialize (HM Hc). subst M.
      destruct (report W false s (solve (fill 0 W))) as [m0|] eqn:Er; inversion H; subst m0.
      destruct (report_complete W s 0 _ _ HNone Er) as [L T].
      destruct (solve_contract _ _ _ HD HS) as [_ [Hlen Hopt]].
      split. lia.
      intros m' Hv Hl. rewrite T. rewrite <- (pairs_of_total W 0 m' Hv).
      apply Hopt. apply pairs_of_assignment; auto. unfold pairs_of. rewrite map_length. lia.
  Qed.
End WithSolver.

(* weights of different Python types: the documented ValueError, whatever the solver *)
Theorem C15_mixed : forall solve u W, mixedb W = true -> mwbm solve u W = Err ValueError.
Proof. intros. unfold mwbm, prepare. rewrite scan_spec, H. reflexivity. Qed.

(* ================================================================== G. the brute-force optimum *)

Lemma mtotal_app : forall M a b, mtotal M (a ++ b) = mtotal M a + mtotal M b.
Proof. induction a; intros; simpl. lia. rewrite IHa. lia. Qed.

Lemma enum_sound : forall n i cols k a, In a (enum n i cols k) ->
  length a = k /\ NoDup (map fst a) /\ NoDup (map snd a) /\
  Forall (fun p => (i <= fst p < i + n)%nat /\ In (snd p) cols) a.
Proof.
  induction n as [|n IH]; intros i cols k a H; simpl in H.
  - destruct k; simpl in H; [|destruct H]. destruct H as [H | []]. subst a. simpl.
    repeat split; constructor.
  - apply in_app_or in H. destruct H as [H | H].
    + destruct k as [|k]. destruct H.
      apply in_flat_map in H. destruct H as [j [Hj H]]. apply in_map_iff in H. destruct H as [b [E Hb]].
      subst a. apply IH in Hb. destruct Hb as [L [N1 [N2 F]]]. rewrite Forall_forall in F.
      simpl. split; [lia|]. split; [|split].
      * constructor; auto. intros Hin. apply in_map_iff in Hin. destruct Hin as [p [E Hp]].
        apply F in Hp. lia.
      * constructor; auto. intros Hin. apply in_map_iff in Hin. destruct Hin as [p [E Hp]].
        apply F in Hp. destruct Hp as [_ Hp]. rewrite E in Hp. apply remove_In in Hp. auto.
      * constructor. simpl. split; [lia | auto].
        apply Forall_forall. intros p Hp. apply F in Hp. destruct Hp as [Hp1 Hp2]. split. lia.
        apply in_remove in Hp2. tauto.
    + apply IH in H. destruct H as [L [N1 [N2 F]]]. repeat split; auto.
      eapply Forall_impl; [|exact F]. simpl. intros p [Hp1 Hp2]. split; [lia | auto].
Qed.

Lemma enum_complete : forall n i cols k a,
  length a = k -> NoDup (map fst a) -> NoDup (map snd a) ->
  Forall (fun p => (i <= fst p < i + n)%nat /\ In (snd p) cols) a ->
  exists a', In a' (enum n i cols k) /\ forall M, mtotal M a' = mtotal M a.
Proof.
  induction n as [|n IH]; intros i cols k a L N1 N2 F.
  - destruct a as [|p a]. subst k. exists []. simpl. auto.
    inversion F; subst. lia.
  - destruct (in_dec Nat.eq_dec i (map fst a)) as [Hi | Hi].
    + apply in_map_iff in Hi. destruct Hi as [[i' j] [E Hp]]. simpl in E. subst i'.
      apply in_split in Hp. destruct Hp as [a1 [a2 Ea]]. subst a.
      rewrite map_app in N1, N2. simpl in N1, N2.
      pose proof (NoDup_remove_1 _ _ _ N1) as N1'. pose proof (NoDup_remove_2 _ _ _ N1) as N1''.
      pose proof (NoDup_remove_1 _ _ _ N2) as N2'. pose proof (NoDup_remove_2 _ _ _ N2) as N2''.
      rewrite <- map_app in N1', N1'', N2', N2''.
      rewrite app_length in L. simpl in L. destruct k as [|k]; [lia|].
      assert (Fj : In j cols).
      { rewrite Forall_forall in F. specialize (F (i, j)). simpl in F. apply F. apply in_or_app. right; left; auto. }
      destruct (IH (S i) (remove Nat.eq_dec j cols) k (a1 ++ a2)%list) as [b [Hb Tb]]; auto.
      * rewrite app_length. lia.
      * apply Forall_forall. intros p Hp. rewrite Forall_forall in F.
        assert (Hp' : In p (a1 ++ (i, j) :: a2)).
        { apply in_app_or in Hp. apply in_or_app. destruct Hp; auto. right; right; auto. }
        specialize (F _ Hp'). destruct F as [F1 F2]. split.
        -- assert (fst p <> i). { intros E. apply N1''. apply in_map_iff. exists p. auto. } lia.
        -- apply in_in_remove; auto. intros E. apply N2''. apply in_map_iff. exists p. auto.
      * exists ((i, j) :: b). split.
        -- simpl. apply in_or_app. left. apply in_flat_map. exists j. split; auto. apply in_map. auto.
        -- intros M. simpl. rewrite Tb. rewrite !mtotal_app. simpl. lia.
    + destruct (IH (S i) cols k a) as [b [Hb Tb]]; auto.
      * apply Forall_forall. intros p Hp. rewrite Forall_forall in F. specialize (F _ Hp).
        destruct F as [F1 F2]. split; auto.
        assert (fst p <> i). { intros E. apply Hi. apply in_map_iff. exists p. auto. } lia.
      * exists b. split; auto. simpl. apply in_or_app. right. auto.
Qed.

Lemma argmin_fold : forall M r a0,
  let res := fold_left (fun best x => if mtotal M x <? mtotal M best then x else best) r a0 in
  (res = a0 \/ In res r) /\ mtotal M res <= mtotal M a0 /\ forall x, In x r -> mtotal M res <= mtotal M x.
Proof.
  induction r as [|y r IH]; intros a0; simpl.
  - split; auto. split. lia. intros x [].
  - destruct (Z.ltb_spec (mtotal M y) (mtotal M a0)).
    + destruct (IH y) as [I1 [I2 I3]]. split; [|split].
      * destruct I1; auto.
      * lia.
      * intros x [Hx | Hx]. subst; auto. auto.
    + destruct (IH a0) as [I1 [I2 I3]]. split; [|split].
      * destruct I1; auto.
      * lia.
      * intros x [Hx | Hx]. subst; lia. auto.
Qed.

Lemma argmin_spec : forall M l, l <> [] ->
  In (argmin M l) l /\ forall x, In x l -> mtotal M (argmin M l) <= mtotal M x.
Proof.
  intros M l Hl. destruct l as [|a0 r]. congruence. unfold argmin.
  destruct (argmin_fold M r a0) as [I1 [I2 I3]]. split.
  - destruct I1 as [E | E]. rewrite E. left; auto. right; auto.
  - intros x [Hx | Hx]. subst; auto. auto.
Qed.

Definition diag (k : nat) : list (nat * nat) := map (fun t => (t, t)) (seq 0 k).
Lemma diag_assignment : forall r c, assignment r c (diag (Nat.min r c)) /\ length (diag (Nat.min r c)) = Nat.min r c.
Proof.
  intros r c. unfold assignment, diag. rewrite !map_map. simpl. rewrite map_id, map_length, seq_length.
  repeat split; try apply seq_NoDup.
  apply Forall_forall. intros p Hp. apply in_map_iff in Hp. destruct Hp as [t [E Ht]]. subst p. simpl.
  apply in_seq in Ht. lia.
Qed.

Lemma assignment_enum : forall r c a, assignment r c a -> length a = Nat.min r c ->
  exists a', In a' (enum r 0 (seq 0 c) (Nat.min r c)) /\ forall M, mtotal M a' = mtotal M a.
Proof.
  intros r c a [A1 [A2 A3]] L. apply enum_complete; auto.
  eapply Forall_impl; [|exact A3]. simpl. intros p [P1 P2]. split. lia. apply in_seq. lia.
Qed.

(* exhaustive search meets the solver contract on every dense matrix (no float restriction) *)
Lemma brute_solve_optimal : forall M r c, dense M r c ->
  assignment r c (brute_solve M) /\ length (brute_solve M) = Nat.min r c /\
  forall a', assignment r c a' -> length a' = Nat.min r c -> mtotal M (brute_solve M) <= mtotal M a'.
Proof.
  intros M r c [D1 D2]. unfold brute_solve.
  destruct M as [|row M'].
  - simpl in D1. subst r. simpl. split; [|split].
    + repeat split; constructor.
    + reflexivity.
    + intros a' _ L. destruct a'; [simpl; lia | discriminate].
  - assert (Ec : mcols (row :: M') = c) by (inversion D2; auto). rewrite Ec, D1.
    destruct (diag_assignment r c) as [DA DL].
    destruct (assignment_enum r c _ DA DL) as [d [Hd _]].
    assert (Hne : enum r 0 (seq 0 c) (Nat.min r c) <> []) by (intros E; rewrite E in Hd; destruct Hd).
    destruct (argmin_spec (row :: M') _ Hne) as [Hin Hmin].
    apply enum_sound in Hin. destruct Hin as [L [N1 [N2 F]]].
    split; [|split]; auto.
    + repeat split; auto. eapply Forall_impl; [|exact F]. simpl. intros p [P1 P2]. apply in_seq in P2. lia.
    + intros a' Ha' La'. destruct (assignment_enum r c a' Ha' La') as [b [Hb Tb]].
      rewrite <- Tb. apply Hmin. auto.
Qed.

Theorem brute_solve_contract : optimal_full brute_solve.
Proof. intros M r c HD _. apply brute_solve_optimal. auto. Qed.

(* the executable optimum used by holds_C15 is a minimum over all full assignments, and is attained *)
Theorem brute_opt_min : forall M r c, dense M r c ->
  (forall a, assignment r c a -> length a = Nat.min r c -> brute_opt M <= mtotal M a) /\
  (exists a, assignment r c a /\ length a = Nat.min r c /\ mtotal M a = brute_opt M).
Proof.
  intros M r c HD. destruct (brute_solve_optimal M r c HD) as [A [L O]]. split.
  - intros a Ha La. unfold brute_opt. auto.
  - exists (brute_solve M). auto.
Qed.

(* ================================================================== H. the executable statement holds for the model *)

Lemma nodupb_true : forall l, NoDup l -> nodupb l = true.
Proof.
  induction l as [|x l IH]; intros H; simpl. reflexivity. inversion H; subst.
  rewrite IH by auto. rewrite andb_true_r. apply negb_true_iff.
  destruct (existsb (Nat.eqb x) l) eqn:E; auto. apply existsb_exists in E. destruct E as [y [Hy E]].
  apply Nat.eqb_eq in E. subst y. contradiction.
Qed.
Lemma nodupb_NoDup : forall l, nodupb l = true -> NoDup l.
Proof.
  induction l as [|x l IH]; intros H. constructor. simpl in H. apply andb_true_iff in H. destruct H as [H1 H2].
  constructor; auto. intros Hin. apply negb_true_iff in H1.
  assert (existsb (Nat.eqb x) l = true) by (apply existsb_exists; exists x; split; auto; apply Nat.eqb_refl).
  congruence.
Qed.
Lemma weight_eqb_eq : forall a b, weight_eqb a b = true <-> a = b.
Proof.
  intros [x|x|x] [y|y|y]; simpl; split; intros H; try discriminate; try congruence.
  - apply eqb_prop in H. congruence.
  - inversion H. apply eqb_reflx.
  - apply Z.eqb_eq in H. congruence.
  - inversion H. apply Z.eqb_refl.
  - apply Z.eqb_eq in H. congruence.
  - inversion H. apply Z.eqb_refl.
Qed.
Lemma validb_iff : forall W m, validb W m = true <-> valid W m.
Proof.
  intros W m. unfold validb, valid. rewrite !andb_true_iff. split.
  - intros [[H1 H2] H3]. repeat split; try apply nodupb_NoDup; auto.
    apply Forall_forall. intros p Hp. rewrite forallb_forall in H3. specialize (H3 _ Hp).
    unfold pair_okb in H3. destruct (lookup W (fst p) (fst (snd p))); [|discriminate].
    apply weight_eqb_eq in H3. congruence.
  - intros [H1 [H2 H3]]. repeat split; try apply nodupb_true; auto.
    apply forallb_forall. intros p Hp. rewrite Forall_forall in H3. specialize (H3 _ Hp).
    unfold pair_okb. rewrite H3. apply weight_eqb_eq. reflexivity.
Qed.

(* holds_C15's property part is true of the model's own result, for every solver meeting the contract *)
Theorem C15_holds : forall solve u W, optimal_full solve -> in_domain u W ->
  prop_ok {| c_unit := u; c_table := W; c_solver := None; c_result := mwbm solve u W |} = true.
Proof.
  intros solve u W Hs Hd. pose proof Hd as Hd'. unfold in_domain, in_domainb in Hd'.
  assert (Hrect : rectb W = true).
  { repeat (apply andb_true_iff in Hd'; destruct Hd' as [Hd' _]). exact Hd'. }
  assert (Hmix : mixedb W = false).
  { repeat (apply andb_true_iff in Hd'; destruct Hd' as [Hd' ?]). apply negb_true_iff. assumption. }
  unfold prop_ok. cbn [c_table c_result]. rewrite Hmix.
  destruct (C15_total solve Hs u W Hd) as [m Em]. rewrite Em.
  apply andb_true_iff. split. apply validb_iff. eapply C15_valid; eauto.
  destruct (has_null W) eqn:Hn; auto. simpl.
  destruct (C15_opt solve Hs u W m Hd Hn Em) as [L O].
  apply andb_true_iff. split. apply Nat.eqb_eq. auto. apply Z.eqb_eq.
  assert (HD : dense (fill 0 W) (nrows W) (ncols W)) by (apply fill_dense; auto).
  destruct (brute_opt_min _ _ _ HD) as [B1 [a [Ba [Bl Bt]]]].
  pose proof (C15_valid solve Hs u W m Hd Em) as Hv.
  apply Z.le_antisymm.
  - (* total m <= brute optimum: read the optimal assignment as a valid pairing *)
    rewrite <- Bt.
    unfold complete in Hn. pose proof (has_null_cells_false _ Hn) as HNone.
    (* the pairing that reports the table's weights along a *)
    destruct (report_total W false 0 a Hrect) as [m' Em'].
    { destruct Ba as [_ [_ Ba]]. exact Ba. }
    destruct (report_complete W 0 0 a m' HNone Em') as [L' T'].
    rewrite <- T'. apply O; [|lia].
    destruct Ba as [A1 [A2 A3]]. destruct (report_nodup _ _ _ _ _ Em' A1 A2) as [N1 N2].
    destruct (report_sound _ _ _ _ _ Em') as [S _]. repeat split; auto.
  - rewrite <- (pairs_of_total W 0 m Hv). apply B1. apply pairs_of_assignment; auto.
    unfold pairs_of. rewrite map_length. auto.
Qed.

(* ================================================================== I. witnesses *)

(* the hypotheses are satisfiable by non-trivial values: a 2x3 table with a missing pair, a complete 3x2 one *)
Example C15_valid_ex :
  let W := [[Some (WI 4); None; Some (WI 1)]; [Some (WI 2); Some (WI 0); Some (WI 1)]] in
  optimal_full brute_solve /\ in_domain 1 W /\
  mwbm brute_solve 1 W = OK [(0, (2, WI 1)); (1, (1, WI 0))]%nat.
Proof. split. apply brute_solve_contract. split; vm_compute; reflexivity. Qed.

Example C15_opt_ex :
  let W := [[Some (WF 3); Some (WF 1)]; [Some (WF 2); Some (WF 2)]; [Some (WF 0); Some (WF 5)]] in
  in_domain 2 W /\ complete W /\ mwbm brute_solve 2 W = OK [(0, (1, WF 1)); (2, (0, WF 0))]%nat.
Proof. repeat split; vm_compute; reflexivity. Qed.

(* ---- every pair missing (formerly D14a, TypeError; fixed in /repo): the routine returns the empty pairing,
   whatever the solver (it is not called), the unit and the shape of the table; the empty pairing satisfies the
   property (validity is vacuous, and no size / optimality is demanded of a table with a missing pair) *)
Lemma max_from_none_no_present : forall cs, max_from None cs = None -> forall w, ~ In (Some w) cs.
Proof.
  intros cs H w Hw. destruct (max_from_some cs None w Hw) as [m E]. congruence.
Qed.

Lemma all_missing_no_present : forall W, all_missingb W = true ->
  has_null W = true /\ forall w, ~ In (Some w) (cells W).
Proof.
  intros W H. unfold all_missingb in H. apply andb_true_iff in H. destruct H as [Hn Hm]. split; auto.
  apply negb_true_iff in Hm. destruct (max_edge W) eqn:E; [discriminate|].
  apply max_from_none_no_present. exact E.
Qed.

Theorem all_missing_empty : forall solve u W, all_missingb W = true -> mwbm solve u W = OK [].
Proof.
  intros solve u W H. destruct (all_missing_no_present W H) as [_ Hno].
  unfold mwbm, prepare. rewrite scan_from_spec. simpl. rewrite (ty_from_no_present _ None Hno). reflexivity.
Qed.

Theorem all_missing_holds : forall solve u W, all_missingb W = true ->
  valid W [] /\
  prop_ok {| c_unit := u; c_table := W; c_solver := None; c_result := mwbm solve u W |} = true.
Proof.
  intros solve u W H. split. repeat split; constructor.
  destruct (all_missing_no_present W H) as [Hn Hno].
  unfold prop_ok. cbn [c_table c_result]. rewrite (all_missing_empty solve u W H).
  unfold mixedb. rewrite (ty_from_no_present _ None Hno). rewrite Hn. reflexivity.
Qed.

(* such tables now belong to the domain (as long as the table is rectangular and small enough for the
   float64 class, which is stated on the filled matrix whether or not the solver is called) *)
Example C15_all_missing_ex :
  let W := [[None; None]; [None; None]] in
  all_missingb W = true /\ in_domain 1 W /\ forall solve, mwbm solve 1 W = OK [].
Proof. repeat split. Qed.

(* the check still detects D14a should it return: on the corpus table an observed TypeError is rejected by
   the executable statement under the three classes that remain open, and by the correspondence *)
Example all_missing_regression_detected :
  let c := {| c_unit := 1; c_table := [[None; None]; [None; None]]; c_solver := None; c_result := Err TypeError |} in
  holds_C15 [(kf_negative_with_missing, ex_kf_negative_with_missing); (kf_beyond_2p53, ex_kf_beyond_2p53);
             (kf_sentinel_overflow, ex_kf_sentinel_overflow)] c = false /\
  corr_C15 c = false /\
  holds_C15 [] {| c_unit := 1; c_table := c_table c; c_solver := None; c_result := OK [] |} = true /\
  corr_C15 {| c_unit := 1; c_table := c_table c; c_solver := None; c_result := OK [] |} = true.
Proof. repeat split; vm_compute; reflexivity. Qed.

(* ---- D14: each region still excluded from in_domain really fails, with a concrete table. *)
(* kf_negative_with_missing: column sums 3 + -5 = -2 and 0, so the replacement value 1 is not above the weight 3 *)
Example C15_negative_with_missing_refuted :
  let W := [[Some (WI 3); None]; [Some (WI (-5)); None]] in
  rectb W = true /\ mixedb W = false /\ kf_negative_with_missing 1 W = true /\
  forall solve, mwbm solve 1 W = Err AssertionError.
Proof. repeat split. Qed.

(* kf_sentinel_overflow: the weight fits uint64, the replacement value 2^64 does not *)
Example C15_sentinel_overflow_refuted :
  let W := [[Some (WI (2 ^ 64 - 1)); None]] in
  rectb W = true /\ mixedb W = false /\ kf_sentinel_overflow 1 W = true /\ kf_negative_with_missing 1 W = false /\
  forall solve, mwbm solve 1 W = Err OverflowError.
Proof. repeat split. Qed.

(* kf_beyond_2p53: a solver that meets the contract (it is exact wherever float64 arithmetic is exact) but, like
   scipy, rounds its input to float64 first, returns a non-minimal pairing on a complete table of weights
   just above 2^53 *)
Definition round53 (x : Z) : Z :=
  if Z.abs x <=? 2 ^ 53 then x
  else let k := Z.log2 (Z.abs x) - 52 in
       let q := x / 2 ^ k in
       let r := x mod 2 ^ k in
       let half := 2 ^ (k - 1) in
       if r <? half then q * 2 ^ k
       else if half <? r then (q + 1) * 2 ^ k
       else if Z.even q then q * 2 ^ k else (q + 1) * 2 ^ k.
Definition solve_rounded (M : matrix) : list (nat * nat) := brute_solve (map (map round53) M).

Lemma solve_rounded_contract : optimal_full solve_rounded.
Proof.
  intros M r c HD HS. unfold solve_rounded.
  replace (map (map round53) M) with M. apply brute_solve_optimal; auto.
  rewrite <- (map_id M) at 1. apply map_ext_in. intros row Hr.
  rewrite <- (map_id row) at 1. apply map_ext_in. intros x Hx.
  unfold round53. pose proof (msum_abs_in _ _ _ Hr Hx). unfold float_safe in HS.
  pose proof (msum_abs_nonneg M).
  destruct (Z.leb_spec (Z.abs x) (2 ^ 53)); auto. lia.
Qed.

Example C15_beyond_2p53_refuted :
  let W := [[Some (WI (2 ^ 53 + 1)); Some (WI (2 ^ 53))]; [Some (WI (2 ^ 53)); Some (WI (2 ^ 53))]] in
  optimal_full solve_rounded /\ rectb W = true /\ mixedb W = false /\ complete W /\
  kf_beyond_2p53 1 W = true /\ kf_sentinel_overflow 1 W = false /\
  exists m m', mwbm solve_rounded 1 W = OK m /\ valid W m' /\ length m' = length m /\ total m' < total m.
Proof.
  split. apply solve_rounded_contract. repeat split.
  exists [(0, (0, WI (2 ^ 53 + 1))); (1, (1, WI (2 ^ 53)))]%nat, [(0, (1, WI (2 ^ 53))); (1, (0, WI (2 ^ 53)))]%nat.
  split. vm_compute. reflexivity. split. apply validb_iff. vm_compute. reflexivity.
  split. reflexivity. vm_compute. reflexivity.
Qed.

(* the classes are exactly the complement of the domain among rectangular single-type tables *)
Lemma in_domain_or_known : forall u W, rectb W = true -> mixedb W = false ->
  in_domainb u W = true \/ kf_negative_with_missing u W = true \/
  kf_sentinel_overflow u W = true \/ kf_beyond_2p53 u W = true.
Proof.
  intros u W H1 H2. unfold in_domainb. rewrite H1, H2. simpl.
  destruct (kf_negative_with_missing u W); auto.
  destruct (kf_sentinel_overflow u W); auto. destruct (kf_beyond_2p53 u W); auto.
Qed.

(* ---- kf_negative_with_missing deserves its name: the assertion can only fail when some weight is negative *)
Lemma fold_left_add_ge : forall l acc, (forall x, In x l -> 0 <= x) ->
  acc <= fold_left Z.add l acc /\ forall x, In x l -> acc + x <= fold_left Z.add l acc.
Proof.
  induction l as [|y l IH]; intros acc H; simpl. split. lia. intros x [].
  assert (Hy : 0 <= y) by (apply H; left; auto).
  destruct (IH (acc + y)) as [I1 I2]. intros x Hx. apply H. right; auto.
  split. lia. intros x [Hx | Hx]. subst. lia. specialize (I2 _ Hx). lia.
Qed.
Lemma fold_left_max_ge : forall l acc, acc <= fold_left Z.max l acc /\ forall x, In x l -> x <= fold_left Z.max l acc.
Proof.
  induction l as [|y l IH]; intros acc; simpl. split. lia. intros x [].
  destruct (IH (Z.max acc y)) as [I1 I2]. split. lia.
  intros x [Hx | Hx]. subst. lia. auto.
Qed.
Lemma zmax_list_ge : forall l mx x, zmax_list l = Some mx -> In x l -> x <= mx.
Proof.
  intros l mx x H Hx. destruct l as [|y l]. destruct Hx. simpl in H. inversion H.
  destruct (fold_left_max_ge l y) as [I1 I2]. destruct Hx as [Hx | Hx]. subst; auto. auto.
Qed.

Lemma kf_negative_needs_negative : forall u W, rectb W = true -> 0 < one_of u W ->
  kf_negative_with_missing u W = true -> exists w, In (Some w) (cells W) /\ wnum w < 0.
Proof.
  intros u W Hrect Hone H.
  destruct (existsb (fun c => match c with Some w => wnum w <? 0 | None => false end) (cells W)) eqn:Ex.
  - apply existsb_exists in Ex. destruct Ex as [c [Hc Hw]]. destruct c as [w|]; [|discriminate].
    exists w. split; auto. apply Z.ltb_lt; auto.
  - exfalso.
    assert (Hnn : forall w, In (Some w) (cells W) -> 0 <= wnum w).
    { intros w Hw. destruct (Z.ltb_spec (wnum w) 0); [|lia].
      assert (existsb (fun c => match c with Some w => wnum w <? 0 | None => false end) (cells W) = true).
      { apply existsb_exists. exists (Some w). split; auto. apply Z.ltb_lt; auto. }
      congruence. }
    unfold kf_negative_with_missing in H. apply andb_true_iff in H. destruct H as [_ H].
    destruct (max_edge W) as [me|] eqn:Eme; [|discriminate].
    unfold sentinel in H. destruct (zmax_list (col_sums W)) as [mx|] eqn:Emx; [|discriminate].
    apply Z.leb_le in H.
    destruct (present_of_max _ _ Eme) as [wm [Hwm Ewm]].
    unfold cells in Hwm. apply in_concat in Hwm. destruct Hwm as [row [Hrow Hcell]].
    apply In_nth_error in Hcell. destruct Hcell as [j Hj].
    assert (Hjc : (j < ncols W)%nat).
    { rewrite <- (rectb_spec W Hrect row Hrow). apply nth_error_Some. congruence. }
    assert (Hcol : me <= col_sum W j).
    { unfold col_sum.
      assert (Hall : forall x, In x (map (fun row0 => cell_num (nth j row0 None)) W) -> 0 <= x).
      { intros x Hx. apply in_map_iff in Hx. destruct Hx as [row0 [E Hr0]]. subst x.
        destruct (nth_in_or_default j row0 None) as [Hin | Hd].
        - destruct (nth j row0 None) as [w|] eqn:En; simpl; [|lia]. apply Hnn.
          unfold cells. apply in_concat. eauto.
        - rewrite Hd. simpl. lia. }
      destruct (fold_left_add_ge _ 0 Hall) as [_ G].
      specialize (G (cell_num (nth j row None))). rewrite (nth_error_nth _ _ None Hj) in G. simpl in G.
      rewrite Ewm in G. apply G. apply in_map_iff. exists row. split; auto.
      rewrite (nth_error_nth _ _ None Hj). simpl. auto. }
    assert (Hmx : col_sum W j <= mx).
    { eapply zmax_list_ge; eauto. unfold col_sums. apply in_map. apply in_seq. lia. }
    lia.
Qed.

(* ---- the model's outcome on the first class, for every table of the class (not only the witness) *)
Lemma kf_negative_outcome : forall solve u W, rectb W = true -> mixedb W = false ->
  kf_negative_with_missing u W = true -> mwbm solve u W = Err AssertionError.
Proof.
  intros solve u W Hrect Hmix H. unfold kf_negative_with_missing in H. apply andb_true_iff in H.
  destruct H as [Hn H]. destruct (max_edge W) as [me|] eqn:Eme; [|discriminate].
  unfold sentinel in H. destruct (zmax_list (col_sums W)) as [mx|] eqn:Emx; [|discriminate].
  apply Z.leb_le in H. unfold one_of in H.
  destruct (present_of_max _ _ Eme) as [wm [Hwm _]].
  destruct (edge_ty_some _ _ Hmix Hwm) as [t [Et _]]. rewrite Et in H.
  unfold mwbm, prepare. rewrite scan_spec, Hmix. cbn [s_ty s_max s_min s_null]. rewrite Et, Hn, Eme, Emx.
  replace (mx + match t with TFloat => u | _ => 1 end >? me) with false. reflexivity.
  symmetry. rewrite Z.gtb_ltb. apply Z.ltb_ge. lia.
Qed.

(* the sentinel-overflow class lies inside the float64 class (a replacement value beyond int64 is far beyond
   2^53): its negation in in_domainb is redundant, it is kept as a class of its own because the failure differs *)
Lemma kf_sentinel_overflow_beyond : forall u W, kf_sentinel_overflow u W = true -> kf_beyond_2p53 u W = true.
Proof.
  intros u W H. unfold kf_sentinel_overflow in H.
  apply andb_true_iff in H. destruct H as [H H3]. apply andb_true_iff in H. destruct H as [Hn _].
  destruct (min_edge W) as [lo|]; [|discriminate]. destruct (max_edge W) as [hi|]; [|discriminate].
  destruct (sentinel u W) as [s|] eqn:Es; [|discriminate].
  apply andb_true_iff in H3. destruct H3 as [H3 Hbad]. apply andb_true_iff in H3. destruct H3 as [Hlt Hok].
  apply Z.ltb_lt in Hlt. apply negb_true_iff in Hbad.
  unfold int_range_okb in Hok, Hbad. rewrite pow2_63, pow2_64 in *.
  apply orb_false_iff in Hbad. destruct Hbad as [B1 B2].
  assert (Hs : 9223372036854775808 <= s).
  { apply orb_true_iff in Hok. destruct Hok as [Hok | Hok]; apply andb_true_iff in Hok; destruct Hok as [O1 O2].
    - rewrite O1 in B1. simpl in B1. apply Z.ltb_ge in B1. lia.
    - rewrite O1 in B2. simpl in B2. apply Z.ltb_ge in B2. lia. }
  unfold kf_beyond_2p53. apply negb_true_iff. unfold float_safeb. apply Z.leb_gt. rewrite pow2_53.
  unfold filled. rewrite Es.
  unfold has_null in Hn. apply has_null_cells_true in Hn.
  destruct (fill_missing s W Hn) as [row [Hr Hx]]. pose proof (msum_abs_in _ _ _ Hr Hx). lia.
Qed.
