(* C01 / C03 / C10 for the big-step script model: for every oracle, every pair of positions and every pair of
   trees, if the model produces a script then the script is valid (C01), additive (C03) and restricted as the
   options demand (C10). *)
From Coq Require Import ZArith List Bool Lia Permutation.
Require Import GT.PyBase GT.Data GT.ScriptSpec GT.EdEngine GT.LevModel GT.EdTypes GTgen.EdGen GT.EdParams
               GT.ScriptModel GT.ListAux GT.EdFacts GT.EdEngineProofs.
Import ListNotations.
Open Scope Z_scope.

(* ---------------------------------------------------------------- induction over trees *)
Section TreeInd.
  Variable P : tree -> Prop.
  Hypothesis Hleaf : forall l, P (Leaf l).
  Hypothesis Hlst : forall a b cs, Forall P cs -> P (Lst a b cs).
  Hypothesis Hkvp : forall a k v, P k -> P v -> P (Kvp a k v).
  Hypothesis Hmset : forall a cs, Forall P cs -> P (MSet a cs).
  Hypothesis Hfd : forall cs, Forall P cs -> P (FDict cs).
  Fixpoint tree_rect' (t : tree) : P t :=
    match t with
    | Leaf l => Hleaf l
    | Lst a b cs => Hlst a b cs ((fix go (l : list tree) : Forall P l :=
                                    match l with [] => Forall_nil P | x :: l' => Forall_cons x (tree_rect' x) (go l') end) cs)
    | Kvp a k v => Hkvp a k v (tree_rect' k) (tree_rect' v)
    | MSet a cs => Hmset a cs ((fix go (l : list tree) : Forall P l :=
                                  match l with [] => Forall_nil P | x :: l' => Forall_cons x (tree_rect' x) (go l') end) cs)
    | FDict cs => Hfd cs ((fix go (l : list tree) : Forall P l :=
                             match l with [] => Forall_nil P | x :: l' => Forall_cons x (tree_rect' x) (go l') end) cs)
    end.
End TreeInd.

(* ---------------------------------------------------------------- the matrix of sub-scripts *)
Lemma nth_error_mapi_go : forall {A B} (f : nat -> A -> B) (l : list A) (n i : nat),
  nth_error ((fix go (n : nat) (l : list A) {struct l} : list B :=
                match l with [] => [] | x :: l' => f n x :: go (S n) l' end) n l) i
  = match nth_error l i with Some x => Some (f (n + i)%nat x) | None => None end.
Proof.
  induction l as [|x l IH]; intros n i; [destruct i; reflexivity|].
  destruct i as [|i]; cbn; [rewrite Nat.add_0_r; reflexivity|].
  rewrite IH. replace (S n + i)%nat with (n + S i)%nat by lia. reflexivity.
Qed.

Lemma nth_error_mapi : forall {A B} (f : nat -> A -> B) (l : list A) (i : nat),
  nth_error (mapi f l) i = match nth_error l i with Some x => Some (f i x) | None => None end.
Proof. intros. unfold mapi. rewrite nth_error_mapi_go. reflexivity. Qed.

Lemma length_mapi : forall {A B} (f : nat -> A -> B) (l : list A), length (mapi f l) = length l.
Proof.
  intros A B f l. unfold mapi. generalize 0%nat. induction l as [|x l IH]; intro n; cbn; [reflexivity|].
  rewrite IH. reflexivity.
Qed.

Definition sub_matrix (O : oracle) (pa pb : path) (cs ds : list tree) : list (list res) :=
  mapi (fun i c => mapi (fun j d => script O (pa ++ [i]) (pb ++ [j]) c d) ds) cs.

Lemma mget_sub_matrix : forall O pa pb cs ds i j r,
  mget (sub_matrix O pa pb cs ds) i j = Some r ->
  exists c d, nth_error cs i = Some c /\ nth_error ds j = Some d /\ r = script O (pa ++ [i]) (pb ++ [j]) c d.
Proof.
  intros O pa pb cs ds i j r H. unfold mget, sub_matrix in H. rewrite nth_error_mapi in H.
  destruct (nth_error cs i) as [c|] eqn:Ec; [|discriminate].
  rewrite nth_error_mapi in H. destruct (nth_error ds j) as [d|] eqn:Ed; [|discriminate].
  inversion H; subst. exists c, d. auto.
Qed.

(* ---------------------------------------------------------------- reading `valid` *)
Definition sub_ok (P : tree -> tree -> edit -> Prop) (a b : tree) (s : sub) : Prop :=
  match s with
  | SPair i j e => exists x y, nth_error (children a) i = Some x /\ nth_error (children b) j = Some y /\ P x y e
  | _ => True
  end.

Lemma valid_all_spec : forall a b subs,
  Forall (sub_ok (fun x y e => valid x y e = true) a b) subs ->
  (fix all (ss : list sub) : bool :=
     match ss with
     | [] => true
     | SPair i j e' :: ss' =>
         match nth_error (children a) i, nth_error (children b) j with
         | Some x, Some y => valid x y e' && all ss'
         | _, _ => false
         end
     | _ :: ss' => all ss'
     end) subs = true.
Proof.
  intros a b subs H. induction H as [|s ss Hs _ IH]; [reflexivity|].
  destruct s as [i j e|i c|j c]; try exact IH.
  destruct Hs as [x [y [Hx [Hy Hv]]]]. rewrite Hx, Hy, Hv. exact IH.
Qed.

Lemma all_some_spec : forall {A} (l : list (option A)) r,
  all_some l = Some r -> l = map Some r.
Proof.
  induction l as [|o l IH]; intros r H; cbn in H.
  - inversion H. reflexivity.
  - destruct o as [x|]; [|discriminate]. destruct (all_some l) as [r'|] eqn:E; [|discriminate].
    inversion H; subst. cbn. f_equal. apply IH. reflexivity.
Qed.

Lemma all_some_map : forall {A B} (f : A -> option B) (l : list A) r,
  all_some (map f l) = Some r -> Forall2 (fun x y => f x = Some y) l r.
Proof.
  induction l as [|x l IH]; intros r H; cbn in H.
  - inversion H. constructor.
  - destruct (f x) as [y|] eqn:E; [|discriminate]. destruct (all_some (map f l)) as [r'|] eqn:E'; [|discriminate].
    inversion H; subst. constructor; [exact E|]. apply IH. reflexivity.
Qed.

(* ---------------------------------------------------------------- C01: leaves *)
Lemma str_eqb_refl : forall s, str_eqb s s = true.
Proof. induction s as [|x s IH]; cbn; [reflexivity|]. rewrite Z.eqb_refl. exact IH. Qed.

Lemma leaf_script_valid : forall x b e, leaf_script x (Leaf x) b = OK e -> valid (Leaf x) b e = true.
Proof.
  intros x b e H. unfold leaf_script in H.
  destruct (lk x); destruct b as [y| | | |]; try (inversion H; subst; reflexivity);
    try (destruct (lk y); inversion H; subst; reflexivity).
  destruct (lk y); try (inversion H; subst; reflexivity).
  destruct (str_eqb (ltext x) (ltext y)); [inversion H; subst; reflexivity|].
  destruct (Nat.eqb (length (ltext x)) 1 && Nat.eqb (length (ltext y)) 1); [inversion H; subst; reflexivity|].
  destruct (str_script (ltext x) (ltext y)) as [c ops] eqn:E. inversion H; subst. cbn.
  pose proof (str_script_from (ltext x) (ltext y)) as Hf. pose proof (str_script_to (ltext x) (ltext y)) as Ht.
  rewrite E in Hf, Ht. cbn in Hf, Ht. rewrite Hf, Ht, !str_eqb_refl. reflexivity.
Qed.

(* ---------------------------------------------------------------- C01: lists *)
Lemma list_dispatch_not_list : forall ce ale alsl lf lt la lb,
  list_dispatch_gen false ce ale alsl lf lt la lb = LReplace.
Proof. intros. reflexivity. Qed.

Lemma remove_from_pos_spec : forall n m, (m < n)%nat -> remove_from_pos n m = m.
Proof.
  intros n m H. unfold remove_from_pos, to_remove_start, py_slice_start.
  destruct (Z.ltb_spec (Z.of_nat m) 0); lia.
Qed.

Lemma insert_from_pos_spec : forall n m, (n < m)%nat -> insert_from_pos n m = n.
Proof.
  intros n m H. unfold insert_from_pos, to_insert_start, py_slice_start.
  destruct (Z.ltb_spec (Z.of_nat n) 0); lia.
Qed.

Lemma flat_map_app' : forall {A B} (f : A -> list B) l1 l2, flat_map f (l1 ++ l2) = flat_map f l1 ++ flat_map f l2.
Proof. intros. apply flat_map_app. Qed.

Lemma flat_map_map_single : forall {A B C} (g : A -> B) (f : B -> list C) l,
  flat_map f (map g l) = flat_map (fun x => f (g x)) l.
Proof. induction l as [|x l IH]; cbn; [reflexivity|]. rewrite IH. reflexivity. Qed.

Lemma flat_map_singleton : forall {A B} (f : A -> B) l, flat_map (fun x => [f x]) l = map f l.
Proof. induction l as [|x l IH]; cbn; [reflexivity|]. rewrite IH. reflexivity. Qed.

Lemma flat_map_singleton_id : forall (l : list nat), flat_map (fun x => [x]) l = l.
Proof. induction l as [|x l IH]; cbn; [reflexivity|]. rewrite IH. reflexivity. Qed.

Lemma flat_map_nil : forall {A B} (l : list A), flat_map (fun _ => @nil B) l = [].
Proof. induction l as [|x l IH]; cbn; [reflexivity|]. exact IH. Qed.

Lemma seq_split : forall k n, (k <= n)%nat -> seq 0 k ++ seq k (n - k) = seq 0 n.
Proof. intros k n H. replace n with (k + (n - k))%nat at 2 by lia. rewrite seq_app. reflexivity. Qed.

Lemma seq_app' : forall a b s, seq s (a + b) = seq s a ++ seq (s + a) b.
Proof. intros. apply seq_app. Qed.

Lemma Forall2_flat_from : forall (f : nat -> option sub) (l : list nat) (r : list sub) (g : nat -> list nat),
  Forall2 (fun x y => f x = Some y) l r -> (forall x y, f x = Some y -> from_idx y = g x) ->
  flat_map from_idx r = flat_map g l.
Proof.
  intros f l r g H Hg. induction H as [|x y l r Hxy _ IH]; cbn; [reflexivity|].
  rewrite (Hg _ _ Hxy), IH. reflexivity.
Qed.

Lemma Forall2_flat_to : forall (f : nat -> option sub) (l : list nat) (r : list sub) (g : nat -> list nat),
  Forall2 (fun x y => f x = Some y) l r -> (forall x y, f x = Some y -> to_idx y = g x) ->
  flat_map to_idx r = flat_map g l.
Proof.
  intros f l r g H Hg. induction H as [|x y l r Hxy _ IH]; cbn; [reflexivity|].
  rewrite (Hg _ _ Hxy), IH. reflexivity.
Qed.

Lemma flat_from_rems : forall (f : nat -> Z) l, flat_map from_idx (map (fun i => SRem i (f i)) l) = l.
Proof. induction l as [|x l IH]; cbn; [reflexivity|]. rewrite IH. reflexivity. Qed.
Lemma flat_to_rems : forall (f : nat -> Z) l, flat_map to_idx (map (fun i => SRem i (f i)) l) = [].
Proof. induction l as [|x l IH]; cbn; [reflexivity|]. exact IH. Qed.
Lemma flat_from_inss : forall (f : nat -> Z) l, flat_map from_idx (map (fun j => SIns j (f j)) l) = [].
Proof. induction l as [|x l IH]; cbn; [reflexivity|]. exact IH. Qed.
Lemma flat_to_inss : forall (f : nat -> Z) l, flat_map to_idx (map (fun j => SIns j (f j)) l) = l.
Proof. induction l as [|x l IH]; cbn; [reflexivity|]. rewrite IH. reflexivity. Qed.

Definition Pvalid (a : tree) : Prop :=
  forall O pa pb b e, wf a = true -> wf b = true -> script O pa pb a b = OK e -> valid a b e = true.

Lemma wf_child_lst : forall cs c, forallb (fun c => negb (is_kvp c) && wf c) cs = true -> In c cs -> wf c = true.
Proof.
  intros cs c H Hin. rewrite forallb_forall in H. specialize (H c Hin). apply andb_prop in H. tauto.
Qed.

Lemma fixed_len_valid : forall O pa pb ale alsl cs ale' alsl' ds subs,
  Forall Pvalid cs -> wf (Lst ale alsl cs) = true -> wf (Lst ale' alsl' ds) = true ->
  fixed_len_subs cs ds (sub_matrix O pa pb cs ds) = Some subs ->
  valid (Lst ale alsl cs) (Lst ale' alsl' ds) (EComp KFixedLen (zsum (map sub_cost subs)) subs) = true.
Proof.
  intros O pa pb ale alsl cs ale' alsl' ds subs IH Hwa Hwb H. unfold fixed_len_subs in H.
  set (n := length cs) in *. set (m := length ds) in *.
  destruct (all_some _) as [ps|] eqn:Eps; [|discriminate]. inversion H; subst subs; clear H.
  apply all_some_map in Eps.
  assert (Hpf : flat_map from_idx ps = seq 0 (Nat.min n m)).
  { rewrite (Forall2_flat_from _ _ _ (fun i => [i]) Eps); [apply flat_map_singleton_id|].
    intros i y Hy. destruct (mget _ i i) as [[e|]|]; inversion Hy; reflexivity. }
  assert (Hpt : flat_map to_idx ps = seq 0 (Nat.min n m)).
  { rewrite (Forall2_flat_to _ _ _ (fun i => [i]) Eps); [apply flat_map_singleton_id|].
    intros i y Hy. destruct (mget _ i i) as [[e|]|]; inversion Hy; reflexivity. }
  cbn [valid kind_fits ordered_kind children]. fold n m.
  rewrite !flat_map_app', Hpf, Hpt.
  assert (Hfrom : seq 0 (Nat.min n m) ++
                  flat_map from_idx (if (m <? n)%nat then map (fun i => SRem i (remove_cost (nth i cs dummy) 1))
                                                             (seq (remove_from_pos n m) (n - remove_from_pos n m)) else []) ++
                  flat_map from_idx (if (n <? m)%nat then map (fun j => SIns j (insert_cost (nth j ds dummy) 1))
                                                             (seq (insert_from_pos n m) (m - insert_from_pos n m)) else [])
                  = seq 0 n).
  { destruct (Nat.ltb_spec m n) as [Hlt|Hge]; destruct (Nat.ltb_spec n m) as [Hlt2|Hge2]; try lia.
    - rewrite remove_from_pos_spec by exact Hlt.
      rewrite (flat_from_rems (fun i => remove_cost (nth i cs dummy) 1)). cbn [flat_map]. rewrite app_nil_r.
      replace (Nat.min n m) with m by lia. apply seq_split. lia.
    - rewrite (flat_from_inss (fun j => insert_cost (nth j ds dummy) 1)). cbn [flat_map app]. rewrite app_nil_r.
      f_equal. lia.
    - cbn [flat_map app]. rewrite app_nil_r. f_equal. lia. }
  assert (Hto : seq 0 (Nat.min n m) ++
                  flat_map to_idx (if (m <? n)%nat then map (fun i => SRem i (remove_cost (nth i cs dummy) 1))
                                                           (seq (remove_from_pos n m) (n - remove_from_pos n m)) else []) ++
                  flat_map to_idx (if (n <? m)%nat then map (fun j => SIns j (insert_cost (nth j ds dummy) 1))
                                                           (seq (insert_from_pos n m) (m - insert_from_pos n m)) else [])
                  = seq 0 m).
  { destruct (Nat.ltb_spec m n) as [Hlt|Hge]; destruct (Nat.ltb_spec n m) as [Hlt2|Hge2]; try lia.
    - rewrite (flat_to_rems (fun i => remove_cost (nth i cs dummy) 1)). cbn [flat_map app]. rewrite app_nil_r.
      f_equal. lia.
    - rewrite insert_from_pos_spec by exact Hlt2.
      rewrite (flat_to_inss (fun j => insert_cost (nth j ds dummy) 1)). cbn [flat_map app].
      replace (Nat.min n m) with n by lia. apply seq_split. lia.
    - cbn [flat_map app]. rewrite app_nil_r. f_equal. lia. }
  rewrite Hfrom, Hto. rewrite !(proj2 (nat_list_eqb_eq _ _) eq_refl). cbn [andb].
  apply (valid_all_spec (Lst ale alsl cs) (Lst ale' alsl' ds)). rewrite !Forall_app. split; [|split].
  - clear Hpf Hpt Hfrom Hto. induction Eps as [|i y l r Hy _ IHf]; constructor; [|exact IHf].
    destruct (mget _ i i) as [[e|]|] eqn:Em; inversion Hy; subst y; clear Hy. cbn.
    apply mget_sub_matrix in Em. destruct Em as [c [d [Hc [Hd He]]]]. exists c, d. repeat split; [exact Hc|exact Hd|].
    pose proof (Forall_nth_error _ _ _ _ IH Hc) as Hp. apply (Hp O (pa ++ [i]) (pb ++ [i]) d e).
    + cbn in Hwa. eapply wf_child_lst; [exact Hwa|eapply nth_error_In; exact Hc].
    + cbn in Hwb. eapply wf_child_lst; [exact Hwb|eapply nth_error_In; exact Hd].
    + symmetry. exact He.
  - destruct (m <? n)%nat; [|constructor]. apply Forall_forall. intros s Hs. apply in_map_iff in Hs.
    destruct Hs as [i [<- _]]. exact I.
  - destruct (n <? m)%nat; [|constructor]. apply Forall_forall. intros s Hs. apply in_map_iff in Hs.
    destruct Hs as [i [<- _]]. exact I.
Qed.

(* ---------------------------------------------------------------- C01: EditDistance on lists *)
Lemma all_some_length : forall {A} (l : list (option A)) r, all_some l = Some r -> length r = length l.
Proof. intros A l r H. apply all_some_spec in H. subst. rewrite map_length. reflexivity. Qed.

(* the cost table the list edit hands to the engine, and its dimensions *)
Definition ed_cells (M : list (list res)) (p nc nr : nat) : list (list (option res)) :=
  map (fun r => map (fun c => mget M (p + c) (p + r)) (seq 0 nc)) (seq 0 nr).
Definition ed_costs (cells : list (list (option res))) : option (list (list Z)) :=
  all_some (map (fun row => all_some (map (fun x => match x with Some r => res_cost r | None => None end) row)) cells).

Lemma ed_costs_dims : forall M p nc nr mcs (rc ic : list Z),
  ed_costs (ed_cells M p nc nr) = Some mcs -> length rc = nc -> length ic = nr -> dims_ok rc ic mcs.
Proof.
  intros M p nc nr mcs rc ic H Hrc Hic. unfold ed_costs in H. apply all_some_map in H. split.
  - apply Forall2_length' in H. unfold ed_cells in H. rewrite map_length, seq_length in H. lia.
  - apply Forall_forall. intros row Hrow.
    destruct (Forall2_in_r _ _ _ _ H Hrow) as [cells_row [Hin Hr]].
    apply all_some_length in Hr. rewrite map_length in Hr.
    unfold ed_cells in Hin. apply in_map_iff in Hin. destruct Hin as [r [<- _]].
    rewrite map_length, seq_length in Hr. lia.
Qed.

Definition ed_sub (M : list (list res)) (p : nat) (rc ic : list Z) (o : op) : sub :=
  match o with
  | OMatch c r => match mget M (p + c) (p + r) with
                  | Some (OK e) => SPair (p + c) (p + r) e
                  | _ => SPair (p + c) (p + r) (EMatch 0)
                  end
  | ORem c => SRem (p + c) (nth c rc 0)
  | OIns r => SIns (p + r) (nth r ic 0)
  end.

Lemma ed_sub_from : forall M p rc ic o, from_idx (ed_sub M p rc ic o) = map (Nat.add p) (op_from o).
Proof. intros M p rc ic [c r|c|r]; cbn; try reflexivity. destruct (mget M (p + c) (p + r)) as [[e|]|]; reflexivity. Qed.
Lemma ed_sub_to : forall M p rc ic o, to_idx (ed_sub M p rc ic o) = map (Nat.add p) (op_to o).
Proof. intros M p rc ic [c r|c|r]; cbn; try reflexivity. destruct (mget M (p + c) (p + r)) as [[e|]|]; reflexivity. Qed.

Lemma edit_dist_script_unfold : forall penalty cs ds M p q,
  trim node_eqb cs ds = (p, q) ->
  edit_dist_script penalty cs ds M =
  let cs' := middle p q cs in
  let ds' := middle p q ds in
  let rc := map (fun c => remove_cost c penalty) cs' in
  let ic := map (fun d => insert_cost d penalty) ds' in
  match ed_costs (ed_cells M p (length cs') (length ds')) with
  | None => Err ENoOracle
  | Some mcs =>
      OK (EComp KEditDist (final_cost rc ic mcs)
            (map (fun i => SPair i i (EMatch 0)) (seq 0 p) ++ map (ed_sub M p rc ic) (alignment rc ic mcs) ++
             map (fun k => SPair (length cs - q + k) (length ds - q + k) (EMatch 0)) (seq 0 q)))
  end.
Proof. intros penalty cs ds M p q H. unfold edit_dist_script. rewrite H. reflexivity. Qed.

Lemma flat_from_pairs : forall (f g : nat -> nat) (h : nat -> edit) l,
  flat_map from_idx (map (fun i => SPair (f i) (g i) (h i)) l) = map f l.
Proof. induction l as [|x l IH]; cbn; [reflexivity|]. rewrite IH. reflexivity. Qed.
Lemma flat_to_pairs : forall (f g : nat -> nat) (h : nat -> edit) l,
  flat_map to_idx (map (fun i => SPair (f i) (g i) (h i)) l) = map g l.
Proof. induction l as [|x l IH]; cbn; [reflexivity|]. rewrite IH. reflexivity. Qed.

Lemma seq_three : forall p k q n, (p + k + q = n)%nat -> seq 0 p ++ seq p k ++ seq (n - q) q = seq 0 n.
Proof.
  intros p k q n H. subst n. replace (p + k + q - q)%nat with (p + k)%nat by lia.
  replace (p + k + q)%nat with (p + (k + q))%nat by lia. rewrite (seq_app p (k + q) 0), (seq_app k q (0 + p)).
  reflexivity.
Qed.

Lemma map_add_seq0 : forall s n, map (fun k => (s + k)%nat) (seq 0 n) = seq s n.
Proof.
  intros s n. change (fun k => (s + k)%nat) with (Nat.add s). rewrite (map_add_seq s n 0). f_equal. lia.
Qed.

Lemma edit_dist_valid : forall O pa pb penalty ale alsl cs ale' alsl' ds e,
  Forall Pvalid cs -> wf (Lst ale alsl cs) = true -> wf (Lst ale' alsl' ds) = true ->
  edit_dist_script penalty cs ds (sub_matrix O pa pb cs ds) = OK e ->
  valid (Lst ale alsl cs) (Lst ale' alsl' ds) e = true.
Proof.
  intros O pa pb penalty ale alsl cs ale' alsl' ds e IH Hwa Hwb H.
  destruct (trim node_eqb cs ds) as [p q] eqn:Et.
  rewrite (edit_dist_script_unfold _ _ _ _ _ _ Et) in H. cbv zeta in H.
  pose proof (trim_bounds _ _ _ _ _ Et) as [Hp1 [Hp2 [Hpq1 Hpq2]]].
  set (cs' := middle p q cs) in *. set (ds' := middle p q ds) in *.
  set (rc := map (fun c => remove_cost c penalty) cs') in *. set (ic := map (fun d => insert_cost d penalty) ds') in *.
  set (M := sub_matrix O pa pb cs ds) in *.
  destruct (ed_costs _) as [mcs|] eqn:Ec; [|discriminate]. inversion H; subst e; clear H.
  assert (Hlrc : length rc = length cs') by (unfold rc; apply map_length).
  assert (Hlic : length ic = length ds') by (unfold ic; apply map_length).
  assert (Hd : dims_ok rc ic mcs) by (eapply ed_costs_dims; eauto).
  assert (Hlc : length cs' = (length cs - p - q)%nat) by (apply middle_length; exact Hpq1).
  assert (Hld : length ds' = (length ds - p - q)%nat) by (apply middle_length; exact Hpq2).
  cbn [valid kind_fits ordered_kind children]. rewrite !flat_map_app'.
  rewrite (flat_from_pairs (fun i => i) (fun i => i) (fun _ => EMatch 0)), map_id.
  rewrite (flat_to_pairs (fun i => i) (fun i => i) (fun _ => EMatch 0)), map_id.
  rewrite (flat_from_pairs (fun k => (length cs - q + k)%nat) (fun k => (length ds - q + k)%nat) (fun _ => EMatch 0)).
  rewrite (flat_to_pairs (fun k => (length cs - q + k)%nat) (fun k => (length ds - q + k)%nat) (fun _ => EMatch 0)).
  rewrite !map_add_seq0.
  rewrite !flat_map_map_single.
  rewrite (flat_map_ext _ _ (ed_sub_from M p rc ic)), (flat_map_ext _ _ (ed_sub_to M p rc ic)).
  rewrite (alignment_from_shift _ _ _ p Hd), (alignment_to_shift _ _ _ p Hd).
  rewrite (seq_three p (length rc) q (length cs)) by lia.
  rewrite (seq_three p (length ic) q (length ds)) by lia.
  rewrite !(proj2 (nat_list_eqb_eq _ _) eq_refl). cbn [andb].
  apply (valid_all_spec (Lst ale alsl cs) (Lst ale' alsl' ds)). rewrite !Forall_app. split; [|split].
  - apply Forall_forall. intros s Hs. apply in_map_iff in Hs. destruct Hs as [i [<- Hi]]. apply in_seq in Hi. cbn.
    destruct (nth_error cs i) as [x|] eqn:Ex; [|apply nth_error_None in Ex; lia].
    destruct (nth_error ds i) as [y|] eqn:Ey; [|apply nth_error_None in Ey; lia].
    exists x, y. auto.
  - pose proof (alignment_in_range _ _ _ Hd) as Hr. rewrite Forall_forall in Hr.
    apply Forall_forall. intros s Hs. apply in_map_iff in Hs. destruct Hs as [o [<- Ho]]. specialize (Hr o Ho).
    destruct o as [c r|c|r]; [|exact I|exact I]. cbn in Hr. destruct Hr as [Hc Hr].
    assert (Hx : exists x, nth_error cs (p + c) = Some x).
    { destruct (nth_error cs (p + c)) as [x|] eqn:Ex; [eauto|apply nth_error_None in Ex; lia]. }
    assert (Hy : exists y, nth_error ds (p + r) = Some y).
    { destruct (nth_error ds (p + r)) as [y|] eqn:Ey; [eauto|apply nth_error_None in Ey; lia]. }
    destruct Hx as [x Ex]. destruct Hy as [y Ey]. unfold ed_sub.
    destruct (mget M (p + c) (p + r)) as [[e|]|] eqn:Em; cbn [sub_ok children];
      try (exists x, y; repeat split; [exact Ex|exact Ey]).
    apply mget_sub_matrix in Em. destruct Em as [c0 [d0 [Hc0 [Hd0 He]]]].
    exists c0, d0. repeat split; [exact Hc0|exact Hd0|].
    pose proof (Forall_nth_error _ _ _ _ IH Hc0) as Hpv. apply (Hpv O (pa ++ [(p + c)%nat]) (pb ++ [(p + r)%nat]) d0 e).
    + cbn in Hwa. eapply wf_child_lst; [exact Hwa|eapply nth_error_In; exact Hc0].
    + cbn in Hwb. eapply wf_child_lst; [exact Hwb|eapply nth_error_In; exact Hd0].
    + symmetry. exact He.
  - apply Forall_forall. intros s Hs. apply in_map_iff in Hs. destruct Hs as [k [<- Hk]]. apply in_seq in Hk. cbn.
    destruct (nth_error cs (length cs - q + k)) as [x|] eqn:Ex; [|apply nth_error_None in Ex; lia].
    destruct (nth_error ds (length ds - q + k)) as [y|] eqn:Ey; [|apply nth_error_None in Ey; lia].
    exists x, y. auto.
Qed.
