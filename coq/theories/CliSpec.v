(* C14: the argument namespace, what was observed to be resolved, and the DOCUMENTED resolution
   (README / --help text): hand-written, independent of the translated code. *)
From Coq Require Import String List Bool.
Require Import GT.PyBase GTgen.CliTables.
Import ListNotations.
Open Scope string_scope.

Record args := {
  a_from_mime : option string;
  a_to_mime : option string;
  a_no_color : option bool;
  a_color : option bool;
  a_html : bool;
  a_condensed : bool;
  a_join_lists : bool;
  a_join_dict_items : bool;
  a_dict_strategy : option string;
  a_no_key_edits : bool;
  a_no_list_edits : bool;
  a_no_list_edits_when_same_length : bool;
  a_no_status : bool;
  a_quiet : bool;
  a_only_edits : bool;
  a_edit_digest : bool;
  a_format : option string;
  a_from_ty : string -> option string;     (* --from-TYPE: argparse stores the type's MIME string *)
  a_to_ty : string -> option string }.

(* what the instrumented run of main() resolved *)
Record resolved := {
  o_from_mime : option string;   (* MIME handed to get_filetype for FROM_PATH *)
  o_to_mime : option string;
  o_from_type : option string;   (* name of the Filetype returned (None: ValueError) *)
  o_to_type : option string;
  o_ansi : option bool;
  o_quiet : bool;
  o_join_lists : bool;
  o_join_dict_items : bool;
  o_allow_key_edits : bool;
  o_auto_match_keys : bool;
  o_allow_list_edits : bool;
  o_allow_list_edits_wsl : bool }.

Definition resolved_eqb (x y : resolved) : bool :=
  oostr_eqb (o_from_mime x) (o_from_mime y) && oostr_eqb (o_to_mime x) (o_to_mime y) &&
  oostr_eqb (o_from_type x) (o_from_type y) && oostr_eqb (o_to_type x) (o_to_type y) &&
  obool_eqb (o_ansi x) (o_ansi y) && Bool.eqb (o_quiet x) (o_quiet y) &&
  Bool.eqb (o_join_lists x) (o_join_lists y) && Bool.eqb (o_join_dict_items x) (o_join_dict_items y) &&
  Bool.eqb (o_allow_key_edits x) (o_allow_key_edits y) && Bool.eqb (o_auto_match_keys x) (o_auto_match_keys y) &&
  Bool.eqb (o_allow_list_edits x) (o_allow_list_edits y) && Bool.eqb (o_allow_list_edits_wsl x) (o_allow_list_edits_wsl y).

(* ---- the documented behaviour ---- *)
(* "--from-TYPE: equivalent to --from-mime MIME"; an explicit type wins over the file name *)
Definition spec_mime (explicit : option string) (by_type : string -> option string) : option string :=
  match explicit with Some m => Some m | None => first_some (map by_type typenames) end.
Definition spec_type (mime guess : option string) : option string :=
  match mime with Some m => assoc m mime_table | None =>
    match guess with Some g => assoc g mime_table | None => None end end.
(* "--dict-strategy auto|match|none", "-k ... is equivalent to --dict-strategy none" *)
Definition spec_keys (a : args) : bool * bool :=
  match a_dict_strategy a with
  | Some s => if String.eqb s "none" then (false, false)
              else if String.eqb s "match" then (true, false) else (true, true)
  | None => if a_no_key_edits a then (false, false) else (true, true)
  end.
Definition spec_ansi (a : args) : option bool :=
  if truthy_ob (a_no_color a) then Some false else if truthy_ob (a_color a) then Some true else None.

Definition spec_resolve (a : args) (guess_from guess_to : option string) : resolved :=
  let fm := spec_mime (a_from_mime a) (a_from_ty a) in
  let tm := spec_mime (a_to_mime a) (a_to_ty a) in
  {| o_from_mime := fm; o_to_mime := tm;
     o_from_type := spec_type fm guess_from; o_to_type := spec_type tm guess_to;
     o_ansi := spec_ansi a; o_quiet := a_no_status a || a_quiet a;
     o_join_lists := a_condensed a || a_join_lists a;          (* "-j: equivalent to -jl -jd" *)
     o_join_dict_items := a_condensed a || a_join_dict_items a;
     o_allow_key_edits := fst (spec_keys a); o_auto_match_keys := snd (spec_keys a);
     o_allow_list_edits := negb (a_no_list_edits a);
     o_allow_list_edits_wsl := negb (a_no_list_edits_when_same_length a) |}.

(* a case of the correspondence run: namespace, the two guesses, how many get_filetype calls main()
   made before returning (it returns at the first ValueError), whether it went on to build the
   options, and what it resolved.  Only what was observed is compared. *)
Record cli_case := { c_args : args; c_gf : option string; c_gt : option string;
                     c_calls : nat; c_full : bool; c_obs : resolved }.

Definition from_eqb (x y : resolved) : bool :=
  oostr_eqb (o_from_mime x) (o_from_mime y) && oostr_eqb (o_from_type x) (o_from_type y).
Definition to_eqb (x y : resolved) : bool :=
  oostr_eqb (o_to_mime x) (o_to_mime y) && oostr_eqb (o_to_type x) (o_to_type y).

Definition case_agrees (c : cli_case) (s : resolved) : bool :=
  if c_full c then resolved_eqb (c_obs c) s
  else match c_calls c with
       | 0 => true
       | 1 => from_eqb (c_obs c) s && negb (is_some (o_from_type s))       (* main() stopped: FROM type unknown *)
       | _ => from_eqb (c_obs c) s && to_eqb (c_obs c) s && negb (is_some (o_to_type s))
       end.

Definition holds_C14 (c : cli_case) : bool := case_agrees c (spec_resolve (c_args c) (c_gf c) (c_gt c)).
