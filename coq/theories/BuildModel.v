(* Model of graphtage.json.build_tree (the tree builder shared by the JSON, JSON5, YAML and plist loaders):
   plain documents -> trees of Data.v under the four build options.
   DictNode.from_dict sorts its key/value pairs (sorted() over KeyValuePairNode.__lt__: by key, then by
   value; keys of one mapping are pairwise different, so the key decides); FixedKeyDictNode.from_dict keeps
   the insertion order of the Python dict. *)
From Coq Require Import ZArith List Bool Lia.
Require Import GT.Data.
Import ListNotations.
Open Scope Z_scope.

(* a plain document: scalars, lists, mappings from scalar keys (strings in JSON) in FILE ORDER *)
Inductive doc :=
  | DLeaf (l : leaf)
  | DArr (l : list doc)
  | DObj (kvs : list (leaf * doc)).

Record bopts := { o_ake : bool;      (* allow_key_edits:  DictNode (true) / FixedKeyDictNode (false) *)
                  o_amk : bool;      (* auto_match_keys *)
                  o_ale : bool;      (* allow_list_edits *)
                  o_alsl : bool }.   (* allow_list_edits_when_same_length *)

(* Python's < on str: lexicographic by code point *)
Fixpoint str_ltb (a b : str) : bool :=
  match a, b with
  | _, [] => false
  | [], _ :: _ => true
  | x :: a', y :: b' => (x <? y) || ((x =? y) && str_ltb a' b')
  end.

(* LeafNode.__lt__ on the keys that occur in the theorems' domain (strings).  Other key types (YAML) are
   compared by str() here, which is what the implementation falls back to on TypeError; they are outside the
   domain of the theorems and are reported separately by the harness. *)
Definition key_ltb (a b : tree) : bool :=
  match a, b with
  | Leaf x, Leaf y => str_ltb (ltext x) (ltext y)
  | _, _ => false
  end.

(* KeyValuePairNode.__lt__ between two pairs with different keys *)
Definition kvp_ltb (c d : tree) : bool := key_ltb (kvp_key c) (kvp_key d).

(* sorted(): the unique sorted arrangement when the order is strict and total on the keys present
   (insertion sort; stable like Python's) *)
Fixpoint ins_kvp (c : tree) (l : list tree) : list tree :=
  match l with
  | [] => [c]
  | d :: l' => if kvp_ltb d c then d :: ins_kvp c l' else c :: l
  end.
Definition sort_kvps (l : list tree) : list tree := fold_right ins_kvp [] l.

Fixpoint build (o : bopts) (d : doc) {struct d} : tree :=
  match d with
  | DLeaf l => Leaf l
  | DArr l => Lst (o_ale o) (o_alsl o)
                ((fix go (l : list doc) : list tree := match l with [] => [] | x :: r => build o x :: go r end) l)
  | DObj kvs =>
      let ps := (fix go (l : list (leaf * doc)) : list tree :=
                   match l with [] => [] | (k, v) :: r => Kvp (o_ake o) (Leaf k) (build o v) :: go r end) kvs in
      if o_ake o then MSet (o_amk o) (sort_kvps ps) else FDict ps
  end.

Definition build_list (o : bopts) (l : list doc) : list tree := map (build o) l.
Definition build_pairs (o : bopts) (kvs : list (leaf * doc)) : list tree :=
  map (fun kv => Kvp (o_ake o) (Leaf (fst kv)) (build o (snd kv))) kvs.

(* tree equality (structural, exact): used by the correspondence check build o d = implementation's tree *)
Definition leaf_exact_eqb (a b : leaf) : bool :=
  lkind_eqb (lk a) (lk b) && str_eqb (ltext a) (ltext b) && (lnum a =? lnum b) && (lexp a =? lexp b).

Fixpoint tree_exact_eqb (a b : tree) {struct a} : bool :=
  match a, b with
  | Leaf x, Leaf y => leaf_exact_eqb x y
  | Lst p q xs, Lst p' q' ys =>
      Bool.eqb p p' && Bool.eqb q q' &&
      (fix go (xs ys : list tree) {struct xs} : bool :=
         match xs, ys with [], [] => true | x :: xs', y :: ys' => tree_exact_eqb x y && go xs' ys' | _, _ => false end) xs ys
  | Kvp p k v, Kvp p' k' v' => Bool.eqb p p' && tree_exact_eqb k k' && tree_exact_eqb v v'
  | MSet p xs, MSet p' ys =>
      Bool.eqb p p' &&
      (fix go (xs ys : list tree) {struct xs} : bool :=
         match xs, ys with [], [] => true | x :: xs', y :: ys' => tree_exact_eqb x y && go xs' ys' | _, _ => false end) xs ys
  | FDict xs, FDict ys =>
      (fix go (xs ys : list tree) {struct xs} : bool :=
         match xs, ys with [], [] => true | x :: xs', y :: ys' => tree_exact_eqb x y && go xs' ys' | _, _ => false end) xs ys
  | _, _ => false
  end.

(* the domain of the order-independence theorems: every mapping key is a string and the keys of one mapping
   are pairwise different (true of every JSON / JSON5 document and of plist dictionaries) *)
Definition is_str_leaf (l : leaf) : bool := match lk l with KStr => true | _ => false end.
Fixpoint str_keys_distinct (ks : list leaf) : bool :=
  match ks with
  | [] => true
  | k :: r => is_str_leaf k && negb (existsb (fun k' => str_eqb (ltext k) (ltext k')) r) && str_keys_distinct r
  end.
Fixpoint keys_ok (d : doc) : bool :=
  match d with
  | DLeaf _ => true
  | DArr l => (fix go (l : list doc) : bool := match l with [] => true | x :: r => keys_ok x && go r end) l
  | DObj kvs =>
      str_keys_distinct (map fst kvs) &&
      (fix go (l : list (leaf * doc)) : bool := match l with [] => true | (_, v) :: r => keys_ok v && go r end) kvs
  end.
