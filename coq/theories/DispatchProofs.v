(* C13 - proofs about the model of the formatting protocol.

   Part 1 (generic, any tables, trees of unbounded size): one step of the protocol on a concrete item stays
   inside the successors `step` computes for the item's class, so every configuration met while rendering a
   document of an input type lies in any set that contains the entry points and is closed under `step`
   (`cover`); and a configuration that is clean at class level cannot fail on any concrete item (`clean_node_ok`).
   Part 2 (the extracted tables, finite): the reachable set of every (grammar, root formatter, mode) is computed,
   checked closed, and checked free of `no printer` / stuck configurations (vm_compute over the finite tables,
   lifted with forallb_forall; sizes stated in `table_sizes`).
   Part 3: the theorems of the property. *)
From Coq Require Import String Ascii List Bool ZArith Lia.
Require Import GT.PyBase GT.DispatchSpec GT.DispatchModel.
Require Import GTgen.DispatchGen.
Import ListNotations.
Open Scope string_scope.

(* ------------------------------------------------------------------ equalities *)
Lemma slist_eqb_true : forall a b, slist_eqb a b = true -> a = b.
Proof.
  induction a as [|x a IH]; destruct b as [|y b]; simpl; intros H; try discriminate; auto.
  apply andb_true_iff in H. destruct H as [H1 H2]. apply String.eqb_eq in H1. subst. f_equal. auto.
Qed.
Lemma slist_eqb_refl : forall a, slist_eqb a a = true.
Proof. induction a; simpl; auto. rewrite String.eqb_refl. auto. Qed.

Lemma cfg_eqb_true : forall a b : cfg, cfg_eqb a b = true -> a = b.
Proof.
  intros [[[fa ca] ka] wa] [[[fb cb] kb] wb]. unfold cfg_eqb, c_f, c_cls, c_ko, c_we. simpl. intros H.
  repeat (apply andb_true_iff in H; destruct H as [H ?]).
  apply String.eqb_eq in H. apply String.eqb_eq in H2. apply Bool.eqb_prop in H1.
  apply slist_eqb_true in H0. subst. reflexivity.
Qed.
Lemma cfg_eqb_refl : forall a : cfg, cfg_eqb a a = true.
Proof.
  intros [[[fa ca] ka] wa]. unfold cfg_eqb, c_f, c_cls, c_ko, c_we. simpl.
  rewrite !String.eqb_refl, Bool.eqb_reflx, slist_eqb_refl. reflexivity.
Qed.
Lemma memcfg_In : forall c l, memcfg c l = true -> In c l.
Proof.
  intros c l H. unfold memcfg in H. apply existsb_exists in H. destruct H as [x [Hx He]].
  apply cfg_eqb_true in He. subst. exact Hx.
Qed.
Lemma In_memcfg : forall c l, In c l -> memcfg c l = true.
Proof. intros c l H. unfold memcfg. apply existsb_exists. exists c. split; auto. apply cfg_eqb_refl. Qed.
Lemma mem_In : forall x l, mem x l = true <-> In x l.
Proof.
  intros x l. unfold mem. rewrite existsb_exists. split.
  - intros [y [Hy He]]. apply String.eqb_eq in He. subst. exact Hy.
  - intros H. exists x. split; auto. apply String.eqb_refl.
Qed.

Lemma in_cfgs_of : forall l c, In (SCfg c) l <-> In c (cfgs_of l).
Proof.
  intros l c. unfold cfgs_of. rewrite in_flat_map. split.
  - intros H. exists (SCfg c). split; auto. left. reflexivity.
  - intros [s [Hs Hc]]. destruct s; simpl in Hc; try contradiction. destruct Hc as [Hc|[]]. subst. exact Hs.
Qed.

(* ------------------------------------------------------------------ Part 1: trees of unbounded size *)
Section Generic.
Variable T : dtables.
Variable g : gram.

Definition kids_ok (ko : string) (ks : list tree) : bool :=
  forallb (fun k => mem (tcls k) (kids g ko) && conforms g k) ks.

Lemma conforms_kids : forall c ks, conforms g (Tr c ks) = true -> kids_ok c ks = true.
Proof.
  intros c ks. simpl. unfold kids_ok. induction ks as [|k r IH]; simpl; auto;
  intros H; apply andb_true_iff in H; destruct H as [H1 H2]; rewrite H1; simpl; apply IH; exact H2.
Qed.
Lemma kids_conforms : forall c ks, kids_ok c ks = true -> conforms g (Tr c ks) = true.
Proof.
  intros c ks. simpl. unfold kids_ok. induction ks as [|k r IH]; simpl; auto;
  intros H; apply andb_true_iff in H; destruct H as [H1 H2]; rewrite H1; simpl; apply IH; exact H2.
Qed.

Lemma fits_intro : forall (c : cfg) t, tcls t = c_cls c -> kids_ok (c_ko c) (tkids t) = true -> fits g c t = true.
Proof. intros c t H1 H2. unfold fits. rewrite H1, String.eqb_refl. exact H2. Qed.
Lemma fits_elim : forall (c : cfg) t, fits g c t = true -> tcls t = c_cls c /\ kids_ok (c_ko c) (tkids t) = true.
Proof.
  intros c t H. unfold fits in H. apply andb_true_iff in H. destruct H as [H1 H2].
  apply String.eqb_eq in H1. split; auto.
Qed.
Lemma conforms_fits : forall t f w, conforms g t = true -> fits g (f, tcls t, tcls t, w) t = true.
Proof.
  intros [c ks] f w H. apply fits_intro; simpl; auto; apply conforms_kids; exact H.
Qed.
Lemma kid_conforms : forall ko ks k, kids_ok ko ks = true -> In k ks ->
  In (tcls k) (kids g ko) /\ conforms g k = true.
Proof.
  intros ko ks k H Hin. unfold kids_ok in H. rewrite forallb_forall in H. specialize (H k Hin).
  apply andb_true_iff in H. destruct H as [H1 H2]. apply mem_In in H1. auto.
Qed.

(* the calls a print method makes on a concrete item are among those computed for the item's class *)
Lemma crun_sound : forall fuel f ow n t ko c' t',
  kids_ok ko (tkids t) = true ->
  In (Some (c', t')) (crun T fuel f ow n t ko) ->
  In (SCfg c') (run_method T g fuel f ow n (tcls t) ko) /\ fits g c' t' = true.
Proof.
  induction fuel as [|k IH]; intros f ow n t ko c' t' Hk Hin.
  - simpl in Hin. destruct Hin as [Hin|[]]. discriminate.
  - simpl in Hin. simpl. destruct (assoc2 (ow, n) (t_methods T)) as [s|].
    2:{ destruct Hin as [Hin|[]]. discriminate. }
    apply in_flat_map in Hin. destruct Hin as [a [Ha Hin]].
    assert (Hgoal : In (SCfg c')
              (match a with
               | ACall t0 w =>
                   match apply_target T f t0 with
                   | None => [SBad]
                   | Some f' =>
                       match w with
                       | WSame => [SCfg (f', tcls t, ko, true)]
                       | WChild => map (fun x => SCfg (f', x, x, true)) (kids g ko)
                       | WFresh c => [SCfg (f', c, ko, true)]
                       end
                   end
               | ARun o n0 w =>
                   match (match o with Some x => Some x | None => has_print T (fcls f) n0 end) with
                   | None => [SBad]
                   | Some ow0 =>
                       match w with
                       | WSame => run_method T g k f ow0 n0 (tcls t) ko
                       | WChild => flat_map (fun x => run_method T g k f ow0 n0 x x) (kids g ko)
                       | WFresh c => run_method T g k f ow0 n0 c ko
                       end
                   end
               end) /\ fits g c' t' = true).
    { destruct a as [tg w|o n0 w].
      - destruct (apply_target T f tg) as [f'|]. 2:{ destruct Hin as [Hin|[]]. discriminate. }
        destruct w as [| |c].
        + destruct Hin as [Hin|[]]. inversion Hin; subst. split. { left. reflexivity. }
          apply fits_intro; simpl; auto.
        + apply in_map_iff in Hin. destruct Hin as [x [Hx Hxin]]. inversion Hx; subst.
          destruct (kid_conforms _ _ _ Hk Hxin) as [H1 H2]. split.
          * apply in_map_iff. exists (tcls t'). split; auto.
          * apply conforms_fits. exact H2.
        + destruct Hin as [Hin|[]]. inversion Hin; subst. split. { left. reflexivity. }
          apply fits_intro; simpl; auto.
      - destruct (match o with Some x => Some x | None => has_print T (fcls f) n0 end) as [ow0|].
        2:{ destruct Hin as [Hin|[]]. discriminate. }
        destruct w as [| |c].
        + apply (IH f ow0 n0 t ko c' t' Hk Hin).
        + apply in_flat_map in Hin. destruct Hin as [x [Hxin Hin]].
          destruct (kid_conforms _ _ _ Hk Hxin) as [H1 H2].
          destruct x as [xc xks]. simpl in *.
          pose proof (conforms_kids _ _ H2) as Hxk.
          destruct (IH f ow0 n0 (Tr xc xks) xc c' t' Hxk Hin) as [Ha1 Ha2]. split; auto.
          apply in_flat_map. exists xc. split; auto.
        + assert (Hk' : kids_ok ko (tkids (Tr c (tkids t))) = true) by (simpl; exact Hk).
          destruct (IH f ow0 n0 (Tr c (tkids t)) ko c' t' Hk' Hin) as [Ha1 Ha2]. split; auto. }
    destruct Hgoal as [G1 G2]. split; auto.
    apply in_or_app. right. apply in_flat_map. exists a. split; auto.
Qed.

(* one step of the protocol on a concrete item is one of the successors computed for its class *)
Lemma cstep_sound : forall c t c' t',
  fits g c t = true -> cstep T g (c, t) (c', t') ->
  In (SCfg c') (step T g c) /\ fits g c' t' = true.
Proof.
  intros c t c' t' Hf Hs. apply fits_elim in Hf. destruct Hf as [Hc Hk].
  inversion Hs as [c1 t1 t1' Hwe Halt Hconf | c1 t1 k1 Hwe Hsub Hk1 | c1 t1 f m ow c1' t1' Hres Hhp Hcr]; subst.
  - split.
    + unfold step. apply in_or_app. left. rewrite Hwe. apply in_map_iff. exists (tcls t'). split; auto.
    + apply conforms_fits. assumption.
  - destruct (kid_conforms _ _ _ Hk Hk1) as [K1 K2]. split.
    + unfold step. apply in_or_app. right. apply in_or_app. left. rewrite Hwe, Hsub. simpl.
      apply in_map_iff. exists (tcls t'). split; auto.
    + apply conforms_fits. exact K2.
  - destruct (crun_sound _ _ _ _ _ _ _ _ Hk Hcr) as [R1 R2]. split; auto.
    unfold step. apply in_or_app. right. apply in_or_app. right. rewrite Hres, Hhp.
    apply in_or_app. right. apply in_or_app. right. rewrite <- Hc. exact R1.
Qed.

Definition closed (S : list cfg) : Prop := forall c c', In c S -> In (SCfg c') (step T g c) -> In c' S.

Lemma closed_check_sound : forall S, closed_check T g S = true -> closed S.
Proof.
  intros S H c c' Hc Hs. unfold closed_check in H. rewrite forallb_forall in H. specialize (H c Hc).
  rewrite forallb_forall in H. apply memcfg_In. apply H. apply in_cfgs_of. exact Hs.
Qed.

(* every configuration met while rendering lies in any closed set containing the entry, on every tree *)
Theorem cover : forall S c0 t0 c t,
  closed S -> In c0 S -> fits g c0 t0 = true ->
  creach T g (c0, t0) (c, t) -> In c S /\ fits g c t = true.
Proof.
  intros S c0 t0 c t Hcl Hin Hf Hr.
  remember (c, t) as s eqn:Es. revert c t Es.
  induction Hr as [|[c1 t1] [c2 t2] Hr IH Hst]; intros c t Es; inversion Es; subst.
  - auto.
  - destruct (IH c1 t1 eq_refl) as [I1 I2].
    destruct (cstep_sound _ _ _ _ I2 Hst) as [S1 S2]. split; auto. apply (Hcl c1 c I1 S1).
Qed.

Lemma existsb_app_false : forall {A} (f : A -> bool) l1 l2,
  existsb f (l1 ++ l2) = false -> existsb f l1 = false /\ existsb f l2 = false.
Proof. intros A f l1 l2 H. rewrite existsb_app in H. apply orb_false_iff in H. exact H. Qed.

(* a configuration that is clean at class level cannot fail on any concrete item *)
Lemma clean_node_ok : forall c t, cfg_clean T g c = true -> node_ok T g c t = true.
Proof.
  intros c t H. unfold cfg_clean, cfg_has in H.
  apply andb_true_iff in H. destruct H as [H HO].
  apply andb_true_iff in H. destruct H as [H HB]. apply andb_true_iff in H. destruct H as [H HE].
  apply andb_true_iff in H. destruct H as [HP HC].
  apply negb_true_iff in HP, HC, HE, HB, HO.
  unfold step in HP, HC, HE, HB, HO. unfold node_ok.
  apply existsb_app_false in HP. destruct HP as [_ HP]. apply existsb_app_false in HP. destruct HP as [_ HP].
  apply existsb_app_false in HC. destruct HC as [_ HC]. apply existsb_app_false in HC. destruct HC as [_ HC].
  apply existsb_app_false in HE. destruct HE as [_ HE]. apply existsb_app_false in HE. destruct HE as [_ HE].
  apply existsb_app_false in HB. destruct HB as [_ HB]. apply existsb_app_false in HB. destruct HB as [_ HB].
  apply existsb_app_false in HO. destruct HO as [_ HO]. apply existsb_app_false in HO. destruct HO as [_ HO].
  destruct (resolve T (mro_of T (c_cls c)) (Some (c_f c))) as [f m| |].
  2:{ cbv in HP. discriminate. }
  2:{ cbv in HB. discriminate. }
  cbv beta iota in HP, HC, HE, HB, HO. cbv beta iota.
  destruct (has_print T (fcls f) m) as [ow|].
  2:{ cbv in HB. discriminate. }
  cbv beta iota in HP, HC, HE, HB, HO. cbv beta iota.
  apply existsb_app_false in HC. destruct HC as [_ HC]. apply existsb_app_false in HC. destruct HC as [_ HC].
  apply existsb_app_false in HE. destruct HE as [HE _].
  apply existsb_app_false in HO. destruct HO as [_ HO]. apply existsb_app_false in HO. destruct HO as [HO _].
  apply existsb_app_false in HB. destruct HB as [_ HB]. apply existsb_app_false in HB. destruct HB as [_ HB].
  rewrite HC, HB.
  assert (EK : emit_kf_ok T g ow m (c_cls c) = true).
  { destruct (emit_kf_ok T g ow m (c_cls c)); [reflexivity|cbv in HE; discriminate]. }
  assert (EO : emit_other_ok T g ow m (c_cls c) = true).
  { destruct (emit_other_ok T g ow m (c_cls c)); [reflexivity|cbv in HO; discriminate]. }
  assert (EA : emit_ok T g ow m (c_cls c) = true).
  { unfold emit_ok, emit_kf_ok, emit_other_ok in *. rewrite forallb_forall in *. intros kb Hkb.
    specialize (EK kb Hkb). specialize (EO kb Hkb).
    destruct (snd kb); auto. destruct (kf_kind (fst kb)); simpl in *; discriminate. }
  rewrite EA. reflexivity.
Qed.

(* a configuration without `no printer` / stuck markers resolves to a print method *)
Lemma clean_resolved : forall c, cfg_has T g SNoPrinter c = false -> cfg_has T g SBad c = false ->
  exists f meth ow, resolve T (mro_of T (c_cls c)) (Some (c_f c)) = RFound f meth /\
                    has_print T (fcls f) meth = Some ow.
Proof.
  intros c N1 N2. unfold cfg_has, step in N1, N2.
  apply existsb_app_false in N1. destruct N1 as [_ N1]. apply existsb_app_false in N1. destruct N1 as [_ N1].
  apply existsb_app_false in N2. destruct N2 as [_ N2]. apply existsb_app_false in N2. destruct N2 as [_ N2].
  destruct (resolve T (mro_of T (c_cls c)) (Some (c_f c))) as [f meth| |].
  2:{ cbv in N1. discriminate. }
  2:{ cbv in N2. discriminate. }
  cbv beta iota in N2.
  destruct (has_print T (fcls f) meth) as [ow|] eqn:E.
  2:{ cbv in N2. discriminate. }
  exists f, meth, ow. auto.
Qed.

Lemma kf_reparent_cfg_eq : forall r m,
  kf_reparent_cfg T g r m = existsb (cfg_has T g SNoCopy) (reach T g r m).
Proof. reflexivity. Qed.
Lemma kf_emit_cfg_eq : forall r m, kf_emit_cfg T g r m = existsb (cfg_has T g SEmit) (reach T g r m).
Proof. reflexivity. Qed.

(* a member of a set free of the two known-finding markers, itself free of the other two, is clean *)
Lemma clean_from_set : forall S c, In c S ->
  existsb (cfg_has T g SNoCopy) S = false -> existsb (cfg_has T g SEmit) S = false ->
  cfg_has T g SNoPrinter c = false -> cfg_has T g SBad c = false -> cfg_has T g SEmitOther c = false ->
  cfg_clean T g c = true.
Proof.
  intros S c Hin K1 K2 N1 N2 N3. unfold cfg_clean. rewrite N1, N2, N3.
  assert (A1 : cfg_has T g SNoCopy c = false).
  { destruct (cfg_has T g SNoCopy c) eqn:E; auto.
    assert (X : existsb (cfg_has T g SNoCopy) S = true) by (apply existsb_exists; exists c; auto). congruence. }
  assert (A2 : cfg_has T g SEmit c = false).
  { destruct (cfg_has T g SEmit c) eqn:E; auto.
    assert (X : existsb (cfg_has T g SEmit) S = true) by (apply existsb_exists; exists c; auto). congruence. }
  rewrite A1, A2. reflexivity.
Qed.

(* the entry points of a mode on a concrete document are entries of the class-level analysis *)
Lemma entry_in : forall of m c t, entry_ok T g of m c t ->
  In c (entries T g of m) /\ fits g c t = true.
Proof.
  intros of m c t H. destruct m; simpl in H.
  - destruct H as [Hp Hc]. subst. unfold produced_by in Hp. apply andb_true_iff in Hp. destruct Hp as [P1 P2].
    split. { simpl. apply in_map_iff. exists (tcls t). split; auto. apply mem_In. exact P1. }
    apply conforms_fits. exact P2.
  - contradiction.
  - destruct H as [[H1 [H2 H3]]|[fc [H1 [H2 H3]]]]; subst.
    + split. { simpl. apply in_or_app. left. apply in_map_iff. exists (tcls t). split; auto. apply mem_In. exact H1. }
      apply conforms_fits. exact H2.
    + split. { simpl. apply in_or_app. right. apply in_map_iff. exists (fc, tcls t). split; auto. }
      apply fits_intro; simpl; auto. rewrite H1. reflexivity.
Qed.

End Generic.

(* ------------------------------------------------------------------ Part 2: the extracted tables *)
Definition TB := tables.
Definition input_types : list string := ["json"; "json5"; "yaml"; "csv"; "xml"; "html"; "plist"; "pickle"].
Definition out_modes : list omode := [MDiff; MEdits; MDigest].

(* equality of grammars, to compute each distinct (grammar, root formatter) once *)
Fixpoint rows_eqb (a b : list (string * list string)) : bool :=
  match a, b with
  | [], [] => true
  | (x, xs) :: a', (y, ys) :: b' => String.eqb x y && slist_eqb xs ys && rows_eqb a' b'
  | _, _ => false
  end.
Definition gram_eqb (a b : gram) : bool := slist_eqb (fst a) (fst b) && rows_eqb (snd a) (snd b).
Lemma rows_eqb_true : forall a b, rows_eqb a b = true -> a = b.
Proof.
  induction a as [|[x xs] a IH]; destruct b as [|[y ys] b]; simpl; intros H; try discriminate; auto.
  repeat (apply andb_true_iff in H; destruct H as [H ?]).
  apply String.eqb_eq in H. apply slist_eqb_true in H1. subst. f_equal. auto.
Qed.
Lemma gram_eqb_true : forall a b, gram_eqb a b = true -> a = b.
Proof.
  intros [a1 a2] [b1 b2] H. unfold gram_eqb in H. simpl in H. apply andb_true_iff in H. destruct H as [H1 H2].
  apply slist_eqb_true in H1. apply rows_eqb_true in H2. subst. reflexivity.
Qed.

(* the distinct grammars (input type x dictionary strategy) and root formatters *)
Definition dss : list dstrategy := [DSAuto; DSMatch; DSNone].
Fixpoint dedup_g (l : list gram) : list gram :=
  match l with [] => [] | x :: r => if existsb (gram_eqb x) r then dedup_g r else x :: dedup_g r end.
Definition rep_grams : list gram := dedup_g (flat_map (fun it => map (grammar_o TB it) dss) input_types).
Definition rep_roots : list string := dedup_s (map (root_class TB) input_types).

(* everything the theorems need about one (grammar, root formatter, mode), computed in one pass *)
Definition combo_ok (g : gram) (r : string) (m : omode) : bool :=
  let S := reach TB g r m in
  entries_in TB g r m S &&
  forallb (fun c =>
    let st := step TB g c in
    forallb (fun c' => memcfg c' S) (cfgs_of st) &&
    negb (existsb (is_err SNoPrinter) st) && negb (existsb (is_err SBad) st) &&
    negb (existsb (is_err SEmitOther) st) && negb (sloop TB c)) S.

(* checked once, by the kernel's VM at Qed (vm_cast_no_check skips the tactic-time evaluation) *)
Lemma all_combos_ok_true :
  forallb (fun g => forallb (fun r => forallb (fun m => combo_ok g r m) out_modes) rep_roots) rep_grams = true.
Proof. vm_cast_no_check (eq_refl true). Qed.

Lemma all_combos_forall : forall g r m, In g rep_grams -> In r rep_roots -> In m out_modes ->
  combo_ok g r m = true.
Proof.
  intros g r m Hi Hr Hm.
  exact (proj1 (forallb_forall _ _) (proj1 (forallb_forall _ _) (proj1 (forallb_forall _ _) all_combos_ok_true g Hi) r Hr) m Hm).
Qed.

Lemma ds_in : forall ds, In ds dss.
Proof. destruct ds; simpl; auto. Qed.
Lemma gram_in : forall it ds, In it input_types -> In (grammar_o TB it ds) rep_grams.
Proof.
  assert (H : forallb (fun it => forallb (fun ds => existsb (gram_eqb (grammar_o TB it ds)) rep_grams) dss)
                input_types = true) by (vm_compute; reflexivity).
  intros it ds Hin. rewrite forallb_forall in H. specialize (H it Hin).
  rewrite forallb_forall in H. specialize (H ds (ds_in ds)).
  apply existsb_exists in H. destruct H as [g' [Hg' He]]. apply gram_eqb_true in He. rewrite He. exact Hg'.
Qed.
Lemma root_in : forall of, In of input_types -> In (root_class TB of) rep_roots.
Proof.
  assert (H : forallb (fun of => mem (root_class TB of) rep_roots) input_types = true) by (vm_compute; reflexivity).
  intros of Hin. rewrite forallb_forall in H. apply mem_In. apply H. exact Hin.
Qed.
Lemma mode_in : forall m, In m out_modes.
Proof. destruct m; simpl; auto. Qed.

Lemma combo_ok_all : forall it ds of m, In it input_types -> In of input_types ->
  combo_ok (grammar_o TB it ds) (root_class TB of) m = true.
Proof.
  intros it ds of m Hi Ho.
  apply all_combos_forall; [apply gram_in; exact Hi | apply root_in; exact Ho | apply mode_in].
Qed.

Lemma combo_facts : forall g r m, combo_ok g r m = true ->
  let S := reach TB g r m in
  (forall c, In c (entries TB g r m) -> In c S) /\ closed TB g S /\
  (forall c, In c S -> cfg_has TB g SNoPrinter c = false /\ cfg_has TB g SBad c = false /\
                       cfg_has TB g SEmitOther c = false /\ sloop TB c = false).
Proof.
  intros g r m H S. unfold combo_ok in H. fold S in H. apply andb_true_iff in H. destruct H as [He Ha].
  rewrite forallb_forall in Ha. repeat split.
  - intros c Hc. unfold entries_in in He. rewrite forallb_forall in He. apply memcfg_In. apply He. exact Hc.
  - intros c c' Hc Hs. specialize (Ha c Hc). cbv zeta in Ha.
    repeat (apply andb_true_iff in Ha; destruct Ha as [Ha ?]).
    rewrite forallb_forall in Ha. apply memcfg_In. apply Ha. apply in_cfgs_of. exact Hs.
  - specialize (Ha c H). cbv zeta in Ha. repeat (apply andb_true_iff in Ha; destruct Ha as [Ha ?]).
    apply negb_true_iff in H3. exact H3.
  - specialize (Ha c H). cbv zeta in Ha. repeat (apply andb_true_iff in Ha; destruct Ha as [Ha ?]).
    apply negb_true_iff in H2. exact H2.
  - specialize (Ha c H). cbv zeta in Ha. repeat (apply andb_true_iff in Ha; destruct Ha as [Ha ?]).
    apply negb_true_iff in H1. exact H1.
  - specialize (Ha c H). cbv zeta in Ha. repeat (apply andb_true_iff in Ha; destruct Ha as [Ha ?]).
    apply negb_true_iff in H0. exact H0.
Qed.

(* sizes of the finite tables the computations range over *)
Definition table_sizes : (nat * nat * nat * nat * nat) :=
  (length (t_fmt TB), length (t_global TB), length (t_mro TB), length (t_methods TB), length (t_emit TB)).

(* ------------------------------------------------------------------ Part 3: the property *)

(* rendering a document t of input type `it` with the formatter of `of` in mode m meets configuration c on item x *)
Definition renders (it : string) (ds : dstrategy) (of : string) (m : omode) (t : tree) (c : cfg) (x : tree) : Prop :=
  exists c0 t0, entry_ok TB (grammar_o TB it ds) (root_class TB of) m c0 t0 /\
                (m = MDiff -> t0 = t) /\ creach TB (grammar_o TB it ds) (c0, t0) (c, x).

(* reachability of classes covers every tree produced by the input type (trees of any size and depth) *)
Theorem C13_cover : forall it ds of m t c x,
  In it input_types -> In of input_types -> renders it ds of m t c x ->
  In c (reach TB (grammar_o TB it ds) (root_class TB of) m) /\ fits (grammar_o TB it ds) c x = true.
Proof.
  intros it ds of m t c x Hi Ho [c0 [t0 [He [_ Hr]]]].
  destruct (combo_facts _ _ _ (combo_ok_all it ds of m Hi Ho)) as [F1 [F2 F3]].
  destruct (entry_in _ _ _ _ _ _ He) as [E1 E2].
  apply (cover TB (grammar_o TB it ds) _ c0 t0 c x F2 (F1 _ E1) E2 Hr).
Qed.

(* dispatch totality: a print method is resolved for every class met, and the model is never stuck *)
Theorem C13_dispatch_total : forall it ds of m t c x,
  In it input_types -> In of input_types -> renders it ds of m t c x ->
  exists f meth ow, resolve TB (mro_of TB (c_cls c)) (Some (c_f c)) = RFound f meth /\
                    has_print TB (fcls f) meth = Some ow.
Proof.
  intros it ds of m t c x Hi Ho Hr. destruct (C13_cover _ _ _ _ _ _ _ Hi Ho Hr) as [Hin _].
  destruct (combo_facts _ _ _ (combo_ok_all it ds of m Hi Ho)) as [_ [_ F3]].
  destruct (F3 c Hin) as [N1 [N2 [_ _]]]. apply (clean_resolved TB (grammar_o TB it ds) c N1 N2).
Qed.

(* the property, outside the two classes of configurations the model itself delimits *)
Theorem C13_partial : forall it ds of m,
  In it input_types -> In of input_types ->
  kf_reparent_cfg TB (grammar_o TB it ds) (root_class TB of) m = false ->
  kf_emit_cfg TB (grammar_o TB it ds) (root_class TB of) m = false ->
  forall t c x, renders it ds of m t c x -> node_ok TB (grammar_o TB it ds) c x = true.
Proof.
  intros it ds of m Hi Ho K1 K2 t c x Hr. destruct (C13_cover _ _ _ _ _ _ _ Hi Ho Hr) as [Hin _].
  destruct (combo_facts _ _ _ (combo_ok_all it ds of m Hi Ho)) as [_ [_ F3]].
  destruct (F3 c Hin) as [N1 [N2 [N3 _]]]. apply clean_node_ok.
  rewrite kf_reparent_cfg_eq in K1. rewrite kf_emit_cfg_eq in K2.
  exact (clean_from_set TB (grammar_o TB it ds) _ c Hin K1 K2 N1 N2 N3).
Qed.

(* no configuration met hands its item back to itself through same-item calls (no unbounded re-dispatch) *)
Theorem C13_no_loop : forall it ds of m t c x,
  In it input_types -> In of input_types -> renders it ds of m t c x -> sloop TB c = false.
Proof.
  intros it ds of m t c x Hi Ho Hr. destruct (C13_cover _ _ _ _ _ _ _ Hi Ho Hr) as [Hin _].
  destruct (combo_facts _ _ _ (combo_ok_all it ds of m Hi Ho)) as [_ [_ F3]].
  destruct (F3 c Hin) as [_ [_ [_ N4]]]. exact N4.
Qed.

(* -e prints str(edit) only: no formatter is involved at all *)
Theorem C13_edits_mode : forall it ds of t c x, ~ renders it ds of MEdits t c x.
Proof. intros it ds of t c x [c0 [t0 [He _]]]. unfold entry_ok in He. exact He. Qed.

(* the statement at full strength is false on this tree: D9 (re-parenting) and D19 (plist has no null) *)
Definition xml_doc : tree :=
  Tr "XMLElement" [Tr "StringNode" []; Tr "DictNode" []; Tr "XMLElementChildren" []].
Definition null_doc : tree := Tr "ListNode" [Tr "NullNode" []].
Definition kvp_doc : tree := Tr "KeyValuePairNode" [Tr "StringNode" []; Tr "IntegerNode" []].

Theorem C13_refuted :
  (exists c x, renders "xml" DSAuto "json" MDiff xml_doc c x /\ node_ok TB (grammar_o TB "xml" DSAuto) c x = false) /\
  (exists c x, renders "json" DSAuto "plist" MDiff null_doc c x /\ node_ok TB (grammar_o TB "json" DSAuto) c x = false) /\
  (exists c x, renders "json" DSAuto "yaml" MDigest kvp_doc c x /\ node_ok TB (grammar_o TB "json" DSAuto) c x = false).
Proof.
  split; [|split].
  - exists (["JSONFormatter"], "XMLElement", "XMLElement", true), xml_doc. split.
    + exists (["JSONFormatter"], "XMLElement", "XMLElement", true), xml_doc. split; [|split].
      * unfold entry_ok. split; [vm_compute; reflexivity|reflexivity].
      * auto.
      * apply cr_refl.
    + vm_compute. reflexivity.
  - exists (["PLISTSequenceFormatter"; "PLISTFormatter"], "NullNode", "NullNode", true), (Tr "NullNode" []). split.
    + exists (["PLISTFormatter"], "ListNode", "ListNode", true), null_doc. split; [|split].
      * unfold entry_ok. split; [vm_compute; reflexivity|reflexivity].
      * auto.
      * (* PLISTFormatter -> PLISTSequenceFormatter.print_ListNode -> edit_print -> self.print(child);
           PLISTSequenceFormatter.print(NullNode) resolves in the parent: PLISTFormatter.print_LeafNode *)
        eapply cr_step. { apply cr_refl. }
        eapply (cs_method TB (grammar_o TB "json" DSAuto) (["PLISTFormatter"], "ListNode", "ListNode", true) null_doc
                  ["PLISTSequenceFormatter"; "PLISTFormatter"] "print_ListNode" "PLISTSequenceFormatter").
        -- vm_compute. reflexivity.
        -- vm_compute. reflexivity.
        -- vm_compute. left. reflexivity.
    + vm_compute. reflexivity.
  - exists (["YAMLFormatter"], "KeyValuePairNode", "KeyValuePairNode", true), kvp_doc. split.
    + exists (["YAMLFormatter"], "KeyValuePairNode", "KeyValuePairNode", true), kvp_doc. split; [|split].
      * unfold entry_ok. left. split; [vm_compute; reflexivity|]. split; [vm_compute; reflexivity|reflexivity].
      * intros H. discriminate.
      * apply cr_refl.
    + vm_compute. reflexivity.
Qed.

(* which configurations of the product fall into the two classes on this tree (count, of 8 x 8 x 3 = 192) *)
Definition kf_combos (ds : dstrategy) : list (string * string * omode) :=
  flat_map (fun it => flat_map (fun of => flat_map (fun m =>
    if kf_reparent_cfg TB (grammar_o TB it ds) (root_class TB of) m || kf_emit_cfg TB (grammar_o TB it ds) (root_class TB of) m
    then [(it, of, m)] else []) out_modes) input_types) input_types.

(* the hypotheses of C13_partial are satisfiable by non-trivial values, and its conclusion is not vacuous *)
Definition json_doc : tree :=
  Tr "DictNode" [Tr "KeyValuePairNode" [Tr "StringNode" []; Tr "ListNode" [Tr "IntegerNode" []; Tr "NullNode" []]]].
Example C13_partial_applies :
  kf_reparent_cfg TB (grammar_o TB "json" DSAuto) (root_class TB "json") MDiff = false /\
  kf_emit_cfg TB (grammar_o TB "json" DSAuto) (root_class TB "json") MDiff = false /\
  kf_reparent_cfg TB (grammar_o TB "pickle" DSAuto) (root_class TB "xml") MDigest = false /\
  kf_emit_cfg TB (grammar_o TB "pickle" DSAuto) (root_class TB "xml") MDigest = false /\
  produced_by (grammar_o TB "json" DSAuto) json_doc = true /\
  (exists c x, renders "json" DSAuto "json" MDiff json_doc c x /\ c_cls c = "KeyValuePairNode") /\
  kf_reparent_cfg TB (grammar_o TB "xml" DSAuto) (root_class TB "json") MDiff = true /\
  kf_emit_cfg TB (grammar_o TB "json" DSAuto) (root_class TB "plist") MDiff = true.
Proof.
  do 5 (split; [vm_compute; reflexivity|]).
  split; [|split; vm_compute; reflexivity].
  exists (["JSONDictFormatter"; "JSONFormatter"], "KeyValuePairNode", "KeyValuePairNode", true),
         (Tr "KeyValuePairNode" [Tr "StringNode" []; Tr "ListNode" [Tr "IntegerNode" []; Tr "NullNode" []]]).
  split; [|reflexivity].
  exists (["JSONFormatter"], "DictNode", "DictNode", true), json_doc. split; [|split].
  - unfold entry_ok. split; [vm_compute; reflexivity|reflexivity].
  - auto.
  - eapply cr_step. { apply cr_refl. }
    eapply (cs_method TB (grammar_o TB "json" DSAuto) (["JSONFormatter"], "DictNode", "DictNode", true) json_doc
              ["JSONDictFormatter"; "JSONFormatter"] "print_MappingNode" "JSONDictFormatter").
    + vm_compute. reflexivity.
    + vm_compute. reflexivity.
    + vm_compute. left. reflexivity.
Qed.

(* the finite domains the computations above range over (bounds, so that adding a method does not break them) *)
Example table_sizes_bounded :
  let '(a, b, c, d, e) := table_sizes in
  (Nat.leb a 64 && Nat.leb b 16 && Nat.leb c 128 && Nat.leb d 256 && Nat.leb e 256
   && Nat.leb (length rep_grams) 24 && Nat.leb (length rep_roots) 8)%bool = true.
Proof. vm_compute. reflexivity. Qed.
