(* C12: the CSV reader inverts the CSV printer.
   csv_print models CSVFormatter (every cell written by csv.writer as a one-field row, QUOTE_MINIMAL), csv_read
   models open() in text mode (universal newlines) followed by the _csv reader state machine.
   Main results:
   - C12_csv_all : for every table none of whose cells contains a carriage return (the loader's image: text-mode
     open() turns every CR into LF before csv.reader sees it), csv_read (csv_print t) = Some t  - exact equality,
     stronger than CSVNode.__eq__ (which also identifies all tables without a non-empty row);
   - C12_csv_cr_refuted : the hypothesis is necessary (a cell holding a lone CR reloads as LF);
   the invariant is the reader state between cells / between rows. *)
From Coq Require Import List Bool ZArith Lia.
Require Import GT.PyBase GT.JsonSpec GT.JsonModel GT.CsvModel.
Import ListNotations.
Open Scope Z_scope.

Notation St := Build_cstate.

(* ================================================================== universal newlines *)

Definition no_cr (s : list Z) : bool := forallb (fun c => negb (c =? 13)) s.

Lemma univ_nl_id : forall s, no_cr s = true -> univ_nl s = s.
Proof.
  induction s as [|c s IH]; simpl; intros H; [reflexivity|].
  apply andb_true_iff in H. destruct H as [H1 H2].
  destruct (c =? 13); [discriminate|]. now rewrite IH.
Qed.

Lemma no_cr_app : forall a b, no_cr (a ++ b) = no_cr a && no_cr b.
Proof. intros. unfold no_cr. apply forallb_app. Qed.

Lemma no_cr_quote_body : forall s, no_cr s = true -> no_cr (csv_quote_body s) = true.
Proof.
  induction s as [|c s IH]; simpl; intros H; [reflexivity|].
  apply andb_true_iff in H. destruct H as [H1 H2].
  rewrite no_cr_app, IH by assumption. destruct (c =? 34) eqn:E; simpl.
  - reflexivity.
  - now rewrite H1.
Qed.

Lemma no_cr_cell : forall s, no_cr s = true -> no_cr (csv_cell s) = true.
Proof.
  intros s H. unfold csv_cell. destruct (csv_needs_quote s); [|assumption].
  simpl. rewrite no_cr_app, no_cr_quote_body by assumption. reflexivity.
Qed.

Lemma no_cr_row : forall r, forallb no_cr r = true -> no_cr (csv_row r) = true.
Proof.
  induction r as [|c r IH]; simpl; intros H; [reflexivity|].
  apply andb_true_iff in H. destruct H as [H1 H2].
  rewrite no_cr_app, no_cr_cell by assumption. simpl.
  destruct r; [reflexivity|]. simpl. apply IH, H2.
Qed.

Lemma no_cr_print : forall t, csv_domainb t = true -> no_cr (csv_print t) = true.
Proof.
  induction t as [|r t IH]; simpl; intros H; [reflexivity|].
  apply andb_true_iff in H. destruct H as [H1 H2].
  unfold csv_print in *. simpl. rewrite !no_cr_app, no_cr_row, IH by assumption. reflexivity.
Qed.

(* ================================================================== the reader on one cell *)

Definition startb (m : cmode) : bool := match m with StartRecord | StartField => true | _ => false end.

Lemma special_false : forall c, csv_special c = false ->
  (c =? 44) = false /\ (c =? 34) = false /\ (c =? 13) = false /\ (c =? 10) = false.
Proof.
  intros c H. unfold csv_special in H.
  repeat (apply orb_false_iff in H; destruct H as [H ?]). auto.
Qed.

(* characters of an unquoted field *)
Lemma run_infield : forall s f fs recs rest,
  existsb csv_special s = false ->
  crun (St InField f fs recs true) (s ++ rest) = crun (St InField (rev s ++ f) fs recs true) rest.
Proof.
  induction s as [|c s IH]; intros f fs recs rest H; simpl in *; [reflexivity|].
  apply orb_false_iff in H. destruct H as [Hc Hs].
  destruct (special_false c Hc) as (E44 & E34 & E13 & E10).
  unfold cchar, cstep. simpl. rewrite E10, E13, E44. simpl.
  unfold add_char; simpl. rewrite IH by assumption. rewrite <- app_assoc. reflexivity.
Qed.

(* the body of a quoted field: quotes doubled, embedded line feeds end a physical line inside the field *)
Lemma run_quoted_body : forall s f fs recs p rest,
  no_cr s = true ->
  exists p', crun (St InQuoted f fs recs p) (csv_quote_body s ++ rest)
           = crun (St InQuoted (rev s ++ f) fs recs p') rest.
Proof.
  induction s as [|c s IH]; intros f fs recs p rest H; simpl in *; [now exists p|].
  apply andb_true_iff in H. destruct H as [Hc Hs].
  destruct (c =? 13) eqn:E13; [discriminate|].
  destruct (c =? 34) eqn:E34.
  - apply Z.eqb_eq in E34. subst c. simpl.
    unfold cchar, cstep; simpl.
    destruct (IH (34 :: f) fs recs true rest Hs) as [p' Hp'].
    exists p'. unfold add_char, set_mode; simpl. rewrite Hp'. rewrite <- app_assoc. reflexivity.
  - simpl. unfold cchar at 1, cstep; simpl. rewrite E34.
    destruct (c =? 10) eqn:E10.
    + unfold add_char, cstep_eol, cend_line; simpl.
      destruct (IH (c :: f) fs recs false rest Hs) as [p' Hp'].
      exists p'. rewrite Hp'. rewrite <- app_assoc. reflexivity.
    + unfold add_char; simpl.
      destruct (IH (c :: f) fs recs true rest Hs) as [p' Hp'].
      exists p'. rewrite Hp'. rewrite <- app_assoc. reflexivity.
Qed.

(* what follows a cell: a comma, or the line feed that ends the row *)
Definition after_cell (d : Z) (c : list Z) (fs : list (list Z)) (recs : table) : cstate :=
  if d =? 44 then St StartField [] (c :: fs) recs true
  else St StartRecord [] [] (rev (c :: fs) :: recs) false.

Lemma run_cell : forall c m fs recs p d rest,
  startb m = true -> no_cr c = true -> (d = 44 \/ d = 10) ->
  crun (St m [] fs recs p) (csv_cell c ++ d :: rest) = crun (after_cell d c fs recs) rest.
Proof.
  intros c m fs recs p d rest Hm Hc Hd. unfold csv_cell.
  destruct (csv_needs_quote c) eqn:Q.
  - (* quoted *)
    simpl.
    assert (H1 : cchar (St m [] fs recs p) 34 = Some (St InQuoted [] fs recs true)).
    { destruct m; try discriminate; reflexivity. }
    rewrite H1. rewrite <- app_assoc.
    destruct (run_quoted_body c [] fs recs true ([34] ++ d :: rest) Hc) as [p' Hp'].
    rewrite Hp'. rewrite app_nil_r. simpl.
    unfold cchar at 1, cstep; simpl. unfold set_mode; simpl.
    destruct Hd; subst d; unfold after_cell; simpl; unfold save_field, cstep_eol, cend_line; simpl;
      rewrite rev_involutive; reflexivity.
  - (* unquoted, hence non-empty and free of special characters *)
    destruct c as [|x c]; [discriminate|]. simpl in Q.
    apply orb_false_iff in Q. destruct Q as [Qx Qc].
    destruct (special_false x Qx) as (E44 & E34 & E13 & E10).
    simpl.
    assert (H1 : cchar (St m [] fs recs p) x = Some (St InField [x] fs recs true)).
    { unfold cchar, cstep, cstep_field. destruct m; try discriminate; simpl; rewrite E10, E13, E34, E44; simpl; reflexivity. }
    rewrite H1. rewrite run_infield by assumption.
    destruct Hd; subst d; unfold after_cell; simpl; unfold cchar, cstep; simpl;
      unfold save_field, cstep_eol, cend_line; simpl; rewrite ?rev_app_distr, ?rev_involutive; reflexivity.
Qed.

(* ================================================================== rows and tables *)

Lemma run_row_ne : forall r c m fs recs p rest,
  startb m = true -> forallb no_cr (c :: r) = true ->
  crun (St m [] fs recs p) (csv_row (c :: r) ++ 10 :: rest)
  = crun (St StartRecord [] [] (rev (rev (c :: r) ++ fs) :: recs) false) rest.
Proof.
  induction r as [|c2 r IH]; intros c m fs recs p rest Hm H.
  - simpl in H. apply andb_true_iff in H. destruct H as [H _].
    simpl csv_row. rewrite app_nil_r.
    rewrite run_cell by auto. reflexivity.
  - change (forallb no_cr (c :: c2 :: r)) with (no_cr c && forallb no_cr (c2 :: r)) in H.
    apply andb_true_iff in H. destruct H as [H1 H2].
    change (csv_row (c :: c2 :: r)) with (csv_cell c ++ 44 :: csv_row (c2 :: r)).
    rewrite <- app_assoc. change ((44 :: csv_row (c2 :: r)) ++ 10 :: rest) with (44 :: (csv_row (c2 :: r) ++ 10 :: rest)).
    rewrite run_cell by auto. unfold after_cell. simpl (44 =? 44).  cbv iota.
    rewrite IH by auto.
    simpl rev. rewrite <- !app_assoc. reflexivity.
Qed.

Lemma run_row : forall r recs rest,
  forallb no_cr r = true ->
  crun (St StartRecord [] [] recs false) (csv_row r ++ 10 :: rest)
  = crun (St StartRecord [] [] (r :: recs) false) rest.
Proof.
  intros [|c r] recs rest H.
  - reflexivity.
  - rewrite run_row_ne by auto. rewrite app_nil_r, rev_involutive. reflexivity.
Qed.

Lemma run_table : forall t recs,
  csv_domainb t = true ->
  crun (St StartRecord [] [] recs false) (csv_print t) = Some (St StartRecord [] [] (rev t ++ recs) false).
Proof.
  induction t as [|r t IH]; intros recs H; [reflexivity|].
  simpl in H. apply andb_true_iff in H. destruct H as [H1 H2].
  unfold csv_print in *. simpl flat_map. rewrite <- app_assoc. simpl ([10] ++ _).
  rewrite run_row by assumption. rewrite IH by assumption.
  simpl rev. rewrite <- app_assoc. reflexivity.
Qed.

(* ================================================================== the theorem *)

Theorem C12_csv_all : forall t, csv_domain t -> csv_read (csv_print t) = Some t.
Proof.
  intros t H. unfold csv_read. rewrite univ_nl_id by (apply no_cr_print, H).
  unfold cinit. rewrite run_table by exact H.
  unfold cfinish. simpl. rewrite app_nil_r, rev_involutive. reflexivity.
Qed.

(* in the property's own terms: the reloaded table is the table CSVNode.__eq__ accepts *)
Corollary C12_csv_equiv : forall t, csv_domain t ->
  exists r, csv_read (csv_print t) = Some r /\ table_equiv r t = true.
Proof.
  intros t H. exists t. split; [apply C12_csv_all, H|].
  unfold table_equiv. apply orb_true_iff. left.
  induction t as [|r t IH]; [reflexivity|].
  simpl. apply andb_true_iff. split.
  - clear. induction r as [|c r IHr]; [reflexivity|]. apply andb_true_iff. split; [|exact IHr].
    clear. induction c as [|x c IHc]; [reflexivity|]. simpl. now rewrite Z.eqb_refl.
  - apply IH. unfold csv_domain in *. simpl in H. apply andb_true_iff in H. apply H.
Qed.

(* the hypothesis is necessary: a carriage return inside a cell is printed inside quotes and comes back as a
   line feed (text-mode open()).  No loaded table contains one; a table built by other means can. *)
Theorem C12_csv_cr_refuted : exists t, csv_read (csv_print t) <> Some t /\ csv_read (csv_print t) = Some [[[10]]].
Proof. exists [[[13]]]. split; [vm_compute; discriminate | vm_compute; reflexivity]. Qed.

(* the domain is inhabited by a table with every kind of cell: quote, comma, embedded newline, NUL, non-ASCII,
   empty cell, empty row, ragged rows, trailing empty row *)
Definition example_table : table :=
  [ [[97]; [34]; [44; 32]; []]; []; [[]]; [[10]; [97; 10; 10; 98]; [0]; [233; 128512]]; [[34; 34; 44; 34]]; [[]; []]; [] ].
Example C12_csv_domain_inhabited : csv_domain example_table /\ csv_read (csv_print example_table) = Some example_table.
Proof. split; vm_compute; reflexivity. Qed.
