(* Structural facts about the edit-distance matrix engine (GT.EdEngine) for ALL cost tables of matching
   dimensions: position-wise characterisation of every cell, the back-trace is a monotone path from (0,0)
   that accounts for every source / target position exactly once and in order, the cost of a cell is the
   sum of the costs of the steps of its path, a diagonal step is only taken when strictly cheaper than both
   the insert and the remove.  None of these depends on the uint16 wrap of the path-length cells.
   Then: generic facts on trim / middle / common_prefix_len (any eqb), and the string-level corollaries on
   ScriptModel.str_script (spells both strings, cost = sum of the character operations). *)
From Coq Require Import ZArith List Bool Lia.
Require Import GT.PyBase GT.Data GT.ScriptSpec GT.EdEngine GT.EdFacts GT.ScriptModel.
Import ListNotations.
Open Scope Z_scope.

(* ---------------------------------------------------------------- definitions *)
(* dims_ok, op_from, op_to, op_cost, op_in_range: GT.EdFacts *)
Definition op_diag_strict (rc ic : list Z) (mcs : list (list Z)) (o : op) : Prop :=
  match o with
  | OMatch c r => nth c (nth r mcs []) 0 < nth r ic 0 /\ nth c (nth r mcs []) 0 < nth c rc 0
  | _ => True
  end.

(* a cell reached from p by a step of cost w in direction d *)
Definition step_cell (p : cell) (w : Z) (d : dir) : cell :=
  {| ccost := ccost p + w; cpath := wrap16 (cpath p + 1); cdir := d |}.

(* ---------------------------------------------------------------- list helpers *)
Lemma zsum_app : forall l1 l2, zsum (l1 ++ l2) = zsum l1 + zsum l2.
Proof. induction l1; intros; simpl; [reflexivity|]. unfold zsum in *. simpl. rewrite IHl1. lia. Qed.

Lemma zsum_rev : forall l, zsum (rev l) = zsum l.
Proof. induction l; simpl; [reflexivity|]. rewrite zsum_app, IHl. unfold zsum. simpl. lia. Qed.

Lemma zsum_nonneg : forall l, Forall (fun x => 0 <= x) l -> 0 <= zsum l.
Proof. induction 1; unfold zsum in *; simpl; lia. Qed.

Lemma zsum_map_const0 : forall {A} (f : A -> Z) l, (forall x, In x l -> f x = 0) -> zsum (map f l) = 0.
Proof.
  induction l; intros H; [reflexivity|]. change (f a + zsum (map f l) = 0).
  rewrite IHl, H by (intros; try apply H; simpl; auto). lia.
Qed.

Lemma flat_map_rev_cons : forall {A B} (f : A -> list B) x l,
  flat_map f (rev (x :: l)) = flat_map f (rev l) ++ f x.
Proof. intros. simpl. rewrite flat_map_app. simpl. rewrite app_nil_r. reflexivity. Qed.

Lemma Forall2_rev : forall {A B} (R : A -> B -> Prop) l1 l2, Forall2 R l1 l2 -> Forall2 R (rev l1) (rev l2).
Proof. induction 1; simpl; [constructor|]. apply Forall2_app; [assumption|]. constructor; [assumption|constructor]. Qed.

Lemma nth_firstn_lt : forall {A} (l : list A) n i d, (i < n)%nat -> nth i (firstn n l) d = nth i l d.
Proof.
  induction l; intros n i d H; [rewrite firstn_nil; reflexivity|].
  destruct n; [lia|]. destruct i; [reflexivity|]. simpl. apply IHl. lia.
Qed.

Lemma nth_skipn_add : forall {A} p (l : list A) i d, nth i (skipn p l) d = nth (p + i) l d.
Proof.
  induction p; intros l i d; [reflexivity|]. destruct l; simpl; [destruct i; reflexivity|]. apply IHp.
Qed.

Lemma nth_error_firstn_lt : forall {A} (l : list A) n i, (i < n)%nat -> nth_error (firstn n l) i = nth_error l i.
Proof.
  induction l; intros n i H; [rewrite firstn_nil; reflexivity|].
  destruct n; [lia|]. destruct i; [reflexivity|]. simpl. apply IHl. lia.
Qed.

Lemma nth_error_skipn_add : forall {A} p (l : list A) i, nth_error (skipn p l) i = nth_error l (p + i).
Proof.
  induction p; intros l i; [reflexivity|]. destruct l; simpl; [destruct i; reflexivity|]. apply IHp.
Qed.

Lemma map_nth_seq : forall {A} (l : list A) d, map (fun i => nth i l d) (seq 0 (length l)) = l.
Proof.
  intros A l d. induction l; [reflexivity|]. simpl. f_equal.
  rewrite <- seq_shift, map_map. exact IHl.
Qed.

Lemma firstn_S_nth : forall {A} (l : list A) n d, (n < length l)%nat -> firstn (S n) l = firstn n l ++ [nth n l d].
Proof.
  induction l; intros n d H; simpl in H; [lia|]. destruct n; [reflexivity|].
  change (a :: firstn (S n) l = a :: (firstn n l ++ [nth n l d])). f_equal. apply IHl. lia.
Qed.

Lemma skipn_skipn : forall {A} y x (l : list A), skipn x (skipn y l) = skipn (x + y) l.
Proof.
  induction y; intros x l; [rewrite Nat.add_0_r; reflexivity|].
  rewrite Nat.add_succ_r. destruct l; [rewrite !skipn_nil; reflexivity|]. simpl. apply IHy.
Qed.

Lemma Forall2_eq : forall {A} (l1 l2 : list A), Forall2 eq l1 l2 -> l1 = l2.
Proof. induction 1; congruence. Qed.

(* ---------------------------------------------------------------- rows, position by position *)
Lemma row0_from_length : forall rc p, length (row0_from p rc) = length rc.
Proof. induction rc; intros; simpl; [reflexivity|]. rewrite IHrc. reflexivity. Qed.

Lemma row0_from_nth : forall rc p c, (c < length rc)%nat ->
  nth (S c) (p :: row0_from p rc) start_cell = step_cell (nth c (p :: row0_from p rc) start_cell) (nth c rc 0) DLeft.
Proof.
  induction rc as [|w rc IH]; intros p c H; simpl in H; [lia|].
  destruct c; [reflexivity|].
  cbn [row0_from].
  change (nth (S c) (step_cell p w DLeft :: row0_from (step_cell p w DLeft) rc) start_cell =
          step_cell (nth c (step_cell p w DLeft :: row0_from (step_cell p w DLeft) rc) start_cell) (nth c rc 0) DLeft).
  apply IH. lia.
Qed.

Lemma row_rest_length : forall ups i d rc ms l,
  length (row_rest i d ups rc ms l) = Nat.min (length ups) (Nat.min (length rc) (length ms)).
Proof.
  induction ups as [|u ups IH]; intros; [reflexivity|].
  destruct rc; [reflexivity|]. destruct ms; [simpl; lia|]. simpl. rewrite IH. reflexivity.
Qed.

Lemma row_rest_nth : forall ups i d rc ms l c,
  (c < length ups)%nat -> (c < length rc)%nat -> (c < length ms)%nat ->
  nth (S c) (l :: row_rest i d ups rc ms l) start_cell =
  best (nth c (d :: ups) start_cell) (nth c (l :: row_rest i d ups rc ms l) start_cell)
       (nth (S c) (d :: ups) start_cell) (nth c ms 0) i (nth c rc 0).
Proof.
  induction ups as [|u ups IH]; intros i d rc ms l c H1 H2 H3; simpl in H1; [lia|].
  destruct rc as [|w rc]; simpl in H2; [lia|]. destruct ms as [|m ms]; simpl in H3; [lia|].
  destruct c; [reflexivity|].
  cbn [row_rest].
  change (nth (S c) (best d l u m i w :: row_rest i u ups rc ms (best d l u m i w)) start_cell =
          best (nth c (u :: ups) start_cell)
               (nth c (best d l u m i w :: row_rest i u ups rc ms (best d l u m i w)) start_cell)
               (nth (S c) (u :: ups) start_cell) (nth c ms 0) i (nth c rc 0)).
  apply IH; lia.
Qed.

Lemma next_row_length : forall prev i rc ms,
  length prev = S (length rc) -> length ms = length rc -> length (next_row prev i rc ms) = S (length rc).
Proof.
  intros [|u0 ups] i rc ms H1 H2; simpl in H1; [lia|]. simpl. rewrite row_rest_length. lia.
Qed.

Lemma next_row_nth0 : forall prev i rc ms, prev <> [] ->
  nth 0 (next_row prev i rc ms) start_cell = step_cell (nth 0 prev start_cell) i DUp.
Proof. intros [|u0 ups] i rc ms H; [congruence|reflexivity]. Qed.

Lemma next_row_nthS : forall prev i rc ms c,
  length prev = S (length rc) -> length ms = length rc -> (c < length rc)%nat ->
  nth (S c) (next_row prev i rc ms) start_cell =
  best (nth c prev start_cell) (nth c (next_row prev i rc ms) start_cell) (nth (S c) prev start_cell)
       (nth c ms 0) i (nth c rc 0).
Proof.
  intros [|u0 ups] i rc ms c H1 H2 H3; simpl in H1; [lia|].
  unfold next_row. apply row_rest_nth; lia.
Qed.

Lemma rows_from_length : forall ic prev rc mcs,
  length (rows_from prev ic rc mcs) = Nat.min (length ic) (length mcs).
Proof.
  induction ic as [|i ic IH]; intros; [reflexivity|]. destruct mcs; [reflexivity|]. simpl. rewrite IH. reflexivity.
Qed.

Lemma rows_from_nth : forall ic prev rc mcs r, (r < length ic)%nat -> (r < length mcs)%nat ->
  nth (S r) (prev :: rows_from prev ic rc mcs) [] =
  next_row (nth r (prev :: rows_from prev ic rc mcs) []) (nth r ic 0) rc (nth r mcs []).
Proof.
  induction ic as [|i ic IH]; intros prev rc mcs r H1 H2; simpl in H1; [lia|].
  destruct mcs as [|m mcs]; simpl in H2; [lia|].
  destruct r; [reflexivity|].
  cbn [rows_from].
  change (nth (S r) (next_row prev i rc m :: rows_from (next_row prev i rc m) ic rc mcs) [] =
          next_row (nth r (next_row prev i rc m :: rows_from (next_row prev i rc m) ic rc mcs) [])
                   (nth r ic 0) rc (nth r mcs [])).
  apply IH; lia.
Qed.

Lemma dims_ok_row : forall rc ic mcs r, dims_ok rc ic mcs -> (r < length ic)%nat -> length (nth r mcs []) = length rc.
Proof.
  intros rc ic mcs r [H1 H2] H. rewrite Forall_forall in H2. apply H2. apply nth_In. lia.
Qed.

(* the decision of _best_match, as a case split *)
Lemma best_cases : forall d l u m i r,
  (cdir (best d l u m i r) = DDiag /\ ccost (best d l u m i r) = ccost d + m /\ m < i /\ m < r) \/
  (cdir (best d l u m i r) = DUp /\ ccost (best d l u m i r) = ccost u + i) \/
  (cdir (best d l u m i r) = DLeft /\ ccost (best d l u m i r) = ccost l + r).
Proof.
  intros. unfold best.
  destruct (zz_leb (ccost d, cpath d) (ccost l, cpath l) && zz_leb (ccost d, cpath d) (ccost u, cpath u)
            && (m <? i) && (m <? r)) eqn:E.
  - apply andb_true_iff in E. destruct E as [E E2]. apply andb_true_iff in E. destruct E as [_ E1].
    apply Z.ltb_lt in E1. apply Z.ltb_lt in E2. left. simpl. auto.
  - destruct (zz_leb (ccost u, cpath u) (ccost d, cpath d)); [right; left|right; right]; simpl; auto.
Qed.

(* ---------------------------------------------------------------- the matrix, cell by cell *)
Section Cells.
  Variables (rc ic : list Z) (mcs : list (list Z)).
  Hypothesis Hd : dims_ok rc ic mcs.

  Lemma matrix_row_length : forall r, (r <= length ic)%nat -> length (nth r (matrix rc ic mcs) []) = S (length rc).
  Proof.
    induction r; intros H.
    - simpl. rewrite row0_from_length. reflexivity.
    - unfold matrix. rewrite rows_from_nth by (destruct Hd; lia).
      apply next_row_length; [apply IHr; lia|]. apply dims_ok_row with (ic := ic); [exact Hd|lia].
  Qed.

  Lemma cell_00 : cell_at (matrix rc ic mcs) 0 0 = start_cell.
  Proof. reflexivity. Qed.

  Lemma cell_0S : forall c, (c < length rc)%nat ->
    cell_at (matrix rc ic mcs) 0 (S c) = step_cell (cell_at (matrix rc ic mcs) 0 c) (nth c rc 0) DLeft.
  Proof. intros c H. unfold cell_at, matrix. cbn [nth]. unfold row0. apply row0_from_nth. exact H. Qed.

  Lemma cell_S0 : forall r, (r < length ic)%nat ->
    cell_at (matrix rc ic mcs) (S r) 0 = step_cell (cell_at (matrix rc ic mcs) r 0) (nth r ic 0) DUp.
  Proof.
    intros r H. unfold cell_at at 1. unfold matrix at 1. rewrite rows_from_nth by (destruct Hd; lia).
    rewrite next_row_nth0; [reflexivity|].
    pose proof (matrix_row_length r ltac:(lia)) as L. unfold matrix in L. intros E. rewrite E in L. discriminate L.
  Qed.

  Lemma cell_SS : forall r c, (r < length ic)%nat -> (c < length rc)%nat ->
    cell_at (matrix rc ic mcs) (S r) (S c) =
    best (cell_at (matrix rc ic mcs) r c) (cell_at (matrix rc ic mcs) (S r) c) (cell_at (matrix rc ic mcs) r (S c))
         (nth c (nth r mcs []) 0) (nth r ic 0) (nth c rc 0).
  Proof.
    intros r c Hr Hc. unfold cell_at. unfold matrix. rewrite rows_from_nth by (destruct Hd; lia).
    apply next_row_nthS; [|apply dims_ok_row with (ic := ic); [exact Hd|lia]|exact Hc].
    apply (matrix_row_length r). lia.
  Qed.

  (* what a back-trace can be: a monotone path from (0,0); every step records the cost equation of its cell *)
  Inductive trace : nat -> nat -> list op -> Prop :=
  | tr_start : trace 0 0 []
  | tr_diag : forall r c l, (r < length ic)%nat -> (c < length rc)%nat -> trace r c l ->
      ccost (cell_at (matrix rc ic mcs) (S r) (S c)) = ccost (cell_at (matrix rc ic mcs) r c) + nth c (nth r mcs []) 0 ->
      nth c (nth r mcs []) 0 < nth r ic 0 -> nth c (nth r mcs []) 0 < nth c rc 0 ->
      trace (S r) (S c) (OMatch c r :: l)
  | tr_up : forall r c l, (r < length ic)%nat -> trace r c l ->
      ccost (cell_at (matrix rc ic mcs) (S r) c) = ccost (cell_at (matrix rc ic mcs) r c) + nth r ic 0 ->
      trace (S r) c (OIns r :: l)
  | tr_left : forall r c l, (c < length rc)%nat -> trace r c l ->
      ccost (cell_at (matrix rc ic mcs) r (S c)) = ccost (cell_at (matrix rc ic mcs) r c) + nth c rc 0 ->
      trace r (S c) (ORem c :: l).

  Lemma backtrace_trace : forall fuel r c, (r <= length ic)%nat -> (c <= length rc)%nat -> (r + c <= fuel)%nat ->
    trace r c (backtrace fuel (matrix rc ic mcs) r c).
  Proof.
    induction fuel as [|fuel IH]; intros r c Hr Hc Hf.
    - assert (r = 0%nat) by lia. assert (c = 0%nat) by lia. subst. constructor.
    - cbn [backtrace]. destruct r as [|r], c as [|c].
      + rewrite cell_00. simpl. constructor.
      + rewrite cell_0S by lia. cbn [cdir step_cell]. apply tr_left; [lia|apply IH; lia|].
        rewrite cell_0S by lia. reflexivity.
      + rewrite cell_S0 by lia. cbn [cdir step_cell]. apply tr_up; [lia|apply IH; lia|].
        rewrite cell_S0 by lia. reflexivity.
      + pose proof (cell_SS r c ltac:(lia) ltac:(lia)) as E.
        destruct (best_cases (cell_at (matrix rc ic mcs) r c) (cell_at (matrix rc ic mcs) (S r) c)
                             (cell_at (matrix rc ic mcs) r (S c)) (nth c (nth r mcs []) 0) (nth r ic 0) (nth c rc 0))
          as [(D & C & L1 & L2)|[(D & C)|(D & C)]]; rewrite <- E in D, C; rewrite D.
        * apply tr_diag; try lia; try assumption. apply IH; lia.
        * apply tr_up; [lia| |assumption]. apply IH; lia.
        * apply tr_left; [lia| |assumption]. apply IH; lia.
  Qed.

  Lemma trace_from : forall r c l, trace r c l -> flat_map op_from (rev l) = seq 0 c.
  Proof.
    induction 1; try rewrite flat_map_rev_cons; try rewrite IHtrace; simpl op_from;
      try rewrite app_nil_r; try reflexivity; rewrite seq_S; reflexivity.
  Qed.

  Lemma trace_to : forall r c l, trace r c l -> flat_map op_to (rev l) = seq 0 r.
  Proof.
    induction 1; try rewrite flat_map_rev_cons; try rewrite IHtrace; simpl op_to;
      try rewrite app_nil_r; try reflexivity; rewrite seq_S; reflexivity.
  Qed.

  Lemma trace_cost : forall r c l, trace r c l ->
    ccost (cell_at (matrix rc ic mcs) r c) = zsum (map (op_cost rc ic mcs) l).
  Proof.
    induction 1; [reflexivity| | |];
      match goal with H : ccost _ = _ |- _ => rewrite H end; rewrite IHtrace;
      cbn [map op_cost]; unfold zsum; simpl; lia.
  Qed.

  Lemma trace_range : forall r c l, trace r c l -> (r <= length ic)%nat /\ (c <= length rc)%nat /\ Forall (op_in_range rc ic) l.
  Proof.
    induction 1; [repeat split; try lia; constructor| | |];
      destruct IHtrace as (A & B & C); (split; [lia|split; [lia|]]); constructor; simpl; auto.
  Qed.

  Lemma trace_diag : forall r c l, trace r c l -> Forall (op_diag_strict rc ic mcs) l.
  Proof. induction 1; constructor; simpl; auto. Qed.

  (* ------------------------------------------------------------ A1 - A6 *)
  Lemma alignment_trace : trace (length ic) (length rc) (rev (alignment rc ic mcs)).
  Proof. unfold alignment. rewrite rev_involutive. apply backtrace_trace; lia. Qed.

  Lemma alignment_from : flat_map op_from (alignment rc ic mcs) = seq 0 (length rc).
  Proof. rewrite <- (rev_involutive (alignment rc ic mcs)). exact (trace_from _ _ _ alignment_trace). Qed.

  Lemma alignment_to : flat_map op_to (alignment rc ic mcs) = seq 0 (length ic).
  Proof. rewrite <- (rev_involutive (alignment rc ic mcs)). exact (trace_to _ _ _ alignment_trace). Qed.

  Lemma alignment_cost : final_cost rc ic mcs = zsum (map (op_cost rc ic mcs) (alignment rc ic mcs)).
  Proof.
    unfold final_cost. rewrite (trace_cost _ _ _ alignment_trace), map_rev, zsum_rev. reflexivity.
  Qed.

  Lemma alignment_in_range : Forall (op_in_range rc ic) (alignment rc ic mcs).
  Proof.
    pose proof (trace_range _ _ _ alignment_trace) as (_ & _ & H).
    apply Forall_rev in H. rewrite rev_involutive in H. exact H.
  Qed.

  Lemma diag_strict_all : Forall (op_diag_strict rc ic mcs) (alignment rc ic mcs).
  Proof.
    pose proof (trace_diag _ _ _ alignment_trace) as H.
    apply Forall_rev in H. rewrite rev_involutive in H. exact H.
  Qed.

  Lemma diag_strict : forall c r, In (OMatch c r) (alignment rc ic mcs) ->
    nth c (nth r mcs []) 0 < nth r ic 0 /\ nth c (nth r mcs []) 0 < nth c rc 0.
  Proof.
    intros c r H. pose proof diag_strict_all as F. rewrite Forall_forall in F. exact (F _ H).
  Qed.

  (* every cell of the matrix is the end of a path whose step costs sum to the cell's cost *)
  Lemma cell_cost_path : forall r c, (r <= length ic)%nat -> (c <= length rc)%nat ->
    exists l, trace r c l /\ ccost (cell_at (matrix rc ic mcs) r c) = zsum (map (op_cost rc ic mcs) l).
  Proof.
    intros r c Hr Hc. exists (backtrace (r + c) (matrix rc ic mcs) r c).
    pose proof (backtrace_trace (r + c) r c Hr Hc ltac:(lia)) as T. split; [exact T|]. exact (trace_cost _ _ _ T).
  Qed.

  Hypothesis Hrc : Forall (fun x => 0 <= x) rc.
  Hypothesis Hic : Forall (fun x => 0 <= x) ic.
  Hypothesis Hmc : Forall (Forall (fun x => 0 <= x)) mcs.

  Lemma nth_nonneg : forall l n, Forall (fun x => 0 <= x) l -> 0 <= nth n l 0.
  Proof.
    intros l n H. destruct (Nat.lt_ge_cases n (length l)) as [L|L].
    - rewrite Forall_forall in H. apply H. apply nth_In. exact L.
    - rewrite nth_overflow by exact L. lia.
  Qed.

  Lemma op_cost_nonneg : forall o, 0 <= op_cost rc ic mcs o.
  Proof.
    intros [c r|c|r]; simpl; try (apply nth_nonneg; assumption).
    apply nth_nonneg. destruct (Nat.lt_ge_cases r (length mcs)) as [L|L].
    - rewrite Forall_forall in Hmc. apply Hmc. apply nth_In. exact L.
    - rewrite nth_overflow by exact L. constructor.
  Qed.

  Lemma cell_cost_nonneg : forall r c, (r <= length ic)%nat -> (c <= length rc)%nat ->
    0 <= ccost (cell_at (matrix rc ic mcs) r c).
  Proof.
    intros r c Hr Hc. destruct (cell_cost_path r c Hr Hc) as (l & _ & E). rewrite E.
    apply zsum_nonneg. apply Forall_forall. intros x Hx. apply in_map_iff in Hx. destruct Hx as (o & <- & _).
    apply op_cost_nonneg.
  Qed.

  Lemma final_cost_nonneg : 0 <= final_cost rc ic mcs.
  Proof. unfold final_cost. apply cell_cost_nonneg; lia. Qed.
End Cells.

(* the hypotheses are satisfiable: a 3 x 2 table; two cheap matches, then the surplus target element is inserted *)
Example engine_example :
  let rc := [2; 3] in let ic := [1; 4; 1] in let mcs := [[0; 5]; [5; 0]; [1; 1]] in
  dims_ok rc ic mcs /\ Forall (fun x => 0 <= x) rc /\ Forall (fun x => 0 <= x) ic /\
  Forall (Forall (fun x => 0 <= x)) mcs /\
  alignment rc ic mcs = [OMatch 0 0; OMatch 1 1; OIns 2] /\ final_cost rc ic mcs = 1.
Proof.
  cbv zeta. split; [split; [reflexivity|repeat constructor]|].
  repeat split; try reflexivity; repeat constructor; lia.
Qed.

(* ---------------------------------------------------------------- trim / middle, for any eqb and any lists *)
Section Trim.
  Context {A B : Type} (eqb : A -> B -> bool).

  Lemma cpl_le_l : forall (a : list A) (b : list B), (common_prefix_len eqb a b <= length a)%nat.
  Proof. induction a; intros [|y b]; simpl; try lia. destruct (eqb a y); [specialize (IHa b)|]; lia. Qed.

  Lemma cpl_le_r : forall (a : list A) (b : list B), (common_prefix_len eqb a b <= length b)%nat.
  Proof. induction a; intros [|y b]; simpl; try lia. destruct (eqb a y); [specialize (IHa b)|]; lia. Qed.

  Lemma cpl_prefix : forall (a : list A) (b : list B),
    Forall2 (fun x y => eqb x y = true)
            (firstn (common_prefix_len eqb a b) a) (firstn (common_prefix_len eqb a b) b).
  Proof.
    induction a; intros [|y b]; simpl; try constructor.
    destruct (eqb a y) eqn:E; simpl; constructor; auto.
  Qed.

  (* the common prefix is maximal: the next pair of elements (if both exist) differs *)
  Lemma cpl_maximal : forall (a : list A) (b : list B) x y,
    nth_error a (common_prefix_len eqb a b) = Some x -> nth_error b (common_prefix_len eqb a b) = Some y ->
    eqb x y = false.
  Proof.
    induction a; intros [|y0 b] x y; simpl; try discriminate.
    destruct (eqb a y0) eqn:E; simpl; [apply IHa|]. intros H1 H2. congruence.
  Qed.

  Lemma trim_eq : forall (a : list A) (b : list B) p q, trim eqb a b = (p, q) ->
    p = common_prefix_len eqb a b /\ q = common_prefix_len eqb (rev (skipn p a)) (rev (skipn p b)).
  Proof. unfold trim. intros a b p q H. injection H as <- <-. auto. Qed.

  Lemma trim_bounds : forall (a : list A) (b : list B) p q, trim eqb a b = (p, q) ->
    (p <= length a /\ p <= length b /\ p + q <= length a /\ p + q <= length b)%nat.
  Proof.
    intros a b p q H. apply trim_eq in H. destruct H as [Hp Hq].
    pose proof (cpl_le_l a b). pose proof (cpl_le_r a b).
    pose proof (cpl_le_l (rev (skipn p a)) (rev (skipn p b))) as L1.
    pose proof (cpl_le_r (rev (skipn p a)) (rev (skipn p b))) as L2.
    rewrite rev_length, skipn_length in L1, L2. lia.
  Qed.

  Lemma trim_prefix : forall (a : list A) (b : list B) p q, trim eqb a b = (p, q) ->
    Forall2 (fun x y => eqb x y = true) (firstn p a) (firstn p b).
  Proof. intros a b p q H. apply trim_eq in H. destruct H as [-> _]. apply cpl_prefix. Qed.

  Lemma trim_suffix : forall (a : list A) (b : list B) p q, trim eqb a b = (p, q) ->
    Forall2 (fun x y => eqb x y = true) (skipn (length a - q) a) (skipn (length b - q) b).
  Proof.
    intros a b p q H. pose proof (trim_bounds a b p q H) as (B1 & B2 & B3 & B4).
    apply trim_eq in H. destruct H as [_ Hq].
    pose proof (cpl_prefix (rev (skipn p a)) (rev (skipn p b))) as F. rewrite <- Hq in F.
    rewrite !firstn_rev in F. apply Forall2_rev in F. rewrite !rev_involutive in F.
    rewrite !skipn_skipn, !skipn_length in F.
    replace (length a - p - q + p)%nat with (length a - q)%nat in F by lia.
    replace (length b - p - q + p)%nat with (length b - q)%nat in F by lia. exact F.
  Qed.

  Lemma trim_prefix_nth : forall (a : list A) (b : list B) p q i da db, trim eqb a b = (p, q) -> (i < p)%nat ->
    eqb (nth i a da) (nth i b db) = true.
  Proof.
    intros a b p q i da db H Hi. pose proof (trim_bounds a b p q H) as (B1 & B2 & _).
    pose proof (trim_prefix a b p q H) as F.
    rewrite <- (nth_firstn_lt a p i da Hi), <- (nth_firstn_lt b p i db Hi).
    assert (L : (i < length (firstn p a))%nat) by (rewrite firstn_length; lia).
    revert F L. generalize (firstn p a) (firstn p b). intros l1 l2 F. revert i Hi.
    induction F; intros i Hi L; simpl in L; [lia|]. destruct i; [assumption|]. simpl. apply IHF with (i := i); lia.
  Qed.

  Lemma trim_suffix_nth : forall (a : list A) (b : list B) p q k da db, trim eqb a b = (p, q) -> (k < q)%nat ->
    eqb (nth (length a - q + k) a da) (nth (length b - q + k) b db) = true.
  Proof.
    intros a b p q k da db H Hk. pose proof (trim_bounds a b p q H) as (B1 & B2 & B3 & B4).
    pose proof (trim_suffix a b p q H) as F.
    rewrite <- (nth_skipn_add (length a - q) a k da), <- (nth_skipn_add (length b - q) b k db).
    assert (L : (k < length (skipn (length a - q) a))%nat) by (rewrite skipn_length; lia).
    revert F L. generalize (skipn (length a - q) a) (skipn (length b - q) b). intros l1 l2 F. revert k Hk.
    induction F; intros k Hk L; simpl in L; [lia|]. destruct k; [assumption|]. simpl.
    destruct q; [lia|]. apply IHF with (k := k); lia.
  Qed.
End Trim.

Lemma middle_length : forall {A} p q (a : list A), (p + q <= length a)%nat ->
  length (middle p q a) = (length a - p - q)%nat.
Proof. intros A p q a H. unfold middle. rewrite firstn_length, skipn_length. lia. Qed.

Lemma middle_length_sum : forall {A} p q (a : list A), (p + q <= length a)%nat ->
  (p + length (middle p q a) + q = length a)%nat.
Proof. intros A p q a H. rewrite middle_length by exact H. lia. Qed.

Lemma middle_split : forall {A} p q (a : list A), (p + q <= length a)%nat ->
  a = firstn p a ++ middle p q a ++ skipn (length a - q) a.
Proof.
  intros A p q a H. unfold middle.
  replace (skipn (length a - q) a) with (skipn (length a - p - q) (skipn p a))
    by (rewrite skipn_skipn; f_equal; lia).
  rewrite firstn_skipn, firstn_skipn. reflexivity.
Qed.

Lemma middle_nth : forall {A} p q (a : list A) i d, (i < length (middle p q a))%nat ->
  nth i (middle p q a) d = nth (p + i) a d.
Proof.
  intros A p q a i d H. unfold middle in *. rewrite firstn_length in H.
  rewrite nth_firstn_lt by lia. apply nth_skipn_add.
Qed.

Lemma middle_nth_error : forall {A} p q (a : list A) i, (i < length (middle p q a))%nat ->
  nth_error (middle p q a) i = nth_error a (p + i).
Proof.
  intros A p q a i H. unfold middle in *. rewrite firstn_length in H.
  rewrite nth_error_firstn_lt by lia. apply nth_error_skipn_add.
Qed.

(* the alignment's positions shifted by the trimmed prefix: what the list edit's sub-edits name *)
Lemma map_add_seq : forall p n s, map (Nat.add p) (seq s n) = seq (p + s) n.
Proof. induction n; intros; simpl; [reflexivity|]. rewrite IHn. f_equal. f_equal. lia. Qed.

Lemma flat_map_map_out : forall {A B C} (f : A -> list B) (g : B -> C) l,
  flat_map (fun o => map g (f o)) l = map g (flat_map f l).
Proof. induction l; simpl; [reflexivity|]. rewrite map_app, IHl. reflexivity. Qed.

Lemma alignment_from_shift : forall rc ic mcs p, dims_ok rc ic mcs ->
  flat_map (fun o => map (Nat.add p) (op_from o)) (alignment rc ic mcs) = seq p (length rc).
Proof.
  intros rc ic mcs p H. rewrite flat_map_map_out, (alignment_from rc ic mcs H), map_add_seq. f_equal. lia.
Qed.

Lemma alignment_to_shift : forall rc ic mcs p, dims_ok rc ic mcs ->
  flat_map (fun o => map (Nat.add p) (op_to o)) (alignment rc ic mcs) = seq p (length ic).
Proof.
  intros rc ic mcs p H. rewrite flat_map_map_out, (alignment_to rc ic mcs H), map_add_seq. f_equal. lia.
Qed.

(* ---------------------------------------------------------------- strings: ScriptModel.str_script *)
Definition str_rc (s' : str) : list Z := map (fun _ : Z => 1) s'.
Definition str_mcs (s' t' : str) : list (list Z) := map (fun d => map (fun c => char_cost c d) s') t'.
Definition sop_of (s' t' : str) (o : op) : sop :=
  match o with
  | OMatch c r => let x := nth c s' 0 in let y := nth r t' 0 in if x =? y then SKeep x else SSub x y
  | ORem c => SDel (nth c s' 0)
  | OIns r => SAdd (nth r t' 0)
  end.

Lemma str_script_unfold : forall s t p q, trim Z.eqb s t = (p, q) ->
  str_script s t =
  (final_cost (str_rc (middle p q s)) (str_rc (middle p q t)) (str_mcs (middle p q s) (middle p q t)),
   map SKeep (firstn p s) ++
   map (sop_of (middle p q s) (middle p q t))
       (alignment (str_rc (middle p q s)) (str_rc (middle p q t)) (str_mcs (middle p q s) (middle p q t))) ++
   map SKeep (skipn (length s - q) s)).
Proof. intros s t p q H. unfold str_script. rewrite H. reflexivity. Qed.

Lemma str_dims_ok : forall s' t', dims_ok (str_rc s') (str_rc t') (str_mcs s' t').
Proof.
  intros s' t'. unfold dims_ok, str_rc, str_mcs. rewrite !map_length. split; [reflexivity|].
  apply Forall_forall. intros row H. apply in_map_iff in H. destruct H as (d & <- & _).
  rewrite !map_length. reflexivity.
Qed.

Lemma nth_map_lt : forall {A B} (f : A -> B) l n dA dB, (n < length l)%nat -> nth n (map f l) dB = f (nth n l dA).
Proof.
  induction l; intros n dA dB H; simpl in H; [lia|]. destruct n; [reflexivity|]. simpl. apply IHl. lia.
Qed.

Lemma str_rc_nth : forall s' c, (c < length s')%nat -> nth c (str_rc s') 0 = 1.
Proof. intros s' c H. unfold str_rc. rewrite (nth_map_lt _ s' c 0 0 H). reflexivity. Qed.

Lemma str_mcs_nth : forall s' t' c r, (c < length s')%nat -> (r < length t')%nat ->
  nth c (nth r (str_mcs s' t') []) 0 = char_cost (nth c s' 0) (nth r t' 0).
Proof.
  intros s' t' c r Hc Hr. unfold str_mcs.
  rewrite (nth_map_lt _ t' r 0 [] Hr). rewrite (nth_map_lt _ s' c 0 0 Hc). reflexivity.
Qed.

Lemma Forall2_zeqb : forall l1 l2 : list Z, Forall2 (fun x y => (x =? y) = true) l1 l2 -> l1 = l2.
Proof. induction 1; [reflexivity|]. apply Z.eqb_eq in H. congruence. Qed.

Lemma trim_Z_prefix : forall (s t : str) p q, trim Z.eqb s t = (p, q) -> firstn p s = firstn p t.
Proof. intros. apply Forall2_zeqb. eapply trim_prefix; eassumption. Qed.

Lemma trim_Z_suffix : forall (s t : str) p q, trim Z.eqb s t = (p, q) ->
  skipn (length s - q) s = skipn (length t - q) t.
Proof. intros. apply Forall2_zeqb. eapply trim_suffix; eassumption. Qed.

Lemma sop_of_from : forall s' t' ops,
  flat_map sop_from (map (sop_of s' t') ops) = map (fun c => nth c s' 0) (flat_map op_from ops).
Proof.
  induction ops as [|o ops IH]; [reflexivity|]. simpl. rewrite map_app, IH. f_equal.
  destruct o as [c r|c|r]; simpl; try reflexivity. destruct (nth c s' 0 =? nth r t' 0); reflexivity.
Qed.

Lemma sop_of_to : forall s' t' ops,
  flat_map sop_to (map (sop_of s' t') ops) = map (fun r => nth r t' 0) (flat_map op_to ops).
Proof.
  induction ops as [|o ops IH]; [reflexivity|]. simpl. rewrite map_app, IH. f_equal.
  destruct o as [c r|c|r]; simpl; try reflexivity.
  destruct (nth c s' 0 =? nth r t' 0) eqn:E; [apply Z.eqb_eq in E; rewrite E|]; reflexivity.
Qed.

Lemma flat_map_sop_keep_from : forall l, flat_map sop_from (map SKeep l) = l.
Proof. induction l; simpl; congruence. Qed.

Lemma flat_map_sop_keep_to : forall l, flat_map sop_to (map SKeep l) = l.
Proof. induction l; simpl; congruence. Qed.

Theorem str_script_from : forall s t, flat_map sop_from (snd (str_script s t)) = s.
Proof.
  intros s t. destruct (trim Z.eqb s t) as [p q] eqn:T. rewrite (str_script_unfold s t p q T). cbn [snd].
  pose proof (trim_bounds Z.eqb s t p q T) as (_ & _ & B & _).
  rewrite !flat_map_app, !flat_map_sop_keep_from, sop_of_from, alignment_from by apply str_dims_ok.
  unfold str_rc at 1. rewrite map_length, map_nth_seq. symmetry. apply middle_split. exact B.
Qed.

Theorem str_script_to : forall s t, flat_map sop_to (snd (str_script s t)) = t.
Proof.
  intros s t. destruct (trim Z.eqb s t) as [p q] eqn:T. rewrite (str_script_unfold s t p q T). cbn [snd].
  pose proof (trim_bounds Z.eqb s t p q T) as (_ & _ & _ & B).
  rewrite !flat_map_app, !flat_map_sop_keep_to, sop_of_to, alignment_to by apply str_dims_ok.
  unfold str_rc at 1. rewrite map_length, map_nth_seq.
  rewrite (trim_Z_prefix s t p q T), (trim_Z_suffix s t p q T). symmetry. apply middle_split. exact B.
Qed.

Lemma sop_of_cost : forall s' t' o, op_in_range (str_rc s') (str_rc t') o ->
  sop_cost (sop_of s' t' o) = op_cost (str_rc s') (str_rc t') (str_mcs s' t') o.
Proof.
  intros s' t' [c r|c|r]; unfold op_in_range, str_rc; rewrite ?map_length; intros H; simpl.
  - destruct H as [Hc Hr]. rewrite str_mcs_nth by assumption. unfold char_cost.
    destruct (nth c s' 0 =? nth r t' 0); reflexivity.
  - fold (str_rc s'). rewrite str_rc_nth by exact H. reflexivity.
  - fold (str_rc t'). rewrite str_rc_nth by exact H. reflexivity.
Qed.

Theorem str_script_cost : forall s t, fst (str_script s t) = zsum (map sop_cost (snd (str_script s t))).
Proof.
  intros s t. destruct (trim Z.eqb s t) as [p q] eqn:T. rewrite (str_script_unfold s t p q T). cbn [fst snd].
  rewrite !map_app, !zsum_app, !map_map.
  rewrite (zsum_map_const0 (fun x => sop_cost (SKeep x))) by reflexivity.
  rewrite (zsum_map_const0 (fun x => sop_cost (SKeep x)) (skipn _ _)) by reflexivity.
  rewrite alignment_cost by apply str_dims_ok.
  pose proof (alignment_in_range _ _ _ (str_dims_ok (middle p q s) (middle p q t))) as R.
  rewrite Forall_forall in R.
  rewrite (map_ext_in (fun x => sop_cost (sop_of (middle p q s) (middle p q t) x))
                      (op_cost (str_rc (middle p q s)) (str_rc (middle p q t)) (str_mcs (middle p q s) (middle p q t)))).
  - lia.
  - intros o Ho. apply sop_of_cost. exact (R o Ho).
Qed.

Example str_script_example :
  str_script [97; 98; 99; 100] [97; 120; 99; 99; 100] = (3, [SKeep 97; SAdd 120; SAdd 99; SDel 98; SKeep 99; SKeep 100]).
Proof. vm_compute. reflexivity. Qed.
