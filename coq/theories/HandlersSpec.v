(* C20 - malformed input is reported, not crashed on.
   Hand-written and independent of the translated code: the vocabulary the translator emits
   (clauses, f-string pieces, main()'s error block), the data of a case of the fault enumeration
   (file type, position, path, the exception observed inside the loader, what main() did), the
   executable statement of the property on an observed outcome (holds_C20), the table of exception
   classes the loaders raise on malformed bytes (raises_table, established by the fault
   enumeration; the general theorems take it as an explicit parameter, C20_full instantiates it).
   No finding is open for C20: there is no carve-out. *)
From Coq Require Import String Ascii List Bool ZArith.
Require Import GT.PyBase.
Import ListNotations.
Open Scope string_scope.

(* ---- shape of a translated build_tree_handling_errors ---- *)
Inductive vexpr := EBasename            (* os.path.basename(path) *)
                 | EPath                (* path *)
                 | EExn                 (* the bound exception object *)
                 | EExnAttr (a : string).   (* an attribute of it *)
Inductive conv := CNone | CStr | CRepr.   (* {x}  {x!s}  {x!r} *)
Inductive piece := PLit (s : string) | PVal (e : vexpr) (c : conv) (spec : string).
Record clause := { cl_classes : list string; cl_pieces : list piece }.

(* ---- shape of main()'s  `if isinstance(X_tree, str): sys.stderr.write(..) .. return N`:
        what is written to standard error, what to standard output, the status ---- *)
Inductive write := WTree | WLit (s : string).
Record main_err := { me_writes : list write; me_stdout : list write; me_status : Z; me_skips_diff : bool }.

(* ---- strings ---- *)
Fixpoint starts_with (p s : string) : bool :=
  match p, s with
  | EmptyString, _ => true
  | String a p', String b s' => Ascii.eqb a b && starts_with p' s'
  | String _ _, EmptyString => false
  end.
Fixpoint contains (sub s : string) : bool :=
  starts_with sub s || match s with EmptyString => false | String _ s' => contains sub s' end.

Definition is_slash (c : ascii) : bool := Ascii.eqb c "/"%char.
Fixpoint has_slash (s : string) : bool :=
  match s with EmptyString => false | String c r => is_slash c || has_slash r end.
(* posixpath.basename: everything after the last '/' *)
Fixpoint basename (p : string) : string :=
  match p with
  | EmptyString => EmptyString
  | String c r => if has_slash r then basename r else if is_slash c then r else p
  end.

(* ---- a case of the fault enumeration ---- *)
Inductive position := First | Second.
(* the exception raised inside the loader, with the texts Python computes from it (oracle values):
   str(e), repr(e), and for each attribute it has: (str(value), repr(value)) *)
Record exn := { e_class : string; e_str : string; e_repr : string;
                e_attrs : list (string * (string * string)) }.
(* what main() did: returned a status having written stdout / stderr, or let an exception escape *)
Inductive cli_result := Exit (status : Z) (stdout stderr : string) | Crash (cls : string).
Record c20_case := { c_ft : string; c_pos : position; c_path : string;
                     c_exn : option exn;        (* None: the loader accepted the file *)
                     c_out : cli_result }.

(* the text formats that have a notion of syntax error (CSV accepts everything, pickle is not text) *)
Definition text_types : list string := ["json"; "json5"; "yaml"; "xml"; "html"; "plist"].

(* ---- the property, on an observed outcome: an error message naming the file on standard error,
        no diff on standard output, non-zero status, no uncaught exception ---- *)
Definition reported (path : string) (r : cli_result) : bool :=
  match r with
  | Exit st out err => contains (basename path) err && String.eqb out "" && negb (Z.eqb st 0)
  | Crash _ => false
  end.
Definition holds_C20 (c : c20_case) : bool := reported (c_path c) (c_out c).

(* ---- exception classes raised by the loaders on malformed bytes (fully qualified).  Established by
        the fault enumeration (harness/pC20.py); an exception class observed inside a loader that
        is not listed here breaks the tie. ---- *)
Definition raises_table (ft : string) : list string :=
  if String.eqb ft "json" then ["json.decoder.JSONDecodeError"; "builtins.UnicodeDecodeError"]
  else if String.eqb ft "json5" then ["builtins.ValueError"; "builtins.UnicodeDecodeError"]
  else if String.eqb ft "yaml" then
    ["yaml.scanner.ScannerError"; "yaml.parser.ParserError"; "yaml.composer.ComposerError";
     "yaml.constructor.ConstructorError"; "yaml.reader.ReaderError"]
  else if String.eqb ft "xml" then ["xml.etree.ElementTree.ParseError"; "builtins.LookupError"]
  else if String.eqb ft "html" then ["xml.etree.ElementTree.ParseError"; "builtins.LookupError"]
  else if String.eqb ft "plist" then
    ["xml.parsers.expat.ExpatError"; "plistlib.InvalidFileException"; "builtins.ValueError";
     "binascii.Error"; "builtins.IndexError"; "builtins.LookupError";
     "builtins.AttributeError"]   (* plistlib._date_from_string on a <date> that is no ISO 8601 date *)
  else [].

Definition in_raises (c : c20_case) : bool :=
  match c_exn c with
  | Some e => existsb (String.eqb (e_class e)) (raises_table (c_ft c))
  | None => false
  end.
