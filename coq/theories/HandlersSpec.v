(* C20 - malformed input is reported, not crashed on.
   Hand-written and independent of the translated code: the vocabulary the translator emits
   (clauses, f-string pieces, main()'s error block), the data of a case of the fault enumeration
   (file type, position, path, the exception observed inside the loader, what main() did), the
   executable statement of the property on an observed outcome (holds_C20), the table of exception
   classes the loaders raise on malformed bytes (raises_table, established by the fault
   enumeration; every theorem takes it as an explicit parameter), and the classes of the open findings. *)
From Coq Require Import String Ascii List Bool ZArith.
Require Import GT.PyBase.
Import ListNotations.
Open Scope string_scope.

(* ---- shape of a translated build_tree_handling_errors ---- *)
Inductive vexpr := EBasename            (* os.path.basename(path) *)
                 | EPath                (* path *)
                 | EExn                 (* the bound exception object *)
                 | EExnAttr (a : string).   (* an attribute of it *)
Inductive conv := CNone | CStr | CRepr.   (* {x}  {x!s}  {x!r} *)
Inductive piece := PLit (s : string) | PVal (e : vexpr) (c : conv) (spec : string).
Record clause := { cl_classes : list string; cl_pieces : list piece }.

(* ---- shape of main()'s  `if isinstance(X_tree, str): sys.stderr.write(..) .. return N` ---- *)
Inductive write := WTree | WLit (s : string).
Record main_err := { me_writes : list write; me_status : Z; me_skips_diff : bool }.

(* ---- strings ---- *)
Fixpoint starts_with (p s : string) : bool :=
  match p, s with
  | EmptyString, _ => true
  | String a p', String b s' => Ascii.eqb a b && starts_with p' s'
  | String _ _, EmptyString => false
  end.
Fixpoint contains (sub s : string) : bool :=
  starts_with sub s || match s with EmptyString => false | String _ s' => contains sub s' end.

Definition is_slash (c : ascii) : bool := Ascii.eqb c "/"%char.
Fixpoint has_slash (s : string) : bool :=
  match s with EmptyString => false | String c r => is_slash c || has_slash r end.
(* posixpath.basename: everything after the last '/' *)
Fixpoint basename (p : string) : string :=
  match p with
  | EmptyString => EmptyString
  | String c r => if has_slash r then basename r else if is_slash c then r else p
  end.

(* ---- a case of the fault enumeration ---- *)
Inductive position := First | Second.
(* the exception raised inside the loader, with the texts Python computes from it (oracle values):
   str(e), repr(e), and for each attribute it has: (str(value), repr(value)) *)
Record exn := { e_class : string; e_str : string; e_repr : string;
                e_attrs : list (string * (string * string)) }.
(* what main() did: returned a status having written stdout / stderr, or let an exception escape *)
Inductive cli_result := Exit (status : Z) (stdout stderr : string) | Crash (cls : string).
Record c20_case := { c_ft : string; c_pos : position; c_path : string;
                     c_exn : option exn;        (* None: the loader accepted the file *)
                     c_out : cli_result }.

(* the text formats that have a notion of syntax error (CSV accepts everything, pickle is not text) *)
Definition text_types : list string := ["json"; "json5"; "yaml"; "xml"; "html"; "plist"].

(* ---- the property, on an observed outcome: an error message naming the file on standard error,
        no diff on standard output, non-zero status, no uncaught exception ---- *)
Definition reported (path : string) (r : cli_result) : bool :=
  match r with
  | Exit st out err => contains (basename path) err && String.eqb out "" && negb (Z.eqb st 0)
  | Crash _ => false
  end.
Definition holds_C20 (c : c20_case) : bool := reported (c_path c) (c_out c).

(* ---- exception classes raised by the loaders on malformed bytes (fully qualified).  Established by
        the fault enumeration (harness/pC20.py); an exception class observed inside a loader that
        is not listed here breaks the tie. ---- *)
Definition raises_table (ft : string) : list string :=
  if String.eqb ft "json" then ["json.decoder.JSONDecodeError"; "builtins.UnicodeDecodeError"]
  else if String.eqb ft "json5" then ["builtins.ValueError"; "builtins.UnicodeDecodeError"]
  else if String.eqb ft "yaml" then
    ["yaml.scanner.ScannerError"; "yaml.parser.ParserError"; "yaml.composer.ComposerError";
     "yaml.constructor.ConstructorError"; "yaml.reader.ReaderError"]
  else if String.eqb ft "xml" then ["xml.etree.ElementTree.ParseError"; "builtins.LookupError"]
  else if String.eqb ft "html" then ["xml.etree.ElementTree.ParseError"; "builtins.LookupError"]
  else if String.eqb ft "plist" then
    ["xml.parsers.expat.ExpatError"; "plistlib.InvalidFileException"; "builtins.ValueError";
     "builtins.IndexError"; "builtins.LookupError"]
  else [].

Definition in_raises (c : c20_case) : bool :=
  match c_exn c with
  | Some e => existsb (String.eqb (e_class e)) (raises_table (c_ft c))
  | None => false
  end.

(* ---- classes of the open findings (D13): which (file type, loader exception class) pairs the pinned
        handlers are known not to cover; the carve-out of C20_partial ---- *)
(* D13(a): the JSON5 handler formats the caught exception with the format spec "!s": TypeError escapes *)
Definition gap_json5 (ft cls : string) : bool := String.eqb ft "json5".
(* D13(b): the plist handler catches only ExpatError *)
Definition gap_plist (ft cls : string) : bool :=
  String.eqb ft "plist" && negb (String.eqb cls "xml.parsers.expat.ExpatError").
(* D13(c): the JSON handler catches only JSONDecodeError: a file that is not valid UTF-8 escapes *)
Definition gap_json (ft cls : string) : bool :=
  String.eqb ft "json" && String.eqb cls "builtins.UnicodeDecodeError".
(* D13(d): the XML/HTML handler catches only ParseError: an unknown declared encoding escapes as LookupError *)
Definition gap_xml (ft cls : string) : bool :=
  (String.eqb ft "xml" || String.eqb ft "html") && String.eqb cls "builtins.LookupError".
Definition known_gap (ft cls : string) : bool :=
  gap_json5 ft cls || gap_plist ft cls || gap_json ft cls || gap_xml ft cls.

(* the same classes as predicates on an observed case (what escaped is part of the class) *)
Definition crashed_with (c : c20_case) (k : string) : bool :=
  match c_out c with Crash x => String.eqb x k | Exit _ _ _ => false end.
Definition kf_case (gap : string -> string -> bool) (escaped : string -> string) (c : c20_case) : bool :=
  match c_exn c with
  | Some e => in_raises c && gap (c_ft c) (e_class e) && crashed_with c (escaped (e_class e))
  | None => false
  end.
Definition kf_json5_format_spec : c20_case -> bool := kf_case gap_json5 (fun _ => "builtins.TypeError").
Definition kf_plist_uncaught : c20_case -> bool := kf_case gap_plist (fun k => k).
Definition kf_json_unicode : c20_case -> bool := kf_case gap_json (fun k => k).
Definition kf_xml_encoding : c20_case -> bool := kf_case gap_xml (fun k => k).
