(* Ties between the hand-written engine (EdEngine.best, which the engine proofs are about) and the code
   translated from EditDistance._best_match on every run. *)
From Coq Require Import ZArith List Bool Lia.
Require Import GT.PyBase GT.EdTypes GT.EdEngine GTgen.EdGen.
Open Scope Z_scope.

Definition dir_of (row col : Z) (x : Z * Z * eref) : option dir :=
  match x with
  | (br, bc, ECell) => if (br =? row - 1) && (bc =? col - 1) then Some DDiag else None
  | (br, bc, EIns) => if (br =? row - 1) && (bc =? col) then Some DUp else None
  | (br, bc, ERem) => if (br =? row) && (bc =? col - 1) then Some DLeft else None
  end.

Lemma range_ltb_point : forall a b, range_ltb (a, a) (b, b) = (a <? b).
Proof.
  intros a b. unfold range_ltb. cbn [fst snd].
  destruct (Z.ltb_spec a b); [reflexivity|]. destruct (Z.eqb_spec a b); reflexivity.
Qed.

(* inner cells: the translated decision picks the predecessor and edit that `best` records *)
Lemma best_match_gen_inner : forall row col d l u m i r, 0 < row -> 0 < col ->
  dir_of row col (best_match_gen row col (ccost d) (cpath d) (ccost l) (cpath l) (ccost u) (cpath u) m i r)
  = Some (cdir (best d l u m i r)).
Proof.
  intros row col d l u m i r Hr Hc. unfold best_match_gen, best.
  rewrite !range_ltb_point.
  destruct (Z.eqb_spec row 0) as [E|_]; [lia|]. destruct (Z.eqb_spec col 0) as [E|_]; [lia|].
  assert (Hne : (row - 1 =? row) = false) by (apply Z.eqb_neq; lia).
  assert (Hne2 : (col - 1 =? col) = false) by (apply Z.eqb_neq; lia).
  destruct (zz_leb (ccost d, cpath d) (ccost l, cpath l)); destruct (zz_leb (ccost d, cpath d) (ccost u, cpath u));
    destruct (m <? i); destruct (m <? r); cbn [andb];
    try destruct (zz_leb (ccost u, cpath u) (ccost d, cpath d)); cbn [dir_of cdir];
    rewrite ?Z.eqb_refl; cbn [andb]; reflexivity.
Qed.

(* first row / first column: Remove from the left, Insert from above (row0_from / next_row) *)
Lemma best_match_gen_row0 : forall col dC dP lC lP uC uP m i r, 0 < col ->
  dir_of 0 col (best_match_gen 0 col dC dP lC lP uC uP m i r) = Some DLeft.
Proof. intros. unfold best_match_gen. cbn. rewrite !Z.eqb_refl. reflexivity. Qed.

Lemma best_match_gen_col0 : forall row dC dP lC lP uC uP m i r, 0 < row ->
  dir_of row 0 (best_match_gen row 0 dC dP lC lP uC uP m i r) = Some DUp.
Proof.
  intros. unfold best_match_gen. destruct (Z.eqb_spec row 0); [lia|]. cbn. rewrite !Z.eqb_refl. reflexivity.
Qed.
