(* Bounds — mirror of graphtage/bounds.py:38-221 (Infinity, Range), hand-written.

   rv        = RangeValue = Union[int, Infinity]
   rv_ltb    = `a < b` for every int/Infinity combination.  Python resolves `int < Infinity` through the
               reflected Infinity.__gt__, `Infinity < int` through Infinity.__lt__ and `Infinity < Infinity`
               through `not self._positive and other.positive`; all of them agree with the usual order
               NegInf < Fin z < PosInf (checked against the implementation by the C17 harness: every range the
               implementation returns is computed with these operators).
   rv_leb    = `a <= b` (`self < other or self == other`), rv_min a b = Python `min(a, b)` (returns a unless b < a).
   contains outer sub = `sub in outer`  (Range.__contains__)
   range_ltb = Range.__lt__ (upper bound first, then lower bound), range_eqb = Range.__eq__
   dominates a b = a.upper_bound <= b.lower_bound
   definitive = lower == upper and not Infinity;  finite = neither bound is an Infinity. *)
From Coq Require Import List Bool ZArith Lia.
Import ListNotations.
Open Scope Z_scope.

Inductive rv := NegInf | Fin (z : Z) | PosInf.

Definition rv_eqb (a b : rv) : bool :=
  match a, b with
  | NegInf, NegInf => true | PosInf, PosInf => true | Fin x, Fin y => Z.eqb x y | _, _ => false
  end.

Definition rv_ltb (a b : rv) : bool :=
  match a, b with
  | NegInf, NegInf => false | NegInf, _ => true
  | Fin x, Fin y => Z.ltb x y | Fin _, PosInf => true | Fin _, NegInf => false
  | PosInf, _ => false
  end.

Definition rv_leb (a b : rv) : bool := rv_ltb a b || rv_eqb a b.
Definition rv_min (a b : rv) : rv := if rv_ltb b a then b else a.
Definition rv_is_fin (a : rv) : bool := match a with Fin _ => true | _ => false end.
Definition rv_succ (a : rv) : rv := match a with Fin z => Fin (z + 1) | x => x end.   (* Infinity + 1 = Infinity *)
Definition rv_z (a : rv) : Z := match a with Fin z => z | _ => 0 end.

Record range := mkR { lo : rv; hi : rv }.

Definition range_ok (r : range) : bool := negb (rv_ltb (hi r) (lo r)).        (* Range.__init__ guard *)
Definition contains (outer sub : range) : bool := rv_leb (lo outer) (lo sub) && rv_leb (hi sub) (hi outer).
Definition range_eqb (a b : range) : bool := rv_eqb (lo a) (lo b) && rv_eqb (hi a) (hi b).
Definition range_ltb (a b : range) : bool :=
  rv_ltb (hi a) (hi b) || (rv_eqb (hi a) (hi b) && rv_ltb (lo a) (lo b)).
Definition range_leb (a b : range) : bool := range_ltb a b || range_eqb a b.
Definition dominates (a b : range) : bool := rv_leb (hi a) (lo b).
Definition finite (r : range) : bool := rv_is_fin (lo r) && rv_is_fin (hi r).
Definition definitive (r : range) : bool := rv_eqb (lo r) (hi r) && rv_is_fin (lo r).
Definition full_range : range := mkR NegInf PosInf.                              (* Range() *)
Definition point (z : Z) : range := mkR (Fin z) (Fin z).
