(* C11 - string changes are minimal.  Case type (a pair of strings and the character-level script the
   implementation produced for it), the executable statement holds_C11 evaluated on the IMPLEMENTATION's
   script, and the correspondence check corr_with (implementation's cost and script = a model's, exactly;
   the harness instantiates it with ScriptModel.str_script).  Independent of the model: this file still
   compiles, and holds_C11 still evaluates, when the model or the proofs no longer build.
   lcs is the textbook recursion (specification); lcs_fast is the row-by-row table used for evaluation,
   proved equal to lcs in GT.LcsProofs, where lcs is also proved to be the maximal length of a common
   subsequence (subseq below). *)
From Coq Require Import ZArith List Bool Lia.
Require Import GT.PyBase GT.Data GT.ScriptSpec.
Import ListNotations.
Open Scope Z_scope.

Inductive subseq {A : Type} : list A -> list A -> Prop :=
  | sub_nil : forall l, subseq [] l
  | sub_take : forall x w l, subseq w l -> subseq (x :: w) (x :: l)
  | sub_skip : forall x w l, subseq w l -> subseq w (x :: l).

(* length of a longest common subsequence: textbook recursion on the heads *)
Fixpoint lcs (l : str) : str -> nat :=
  match l with
  | [] => fun _ => O
  | x :: l' =>
      fix inner (m : str) : nat :=
        match m with
        | [] => O
        | y :: m' => if x =? y then S (lcs l' m') else Nat.max (lcs l' m) (inner m')
        end
  end.

(* the same number, computed in |l| * |m| steps: one table row per character of l; a row lists, for every
   suffix of m (longest first), the lcs of the current suffix of l with it *)
Fixpoint lcs_step (x : Z) (m : str) (prev : list nat) : list nat :=
  match m, prev with
  | y :: m', pj :: prev' =>
      let rest := lcs_step x m' prev' in
      (if x =? y then S (hd O prev') else Nat.max pj (hd O rest)) :: rest
  | _, _ => [O]
  end.

Definition lcs_fast (l m : str) : nat :=
  hd O (fold_right (fun x prev => lcs_step x m prev) (repeat O (S (length m))) l).

(* the characters shown as unchanged, in order *)
Definition kept (ops : list sop) : str :=
  flat_map (fun o => match o with SKeep c => [c] | _ => [] end) ops.

Definition is_sub (o : sop) : bool := match o with SSub _ _ => true | _ => false end.
Definition is_del (o : sop) : bool := match o with SDel _ => true | _ => false end.
Definition is_add (o : sop) : bool := match o with SAdd _ => true | _ => false end.
Definition n_sub (ops : list sop) : nat := length (filter is_sub ops).
Definition n_del (ops : list sop) : nat := length (filter is_del ops).     (* characters marked removed *)
Definition n_add (ops : list sop) : nat := length (filter is_add ops).     (* characters marked inserted *)
Definition no_sub (ops : list sop) : bool := forallb (fun o => negb (is_sub o)) ops.

(* one case: string_edit_distance(s, t) driven with the library's idiom until its bounds are definitive or
   tighten_bounds() gives up; the final bounds() (lower, upper) and its edits() *)
Record str_case := { st_s : str; st_t : str; st_lo : Z; st_hi : Z; st_ops : list sop }.

(* the script spells both strings, its kept characters are as many as a longest common subsequence has,
   and no pair of unequal characters is "matched" ... *)
Definition holds_ops (c : str_case) : bool :=
  str_eqb (flat_map sop_from (st_ops c)) (st_s c) &&
  str_eqb (flat_map sop_to (st_ops c)) (st_t c) &&
  Nat.eqb (length (kept (st_ops c))) (lcs_fast (st_s c) (st_t c)) &&
  no_sub (st_ops c).

(* ... and the reported cost is definitive and is the number of removed plus inserted characters *)
Definition holds_C11 (c : str_case) : bool :=
  holds_ops c && (st_lo c =? st_hi c) && (st_hi c =? Z.of_nat (n_del (st_ops c) + n_add (st_ops c))).

(* class of a finding on the real code: for equal non-empty strings the whole input is trimmed as a shared
   prefix, tighten_bounds() gives up at once and bounds() stays [0, 2 * len] for ever (never definitive);
   the script itself is right.  Only reachable through the public string_edit_distance / StringEdit
   constructors (StringNode.edits answers equal strings with a Match before building one). *)
Definition kf_C11_equal (c : str_case) : bool :=
  str_eqb (st_s c) (st_t c) && negb (Nat.eqb (length (st_s c)) 0) && holds_ops c.

Definition sop_same (a b : sop) : bool :=
  match a, b with
  | SKeep c, SKeep d | SDel c, SDel d | SAdd c, SAdd d => c =? d
  | SSub c c', SSub d d' => (c =? d) && (c' =? d')
  | _, _ => false
  end.

Fixpoint sops_same (a b : list sop) : bool :=
  match a, b with
  | [], [] => true
  | p :: a', q :: b' => sop_same p q && sops_same a' b'
  | _, _ => false
  end.

(* does the observed (cost, script) equal what `model` computes for the same pair? *)
Definition corr_with (model : str -> str -> Z * list sop) (c : str_case) : bool :=
  let '(k, ops) := model (st_s c) (st_t c) in
  (k =? st_lo c) && (k =? st_hi c) && sops_same ops (st_ops c).

(* a model's own output as a case *)
Definition mk_case (s t : str) (r : Z * list sop) : str_case :=
  {| st_s := s; st_t := t; st_lo := fst r; st_hi := fst r; st_ops := snd r |}.
