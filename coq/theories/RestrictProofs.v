(* C10 for the big-step script model: the matching options restrict the script as documented. *)
From Coq Require Import ZArith List Bool Lia Permutation.
Require Import GT.PyBase GT.Data GT.ScriptSpec GT.EdEngine GT.LevModel GT.EdTypes GTgen.EdGen GT.EdParams
               GT.ScriptModel GT.ListAux GT.KeyEq GT.EdFacts GT.EdEngineProofs GT.ScriptProofs GT.MSetProofs.
Import ListNotations.
Open Scope Z_scope.

Lemma restricted_all_spec : forall a b subs,
  Forall (sub_ok (fun x y e => restricted x y e = true) a b) subs ->
  (fix all (ss : list sub) : bool :=
     match ss with
     | [] => true
     | SPair i j e' :: ss' =>
         match nth_error (children a) i, nth_error (children b) j with
         | Some x, Some y => restricted x y e' && all ss'
         | _, _ => false
         end
     | _ :: ss' => all ss'
     end) subs = true.
Proof.
  intros a b subs H. induction H as [|s ss Hs _ IH]; [reflexivity|].
  destruct s as [i j e|i c|j c]; try exact IH.
  destruct Hs as [x [y [Hx [Hy Hv]]]]. rewrite Hx, Hy, Hv. exact IH.
Qed.

Definition Prestr (a : tree) : Prop :=
  forall O pa pb b e, wf a = true -> wf b = true -> script O pa pb a b = OK e -> restricted a b e = true.

(* ---------------------------------------------------------------- lists *)
Definition shape_of (s : sub) : nat * nat * nat :=
  match s with SPair i j _ => (0%nat, i, j) | SRem i _ => (1%nat, i, 0%nat) | SIns j _ => (2%nat, 0%nat, j) end.

Lemma triple_eqs_refl : forall x : list (nat * nat * nat),
  (fix eqs (x y : list (nat * nat * nat)) : bool :=
     match x, y with
     | [], [] => true
     | (p, q, r) :: x', (p', q', r') :: y' => Nat.eqb p p' && Nat.eqb q q' && Nat.eqb r r' && eqs x' y'
     | _, _ => false
     end) x x = true.
Proof. induction x as [|[[p q] r] x IH]; [reflexivity|]. rewrite !Nat.eqb_refl. exact IH. Qed.

Lemma positional_spec : forall a b subs,
  map shape_of subs =
    (let n := length (children a) in let m := length (children b) in let k := Nat.min n m in
     map (fun i => (0%nat, i, i)) (seq 0 k) ++ map (fun i => (1%nat, i, 0%nat)) (seq k (n - k))
       ++ map (fun j => (2%nat, 0%nat, j)) (seq k (m - k))) ->
  positional a b subs = true.
Proof.
  intros a b subs H. unfold positional. cbv zeta in *. fold shape_of.
  change (map (fun s => match s with SPair i j _ => (0%nat, i, j) | SRem i _ => (1%nat, i, 0%nat) | SIns j _ => (2%nat, 0%nat, j) end) subs)
    with (map shape_of subs). rewrite H. apply triple_eqs_refl.
Qed.

Lemma fixed_len_shape : forall cs ds M subs, fixed_len_subs cs ds M = Some subs ->
  map shape_of subs =
    (let n := length cs in let m := length ds in let k := Nat.min n m in
     map (fun i => (0%nat, i, i)) (seq 0 k) ++ map (fun i => (1%nat, i, 0%nat)) (seq k (n - k))
       ++ map (fun j => (2%nat, 0%nat, j)) (seq k (m - k))).
Proof.
  intros cs ds M subs H. unfold fixed_len_subs in H. set (n := length cs) in *. set (m := length ds) in *.
  destruct (all_some _) as [ps|] eqn:Eps; [|discriminate]. inversion H; subst subs; clear H.
  apply all_some_map in Eps. cbv zeta. rewrite !map_app. f_equal; [|f_equal].
  - induction Eps as [|i y l r Hy _ IH]; [reflexivity|]. cbn. rewrite IH. f_equal.
    destruct (mget M i i) as [[e|]|]; inversion Hy. reflexivity.
  - destruct (Nat.ltb_spec m n) as [Hlt|Hge].
    + rewrite remove_from_pos_spec by exact Hlt. rewrite map_map. cbn [shape_of].
      replace (Nat.min n m) with m by lia. reflexivity.
    + replace (n - Nat.min n m)%nat with 0%nat by lia. reflexivity.
  - destruct (Nat.ltb_spec n m) as [Hlt|Hge].
    + rewrite insert_from_pos_spec by exact Hlt. rewrite map_map. cbn [shape_of].
      replace (Nat.min n m) with n by lia. reflexivity.
    + replace (m - Nat.min n m)%nat with 0%nat by lia. reflexivity.
Qed.

Lemma fixed_len_no_rem_ins : forall cs ds M subs, fixed_len_subs cs ds M = Some subs -> length cs = length ds ->
  no_rem_ins subs = true.
Proof.
  intros cs ds M subs H Hlen. unfold fixed_len_subs in H.
  destruct (all_some _) as [ps|] eqn:Eps; [|discriminate]. inversion H; subst subs; clear H.
  rewrite Hlen, Nat.ltb_irrefl, !app_nil_r. apply all_some_map in Eps. unfold no_rem_ins.
  induction Eps as [|i y l r Hy _ IH]; [reflexivity|]. cbn.
  destruct (mget M i i) as [[e|]|]; inversion Hy. exact IH.
Qed.

(* what the (translated) dispatch of ListNode.edits implies when it chooses the edit distance *)
Lemma dispatch_edit_dist : forall ce ale alsl lf lt la lb p,
  list_dispatch_gen true ce ale alsl lf lt la lb = LEditDist p ->
  ale = true /\ (lf = lt -> alsl = true).
Proof.
  intros ce ale alsl lf lt la lb p H. unfold list_dispatch_gen in H.
  destruct ce; [discriminate|]. destruct ale; cbn in H; [|discriminate].
  split; [reflexivity|]. intro Heq. subst lt. rewrite Z.eqb_refl in H. destruct alsl; [reflexivity|discriminate].
Qed.

(* ---------------------------------------------------------------- strategy auto: shared keys are pre-matched *)
Lemma keys_distinct_tail : forall x cs, keys_distinct node_eqb (x :: cs) = true ->
  keys_distinct node_eqb cs = true /\ forall y, In y cs -> key_eqb x y = false.
Proof.
  intros x cs H. cbn in H. apply andb_prop in H as [Hx Hk]. split; [exact Hk|].
  intros y Hy. apply negb_true_iff in Hx. destruct (key_eqb x y) eqn:E; [|reflexivity].
  assert (existsb (fun d => node_eqb (kvp_key x) (kvp_key d)) cs = true) by (apply existsb_exists; eauto). congruence.
Qed.

Lemma prematch_complete : forall cs i0 ds used,
  Forall kvp_ok cs -> Forall kvp_ok ds -> keys_distinct node_eqb cs = true -> keys_distinct node_eqb ds = true ->
  (forall c j d, In c cs -> nth_error ds j = Some d -> key_eqb c d = true -> ~ In j used) ->
  forall k c j d, nth_error cs k = Some c -> is_kvp c = true -> nth_error ds j = Some d -> key_eqb c d = true ->
  In ((i0 + k)%nat, j) (prematch cs i0 ds used).
Proof.
  induction cs as [|f cs IH]; intros i0 ds used Hcs Hds Kcs Kds Hused k c j d Hk Hc Hj He; [destruct k; discriminate|].
  inversion Hcs as [|? ? Hf Hcs']; subst. destruct (keys_distinct_tail _ _ Kcs) as [Kcs' Hfne].
  cbn [prematch].
  destruct k as [|k]; cbn in Hk.
  - inversion Hk; subst c. rewrite Hc.
    destruct (find_index (fun t => node_eqb (kvp_key f) (kvp_key t)) ds 0) as [j0|] eqn:Ef.
    + apply find_index_some in Ef. destruct Ef as [_ [d0 [Hd0 [Hf0 _]]]]. rewrite Nat.sub_0_r in Hd0.
      assert (j0 = j).
      { assert (Dj0 : kvp_ok d0) by (eapply Forall_forall; [exact Hds|eapply nth_error_In; exact Hd0]).
        assert (Dj : kvp_ok d) by (eapply Forall_forall; [exact Hds|eapply nth_error_In; exact Hj]).
        apply (keys_distinct_nth ds j0 j d0 d Kds Hds Hd0 Hj). apply (key_eqb_trans _ f); auto.
        rewrite key_eqb_sym by assumption. exact Hf0. }
      subst j0.
      assert (Hnu : nat_in j used = false) by (apply nat_in_false; eapply Hused; eauto; left; reflexivity).
      rewrite Hnu. rewrite Nat.add_0_r. left. reflexivity.
    + pose proof (find_index_none _ _ _ Ef d (nth_error_In _ _ Hj)) as Hn. unfold key_eqb in He. congruence.
  - assert (Hin : In c cs) by (eapply nth_error_In; exact Hk).
    assert (Htail : forall used', (forall c' j' d', In c' cs -> nth_error ds j' = Some d' -> key_eqb c' d' = true -> ~ In j' used') ->
              In ((S i0 + k)%nat, j) (prematch cs (S i0) ds used')).
    { intros used' Hu. eapply IH; eauto. }
    replace (i0 + S k)%nat with (S i0 + k)%nat by lia.
    assert (Hu0 : forall c' j' d', In c' cs -> nth_error ds j' = Some d' -> key_eqb c' d' = true -> ~ In j' used).
    { intros c' j' d' Hc' Hj' He'. eapply Hused; eauto. right. exact Hc'. }
    destruct (is_kvp f); [|apply Htail; exact Hu0].
    destruct (find_index _ ds 0) as [j0|] eqn:Ef; [|apply Htail; exact Hu0].
    destruct (nat_in j0 used); [apply Htail; exact Hu0|].
    right. apply Htail. intros c' j' d' Hc' Hj' He' [Heq|Hin']; [|eapply Hu0; eauto].
    subst j'. apply find_index_some in Ef. destruct Ef as [_ [d0 [Hd0 [Hf0 _]]]]. rewrite Nat.sub_0_r in Hd0.
    assert (d0 = d') by congruence. subst d0.
    assert (Dc' : kvp_ok c') by (eapply Forall_forall; [exact Hcs'|exact Hc']).
    assert (Dd' : kvp_ok d') by (eapply Forall_forall; [exact Hds|eapply nth_error_In; exact Hj']).
    assert (key_eqb f c' = true).
    { apply (key_eqb_trans _ d'); auto. rewrite key_eqb_sym by assumption. exact He'. }
    rewrite (Hfne c' Hc') in H. discriminate.
Qed.

Lemma key_of_nth : forall t i c, nth_error (children t) i = Some c -> key_of t i = Some (kvp_key c).
Proof. intros t i c H. unfold key_of. rewrite H. reflexivity. Qed.

Lemma multiset_restricted_auto : forall O pa pb cs amk' ds e,
  wf (MSet true cs) = true -> wf (MSet amk' ds) = true ->
  multiset_script O pa pb true cs ds (sub_matrix O pa pb cs ds) = OK e ->
  exists c subs, e = EComp KMultiSet c subs /\ shared_keys_paired (MSet true cs) (MSet amk' ds) subs = true.
Proof.
  intros O pa pb cs amk' ds e Hwa Hwb H. cbn in Hwa, Hwb.
  apply andb_prop in Hwa as [Hwa Kcs]. apply andb_prop in Hwb as [Hwb Kds].
  destruct (wf_mset_parts _ Hwa) as [Hcs Hwcs]. destruct (wf_mset_parts _ Hwb) as [Hds Hwds].
  set (M := sub_matrix O pa pb cs ds) in *.
  rewrite multiset_script_unfold in H.
  destruct (ms_matching O pa pb true cs ds) as [mt|] eqn:Emt; [|destruct (lookup pa pb (o_match O)); discriminate].
  destruct (all_some (map (ms_get M) (ms_pre true cs ds))) as [pre_subs|] eqn:Epre; [|discriminate].
  destruct (all_some (map (ms_get M) mt)) as [mt_subs|] eqn:Emts; [|discriminate].
  cbv zeta in H. inversion H; subst e; clear H. eexists. eexists. split; [reflexivity|].
  apply all_some_map in Epre.
  unfold shared_keys_paired. apply forallb_forall. intros i Hi. apply forallb_forall. intros j Hj.
  apply in_seq in Hi. apply in_seq in Hj. cbn [children] in *.
  destruct (nth_error cs i) as [c|] eqn:Ec; [|apply nth_error_None in Ec; lia].
  destruct (nth_error ds j) as [d|] eqn:Ed; [|apply nth_error_None in Ed; lia].
  rewrite (key_of_nth (MSet true cs) i c Ec), (key_of_nth (MSet amk' ds) j d Ed).
  destruct (node_eqb (kvp_key c) (kvp_key d)) eqn:Ek; [|reflexivity].
  assert (Hkc : is_kvp c = true).
  { rewrite forallb_forall in Hwa. specialize (Hwa c (nth_error_In _ _ Ec)). apply andb_prop in Hwa. tauto. }
  assert (Hin : In (i, j) (ms_pre true cs ds)).
  { unfold ms_pre. change i with (0 + i)%nat. eapply prematch_complete; eauto. }
  destruct (Forall2_in_l _ _ _ _ Epre Hin) as [s [Hs Hget]].
  apply ms_get_sub in Hget. destruct Hget as [e' [-> _]]. cbn [fst snd] in Hs.
  unfold paired. apply existsb_exists. exists (SPair i j e'). split.
  - rewrite !in_app_iff. right. left. exact Hs.
  - rewrite !Nat.eqb_refl. reflexivity.
Qed.

(* ---------------------------------------------------------------- strategy none: pairs have equal keys *)
Lemma fixed_dict_restricted : forall O pa pb cs ds e,
  fixed_dict_script O pa pb (FDict cs) (FDict ds) cs ds (sub_matrix O pa pb cs ds) = OK e ->
  exists c subs, e = EComp KFixedDict c subs /\ forallb (pair_keys_equal (FDict cs) (FDict ds)) subs = true.
Proof.
  intros O pa pb cs ds e H. set (M := sub_matrix O pa pb cs ds) in *.
  rewrite fixed_dict_script_unfold in H.
  destruct (fd_order O pa pb cs ds) as [ord|] eqn:Eo; [|destruct (lookup pa pb (o_order O)); discriminate].
  destruct (all_some (map (fd_get cs ds M) (fd_shared cs ds))) as [sh|] eqn:Esh; [|discriminate].
  cbv zeta in H. destruct (_ <=? _); [|discriminate]. inversion H; subst e; clear H.
  eexists. eexists. split; [reflexivity|]. apply all_some_map in Esh.
  rewrite !forallb_app. repeat (apply andb_true_intro; split).
  - apply forallb_forall. intros s Hs. destruct (Forall2_in_r _ _ _ _ Esh Hs) as [[i j] [Hin Hget]].
    apply fd_get_sub in Hget. destruct Hget as [e' [-> _]]. cbn [fst snd pair_keys_equal].
    apply in_fd_shared in Hin. destruct Hin as [Hi Hp].
    unfold fd_partner in Hp. apply find_index_some in Hp. destruct Hp as [_ [d [Hd [Hf _]]]]. rewrite Nat.sub_0_r in Hd.
    rewrite (key_of_nth (FDict cs) i _ (nth_error_nth_lt cs i dummy Hi)), (key_of_nth (FDict ds) j d Hd). exact Hf.
  - apply forallb_forall. intros s Hs. apply in_map_iff in Hs. destruct Hs as [i [<- _]]. reflexivity.
  - apply forallb_forall. intros s Hs. apply in_map_iff in Hs. destruct Hs as [i [<- _]]. reflexivity.
Qed.

(* ---------------------------------------------------------------- sub-edits of every compound, for any predicate *)
Section SubsOk.
  Variable P : tree -> tree -> edit -> Prop.
  Hypothesis Pmatch0 : forall x y, P x y (EMatch 0).
  Definition Pgen (a : tree) : Prop :=
    forall O pa pb b e, wf a = true -> wf b = true -> script O pa pb a b = OK e -> P a b e.

  Lemma from_matrix : forall O pa pb cs ds i j e a b,
    Forall Pgen cs -> (forall c, In c cs -> wf c = true) -> (forall d, In d ds -> wf d = true) ->
    children a = cs -> children b = ds ->
    mget (sub_matrix O pa pb cs ds) i j = Some (OK e) -> sub_ok P a b (SPair i j e).
  Proof.
    intros O pa pb cs ds i j e a b IH Hwc Hwd Ha Hb Hm. cbn. rewrite Ha, Hb.
    apply mget_sub_matrix in Hm. destruct Hm as [c [d [Hc [Hd He]]]]. exists c, d. repeat split; [exact Hc|exact Hd|].
    pose proof (Forall_nth_error _ _ _ _ IH Hc) as Hp.
    apply (Hp O (pa ++ [i]) (pb ++ [j]) d e); [apply Hwc; eapply nth_error_In; exact Hc|
                                               apply Hwd; eapply nth_error_In; exact Hd|symmetry; exact He].
  Qed.

  Lemma match0_ok : forall a b i j, (i < length (children a))%nat -> (j < length (children b))%nat ->
    sub_ok P a b (SPair i j (EMatch 0)).
  Proof.
    intros a b i j Hi Hj. cbn. exists (nth i (children a) dummy), (nth j (children b) dummy).
    repeat split; try (apply nth_error_nth_lt; assumption). apply Pmatch0.
  Qed.

  Lemma fixed_len_subs_ok : forall O pa pb ale alsl cs ale' alsl' ds subs,
    Forall Pgen cs -> wf (Lst ale alsl cs) = true -> wf (Lst ale' alsl' ds) = true ->
    fixed_len_subs cs ds (sub_matrix O pa pb cs ds) = Some subs ->
    Forall (sub_ok P (Lst ale alsl cs) (Lst ale' alsl' ds)) subs.
  Proof.
    intros O pa pb ale alsl cs ale' alsl' ds subs IH Hwa Hwb H. unfold fixed_len_subs in H.
    destruct (all_some _) as [ps|] eqn:Eps; [|discriminate]. inversion H; subst subs; clear H.
    apply all_some_map in Eps. cbn in Hwa, Hwb. rewrite !Forall_app. repeat split.
    - induction Eps as [|i y l r Hy _ IHf]; constructor; [|exact IHf].
      destruct (mget _ i i) as [[e|]|] eqn:Em; inversion Hy; subst y.
      eapply from_matrix; [exact IH|intros c0 Hc0; eapply wf_child_lst; [exact Hwa|exact Hc0]|
                           intros d0 Hd0; eapply wf_child_lst; [exact Hwb|exact Hd0]|reflexivity|reflexivity|exact Em].
    - destruct (_ <? _)%nat; [|constructor]. apply Forall_forall. intros s Hs. apply in_map_iff in Hs.
      destruct Hs as [i [<- _]]. exact I.
    - destruct (_ <? _)%nat; [|constructor]. apply Forall_forall. intros s Hs. apply in_map_iff in Hs.
      destruct Hs as [i [<- _]]. exact I.
  Qed.

  Lemma edit_dist_subs_ok : forall O pa pb penalty ale alsl cs ale' alsl' ds c k subs,
    Forall Pgen cs -> wf (Lst ale alsl cs) = true -> wf (Lst ale' alsl' ds) = true ->
    edit_dist_script penalty cs ds (sub_matrix O pa pb cs ds) = OK (EComp k c subs) ->
    Forall (sub_ok P (Lst ale alsl cs) (Lst ale' alsl' ds)) subs.
  Proof.
    intros O pa pb penalty ale alsl cs ale' alsl' ds c0 k subs IH Hwa Hwb H.
    destruct (trim node_eqb cs ds) as [p q] eqn:Et.
    rewrite (edit_dist_script_unfold _ _ _ _ _ _ Et) in H. cbv zeta in H.
    pose proof (trim_bounds _ _ _ _ _ Et) as [Hp1 [Hp2 [Hpq1 Hpq2]]].
    set (cs' := middle p q cs) in *. set (ds' := middle p q ds) in *.
    set (rc := map (fun c => remove_cost c penalty) cs') in *. set (ic := map (fun d => insert_cost d penalty) ds') in *.
    set (M := sub_matrix O pa pb cs ds) in *.
    destruct (ed_costs _) as [mcs|] eqn:Ec; [|discriminate]. inversion H; subst; clear H.
    assert (Hlrc : length rc = length cs') by (unfold rc; apply map_length).
    assert (Hlic : length ic = length ds') by (unfold ic; apply map_length).
    assert (Hd : dims_ok rc ic mcs) by (eapply ed_costs_dims; eauto).
    assert (Hlc : length cs' = (length cs - p - q)%nat) by (apply middle_length; exact Hpq1).
    assert (Hld : length ds' = (length ds - p - q)%nat) by (apply middle_length; exact Hpq2).
    cbn in Hwa, Hwb. rewrite !Forall_app. repeat split.
    - apply Forall_forall. intros s Hs. apply in_map_iff in Hs. destruct Hs as [i [<- Hi]]. apply in_seq in Hi.
      apply match0_ok; cbn; lia.
    - pose proof (alignment_in_range _ _ _ Hd) as Hr. rewrite Forall_forall in Hr.
      apply Forall_forall. intros s Hs. apply in_map_iff in Hs. destruct Hs as [o [<- Ho]]. specialize (Hr o Ho).
      destruct o as [c r|c|r]; [|exact I|exact I]. cbn in Hr. destruct Hr as [Hc Hr]. unfold ed_sub.
      destruct (mget M (p + c) (p + r)) as [[e|]|] eqn:Em; try (apply match0_ok; cbn; lia).
      eapply from_matrix; [exact IH|intros c0 Hc0; eapply wf_child_lst; [exact Hwa|exact Hc0]|
                           intros d0 Hd0; eapply wf_child_lst; [exact Hwb|exact Hd0]|reflexivity|reflexivity|exact Em].
    - apply Forall_forall. intros s Hs. apply in_map_iff in Hs. destruct Hs as [i [<- Hi]]. apply in_seq in Hi.
      apply match0_ok; cbn; lia.
  Qed.

  Lemma multiset_subs_ok : forall O pa pb amk cs amk' ds c k subs,
    Forall Pgen cs -> wf (MSet amk cs) = true -> wf (MSet amk' ds) = true ->
    multiset_script O pa pb amk cs ds (sub_matrix O pa pb cs ds) = OK (EComp k c subs) ->
    Forall (sub_ok P (MSet amk cs) (MSet amk' ds)) subs.
  Proof.
    intros O pa pb amk cs amk' ds c0 k subs IH Hwa Hwb H. cbn in Hwa, Hwb.
    apply andb_prop in Hwa as [Hwa Kcs]. apply andb_prop in Hwb as [Hwb Kds].
    destruct (wf_mset_parts _ Hwa) as [Hcs Hwcs]. destruct (wf_mset_parts _ Hwb) as [Hds Hwds].
    set (M := sub_matrix O pa pb cs ds) in *.
    rewrite multiset_script_unfold in H.
    destruct (ms_matching O pa pb amk cs ds) as [mt|] eqn:Emt; [|destruct (lookup pa pb (o_match O)); discriminate].
    destruct (all_some (map (ms_get M) (ms_pre amk cs ds))) as [pre_subs|] eqn:Epre; [|discriminate].
    destruct (all_some (map (ms_get M) mt)) as [mt_subs|] eqn:Emts; [|discriminate].
    cbv zeta in H. inversion H; subst; clear H. apply all_some_map in Epre, Emts.
    assert (Hsub : forall l subs, Forall2 (fun x y => ms_get M x = Some y) l subs ->
                   Forall (sub_ok P (MSet amk cs) (MSet amk' ds)) subs).
    { intros l subs HF. induction HF as [|ij s l r Hs _ IHF]; constructor; [|exact IHF].
      apply ms_get_sub in Hs. destruct Hs as [e [-> Hm]]. eapply from_matrix; eauto. }
    rewrite !Forall_app. repeat split.
    - apply Forall_forall. intros s Hs. apply in_map_iff in Hs. destruct Hs as [[i j] [<- Hij]]. cbn [fst snd].
      apply in_partner in Hij. destruct Hij as [Hi Hf]. apply find_some in Hf. destruct Hf as [Hj _].
      apply fl_lt in Hi. apply tl_lt in Hj. apply match0_ok; assumption.
    - eapply Hsub; exact Epre.
    - eapply Hsub; exact Emts.
    - apply Forall_forall. intros s Hs. apply in_map_iff in Hs. destruct Hs as [i [<- _]]. exact I.
    - apply Forall_forall. intros s Hs. apply in_map_iff in Hs. destruct Hs as [i [<- _]]. exact I.
  Qed.

  Lemma fixed_dict_subs_ok : forall O pa pb cs ds c k subs,
    Forall Pgen cs -> wf (FDict cs) = true -> wf (FDict ds) = true ->
    fixed_dict_script O pa pb (FDict cs) (FDict ds) cs ds (sub_matrix O pa pb cs ds) = OK (EComp k c subs) ->
    Forall (sub_ok P (FDict cs) (FDict ds)) subs.
  Proof.
    intros O pa pb cs ds c0 k subs IH Hwa Hwb H. cbn in Hwa, Hwb.
    apply andb_prop in Hwa as [Hwa Kcs]. apply andb_prop in Hwb as [Hwb Kds].
    destruct (wf_mset_parts _ Hwa) as [Hcs Hwcs]. destruct (wf_mset_parts _ Hwb) as [Hds Hwds].
    set (M := sub_matrix O pa pb cs ds) in *.
    rewrite fixed_dict_script_unfold in H.
    destruct (fd_order O pa pb cs ds) as [ord|] eqn:Eo; [|destruct (lookup pa pb (o_order O)); discriminate].
    destruct (all_some (map (fd_get cs ds M) (fd_shared cs ds))) as [sh|] eqn:Esh; [|discriminate].
    cbv zeta in H. destruct (_ <=? _); [|discriminate]. inversion H; subst; clear H.
    apply all_some_map in Esh. rewrite !Forall_app. repeat split.
    - assert (Hlt : forall ij, In ij (fd_shared cs ds) -> (fst ij < length cs)%nat /\ (snd ij < length ds)%nat).
      { intros [i j] Hin. apply in_fd_shared in Hin. destruct Hin as [Hi Hp]. cbn.
        split; [exact Hi|]. apply (fd_partner_spec cs ds i j Hi Hp). }
      induction Esh as [|ij s l r Hs _ IHF]; constructor; [|apply IHF; intros; apply Hlt; right; assumption].
      destruct (Hlt ij (or_introl eq_refl)) as [Hi Hj].
      apply fd_get_sub in Hs. destruct Hs as [e [-> [->|Hm]]]; [apply match0_ok; assumption|].
      eapply from_matrix; eauto.
    - apply Forall_forall. intros s Hs. apply in_map_iff in Hs. destruct Hs as [i [<- _]]. exact I.
    - apply Forall_forall. intros s Hs. apply in_map_iff in Hs. destruct Hs as [i [<- _]]. exact I.
  Qed.
End SubsOk.

(* ---------------------------------------------------------------- C10 for the whole model *)
Definition Rp (x y : tree) (e : edit) : Prop := restricted x y e = true.
Lemma Rp_match0 : forall x y, Rp x y (EMatch 0). Proof. reflexivity. Qed.

Lemma restricted_comp : forall a b k c subs,
  (match a, b with
   | FDict _, FDict _ => forallb (pair_keys_equal a b) subs
   | MSet true _, MSet _ _ => shared_keys_paired a b subs
   | Lst ale alsl xs, Lst _ _ ys =>
       (if negb ale then positional a b subs else true) &&
       (if negb alsl && Nat.eqb (length xs) (length ys) then positional a b subs && no_rem_ins subs else true)
   | _, _ => true
   end) = true ->
  Forall (sub_ok Rp a b) subs -> restricted a b (EComp k c subs) = true.
Proof.
  intros a b k c subs Htop Hsubs. cbn [restricted]. rewrite Htop. cbn [andb].
  apply restricted_all_spec. exact Hsubs.
Qed.

Theorem script_restricted : forall a, Pgen Rp a.
Proof.
  apply tree_rect'.
  - intros x O pa pb b e _ _ H. cbn in H. unfold Rp. unfold leaf_script in H.
    destruct (lk x); destruct b as [y| | | |]; try (inversion H; subst; reflexivity);
      try (destruct (lk y); inversion H; subst; reflexivity).
    destruct (lk y); try (inversion H; subst; reflexivity).
    destruct (str_eqb _ _); [inversion H; subst; reflexivity|].
    destruct (_ && _); [inversion H; subst; reflexivity|].
    destruct (str_script _ _). inversion H; subst; reflexivity.
  - intros ale alsl cs IH O pa pb b e Hwa Hwb H. unfold Rp. cbn [script] in H.
    destruct b as [y|ale' alsl' ds|? ? ?|? ?|?];
      try (rewrite list_dispatch_not_list in H; inversion H; subst; reflexivity).
    fold (sub_matrix O pa pb cs ds) in H.
    destruct (list_dispatch_gen _ _ _ _ _ _ _ _) as [| |penalty|] eqn:Ed; try (inversion H; subst; reflexivity).
    + destruct (fixed_len_subs cs ds _) as [subs|] eqn:Ef; [|discriminate]. inversion H; subst e.
      apply restricted_comp; [|eapply (fixed_len_subs_ok Rp); eauto].
      assert (Hpos : positional (Lst ale alsl cs) (Lst ale' alsl' ds) subs = true).
      { apply positional_spec. cbn [children]. eapply fixed_len_shape; eauto. }
      rewrite Hpos. destruct (negb ale); cbn [andb].
      * destruct (negb alsl && Nat.eqb (length cs) (length ds)) eqn:E; [|reflexivity].
        apply andb_prop in E as [_ E]. apply Nat.eqb_eq in E. eapply fixed_len_no_rem_ins; eauto.
      * destruct (negb alsl && Nat.eqb (length cs) (length ds)) eqn:E; [|reflexivity].
        apply andb_prop in E as [_ E]. apply Nat.eqb_eq in E. eapply fixed_len_no_rem_ins; eauto.
    + pose proof (dispatch_edit_dist _ _ _ _ _ _ _ _ Ed) as [Hale Halsl]. subst ale.
      assert (He : exists c subs, e = EComp KEditDist c subs).
      { destruct (trim node_eqb cs ds) as [p q] eqn:Et. rewrite (edit_dist_script_unfold _ _ _ _ _ _ Et) in H.
        cbv zeta in H. destruct (ed_costs _); [|discriminate]. inversion H. eauto. }
      destruct He as [c [subs ->]].
      apply restricted_comp; [|eapply (edit_dist_subs_ok Rp Rp_match0); eauto].
      cbn [negb andb]. destruct (negb alsl && Nat.eqb (length cs) (length ds)) eqn:E; [|reflexivity].
      apply andb_prop in E as [E1 E2]. apply Nat.eqb_eq in E2. unfold zlen in Halsl.
      rewrite Halsl in E1 by (f_equal; exact E2). discriminate.
  - intros ake k v IHk IHv O pa pb b e Hwa Hwb H. unfold Rp. cbn [script] in H.
    destruct b as [y|? ? ?|ake' k' v'|? ?|?]; try discriminate.
    destruct (ake || node_eqb k k'); [|inversion H; subst; reflexivity].
    cbn in Hwa, Hwb.
    apply andb_prop in Hwa as [Hwa Hwv]. apply andb_prop in Hwa as [Hwa _]. apply andb_prop in Hwa as [_ Hwk].
    apply andb_prop in Hwb as [Hwb Hwv']. apply andb_prop in Hwb as [Hwb _]. apply andb_prop in Hwb as [_ Hwk'].
    assert (Hke : forall e1, (if node_eqb k k' then OK (EMatch 0) else script O (pa ++ [0%nat]) (pb ++ [0%nat]) k k') = OK e1 ->
                  restricted k k' e1 = true).
    { intros e1 He. destruct (node_eqb k k'); [inversion He; reflexivity|]. eapply IHk; eauto. }
    assert (Hve : forall e2, (if node_eqb v v' then OK (EMatch 0) else script O (pa ++ [1%nat]) (pb ++ [1%nat]) v v') = OK e2 ->
                  restricted v v' e2 = true).
    { intros e2 He. destruct (node_eqb v v'); [inversion He; reflexivity|]. eapply IHv; eauto. }
    destruct (if node_eqb k k' then _ else _) as [e1|x1]; [|destruct (if node_eqb v v' then _ else _); discriminate].
    destruct (if node_eqb v v' then _ else _) as [e2|x2]; [|discriminate].
    inversion H; subst e. cbn. rewrite (Hke e1 eq_refl), (Hve e2 eq_refl). reflexivity.
  - intros amk cs IH O pa pb b e Hwa Hwb H. unfold Rp. cbn [script] in H.
    destruct b as [y|? ? ?|? ? ?|amk' ds|?]; try (inversion H; subst; reflexivity).
    destruct ((match cs, ds with [], [] => true | _, _ => false end) || node_eqb (MSet amk cs) (MSet amk' ds));
      [inversion H; subst; reflexivity|].
    assert (He : exists c subs, e = EComp KMultiSet c subs).
    { rewrite multiset_script_unfold in H. destruct (ms_matching _ _ _ _ _ _); [|destruct (lookup _ _ _); discriminate].
      destruct (all_some _); [|discriminate]. destruct (all_some _); [|discriminate]. inversion H. eauto. }
    destruct He as [c [subs ->]].
    apply restricted_comp; [|eapply (multiset_subs_ok Rp Rp_match0); eauto].
    destruct amk; [|reflexivity].
    destruct (multiset_restricted_auto _ _ _ _ _ _ _ Hwa Hwb H) as [c' [subs' [Heq Hs]]]. inversion Heq; subst. exact Hs.
  - intros cs IH O pa pb b e Hwa Hwb H. unfold Rp. cbn [script] in H.
    destruct b as [y|? ? ?|? ? ?|? ?|ds]; try (inversion H; subst; reflexivity); try discriminate.
    destruct ((match cs, ds with [], [] => true | _, _ => false end) || _); [inversion H; subst; reflexivity|].
    destruct (fixed_dict_restricted _ _ _ _ _ _ H) as [c [subs [-> Hs]]].
    apply restricted_comp; [exact Hs|eapply (fixed_dict_subs_ok Rp Rp_match0); eauto].
Qed.
