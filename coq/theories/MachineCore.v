(* C04: the contract of the Bounded protocol for the models of MachineModel.v, for ALL inputs.
   Part A: consequences of the contract (stability on single values, termination within `width` steps, the
           executable statement holds_events on the trace the observer records).
   Part B: ConstantCostEdit, the component-wise sum (KeyValuePairEdit ...), repeat_until_tightened /
           FixedLengthSequenceEdit.
   Part C: EditDistance (fringe minimum, constant lower bound, upper bound, completion).
   Part D: the universal machine and the closing induction over list / string / key-value trees. *)
From Coq Require Import ZArith List Bool Lia Permutation Sorted.
Require Import GT.PyBase GT.Data GT.EdTypes GT.EdEngine GT.EdFacts GT.EdEngineProofs GT.LevModel GTgen.EdGen GT.EdParams
               GT.EdTie GT.ScriptSpec GT.ScriptModel GT.ListAux GT.ScriptProofs GT.EqualSpec GT.EqualProofs
               GT.MachineSpec GT.MachineModel.
Import ListNotations.
Open Scope Z_scope.

(* ================================================================ Part A: the contract *)

Lemma zr_eta : forall r : zr, r = (fst r, snd r).
Proof. intros [a b]. reflexivity. Qed.

Lemma zr_eq : forall a b : zr, fst a = fst b -> snd a = snd b -> a = b.
Proof. intros [a1 a2] [b1 b2]; simpl; intros; subst; reflexivity. Qed.

Lemma zdefb_spec : forall r, zdefb r = true <-> zdefinitive r.
Proof. intros r. unfold zdefb, zdefinitive. apply Z.eqb_eq. Qed.

Lemma zdefb_false : forall r, zdefb r = false <-> ~ zdefinitive r.
Proof. intros r. unfold zdefb, zdefinitive. apply Z.eqb_neq. Qed.

(* a contained range that differs is strictly tighter at one end *)
Lemma contained_neq_tighter : forall a a' : zr, zcontains a a' -> a' <> a -> fst a < fst a' \/ snd a' < snd a.
Proof.
  intros a a' [H1 H2] N.
  destruct (Z.eq_dec (fst a) (fst a')) as [E1|E1]; [|lia].
  destruct (Z.eq_dec (snd a) (snd a')) as [E2|E2]; [|lia].
  exfalso. apply N. apply zr_eq; congruence.
Qed.

Lemma tighter_spec : forall n o, tighter n o = true <-> (fst o < fst n \/ snd n < snd o).
Proof.
  intros n o. unfold tighter. rewrite orb_true_iff, !Z.ltb_lt. tauto.
Qed.

Lemma tighter_false : forall n o, tighter n o = false <-> (fst n <= fst o /\ snd o <= snd n).
Proof.
  intros n o. unfold tighter. rewrite orb_false_iff, !Z.ltb_ge. tauto.
Qed.

Lemma contained_not_tighter_eq : forall a a', zcontains a a' -> tighter a' a = false -> a' = a.
Proof.
  intros a a' [H1 H2] T. apply tighter_false in T. apply zr_eq; lia.
Qed.

(* the contract is its own invariant *)
Lemma cv_step : forall k M t v, ContractV k M t v -> step_ok k M (fun t' => ContractV k M t' v) v t.
Proof.
  intros k M t v (Inv & Hi & Hs). destruct (Hs t Hi) as (H1 & H2 & H3 & H4 & H5).
  unfold step_ok. cbn zeta. split; [exists Inv; split; assumption|]. tauto.
Qed.

Lemma cv_next : forall k M t v, ContractV k M t v -> ContractV k M (fst (tig M t)) v.
Proof. intros k M t v H. apply (cv_step k M t v H). Qed.

Lemma cv_sound : forall k M t v, ContractV k M t v -> fst (bnd M t) <= v <= snd (bnd M t).
Proof. intros k M t v H. apply (cv_step k M t v H). Qed.

Lemma cv_weaken : forall M t v, ContractV true M t v -> ContractV false M t v.
Proof.
  intros M t v (Inv & Hi & Hs). exists Inv. split; [assumption|].
  intros u Hu. destruct (Hs u Hu) as (H1 & H2 & H3 & H4 & H5).
  unfold step_ok. cbn zeta. split; [exact H1|]. split; [exact H2|]. split; [exact H3|]. split; [exact H4|].
  intros R. split; [apply H5; exact R|discriminate].
Qed.

Lemma cv_weaken_any : forall k M t v, ContractV k M t v -> ContractV false M t v.
Proof. intros [|] M t v H; [apply cv_weaken|]; assumption. Qed.

(* on a single value every call returns False and changes nothing; the value is the final one *)
Lemma cv_definitive : forall k M t v, ContractV k M t v -> zdefinitive (bnd M t) ->
  bnd M t = (v, v) /\ snd (tig M t) = false /\ bnd M (fst (tig M t)) = bnd M t.
Proof.
  intros k M t v H D. pose proof (cv_step k M t v H) as (H1 & H2 & H3 & H4 & H5).
  pose proof (cv_sound _ _ _ _ H1) as H2'. unfold zdefinitive in D. destruct H3 as [C1 C2].
  assert (E : bnd M (fst (tig M t)) = bnd M t) by (apply zr_eq; lia).
  split; [apply zr_eq; simpl; lia|]. split; [|exact E].
  destruct (snd (tig M t)) eqn:R; [|reflexivity]. exfalso. apply (H4 eq_refl). exact E.
Qed.

(* a True step shrinks the width *)
Lemma cv_true_width : forall k M t v, ContractV k M t v -> snd (tig M t) = true ->
  0 <= width (bnd M (fst (tig M t))) < width (bnd M t).
Proof.
  intros k M t v H R. pose proof (cv_step k M t v H) as (H1 & H2 & H3 & H4 & H5).
  pose proof (cv_sound _ _ _ _ H1) as H2'.
  destruct (contained_neq_tighter _ _ H3 (H4 R)); destruct H3; unfold width; lia.
Qed.

Lemma cv_width_nonneg : forall k M t v, ContractV k M t v -> 0 <= width (bnd M t).
Proof. intros k M t v H. pose proof (cv_sound _ _ _ _ H). unfold width. lia. Qed.

(* transfer along an embedding of machines *)
Lemma cv_embed : forall k (M1 M2 : machine) (f : St M1 -> St M2),
  (forall s, bnd M2 (f s) = bnd M1 s) ->
  (forall s, tig M2 (f s) = (f (fst (tig M1 s)), snd (tig M1 s))) ->
  forall s v, ContractV k M1 s v -> ContractV k M2 (f s) v.
Proof.
  intros k M1 M2 f Hb Ht s v H.
  exists (fun t => exists s, t = f s /\ ContractV k M1 s v). split; [exists s; auto|].
  intros t (u & -> & Hu). pose proof (cv_step k M1 u v Hu) as (H1 & H2 & H3 & H4 & H5).
  unfold step_ok. cbn zeta. rewrite Ht. cbn [fst snd]. rewrite !Hb.
  split; [exists (fst (tig M1 u)); auto|]. tauto.
Qed.

(* `while x.tighten_bounds(): pass` terminates within width+1 calls on a single value, the final one *)
Lemma run_fix_ok : forall k C fuel x v, ContractV k C x v -> (Z.to_nat (width (bnd C x)) < fuel)%nat ->
  exists x', run_fix (tig C) fuel x = Some x' /\ ContractV k C x' v /\ bnd C x' = (v, v).
Proof.
  intros k C fuel. induction fuel as [|fuel IH]; intros x v H F; [lia|].
  cbn [run_fix]. pose proof (cv_step k C x v H) as (H1 & H2 & H3 & H4 & H5).
  destruct (snd (tig C x)) eqn:R.
  - apply IH; [exact H1|]. pose proof (cv_true_width _ _ _ _ H R). lia.
  - exists (fst (tig C x)). split; [reflexivity|]. split; [exact H1|].
    destruct (H5 eq_refl) as [D _]. apply (cv_definitive _ _ _ _ H1 D).
Qed.

Lemma run_def_ok : forall k C fuel x v, ContractV k C x v -> (Z.to_nat (width (bnd C x)) < fuel)%nat ->
  exists x', run_def (bnd C) (tig C) fuel x = Some x' /\ ContractV k C x' v /\ bnd C x' = (v, v).
Proof.
  intros k C fuel. induction fuel as [|fuel IH]; intros x v H F; [lia|].
  cbn [run_def]. destruct (zdefb (bnd C x)) eqn:D.
  - exists x. split; [reflexivity|]. split; [exact H|]. apply zdefb_spec in D. apply (cv_definitive _ _ _ _ H D).
  - pose proof (cv_step k C x v H) as (H1 & H2 & H3 & H4 & H5).
    destruct (snd (tig C x)) eqn:R.
    + assert (Hw : (Z.to_nat (width (bnd C (fst (tig C x)))) < fuel)%nat)
        by (pose proof (cv_true_width _ _ _ _ H R); lia).
      destruct fuel as [|fuel']; [lia|]. apply IH; assumption.
    + exists (fst (tig C x)). split; [reflexivity|]. split; [exact H1|].
      destruct (H5 eq_refl) as [D' _]. apply (cv_definitive _ _ _ _ H1 D').
Qed.

(* ---------------------------------------------------------------- the executable statement on the observer's trace *)
Lemma rv_leb_fin : forall x y, rv_leb (Fin x) (Fin y) = (x <=? y).
Proof. reflexivity. Qed.

Lemma contains_b_of : forall a a', zcontains a a' -> contains_b (rng_of a) (rng_of a') = true.
Proof.
  intros a a' [H1 H2]. unfold contains_b, rng_of. simpl. apply andb_true_iff. split; apply Z.leb_le; assumption.
Qed.

Lemma rng_eqb_of : forall a a', rng_eqb (rng_of a) (rng_of a') = true <-> a = a'.
Proof.
  intros a a'. unfold rng_eqb, rng_of. simpl. rewrite andb_true_iff, !Z.eqb_eq. split.
  - intros [H1 H2]. apply zr_eq; assumption.
  - intros ->. auto.
Qed.

Lemma definitive_b_of : forall a, definitive_b (rng_of a) = zdefb a.
Proof. intros [x y]. reflexivity. Qed.

Lemma rng_ok_of : forall a, fst a <= snd a -> rng_ok (rng_of a) = true.
Proof. intros a H. unfold rng_ok, rng_of. simpl. apply Z.leb_le. exact H. Qed.

Lemma contains_refl : forall a, zcontains a a.
Proof. intros a. split; lia. Qed.

(* every step of the trace satisfies the clauses, whatever the fuel *)
Lemma trace_scan : forall M v fuel s, ContractV true M s v ->
  forall p, zcontains p (bnd M s) -> scan true (Some (rng_of p)) [] (trace_of M fuel s) = true.
Proof.
  intros M v fuel. induction fuel as [|fuel IH]; intros s H p Hp; [reflexivity|].
  cbn [trace_of scan app]. pose proof (cv_step true M s v H) as (H1 & H2 & H3 & H4 & H5).
  pose proof (cv_sound _ _ _ _ H1) as H2'.
  rewrite rng_ok_of by lia. rewrite rng_ok_of by lia.
  assert (S1 : clause_step true (rng_of p) (rng_of (bnd M s)) [] = true).
  { unfold clause_step. rewrite contains_b_of by assumption. reflexivity. }
  rewrite S1.
  assert (S2 : clause_step true (rng_of (bnd M s)) (rng_of (bnd M (fst (tig M s)))) [snd (tig M s)] = true).
  { unfold clause_step. rewrite contains_b_of by assumption. rewrite !definitive_b_of.
    destruct (snd (tig M s)) eqn:R; cbn [all_true all_false forallb last no_true_after_false negb andb].
    - assert (N : rng_eqb (rng_of (bnd M s)) (rng_of (bnd M (fst (tig M s)))) = false).
      { destruct (rng_eqb _ _) eqn:E; [|reflexivity]. apply rng_eqb_of in E. exfalso. apply (H4 eq_refl). congruence. }
      rewrite N. simpl.
      destruct (zdefb (bnd M s)) eqn:D; [|reflexivity].
      apply zdefb_spec in D. destruct (cv_definitive _ _ _ _ H D) as (_ & R' & _). congruence.
    - destruct (H5 eq_refl) as [D E]. specialize (E eq_refl).
      assert (D0 : zdefb (bnd M s) = true) by (apply zdefb_spec; rewrite <- E; exact D).
      assert (D1 : zdefb (bnd M (fst (tig M s))) = true) by (apply zdefb_spec; exact D).
      rewrite D0, D1. simpl.
      assert (Q : rng_eqb (rng_of (bnd M s)) (rng_of (bnd M (fst (tig M s)))) = true) by (apply rng_eqb_of; congruence).
      rewrite Q. reflexivity. }
  rewrite S2. simpl.
  destruct (snd (tig M s)); [|reflexivity].
  apply IH; [exact H1|apply contains_refl].
Qed.

Lemma trace_first : forall M v fuel s, ContractV true M s v -> scan true None [] (trace_of M fuel s) = true.
Proof.
  intros M v [|fuel] s H; [reflexivity|].
  pose proof (trace_scan M v (S fuel) s H (bnd M s) (contains_refl _)) as T.
  cbn [trace_of scan] in *. apply andb_true_iff in T. destruct T as [T1 T2].
  apply andb_true_iff in T1. destruct T1 as [T1 _]. rewrite T1. exact T2.
Qed.

(* the trace ends on the single value v once the fuel exceeds the width, and every observation contains v *)
Lemma trace_last : forall M v fuel s, ContractV true M s v -> (Z.to_nat (width (bnd M s)) < fuel)%nat ->
  forall acc, last_bounds (trace_of M fuel s) acc = Some (Fin v, Fin v).
Proof.
  intros M v fuel. induction fuel as [|fuel IH]; intros s H F acc; [lia|].
  cbn [trace_of last_bounds]. pose proof (cv_step true M s v H) as (H1 & H2 & H3 & H4 & H5).
  destruct (snd (tig M s)) eqn:R.
  - apply IH; [exact H1|]. pose proof (cv_true_width _ _ _ _ H R). lia.
  - simpl. destruct (H5 eq_refl) as [D _]. destruct (cv_definitive _ _ _ _ H1 D) as (E & _). rewrite E. reflexivity.
Qed.

Lemma trace_all_contain : forall M v fuel s, ContractV true M s v ->
  forallb (fun e => match e with EB b => contains_b b (Fin v, Fin v) | ET _ => true end) (trace_of M fuel s) = true.
Proof.
  intros M v fuel. induction fuel as [|fuel IH]; intros s H; [reflexivity|].
  cbn [trace_of forallb]. pose proof (cv_step true M s v H) as (H1 & H2 & H3 & H4 & H5).
  pose proof (cv_sound _ _ _ _ H1) as H2'.
  assert (C0 : contains_b (rng_of (bnd M s)) (Fin v, Fin v) = true).
  { unfold contains_b, rng_of. simpl. apply andb_true_iff. split; apply Z.leb_le; lia. }
  assert (C1 : contains_b (rng_of (bnd M (fst (tig M s)))) (Fin v, Fin v) = true).
  { unfold contains_b, rng_of. simpl. apply andb_true_iff. split; apply Z.leb_le; lia. }
  rewrite C0, C1. simpl. destruct (snd (tig M s)); [apply IH; exact H1|reflexivity].
Qed.

(* C04 on traces: the executable statement of the property holds on what the active observer records when it
   drives a machine that satisfies the contract (with enough fuel to reach the first False) *)
Theorem contract_trace_holds : forall M s v fuel, ContractV true M s v -> (Z.to_nat (width (bnd M s)) < fuel)%nat ->
  holds_events (trace_of M fuel s) = true.
Proof.
  intros M s v fuel H F. unfold holds_events. rewrite (trace_first M v fuel s H). simpl.
  unfold sound_events. rewrite (trace_last M v fuel s H F None).
  simpl. rewrite Z.eqb_refl. simpl. apply trace_all_contain. exact H.
Qed.

(* termination: a False is reached after at most `width` True steps, on the single value v *)
Theorem contract_terminates : forall k M s v, ContractV k M s v ->
  exists n, (n <= Z.to_nat (width (bnd M s)))%nat /\
            snd (tig M (steps M n s)) = false /\ bnd M (fst (tig M (steps M n s))) = (v, v) /\
            forall i, (i < n)%nat -> snd (tig M (steps M i s)) = true.
Proof.
  intros k M s v H. remember (Z.to_nat (width (bnd M s))) as w eqn:W.
  revert s H W. induction w as [w IH] using lt_wf_ind. intros s H W.
  pose proof (cv_step k M s v H) as (H1 & H2 & H3 & H4 & H5).
  destruct (snd (tig M s)) eqn:R.
  - pose proof (cv_true_width _ _ _ _ H R) as Wd.
    destruct (IH (Z.to_nat (width (bnd M (fst (tig M s))))) ltac:(lia) (fst (tig M s)) H1 eq_refl)
      as (n & Hn & Hf & Hb & Ht).
    exists (S n). split; [lia|]. cbn [steps]. split; [exact Hf|]. split; [exact Hb|].
    intros [|i] Hi; [exact R|]. cbn [steps]. apply Ht. lia.
  - exists O. split; [lia|]. cbn [steps]. split; [exact R|]. split.
    + destruct (H5 eq_refl) as [D _]. apply (cv_definitive _ _ _ _ H1 D).
    + intros i Hi. lia.
Qed.

(* ================================================================ Part B *)

(* ---------------------------------------------------------------- ConstantCostEdit *)
Theorem const_contract : forall c, ContractV true constM c c.
Proof.
  intros c. exists (fun t => t = c). split; [reflexivity|].
  intros t ->. unfold step_ok. simpl. repeat split; try lia; try reflexivity; discriminate.
Qed.

(* ---------------------------------------------------------------- sums *)
Lemma zr_sum_cons : forall a l, zr_sum (a :: l) = zr_add a (zr_sum l).
Proof. reflexivity. Qed.

Section Sum.
  Variable k : bool.
  Variable C : machine.

  Definition kids_ok (l : list (St C)) (vs : list Z) : Prop := Forall2 (fun s v => ContractV k C s v) l vs.

  Lemma kids_sound : forall l vs, kids_ok l vs ->
    fst (zr_sum (map (bnd C) l)) <= zsum vs <= snd (zr_sum (map (bnd C) l)).
  Proof.
    induction 1 as [|s v l vs H _ IH]; simpl; [lia|].
    pose proof (cv_sound _ _ _ _ H). lia.
  Qed.

  (* one pass of `for e in edits: if e.tighten_bounds(): return True` *)
  Lemma first_true_spec : forall l vs, kids_ok l vs ->
    let l' := fst (first_true (tig C) l) in
    let r := snd (first_true (tig C) l) in
    let b := zr_sum (map (bnd C) l) in
    let b' := zr_sum (map (bnd C) l') in
    kids_ok l' vs /\ zcontains b b' /\
    (r = true -> fst b < fst b' \/ snd b' < snd b) /\
    (r = false -> zdefinitive b' /\ (k = true -> b' = b)).
  Proof.
    induction 1 as [|s v l vs H Hl IH]; cbn zeta.
    - simpl. repeat split; try constructor; try lia; try discriminate.
    - cbn [first_true]. pose proof (cv_step k C s v H) as (H1 & H2 & H3 & H4 & H5).
      destruct (snd (tig C s)) eqn:R; cbn [fst snd map].
      + rewrite !zr_sum_cons. unfold zr_add, zcontains. cbn [fst snd].
        split; [constructor; assumption|]. destruct H3 as [C1 C2].
        split; [split; lia|]. split; [|discriminate].
        intros _. destruct (contained_neq_tighter _ _ (conj C1 C2) (H4 eq_refl)); lia.
      + cbn zeta in IH. destruct IH as (I1 & [I2a I2b] & I3 & I4).
        rewrite !zr_sum_cons. unfold zr_add, zcontains. cbn [fst snd].
        split; [constructor; assumption|]. destruct H3 as [C1 C2].
        split; [split; lia|]. split.
        * intros E. destruct (I3 E); lia.
        * intros E. destruct (I4 E) as [D Eq]. destruct (H5 eq_refl) as [D1 Eq1].
          unfold zdefinitive in *. cbn [fst snd]. split; [lia|].
          intros K. rewrite (Eq K), (Eq1 K). reflexivity.
  Qed.

  (* KeyValuePairEdit (and the other component-wise compounds): the contract of the components carries over *)
  Theorem sum_contract : forall l vs, kids_ok l vs -> ContractV k (sumM C) l (zsum vs).
  Proof.
    intros l vs H. exists (fun t => kids_ok t vs). split; [exact H|].
    intros t Ht. pose proof (first_true_spec t vs Ht) as (S1 & S2 & S3 & S4). cbn zeta in *.
    unfold step_ok. cbn [sumM St bnd tig].
    split; [exact S1|]. split; [apply kids_sound; exact Ht|]. split; [exact S2|]. split.
    - intros R E. destruct (S3 R); rewrite E in *; lia.
    - intros R. destruct (S4 R) as [D Eq]. split; [exact D|]. intros K. apply Eq. exact K.
  Qed.
End Sum.

(* ---------------------------------------------------------------- repeat_until_tightened / FixedLengthSequenceEdit *)
Section Fixed.
  Variable k : bool.
  Variable C : machine.

  Lemma fixed_bnd_eq : forall (l : list (St C)) x,
    fixed_bnd (bnd C) (l, x) = (fst (zr_sum (map (bnd C) l)) + x, snd (zr_sum (map (bnd C) l)) + x).
  Proof. reflexivity. Qed.

  (* the decorated function is  first sub-edit that tightens ; whatever the reading of False its components follow,
     the decorator makes the class satisfy the STRICT contract: it returns False only on a single value, untouched *)
  Theorem fixed_contract : forall l vs x, kids_ok k C l vs -> ContractV true (fixedM C) (l, x) (zsum vs + x).
  Proof.
    intros l vs x H. exists (fun t => kids_ok k C (fst t) vs /\ snd t = x). split; [split; [exact H|reflexivity]|].
    intros [t x'] [Ht Hx]. cbn [fst snd] in Ht, Hx. subst x'.
    pose proof (first_true_spec k C t vs Ht) as (S1 & S2 & S3 & S4). cbn zeta in *.
    pose proof (kids_sound k C t vs Ht) as So.
    unfold step_ok. cbn [fixedM St bnd tig]. unfold fixed_tig, rut.
    destruct (zdefb (fixed_bnd (bnd C) (t, x))) eqn:D.
    - cbn [fst snd]. rewrite fixed_bnd_eq. cbn [fst snd].
      split; [split; [exact Ht|reflexivity]|]. split; [lia|]. split; [split; lia|]. split; [discriminate|].
      intros _. apply zdefb_spec in D. rewrite fixed_bnd_eq in D. split; [exact D|reflexivity].
    - unfold rut_fuel. cbn [rut_loop fst snd].
      set (t' := fst (first_true (tig C) t)) in *. set (r := snd (first_true (tig C) t)) in *.
      pose proof (kids_sound k C t' vs S1) as So'.
      rewrite !fixed_bnd_eq. unfold widened, tighter. cbn [fst snd].
      destruct S2 as [C1 C2].
      replace ((fst (zr_sum (map (bnd C) t')) + x <? fst (zr_sum (map (bnd C) t)) + x)
               || (snd (zr_sum (map (bnd C) t)) + x <? snd (zr_sum (map (bnd C) t')) + x)) with false
        by (symmetry; apply orb_false_iff; split; apply Z.ltb_ge; lia).
      apply zdefb_false in D. rewrite fixed_bnd_eq in D. unfold zdefinitive in D. cbn [fst snd] in D.
      assert (T : zdefb (fst (zr_sum (map (bnd C) t')) + x, snd (zr_sum (map (bnd C) t')) + x)
                  || ((fst (zr_sum (map (bnd C) t)) + x <? fst (zr_sum (map (bnd C) t')) + x)
                      || (snd (zr_sum (map (bnd C) t')) + x <? snd (zr_sum (map (bnd C) t)) + x)) = true).
      { destruct r eqn:R.
        - apply orb_true_iff. right. apply orb_true_iff. destruct (S3 eq_refl); [left|right]; apply Z.ltb_lt; lia.
        - apply orb_true_iff. left. apply zdefb_spec. destruct (S4 eq_refl) as [D' _].
          unfold zdefinitive in *. cbn [fst snd]. lia. }
      rewrite T. cbn [fst snd]. rewrite !fixed_bnd_eq. cbn [fst snd].
      split; [split; [exact S1|reflexivity]|]. split; [lia|]. split; [split; cbn [fst snd]; lia|]. split; [|discriminate].
      intros _ E. injection E as E1 E2.
      apply orb_true_iff in T. destruct T as [T|T].
      + apply zdefb_spec in T. unfold zdefinitive in T. cbn [fst snd] in T. lia.
      + apply orb_true_iff in T. destruct T as [T|T]; apply Z.ltb_lt in T; lia.
  Qed.
End Fixed.

(* ================================================================ Part C: EditDistance *)

Lemma in_firstn : forall {A} (l : list A) i x, In x (firstn i l) -> In x l.
Proof.
  induction l as [|y l IH]; intros [|i] x Hx; simpl in Hx; try contradiction.
  destruct Hx as [<-|Hx]; [left; reflexivity|right; apply (IH i x Hx)].
Qed.

(* ---------------------------------------------------------------- sums of the j smallest elements *)
Lemma zinsert_comm : forall x y s, zinsert x (zinsert y s) = zinsert y (zinsert x s).
Proof.
  intros x y s. induction s as [|z s IH]; cbn [zinsert].
  - destruct (Z.leb_spec x y), (Z.leb_spec y x); try reflexivity; try lia.
    assert (x = y) by lia. subst. reflexivity.
  - destruct (Z.leb_spec y z), (Z.leb_spec x z); cbn [zinsert].
    + destruct (Z.leb_spec x y), (Z.leb_spec y x), (Z.leb_spec x z), (Z.leb_spec y z); try reflexivity; try lia.
      assert (x = y) by lia. subst. reflexivity.
    + destruct (Z.leb_spec x y), (Z.leb_spec y z), (Z.leb_spec x z); try reflexivity; lia.
    + destruct (Z.leb_spec y x), (Z.leb_spec y z), (Z.leb_spec x z); try reflexivity; lia.
    + destruct (Z.leb_spec x z), (Z.leb_spec y z); try lia. rewrite IH. reflexivity.
Qed.

Lemma zsort_perm : forall l l', Permutation l l' -> zsort l = zsort l'.
Proof.
  induction 1; cbn [zsort fold_right]; try reflexivity.
  - fold (zsort l). fold (zsort l'). rewrite IHPermutation. reflexivity.
  - fold (zsort l). apply zinsert_comm.
  - congruence.
Qed.

Lemma zinsert_perm : forall x s, Permutation (x :: s) (zinsert x s).
Proof.
  intros x s. induction s as [|y s IH]; cbn [zinsert]; [reflexivity|].
  destruct (x <=? y); [reflexivity|]. rewrite perm_swap. constructor. exact IH.
Qed.

Lemma zsort_is_perm : forall l, Permutation l (zsort l).
Proof.
  induction l as [|x l IH]; [reflexivity|]. cbn [zsort fold_right]. fold (zsort l).
  rewrite <- zinsert_perm. constructor. exact IH.
Qed.

Lemma zsum_perm : forall l l', Permutation l l' -> zsum l = zsum l'.
Proof. induction 1; simpl; lia. Qed.

Lemma zinsert_sorted : forall x s, StronglySorted Z.le s -> StronglySorted Z.le (zinsert x s).
Proof.
  intros x s H. induction H as [|y s Hs IH Hy]; cbn [zinsert].
  - constructor; constructor.
  - destruct (Z.leb_spec x y).
    + constructor; [constructor; assumption|]. constructor; [assumption|].
      rewrite Forall_forall in *. intros z Hz. specialize (Hy z Hz). lia.
    + constructor; [exact IH|]. rewrite Forall_forall in *. intros z Hz.
      apply (Permutation_in _ (Permutation_sym (zinsert_perm x s))) in Hz. destruct Hz as [<-|Hz]; [lia|auto].
Qed.

Lemma zsort_sorted : forall l, StronglySorted Z.le (zsort l).
Proof.
  induction l as [|x l IH]; [constructor|]. cbn [zsort fold_right]. fold (zsort l). apply zinsert_sorted. exact IH.
Qed.

Lemma zsort_length : forall l, length (zsort l) = length l.
Proof. intros l. symmetry. apply Permutation_length. apply zsort_is_perm. Qed.

(* shifting the window to the right in a sorted list does not decrease the sum *)
Lemma sorted_shift : forall s y j, StronglySorted Z.le (y :: s) -> (j <= length s)%nat ->
  zsum (firstn j (y :: s)) <= zsum (firstn j s).
Proof.
  induction s as [|z s IH]; intros y j H L; simpl in L.
  - assert (j = O) by lia. subst. simpl. lia.
  - destruct j as [|j]; [simpl; lia|].
    cbn [firstn zsum fold_right]. inversion H as [|? ? Hs Hy]; subst.
    assert (y <= z) by (inversion Hy; assumption).
    specialize (IH z j Hs ltac:(lia)). cbn [firstn zsum fold_right] in IH. unfold zsum in *. lia.
Qed.

Lemma firstn_insert_le : forall s x j, StronglySorted Z.le s -> (j <= length s)%nat ->
  zsum (firstn j (zinsert x s)) <= zsum (firstn j s).
Proof.
  induction s as [|y s IH]; intros x j H L; simpl in L.
  - assert (j = O) by lia. subst. simpl. lia.
  - destruct j as [|j]; [simpl; lia|]. cbn [zinsert]. destruct (Z.leb_spec x y).
    + cbn [firstn]. change (zsum (x :: firstn j (y :: s))) with (x + zsum (firstn j (y :: s))).
      change (zsum (y :: firstn j s)) with (y + zsum (firstn j s)).
      pose proof (sorted_shift s y j H ltac:(lia)). lia.
    + cbn [firstn]. change (zsum (y :: firstn j (zinsert x s))) with (y + zsum (firstn j (zinsert x s))).
      change (zsum (y :: firstn j s)) with (y + zsum (firstn j s)).
      inversion H; subst. specialize (IH x j ltac:(assumption) ltac:(lia)). lia.
Qed.

Lemma firstn_insert_S : forall s x j, zsum (firstn (S j) (zinsert x s)) <= zsum (firstn j s) + x.
Proof.
  induction s as [|y s IH]; intros x j.
  - cbn [zinsert firstn]. destruct j; simpl; lia.
  - cbn [zinsert]. destruct (Z.leb_spec x y).
    + cbn [firstn]. change (zsum (x :: firstn j (y :: s))) with (x + zsum (firstn j (y :: s))). lia.
    + change (firstn (S j) (y :: zinsert x s)) with (y :: firstn j (zinsert x s)).
      change (zsum (y :: firstn j (zinsert x s))) with (y + zsum (firstn j (zinsert x s))).
      destruct j as [|j]; [simpl; lia|].
      specialize (IH x j). change (firstn (S j) (y :: s)) with (y :: firstn j s).
      change (zsum (y :: firstn j s)) with (y + zsum (firstn j s)). lia.
Qed.

Lemma firstn_S_nonneg : forall s j, Forall (fun x => 0 <= x) s -> zsum (firstn j s) <= zsum (firstn (S j) s).
Proof.
  induction s as [|y s IH]; intros j H; [destruct j; simpl; lia|].
  inversion H; subst. destruct j as [|j].
  - simpl. pose proof (zsum_nonneg (firstn 0 s)). simpl in *. lia.
  - change (firstn (S (S j)) (y :: s)) with (y :: firstn (S j) s).
    change (firstn (S j) (y :: s)) with (y :: firstn j s).
    change (zsum (y :: firstn (S j) s)) with (y + zsum (firstn (S j) s)).
    change (zsum (y :: firstn j s)) with (y + zsum (firstn j s)).
    specialize (IH j ltac:(assumption)). lia.
Qed.

Lemma zsort_nonneg : forall l, Forall (fun x => 0 <= x) l -> Forall (fun x => 0 <= x) (zsort l).
Proof.
  intros l H. rewrite Forall_forall in *. intros x Hx.
  apply H. apply (Permutation_in _ (Permutation_sym (zsort_is_perm l))). exact Hx.
Qed.

(* the pool grows by x: the sum of the j smallest can only fall; one more element costs at most x more *)
Lemma ss_cons_le : forall x l j, (j <= length l)%nat -> sum_smallest j (x :: l) <= sum_smallest j l.
Proof.
  intros x l j L. unfold sum_smallest. cbn [zsort fold_right]. fold (zsort l).
  apply firstn_insert_le; [apply zsort_sorted|rewrite zsort_length; exact L].
Qed.

Lemma ss_cons_S : forall x l j, sum_smallest (S j) (x :: l) <= sum_smallest j l + x.
Proof.
  intros x l j. unfold sum_smallest. cbn [zsort fold_right]. fold (zsort l). apply firstn_insert_S.
Qed.

Lemma ss_S_nonneg : forall l j, Forall (fun x => 0 <= x) l -> sum_smallest j l <= sum_smallest (S j) l.
Proof. intros l j H. unfold sum_smallest. apply firstn_S_nonneg. apply zsort_nonneg. exact H. Qed.

Lemma ss_nonneg : forall l j, Forall (fun x => 0 <= x) l -> 0 <= sum_smallest j l.
Proof.
  intros l j H. unfold sum_smallest. apply zsum_nonneg.
  pose proof (zsort_nonneg l H) as H'. rewrite Forall_forall in *. intros x Hx. apply H'.
  apply (in_firstn _ j x Hx).
Qed.

(* ---------------------------------------------------------------- lists of minima, fringe diagonals *)
Lemma fold_min_le_init : forall l x, fold_right Z.min x l <= x.
Proof. induction l; intros; simpl; [lia|specialize (IHl x); lia]. Qed.

Lemma fold_min_le_in : forall l x y, In y l -> fold_right Z.min x l <= y.
Proof. induction l; intros x y H; simpl in *; [contradiction|]. destruct H as [<-|H]; [lia|]. specialize (IHl x y H). lia. Qed.

Lemma zmin_list_le : forall l x, In x l -> zmin_list l <= x.
Proof.
  intros [|y l] x H; [contradiction|]. cbn [zmin_list]. destruct H as [<-|H]; [apply fold_min_le_init|apply fold_min_le_in; exact H].
Qed.

Lemma fold_min_ge : forall l x b, b <= x -> (forall y, In y l -> b <= y) -> b <= fold_right Z.min x l.
Proof. induction l; intros x b Hx H; simpl; [exact Hx|]. apply Z.min_glb; [apply H; left; reflexivity|apply IHl; [exact Hx|intros; apply H; right; assumption]]. Qed.

Lemma zmin_list_ge : forall l b, l <> [] -> (forall y, In y l -> b <= y) -> b <= zmin_list l.
Proof.
  intros [|y l] b N H; [congruence|]. cbn [zmin_list]. apply fold_min_ge; [apply H; left; reflexivity|intros; apply H; right; assumption].
Qed.

Lemma in_diag : forall m n k r c, In (r, c) (diag m n k) <-> (r + c = k /\ r <= m /\ c <= n)%nat.
Proof.
  intros m n k r c. unfold diag. rewrite filter_In, in_map_iff. cbn [snd]. rewrite Nat.leb_le. split.
  - intros [(r' & E & Hr) Hc]. injection E as -> <-. rewrite <- in_rev, in_seq in Hr. lia.
  - intros (E & Hr & Hc). split; [|exact Hc]. exists r. split; [f_equal; lia|]. rewrite <- in_rev, in_seq. lia.
Qed.

Lemma diag_nonempty : forall m n k, (k <= m + n)%nat -> diag m n k <> [].
Proof.
  intros m n k H E.
  assert (I : In (Nat.min k m, (k - Nat.min k m)%nat) (diag m n k)) by (apply in_diag; lia).
  rewrite E in I. contradiction.
Qed.

(* ---------------------------------------------------------------- the cost matrix *)
Lemma nth_nonneg : forall l i, Forall (fun x => 0 <= x) l -> 0 <= nth i l 0.
Proof.
  intros l i H. destruct (Nat.lt_ge_cases i (length l)) as [L|L].
  - rewrite Forall_forall in H. apply H. apply nth_In. exact L.
  - rewrite nth_overflow by exact L. lia.
Qed.

Lemma zsum_firstn_S : forall l i, (i < length l)%nat -> zsum (firstn (S i) l) = zsum (firstn i l) + nth i l 0.
Proof. intros l i H. rewrite (firstn_S_nth l i 0 H), zsum_app. simpl. lia. Qed.

Lemma rev_firstn_S : forall l i, (i < length l)%nat -> rev (firstn (S i) l) = nth i l 0 :: rev (firstn i l).
Proof. intros l i H. rewrite (firstn_S_nth l i 0 H), rev_app_distr. reflexivity. Qed.

Section Matrix.
  Variables (rc ic : list Z) (mcs : list (list Z)).
  Hypothesis Hd : dims_ok rc ic mcs.
  Hypothesis Hrc : Forall (fun x => 0 <= x) rc.
  Hypothesis Hic : Forall (fun x => 0 <= x) ic.
  Hypothesis Hmc : Forall (Forall (fun x => 0 <= x)) mcs.

  Let n := length rc.
  Let m := length ic.
  Definition cc (r c : nat) : Z := ccost (cell_at (matrix rc ic mcs) r c).
  Definition mcv (r c : nat) : Z := nth c (nth r mcs []) 0.

  Lemma mcv_nonneg : forall r c, 0 <= mcv r c.
  Proof.
    intros r c. unfold mcv. apply nth_nonneg.
    destruct (Nat.lt_ge_cases r (length mcs)) as [L|L].
    - rewrite Forall_forall in Hmc. apply Hmc. apply nth_In. exact L.
    - rewrite nth_overflow by exact L. constructor.
  Qed.

  (* every cell is a predecessor's cost plus the cost of one edit *)
  Lemma cell_step : forall r c, (r <= m)%nat -> (c <= n)%nat ->
    (r = O /\ c = O /\ cc r c = 0) \/
    (exists c', c = S c' /\ cc r c = cc r c' + nth c' rc 0) \/
    (exists r', r = S r' /\ cc r c = cc r' c + nth r' ic 0) \/
    (exists r' c', r = S r' /\ c = S c' /\ cc r c = cc r' c' + mcv r' c' /\
                   mcv r' c' < nth r' ic 0 /\ mcv r' c' < nth c' rc 0).
  Proof.
    intros r c Hr Hc. unfold cc. destruct r as [|r], c as [|c].
    - left. auto.
    - right. left. exists c. split; [reflexivity|]. rewrite (cell_0S rc ic mcs c) by (fold n; lia). reflexivity.
    - right. right. left. exists r. split; [reflexivity|]. rewrite (cell_S0 rc ic mcs Hd r) by (fold m; lia). reflexivity.
    - rewrite (cell_SS rc ic mcs Hd r c) by (fold m n; lia).
      destruct (best_cases (cell_at (matrix rc ic mcs) r c) (cell_at (matrix rc ic mcs) (S r) c)
                           (cell_at (matrix rc ic mcs) r (S c)) (nth c (nth r mcs []) 0) (nth r ic 0) (nth c rc 0))
        as [(_ & Cq & L1 & L2)|[(_ & Cq)|(_ & Cq)]]; rewrite Cq.
      + right. right. right. exists r, c. unfold mcv. auto.
      + right. right. left. exists r. auto.
      + right. left. exists c. auto.
  Qed.

  (* upper bound: removing and inserting everything *)
  Lemma cc_upper : forall s r c, (r + c = s)%nat -> (r <= m)%nat -> (c <= n)%nat ->
    cc r c <= zsum (firstn c rc) + zsum (firstn r ic).
  Proof.
    induction s as [s IH] using lt_wf_ind. intros r c Hs Hr Hc.
    destruct (cell_step r c Hr Hc) as [(-> & -> & E)|[(c' & -> & E)|[(r' & -> & E)|(r' & c' & -> & -> & E & L1 & L2)]]].
    - rewrite E. simpl. lia.
    - rewrite E, zsum_firstn_S by (fold n; lia). specialize (IH (r + c')%nat ltac:(lia) r c' eq_refl Hr ltac:(lia)). lia.
    - rewrite E, (zsum_firstn_S ic) by (fold m; lia). specialize (IH (r' + c)%nat ltac:(lia) r' c eq_refl ltac:(lia) Hc). lia.
    - rewrite E, zsum_firstn_S by (fold n; lia). rewrite (zsum_firstn_S ic) by (fold m; lia).
      specialize (IH (r' + c')%nat ltac:(lia) r' c' eq_refl ltac:(lia) ltac:(lia)).
      pose proof (nth_nonneg rc c' Hrc). lia.
  Qed.

  (* a diagonal step is strictly below that bound *)
  Lemma cc_nonneg : forall s r c, (r + c = s)%nat -> (r <= m)%nat -> (c <= n)%nat -> 0 <= cc r c.
  Proof.
    induction s as [s IH] using lt_wf_ind. intros r c Hs Hr Hc.
    destruct (cell_step r c Hr Hc) as [(-> & -> & E)|[(c' & -> & E)|[(r' & -> & E)|(r' & c' & -> & -> & E & L1 & L2)]]].
    - lia.
    - specialize (IH (r + c')%nat ltac:(lia) r c' eq_refl Hr ltac:(lia)). pose proof (nth_nonneg rc c' Hrc). lia.
    - specialize (IH (r' + c)%nat ltac:(lia) r' c eq_refl ltac:(lia) Hc). pose proof (nth_nonneg ic r' Hic). lia.
    - specialize (IH (r' + c')%nat ltac:(lia) r' c' eq_refl ltac:(lia) ltac:(lia)). pose proof (mcv_nonneg r' c'). lia.
  Qed.

  (* lower bound: at least |c - r| elements of the longer prefix are removed (inserted), each at its own cost *)
  Definition lbc (r c : nat) : Z :=
    if (r <=? c)%nat then sum_smallest (c - r) (rev (firstn c rc)) else sum_smallest (r - c) (rev (firstn r ic)).

  Lemma Forall_rev_firstn : forall l i, Forall (fun x => 0 <= x) l -> Forall (fun x => 0 <= x) (rev (firstn i l)).
  Proof.
    intros l i H. rewrite Forall_forall in H. apply Forall_forall. intros x Hx. apply H. rewrite <- in_rev in Hx.
    apply (in_firstn _ i x Hx).
  Qed.

  Lemma rev_firstn_length : forall (l : list Z) i, (i <= length l)%nat -> length (rev (firstn i l)) = i.
  Proof. intros l i H. rewrite rev_length, firstn_length. lia. Qed.

  Lemma cc_lower : forall s r c, (r + c = s)%nat -> (r <= m)%nat -> (c <= n)%nat -> lbc r c <= cc r c.
  Proof.
    induction s as [s IH] using lt_wf_ind. intros r c Hs Hr Hc.
    destruct (cell_step r c Hr Hc) as [(-> & -> & E)|[(c' & -> & E)|[(r' & -> & E)|(r' & c' & -> & -> & E & L1 & L2)]]].
    - rewrite E. unfold lbc, sum_smallest. simpl. lia.
    - rewrite E. specialize (IH (r + c')%nat ltac:(lia) r c' eq_refl Hr ltac:(lia)).
      pose proof (nth_nonneg rc c' Hrc) as P. unfold lbc in *.
      destruct (Nat.leb_spec r (S c')), (Nat.leb_spec r c'); try lia.
      + rewrite rev_firstn_S by (fold n; lia). replace (S c' - r)%nat with (S (c' - r)) by lia.
        pose proof (ss_cons_S (nth c' rc 0) (rev (firstn c' rc)) (c' - r)). lia.
      + assert (r = S c') by lia. subst r. replace (S c' - S c')%nat with O by lia.
        unfold sum_smallest at 1. simpl.
        pose proof (ss_nonneg (rev (firstn (S c') ic)) (S c' - c') (Forall_rev_firstn ic _ Hic)). lia.
      + pose proof (ss_S_nonneg (rev (firstn r ic)) (r - S c') (Forall_rev_firstn ic _ Hic)) as Q.
        replace (S (r - S c')) with (r - c')%nat in Q by lia. lia.
    - rewrite E. specialize (IH (r' + c)%nat ltac:(lia) r' c eq_refl ltac:(lia) Hc).
      pose proof (nth_nonneg ic r' Hic) as P. unfold lbc in *.
      destruct (Nat.leb_spec (S r') c), (Nat.leb_spec r' c); try lia.
      + pose proof (ss_S_nonneg (rev (firstn c rc)) (c - S r') (Forall_rev_firstn rc _ Hrc)) as Q.
        replace (S (c - S r')) with (c - r')%nat in Q by lia. lia.
      + assert (c = r') by lia. subst c. rewrite rev_firstn_S by (fold m; lia).
        replace (S r' - r')%nat with 1%nat by lia. replace (r' - r')%nat with O in IH by lia.
        pose proof (ss_cons_S (nth r' ic 0) (rev (firstn r' ic)) 0) as Q. unfold sum_smallest at 2 in Q. simpl in Q.
        change (sum_smallest 0 (rev (firstn r' rc))) with 0 in IH. lia.
      + rewrite rev_firstn_S by (fold m; lia). replace (S r' - c)%nat with (S (r' - c)) by lia.
        pose proof (ss_cons_S (nth r' ic 0) (rev (firstn r' ic)) (r' - c)). lia.
    - rewrite E. specialize (IH (r' + c')%nat ltac:(lia) r' c' eq_refl ltac:(lia) ltac:(lia)).
      pose proof (mcv_nonneg r' c') as P. unfold lbc in *. cbn [Nat.leb]. replace (S c' - S r')%nat with (c' - r')%nat by lia.
      replace (S r' - S c')%nat with (r' - c')%nat by lia.
      destruct (Nat.leb_spec r' c').
      + rewrite rev_firstn_S by (fold n; lia).
        pose proof (ss_cons_le (nth c' rc 0) (rev (firstn c' rc)) (c' - r')
                               ltac:(rewrite rev_firstn_length by (fold n; lia); lia)). lia.
      + rewrite rev_firstn_S by (fold m; lia).
        pose proof (ss_cons_le (nth r' ic 0) (rev (firstn r' ic)) (r' - c')
                               ltac:(rewrite rev_firstn_length by (fold m; lia); lia)). lia.
  Qed.

  (* every cell but (0,0) has a predecessor on one of the two previous diagonals that costs no more *)
  Lemma cc_pred : forall r c, (r <= m)%nat -> (c <= n)%nat -> (1 <= r + c)%nat ->
    exists r' c', (r' <= m)%nat /\ (c' <= n)%nat /\ (r' + c' < r + c)%nat /\ (r + c <= r' + c' + 2)%nat /\ cc r' c' <= cc r c.
  Proof.
    intros r c Hr Hc H1.
    destruct (cell_step r c Hr Hc) as [(-> & -> & E)|[(c' & -> & E)|[(r' & -> & E)|(r' & c' & -> & -> & E & L1 & L2)]]].
    - lia.
    - exists r, c'. pose proof (nth_nonneg rc c' Hrc). repeat split; lia.
    - exists r', c. pose proof (nth_nonneg ic r' Hic). repeat split; lia.
    - exists r', c'. pose proof (mcv_nonneg r' c'). repeat split; lia.
  Qed.

  (* minimum over a fringe diagonal / over the fringe and the previous one *)
  Definition gmin (k : nat) : Z := zmin_list (map (fun p => cc (fst p) (snd p)) (diag m n k)).
  Definition hmin (j : nat) : Z := Z.min (gmin j) (gmin (j - 1)).

  Lemma gmin_le : forall r c, (r <= m)%nat -> (c <= n)%nat -> gmin (r + c) <= cc r c.
  Proof.
    intros r c Hr Hc. unfold gmin. apply zmin_list_le.
    apply (in_map (fun p => cc (fst p) (snd p)) _ (r, c)). apply in_diag. lia.
  Qed.

  (* the fringe bound: every cell on the fringe diagonals or beyond costs at least the fringe minimum *)
  Lemma fringe_min_le : forall j s r c, (r + c = s)%nat -> (r <= m)%nat -> (c <= n)%nat -> (j <= s + 1)%nat ->
    hmin j <= cc r c.
  Proof.
    intros j. induction s as [s IH] using lt_wf_ind. intros r c Hs Hr Hc Hj. unfold hmin.
    destruct (Nat.eq_dec s j) as [E|N1]; [subst j; rewrite <- Hs; pose proof (gmin_le r c Hr Hc); lia|].
    destruct (Nat.eq_dec s (j - 1)) as [E|N2].
    { rewrite <- E, <- Hs. pose proof (gmin_le r c Hr Hc). lia. }
    destruct (cc_pred r c Hr Hc ltac:(lia)) as (r' & c' & Hr' & Hc' & L1 & L2 & Le).
    specialize (IH (r' + c')%nat ltac:(lia) r' c' eq_refl Hr' Hc' ltac:(lia)). unfold hmin in IH. lia.
  Qed.

  (* it is non-decreasing along the diagonals *)
  Lemma hmin_mono : forall j, (1 <= j)%nat -> (S j <= m + n)%nat -> hmin j <= hmin (S j).
  Proof.
    intros j H1 H2. unfold hmin at 2. replace (S j - 1)%nat with j by lia. apply Z.min_glb.
    - unfold gmin. apply zmin_list_ge.
      + intros E. apply map_eq_nil in E. revert E. apply diag_nonempty. fold m n. lia.
      + intros y Hy. apply in_map_iff in Hy. destruct Hy as ([r c] & <- & Hi). apply in_diag in Hi. cbn [fst snd].
        apply (fringe_min_le j (r + c) r c eq_refl); lia.
    - unfold hmin. lia.
  Qed.
End Matrix.

(* ---------------------------------------------------------------- updating matrices *)
Lemma set_nth_length : forall {A} (l : list A) i x, length (set_nth i x l) = length l.
Proof. induction l as [|y l IH]; intros [|i] x; simpl; auto. Qed.

Lemma nth_set_nth_eq : forall {A} (l : list A) i x d, (i < length l)%nat -> nth i (set_nth i x l) d = x.
Proof. induction l as [|y l IH]; intros [|i] x d H; simpl in *; try lia; auto. apply IH. lia. Qed.

Lemma nth_set_nth_neq : forall {A} (l : list A) i j x d, i <> j -> nth j (set_nth i x l) d = nth j l d.
Proof.
  induction l as [|y l IH]; intros [|i] [|j] x d H; simpl; try reflexivity; try congruence. apply IH. congruence.
Qed.

Lemma nth_error_set_nth_eq : forall {A} (l : list A) i x, (i < length l)%nat -> nth_error (set_nth i x l) i = Some x.
Proof. induction l as [|y l IH]; intros [|i] x H; simpl in *; try lia; auto. apply IH. lia. Qed.

Lemma nth_error_set_nth_neq : forall {A} (l : list A) i j x, i <> j -> nth_error (set_nth i x l) j = nth_error l j.
Proof.
  induction l as [|y l IH]; intros [|i] [|j] x H; simpl; try reflexivity; try congruence. apply IH. congruence.
Qed.

Lemma set2_length : forall {A} (mx : list (list A)) r c x, length (set2 mx r c x) = length mx.
Proof. intros. unfold set2. apply set_nth_length. Qed.

Lemma set2_row : forall {A} (mx : list (list A)) r c x r', (r < length mx)%nat ->
  nth r' (set2 mx r c x) [] = if Nat.eqb r' r then set_nth c x (nth r mx []) else nth r' mx [].
Proof.
  intros A mx r c x r' H. unfold set2. destruct (Nat.eqb_spec r' r) as [->|N].
  - apply nth_set_nth_eq. exact H.
  - apply nth_set_nth_neq. congruence.
Qed.

Lemma set2_row_length : forall {A} (mx : list (list A)) r c x r', (r < length mx)%nat ->
  length (nth r' (set2 mx r c x) []) = length (nth r' mx []).
Proof.
  intros A mx r c x r' H. rewrite set2_row by exact H. destruct (Nat.eqb_spec r' r) as [->|N]; [apply set_nth_length|reflexivity].
Qed.

Lemma cell_at_set2 : forall mx r c x r' c', (r < length mx)%nat -> (c < length (nth r mx []))%nat ->
  cell_at (set2 mx r c x) r' c' = if Nat.eqb r' r && Nat.eqb c' c then x else cell_at mx r' c'.
Proof.
  intros mx r c x r' c' H1 H2. unfold cell_at. rewrite set2_row by exact H1.
  destruct (Nat.eqb_spec r' r) as [->|N]; [|reflexivity]. cbn [andb].
  destruct (Nat.eqb_spec c' c) as [->|N2]; [apply nth_set_nth_eq; exact H2|apply nth_set_nth_neq; congruence].
Qed.

Lemma nth_error_set2 : forall {A} (mx : list (list A)) r c x r' c', (r < length mx)%nat -> (c < length (nth r mx []))%nat ->
  nth_error (nth r' (set2 mx r c x) []) c' =
  if Nat.eqb r' r && Nat.eqb c' c then Some x else nth_error (nth r' mx []) c'.
Proof.
  intros A mx r c x r' c' H1 H2. rewrite set2_row by exact H1.
  destruct (Nat.eqb_spec r' r) as [->|N]; [|reflexivity]. cbn [andb].
  destruct (Nat.eqb_spec c' c) as [->|N2]; [apply nth_error_set_nth_eq; exact H2|apply nth_error_set_nth_neq; congruence].
Qed.

Lemma nth_repeat' : forall {A} (x d : A) k i, (i < k)%nat -> nth i (repeat x k) d = x.
Proof. intros A x d k. induction k as [|k IH]; intros [|i] H; simpl; try lia; auto. apply IH. lia. Qed.

(* ---------------------------------------------------------------- the EditDistance machine *)
Ltac rsimp := cbn [set_cost set_d set_kid set_done set_err e_K e_U e_rc e_ic e_err e_kids e_cost e_done e_d].
Ltac rsimp_in H := cbn [set_cost set_d set_kid set_done set_err e_K e_U e_rc e_ic e_err e_kids e_cost e_done e_d] in H.

Section EDContract.
  Variable C : machine.
  Variables (K U : Z) (rc ic : list Z) (mcs : list (list Z)).
  Hypothesis Hd : dims_ok rc ic mcs.
  Hypothesis Hrc : Forall (fun x => 0 <= x) rc.
  Hypothesis Hic : Forall (fun x => 0 <= x) ic.
  Hypothesis Hmc : Forall (Forall (fun x => 0 <= x)) mcs.
  Let n := length rc.
  Let m := length ic.
  Hypothesis HK0 : 0 <= K.
  Hypothesis HK : K <= lbc rc ic m n.
  Hypothesis HU : zsum rc + zsum ic <= U.

  Notation Mx := (matrix rc ic mcs).
  Notation ccm := (cc rc ic mcs).
  Notation hm := (hmin rc ic mcs).
  Let F := ccm m n.

  Lemma F_upper : F <= U.
  Proof.
    pose proof (cc_upper rc ic mcs Hd Hrc (m + n) m n eq_refl (le_n _) (le_n _)) as H.
    unfold n, m in H. rewrite !firstn_all in H. unfold F, m, n. lia.
  Qed.

  Lemma F_lower : K <= F.
  Proof. pose proof (cc_lower rc ic mcs Hd Hrc Hic Hmc (m + n) m n eq_refl (le_n _) (le_n _)). unfold F. fold m n in H. lia. Qed.

  (* bounds() of a state whose matrix is not complete, as a function of the number of started diagonals *)
  Definition babs (d : nat) : zr :=
    if Nat.eqb n 0 && Nat.eqb m 0 && (K =? 0) then (0, 0)
    else if Nat.leb d 1 || Nat.eqb m 0 then (K, U)
    else (Z.max K (hm (d - 1)), U).

  Lemma F_00 : n = O -> m = O -> F = 0.
  Proof. intros E1 E2. unfold F. rewrite E1, E2. reflexivity. Qed.

  Lemma babs_sound : forall d, (d <= m + n)%nat -> fst (babs d) <= F <= snd (babs d).
  Proof.
    intros d H. unfold babs. pose proof F_upper. pose proof F_lower.
    destruct (Nat.eqb n 0 && Nat.eqb m 0 && (K =? 0)) eqn:E.
    - apply andb_true_iff in E. destruct E as [E _]. apply andb_true_iff in E. destruct E as [E1 E2].
      apply Nat.eqb_eq in E1. apply Nat.eqb_eq in E2. rewrite (F_00 E1 E2). simpl. lia.
    - destruct (Nat.leb d 1 || Nat.eqb m 0) eqn:E2; cbn [fst snd]; [lia|].
      apply orb_false_iff in E2. destruct E2 as [E2 E3]. apply Nat.leb_gt in E2.
      pose proof (fringe_min_le rc ic mcs Hd Hrc Hic Hmc (d - 1) (m + n) m n eq_refl (le_n _) (le_n _)) as Q.
      fold m n in Q. specialize (Q ltac:(lia)). fold F in Q. lia.
  Qed.

  Lemma babs_step : forall d, (S d <= m + n)%nat -> zcontains (babs d) (babs (S d)).
  Proof.
    intros d H. unfold babs.
    destruct (Nat.eqb n 0 && Nat.eqb m 0 && (K =? 0)); [apply contains_refl|].
    destruct (Nat.eqb m 0) eqn:Em; [rewrite !orb_true_r; apply contains_refl|]. rewrite !orb_false_r.
    destruct (Nat.leb_spec (S d) 1).
    - assert (d = O) by lia. subst d. cbn [Nat.leb]. apply contains_refl.
    - destruct (Nat.leb_spec d 1).
      + unfold zcontains. cbn [fst snd]. lia.
      + unfold zcontains. cbn [fst snd]. replace (S d - 1)%nat with (S (d - 1)) by lia.
        pose proof (hmin_mono rc ic mcs Hd Hrc Hic Hmc (d - 1) ltac:(lia)) as Q. fold m n in Q.
        specialize (Q ltac:(lia)). lia.
  Qed.

  (* ---- invariants *)
  Definition kids_inv (kids : list (list (St C))) : Prop :=
    length kids = m /\ (forall r, (r < m)%nat -> length (nth r kids []) = n) /\
    (forall r c x, (r < m)%nat -> (c < n)%nat -> nth_error (nth r kids []) c = Some x ->
                   ContractV false C x (mcv mcs r c)).
  Definition cdims (cost : list (list cell)) : Prop :=
    length cost = S m /\ forall r, (r <= m)%nat -> length (nth r cost []) = S n.
  (* a lower right cell that can still be tightened belongs to elements of positive remove + insert cost *)
  Definition lastpos (kids : list (list (St C))) : Prop :=
    (1 <= m)%nat -> (1 <= n)%nat -> forall x, nth_error (nth (m - 1) kids []) (n - 1) = Some x ->
    ~ zdefinitive (bnd C x) -> 0 < nth (m - 1) ic 0 + nth (n - 1) rc 0.
  Definition base (s : ed (St C)) : Prop :=
    e_K s = K /\ e_U s = U /\ e_rc s = rc /\ e_ic s = ic /\ e_err s = false /\ kids_inv (e_kids s) /\ cdims (e_cost s).
  Definition PInv (s : ed (St C)) (k : nat) (P : nat -> nat -> Prop) : Prop :=
    base s /\ e_done s = None /\ lastpos (e_kids s) /\
    forall r c, (r <= m)%nat -> (c <= n)%nat -> ((r + c < k)%nat \/ ((r + c = k)%nat /\ P r c)) ->
                cell_at (e_cost s) r c = cell_at Mx r c.
  Definition AInv (s : ed (St C)) : Prop :=
    (e_d s <= m + n)%nat /\ PInv s (e_d s) (fun r c => (r + c = 0)%nat).
  Definition EInv (s : ed (St C)) : Prop := AInv s \/ (base s /\ e_done s = Some F).

  Lemma base_em : forall s, base s -> em s = m /\ en s = n.
  Proof. intros s (_ & _ & E1 & E2 & _). unfold em, en. rewrite E1, E2. auto. Qed.

  (* bounds() of an incomplete state *)
  Lemma dmin_gmin : forall s k P j, PInv s k P -> (j < k)%nat -> dmin s j = gmin rc ic mcs j.
  Proof.
    intros s k P j (B & _ & _ & Hc) Hj. unfold dmin, gmin. destruct (base_em s B) as [-> ->]. fold m n.
    f_equal. apply map_ext_in. intros [r c] Hi. apply in_diag in Hi. cbn [fst snd]. unfold cc.
    rewrite Hc; [reflexivity|lia|lia|left; lia].
  Qed.

  Lemma ed_bnd_abs : forall s, AInv s -> ed_bnd s = babs (e_d s).
  Proof.
    intros s [Hle HP]. pose proof HP as (B & Dn & _ & _). destruct (base_em s B) as [Em En].
    destruct B as (EK & EU & _). unfold ed_bnd, babs. rewrite Em, En, Dn, EK, EU.
    destruct (Nat.eqb n 0 && Nat.eqb m 0 && (K =? 0)); [reflexivity|].
    destruct (Nat.leb (e_d s) 1 || Nat.eqb m 0) eqn:E; [reflexivity|].
    apply orb_false_iff in E. destruct E as [E _]. apply Nat.leb_gt in E.
    rewrite (dmin_gmin s _ _ (e_d s - 1) HP) by lia. rewrite (dmin_gmin s _ _ (e_d s - 2) HP) by lia.
    unfold hmin. replace (e_d s - 1 - 1)%nat with (e_d s - 2)%nat by lia. reflexivity.
  Qed.

  (* ---- _add_node for the border cells of diagonal k *)
  Lemma bstep_step_cell : forall p w d, bstep p w d = step_cell p w d.
  Proof. reflexivity. Qed.

  Lemma add_border_spec : forall s k, AInv s -> e_d s = k -> (k <= m + n)%nat ->
    PInv (add_border (set_d s (S k)) k) k (fun r c => r = O \/ c = O) /\
    e_d (add_border (set_d s (S k)) k) = S k.
  Proof.
    intros s k [Hle (B & Dn & Lp & Hc)] Ek Hk. rewrite Ek in Hc.
    destruct (base_em s B) as [Em En]. pose proof B as (EK & EU & Erc & Eic & Eerr & Kin & [Cl Cr]).
    unfold add_border. change (em (set_d s (S k))) with (em s). change (en (set_d s (S k))) with (en s).
    rewrite Em, En. change (e_cost (set_d s (S k))) with (e_cost s).
    change (e_rc (set_d s (S k))) with (e_rc s). change (e_ic (set_d s (S k))) with (e_ic s). rewrite Erc, Eic.
    set (s0 := set_d s (S k)).
    set (s1 := if Nat.leb 1 k && Nat.leb k n
               then set_cost s0 0 k (bstep (cell_at (e_cost s) 0 (k - 1)) (nth (k - 1) rc 0) DLeft) else s0).
    assert (B1 : base s1 /\ e_done s1 = None /\ e_kids s1 = e_kids s /\ e_d s1 = S k /\
                 forall r c, (r <= m)%nat -> (c <= n)%nat -> ((r + c < k)%nat \/ ((r + c = k)%nat /\ r = O)) ->
                             cell_at (e_cost s1) r c = cell_at Mx r c).
    { unfold s1, s0. clear s1 s0. destruct (Nat.leb 1 k && Nat.leb k n) eqn:E.
      - apply andb_true_iff in E. destruct E as [E1 E2]. apply Nat.leb_le in E1. apply Nat.leb_le in E2.
        rsimp.
        split; [|split; [exact Dn|split; [reflexivity|split; [reflexivity|]]]].
        + unfold base. rsimp. repeat split; try assumption; try apply Kin.
          * rewrite set2_length. exact Cl.
          * intros r Hr. rewrite set2_row_length by lia. apply Cr. exact Hr.
        + intros r c Hr Hcn Hcase. rewrite cell_at_set2 by (try rewrite (Cr O); lia).
          destruct (Nat.eqb_spec r 0) as [->|Nr]; cbn [andb].
          * destruct (Nat.eqb_spec c k) as [->|Nc].
            -- rewrite (Hc O (k - 1)%nat) by lia. rewrite bstep_step_cell.
               replace k with (S (k - 1)) at 3 by lia. symmetry. apply (cell_0S rc ic mcs). fold n. lia.
            -- apply Hc; try lia.
          * apply Hc; try lia.
      - split; [exact B|]. split; [exact Dn|]. split; [reflexivity|]. split; [reflexivity|].
        intros r c Hr Hcn [L|[E0 ->]]; [apply Hc; auto|].
        rsimp. simpl in E0. subst c.
        apply andb_false_iff in E. destruct E as [E|E]; [apply Nat.leb_gt in E|apply Nat.leb_gt in E; lia].
        assert (k = O) by lia. subst k. apply Hc; lia. }
    destruct B1 as (B1 & Dn1 & Ek1 & Ed1 & Hc1). pose proof B1 as (_ & _ & _ & _ & _ & _ & [Cl1 Cr1]).
    destruct (Nat.leb 1 k && Nat.leb k m) eqn:E.
    - apply andb_true_iff in E. destruct E as [E1 E2]. apply Nat.leb_le in E1. apply Nat.leb_le in E2.
      split; [|rsimp; exact Ed1].
      split; [|split; [exact Dn1|split; [rsimp; rewrite Ek1; exact Lp|]]].
      + destruct B1 as (A1 & A2 & A3 & A4 & A5 & A6 & A7).
        unfold base. rsimp. repeat split; try assumption; try apply A6.
        * rewrite set2_length. exact Cl1.
        * intros r Hr. rewrite set2_row_length by lia. apply Cr1. exact Hr.
      + intros r c Hr Hcn Hcase. rsimp. rewrite cell_at_set2 by (try rewrite (Cr1 k); lia).
        destruct (Nat.eqb_spec r k) as [->|Nr]; cbn [andb].
        * destruct (Nat.eqb_spec c 0) as [->|Nc].
          -- rewrite (Hc1 (k - 1)%nat O) by lia. rewrite bstep_step_cell.
             replace k with (S (k - 1)) at 3 by lia. symmetry. apply (cell_S0 rc ic mcs Hd). fold m. lia.
          -- apply Hc1; try lia.
        * apply Hc1; lia.
    - split; [|exact Ed1]. split; [exact B1|]. split; [exact Dn1|]. split; [rewrite Ek1; exact Lp|].
      intros r c Hr Hcn [L|[E0 [-> | ->]]]; [apply Hc1; auto|apply Hc1; auto|].
      apply andb_false_iff in E. destruct E as [E|E]; [apply Nat.leb_gt in E|apply Nat.leb_gt in E; lia].
      assert (k = O) by lia. subst k. apply Hc1; lia.
  Qed.

  (* ---- one inner cell of the fringe *)
  Lemma kid_lookup : forall s r c, base s -> (r < m)%nat -> (c < n)%nat ->
    exists x, kid_at s r c = Some x /\ ContractV false C x (mcv mcs r c).
  Proof.
    intros s r c (_ & _ & _ & _ & _ & (Kl & Kr & Kc) & _) Hr Hc. unfold kid_at.
    destruct (nth_error (nth r (e_kids s) []) c) as [x|] eqn:E.
    - exists x. split; [reflexivity|]. apply (Kc r c x Hr Hc E).
    - apply nth_error_None in E. rewrite (Kr r Hr) in E. lia.
  Qed.

  Lemma kids_inv_set : forall kids r c x, kids_inv kids -> (r < m)%nat -> (c < n)%nat ->
    ContractV false C x (mcv mcs r c) -> kids_inv (set2 kids r c x).
  Proof.
    intros kids r c x (Kl & Kr & Kc) Hr Hc Hx. split; [rewrite set2_length; exact Kl|]. split.
    - intros r' Hr'. rewrite set2_row_length by lia. apply Kr. exact Hr'.
    - intros r' c' y Hr' Hc' Hy. rewrite nth_error_set2 in Hy by (try rewrite (Kr r Hr); lia).
      destruct (Nat.eqb_spec r' r) as [->|N1]; cbn [andb] in Hy; [|apply (Kc r' c' y Hr' Hc' Hy)].
      destruct (Nat.eqb_spec c' c) as [->|N2]; [injection Hy as <-; exact Hx|apply (Kc r c' y Hr' Hc' Hy)].
  Qed.

  Lemma cell_value_correct : forall s k P r c v, PInv s k P -> (r + c = k)%nat -> (1 <= r <= m)%nat -> (1 <= c <= n)%nat ->
    v = mcv mcs (r - 1) (c - 1) -> cell_value s r c v = cell_at Mx r c.
  Proof.
    intros s k P r c v (B & _ & _ & Hc) Hk Hr Hcn ->. unfold cell_value.
    destruct B as (_ & _ & -> & -> & _).
    rewrite !Hc by (try lia; left; lia).
    destruct r as [|r]; [lia|]. destruct c as [|c]; [lia|].
    replace (S r - 1)%nat with r by lia. replace (S c - 1)%nat with c by lia.
    symmetry. apply (cell_SS rc ic mcs Hd); [fold m|fold n]; lia.
  Qed.

  Lemma proc_cell_spec : forall s k P r c, PInv s k P -> (r + c = k)%nat -> (1 <= r <= m)%nat -> (1 <= c <= n)%nat ->
    (k < m + n)%nat ->
    PInv (proc_cell (bnd C) (tig C) s r c) k (fun r' c' => P r' c' \/ (r' = r /\ c' = c)) /\
    e_d (proc_cell (bnd C) (tig C) s r c) = e_d s.
  Proof.
    intros s k P r c HP Hk Hr Hcn Hlt. pose proof HP as (B & Dn & Lp & Hc).
    destruct (kid_lookup s (r - 1) (c - 1) B ltac:(lia) ltac:(lia)) as (x & Ex & Cx).
    unfold proc_cell. rewrite Ex.
    destruct (run_fix_ok false C (fix_fuel (bnd C) x) x _ Cx ltac:(unfold fix_fuel; lia)) as (x' & Er & Cx' & Bx').
    rewrite Er. assert (D : zdefb (bnd C x') = true) by (rewrite Bx'; unfold zdefb; simpl; apply Z.eqb_refl).
    rewrite D. rewrite Bx'. cbn [fst].
    rewrite (cell_value_correct s k P r c _ HP Hk Hr Hcn eq_refl).
    pose proof B as (EK & EU & Erc & Eic & Eerr & Kin & [Cl Cr]). pose proof Kin as (Kl & Kr & Kc).
    split; [|reflexivity]. split; [|split; [exact Dn|split]].
    - unfold base. rsimp. repeat split; try assumption.
      + rewrite set2_length. exact Kl.
      + intros r' Hr'. rewrite set2_row_length by lia. apply Kr. exact Hr'.
      + apply (kids_inv_set (e_kids s) (r - 1) (c - 1) x' Kin ltac:(lia) ltac:(lia) Cx').
      + rewrite set2_length. exact Cl.
      + intros r' Hr'. rewrite set2_row_length by lia. apply Cr. exact Hr'.
    - rsimp. intros Hm Hn y Hy. rewrite nth_error_set2 in Hy by (try rewrite (Kr (r - 1)%nat); lia).
      assert (Ne : Nat.eqb (m - 1) (r - 1) && Nat.eqb (n - 1) (c - 1) = false).
      { apply andb_false_iff. destruct (Nat.eqb_spec (m - 1) (r - 1)); [|left; reflexivity].
        destruct (Nat.eqb_spec (n - 1) (c - 1)); [exfalso; lia|right; reflexivity]. }
      rewrite Ne in Hy. apply (Lp Hm Hn y Hy).
    - rsimp. intros r' c' Hr' Hc' Hcase. rewrite cell_at_set2 by (try rewrite (Cr r); lia).
      destruct (Nat.eqb_spec r' r) as [->|N1]; cbn [andb].
      + destruct (Nat.eqb_spec c' c) as [->|N2]; [reflexivity|]. apply Hc; try lia; tauto.
      + apply Hc; try lia; tauto.
  Qed.

  Lemma PInv_weaken : forall s k (P Q : nat -> nat -> Prop), PInv s k P ->
    (forall r c, (r <= m)%nat -> (c <= n)%nat -> (r + c = k)%nat -> Q r c -> P r c) -> PInv s k Q.
  Proof.
    intros s k P Q (B & Dn & Lp & Hc) Himp. split; [exact B|]. split; [exact Dn|]. split; [exact Lp|].
    intros r c Hr Hcn [L|[E Hq]]; apply Hc; auto.
  Qed.

  (* ---- the whole fringe diagonal *)
  Lemma proc_diag_fold : forall l s k P, PInv s k P -> (k < m + n)%nat ->
    (forall p, In p l -> (fst p + snd p = k)%nat /\ (fst p <= m)%nat /\ (snd p <= n)%nat) ->
    let s' := fold_left (fun s p => if Nat.leb 1 (fst p) && Nat.leb 1 (snd p)
                                    then proc_cell (bnd C) (tig C) s (fst p) (snd p) else s) l s in
    PInv s' k (fun r c => P r c \/ (In (r, c) l /\ (1 <= r)%nat /\ (1 <= c)%nat)) /\ e_d s' = e_d s.
  Proof.
    induction l as [|[r0 c0] l IH]; intros s k P HP Hk Hl; cbn zeta.
    - cbn [fold_left]. split; [|reflexivity]. apply (PInv_weaken s k P); [exact HP|]. intros r c _ _ _ [H|[[] _]]. exact H.
    - cbn [fold_left fst snd]. destruct (Hl (r0, c0) (or_introl eq_refl)) as (E0 & Hr0 & Hc0). cbn [fst snd] in *.
      assert (Hl' : forall p, In p l -> (fst p + snd p = k)%nat /\ (fst p <= m)%nat /\ (snd p <= n)%nat)
        by (intros p Hp; apply Hl; right; exact Hp).
      destruct (Nat.leb 1 r0 && Nat.leb 1 c0) eqn:E.
      + apply andb_true_iff in E. destruct E as [E1 E2]. apply Nat.leb_le in E1. apply Nat.leb_le in E2.
        destruct (proc_cell_spec s k P r0 c0 HP E0 ltac:(lia) ltac:(lia) Hk) as [HP1 Ed1].
        destruct (IH _ k _ HP1 Hk Hl') as [HP2 Ed2]. cbn zeta in HP2, Ed2. split; [|congruence].
        apply (PInv_weaken _ k _ _ HP2). intros r c _ _ _ [H|[[H|H] [H1 H2]]].
        * left. left. exact H.
        * injection H as <- <-. left. right. auto.
        * right. auto.
      + destruct (IH _ k _ HP Hk Hl') as [HP2 Ed2]. cbn zeta in HP2, Ed2. split; [|exact Ed2].
        apply (PInv_weaken _ k _ _ HP2). intros r c _ _ _ [H|[[H|H] [H1 H2]]].
        * left. exact H.
        * injection H as <- <-. apply andb_false_iff in E. destruct E as [E|E]; apply Nat.leb_gt in E; lia.
        * right. auto.
  Qed.

  (* one iteration of the loop: diagonal k becomes the fringe and is processed *)
  Lemma diag_step : forall s k, AInv s -> e_d s = k -> (k < m + n)%nat ->
    let s1 := add_border (set_d s (S k)) k in
    let s2 := if Nat.eqb k 0 then s1 else proc_diag (bnd C) (tig C) s1 k in
    AInv s2 /\ e_d s2 = S k.
  Proof.
    intros s k HA Ek Hk. cbn zeta.
    destruct (add_border_spec s k HA Ek ltac:(lia)) as [HP1 Ed1].
    set (s1 := add_border (set_d s (S k)) k) in *.
    assert (Adv : forall s2 (Q : nat -> nat -> Prop), PInv s2 k Q -> e_d s2 = S k ->
                  (forall r c, (r <= m)%nat -> (c <= n)%nat -> (r + c = k)%nat -> Q r c) -> AInv s2 /\ e_d s2 = S k).
    { intros s2 Q (B & Dn & Lp & Hc) Ed HQ. split; [|exact Ed]. split; [lia|]. rewrite Ed.
      split; [exact B|]. split; [exact Dn|]. split; [exact Lp|].
      intros r c Hr Hcn [L|[E E0]]; [|lia].
      destruct (Nat.eq_dec (r + c) k) as [Eq|Ne]; apply Hc; auto. left. lia. }
    destruct (Nat.eqb_spec k 0) as [->|Nk].
    - apply (Adv s1 _ HP1 Ed1). intros r c _ _ E. left. lia.
    - unfold proc_diag. pose proof HP1 as (B1 & _). destruct (base_em s1 B1) as [-> ->].
      destruct (proc_diag_fold (diag m n k) s1 k _ HP1 Hk) as [HP2 Ed2].
      { intros [r c] Hi. apply in_diag in Hi. cbn [fst snd]. lia. }
      cbn zeta in HP2, Ed2. apply (Adv _ _ HP2); [congruence|].
      intros r c Hr Hcn E. destruct r as [|r]; [left; left; reflexivity|]. destruct c as [|c]; [left; right; reflexivity|].
      right. split; [apply in_diag; lia|lia].
  Qed.

  (* ---- completion *)
  Lemma lbc_diag : forall r c, (r < m)%nat -> (c < n)%nat -> lbc rc ic (S r) (S c) <= lbc rc ic r c.
  Proof.
    intros r c Hr Hc. unfold lbc. cbn [Nat.leb]. replace (S c - S r)%nat with (c - r)%nat by lia.
    replace (S r - S c)%nat with (r - c)%nat by lia. destruct (Nat.leb_spec r c).
    - rewrite rev_firstn_S by (fold n; lia). apply ss_cons_le. rewrite rev_length, firstn_length. fold n. lia.
    - rewrite rev_firstn_S by (fold m; lia). apply ss_cons_le. rewrite rev_length, firstn_length. fold m. lia.
  Qed.

  Lemma babs_ne_F : forall d, (1 <= m)%nat -> (1 <= n)%nat -> 0 < nth (m - 1) ic 0 + nth (n - 1) rc 0 ->
    (d <= m + n)%nat -> babs d <> (F, F).
  Proof.
    intros d Hm Hn Hpos Hdle E.
    pose proof (cc_upper rc ic mcs Hd Hrc (m + n) m n eq_refl (le_n _) (le_n _)) as Up.
    pose proof (cc_upper rc ic mcs Hd Hrc (m - 1 + (n - 1)) (m - 1) (n - 1) eq_refl ltac:(fold m; lia) ltac:(fold n; lia)) as Up1.
    pose proof (cc_lower rc ic mcs Hd Hrc Hic Hmc (m - 1 + (n - 1)) (m - 1) (n - 1) eq_refl ltac:(fold m; lia) ltac:(fold n; lia)) as Lo1.
    pose proof (lbc_diag (m - 1) (n - 1) ltac:(lia) ltac:(lia)) as Ld.
    replace (S (m - 1)) with m in Ld by lia. replace (S (n - 1)) with n in Ld by lia.
    pose proof (zsum_firstn_S rc (n - 1) ltac:(fold n; lia)) as S1. pose proof (zsum_firstn_S ic (m - 1) ltac:(fold m; lia)) as S2.
    replace (S (n - 1)) with n in S1 by lia. replace (S (m - 1)) with m in S2 by lia.
    unfold n in S1 at 1. unfold m in S2 at 1. unfold n, m in Up. rewrite !firstn_all in *. fold m n in Up. fold F in Up.
    unfold babs in E.
    assert (Em : Nat.eqb m 0 = false) by (apply Nat.eqb_neq; lia). rewrite Em, andb_false_r, orb_false_r in E. cbn [andb] in E.
    destruct (Nat.leb d 1) eqn:Ed; injection E as E1 E2.
    - lia.
    - apply Nat.leb_gt in Ed.
      pose proof (fringe_min_le rc ic mcs Hd Hrc Hic Hmc (d - 1) (m - 1 + (n - 1)) (m - 1) (n - 1) eq_refl
                                ltac:(fold m; lia) ltac:(fold n; lia) ltac:(lia)) as Q.
      lia.
  Qed.

  Lemma ed_bnd_done : forall s, base s -> e_done s = Some F -> (1 <= m + n)%nat -> ed_bnd s = (F, F).
  Proof.
    intros s B Dn H. unfold ed_bnd. destruct (base_em s B) as [-> ->]. rewrite Dn.
    destruct (Nat.eqb_spec n 0), (Nat.eqb_spec m 0); try reflexivity. lia.
  Qed.

  Lemma finalize_spec : forall s d0, AInv s -> e_d s = (m + n)%nat -> (1 <= m + n)%nat -> (d0 <= m + n)%nat ->
    let res := finalize (bnd C) (tig C) (babs d0) s in
    base (fst res) /\ e_done (fst res) = Some F /\
    (snd res = true -> (F, F) <> babs d0) /\ (snd res = false -> (F, F) = babs d0).
  Proof.
    intros s d0 HA Ed H1 Hd0. cbn zeta. pose proof HA as [_ (B0 & _)]. destruct (base_em s B0) as [Em En].
    unfold finalize. rewrite Em, En.
    destruct (add_border_spec s (m + n) HA Ed (le_n _)) as [HP1 Ed1].
    set (s1 := add_border (set_d s (S (m + n))) (m + n)) in *.
    pose proof HP1 as (B1 & Dn1 & Lp1 & Hc1).
    pose proof (babs_sound d0 Hd0) as Snd.
    assert (Fin : forall ret, (ret = true -> (F, F) <> babs d0) ->
              ((ret || tighter (F, F) (babs d0)) = true -> (F, F) <> babs d0) /\
              ((ret || tighter (F, F) (babs d0)) = false -> (F, F) = babs d0)).
    { intros ret Hret. split.
      - intros R. apply orb_true_iff in R. destruct R as [R|R]; [apply Hret; exact R|].
        apply tighter_spec in R. cbn [fst snd] in R. intros E. rewrite <- E in R. cbn [fst snd] in R. lia.
      - intros R. apply orb_false_iff in R. destruct R as [_ R].
        apply (contained_not_tighter_eq (babs d0) (F, F)); [split; cbn [fst snd]; lia|exact R]. }
    destruct (Nat.leb 1 m && Nat.leb 1 n) eqn:E.
    - apply andb_true_iff in E. destruct E as [E1 E2]. apply Nat.leb_le in E1. apply Nat.leb_le in E2.
      destruct (kid_lookup s1 (m - 1) (n - 1) B1 ltac:(lia) ltac:(lia)) as (x & Ex & Cx). rewrite Ex.
      set (x1 := if zdefb (bnd C x) then x else fst (tig C x)).
      set (ret := if zdefb (bnd C x) then false else snd (tig C x)).
      assert (Cx1 : ContractV false C x1 (mcv mcs (m - 1) (n - 1))).
      { unfold x1. destruct (zdefb (bnd C x)); [exact Cx|apply cv_next; exact Cx]. }
      destruct (run_def_ok false C (fix_fuel (bnd C) x1) x1 _ Cx1 ltac:(unfold fix_fuel; lia)) as (x2 & Er & Cx2 & Bx2).
      rewrite Er. assert (D : zdefb (bnd C x2) = true) by (rewrite Bx2; unfold zdefb; simpl; apply Z.eqb_refl).
      rewrite D, Bx2. cbn [fst snd].
      change (cell_value (set_kid s1 (m - 1) (n - 1) x2) m n (mcv mcs (m - 1) (n - 1)))
        with (cell_value s1 m n (mcv mcs (m - 1) (n - 1))).
      rewrite (cell_value_correct s1 (m + n) _ m n _ HP1 eq_refl ltac:(lia) ltac:(lia) eq_refl).
      fold (ccm m n). fold F.
      pose proof B1 as (EK & EU & Erc & Eic & Eerr & Kin & [Cl Cr]). pose proof Kin as (Kl & Kr & Kc).
      split; [|split; [reflexivity|]].
      + unfold base. rsimp. repeat split; try assumption.
        * rewrite set2_length. exact Kl.
        * intros r' Hr'. rewrite set2_row_length by lia. apply Kr. exact Hr'.
        * apply (kids_inv_set (e_kids s1) (m - 1) (n - 1) x2 Kin ltac:(lia) ltac:(lia) Cx2).
        * rewrite set2_length. exact Cl.
        * intros r' Hr'. rewrite set2_row_length by lia. apply Cr. exact Hr'.
      + apply Fin. intros R. unfold ret in R. destruct (zdefb (bnd C x)) eqn:Dx; [discriminate|].
        apply zdefb_false in Dx. unfold kid_at in Ex.
        pose proof (Lp1 E1 E2 x Ex Dx) as Pos. intros Eq. apply (babs_ne_F d0 E1 E2 Pos Hd0). symmetry. exact Eq.
    - cbn [fst snd]. rewrite (Hc1 m n (le_n _) (le_n _)).
      2:{ right. split; [reflexivity|]. apply andb_false_iff in E. destruct E as [E|E]; apply Nat.leb_gt in E; lia. }
      fold (ccm m n). fold F. split; [|split; [reflexivity|]].
      + destruct B1 as (A1 & A2 & A3 & A4 & A5 & A6 & A7). unfold base. rsimp. repeat split; try assumption; apply A6 || apply A7.
      + specialize (Fin false ltac:(discriminate)). cbn [orb] in Fin. exact Fin.
  Qed.

  (* ---- the loop of tighten_bounds() *)
  Lemma ed_loop_spec : forall fuel s d0, AInv s -> (d0 <= e_d s)%nat -> (1 <= m + n)%nat -> ed_bnd s = babs d0 ->
    (m + n - e_d s < fuel)%nat ->
    let res := ed_loop (bnd C) (tig C) fuel (babs d0) s in
    EInv (fst res) /\ zcontains (babs d0) (ed_bnd (fst res)) /\
    (snd res = true -> ed_bnd (fst res) <> babs d0) /\
    (snd res = false -> zdefinitive (ed_bnd (fst res)) /\ ed_bnd (fst res) = babs d0).
  Proof.
    induction fuel as [|fuel IH]; intros s d0 HA Hd0 H1 Hb Hf; [lia|]. cbn zeta.
    pose proof HA as [Hle (B0 & _)]. destruct (base_em s B0) as [Em En].
    cbn [ed_loop]. rewrite Em, En.
    destruct (Nat.leb_spec (m + n) (e_d s)) as [L|L].
    - assert (Ed : e_d s = (m + n)%nat) by lia.
      destruct (finalize_spec s d0 HA Ed H1 ltac:(lia)) as (B & Dn & Rt & Rf). cbn zeta in *.
      set (res := finalize (bnd C) (tig C) (babs d0) s) in *.
      rewrite (ed_bnd_done (fst res) B Dn H1). pose proof (babs_sound d0 ltac:(lia)) as Snd.
      split; [right; split; assumption|]. split; [split; cbn [fst snd]; lia|]. split; [exact Rt|].
      intros R. split; [reflexivity|apply Rf; exact R].
    - destruct (diag_step s (e_d s) HA eq_refl L) as [HA2 Ed2]. cbn zeta in HA2, Ed2.
      set (s2 := if Nat.eqb (e_d s) 0 then add_border (set_d s (S (e_d s))) (e_d s)
                 else proc_diag (bnd C) (tig C) (add_border (set_d s (S (e_d s))) (e_d s)) (e_d s)) in *.
      pose proof HA2 as [_ ((_ & _ & _ & _ & Eerr & _) & _)]. rewrite Eerr.
      assert (Eb : babs d0 = babs (e_d s)) by (rewrite <- Hb; apply ed_bnd_abs; exact HA).
      pose proof (babs_step (e_d s) ltac:(lia)) as Cn. rewrite <- Eb in Cn.
      pose proof (ed_bnd_abs s2 HA2) as Eb2. rewrite Ed2 in Eb2. rewrite <- Eb2 in Cn.
      destruct (tighter (ed_bnd s2) (babs d0)) eqn:T.
      + cbn [fst snd]. split; [left; exact HA2|]. split; [exact Cn|]. split; [|discriminate].
        intros _ E. rewrite E in T. unfold tighter in T. apply orb_true_iff in T. destruct T as [T|T]; apply Z.ltb_lt in T; lia.
      + apply IH; try assumption; try lia. apply contained_not_tighter_eq; assumption.
  Qed.

  Lemma K_zero_when_empty : n = O -> m = O -> K = 0.
  Proof.
    intros E1 E2. pose proof HK as H. rewrite E1, E2 in H. unfold lbc, sum_smallest in H. simpl in H. lia.
  Qed.

  Lemma ed_step : forall s, EInv s -> step_ok true (edM C) EInv F s.
  Proof.
    intros s HE. unfold step_ok. cbn [edM St bnd tig]. unfold ed_tig.
    assert (B : base s) by (destruct HE as [[_ (B & _)]|[B _]]; exact B).
    destruct (base_em s B) as [Em En]. rewrite Em, En.
    destruct (Nat.eqb n 0 && Nat.eqb m 0) eqn:E0.
    - apply andb_true_iff in E0. destruct E0 as [E1 E2]. apply Nat.eqb_eq in E1. apply Nat.eqb_eq in E2.
      cbn [fst snd].
      assert (Eb : ed_bnd s = (0, 0)).
      { unfold ed_bnd. rewrite Em, En, E1, E2. destruct B as (-> & _). rewrite (K_zero_when_empty E1 E2). reflexivity. }
      rewrite Eb, (F_00 E1 E2). cbn [fst snd].
      split; [exact HE|]. split; [lia|]. split; [apply contains_refl|]. split; [discriminate|].
      intros _. split; reflexivity.
    - assert (H1 : (1 <= m + n)%nat).
      { apply andb_false_iff in E0. destruct E0 as [E|E]; apply Nat.eqb_neq in E; lia. }
      destruct HE as [HA|[_ Dn]].
      + pose proof HA as [Hle (_ & Dn & _)]. rewrite Dn.
        destruct B as (_ & _ & _ & _ & Eerr & _). rewrite Eerr.
        pose proof (ed_bnd_abs s HA) as Eb. rewrite Eb.
        destruct (ed_loop_spec (S (m + n)) s (e_d s) HA (le_n _) H1 Eb ltac:(lia)) as (I1 & I2 & I3 & I4).
        cbn zeta in *. pose proof (babs_sound (e_d s) Hle) as Snd.
        split; [exact I1|]. split; [exact Snd|]. split; [exact I2|]. split; [exact I3|].
        intros R. destruct (I4 R) as [D Eq]. split; [exact D|]. intros _. exact Eq.
      + rewrite Dn. cbn [fst snd]. rewrite (ed_bnd_done s B Dn H1). cbn [fst snd].
        split; [right; split; assumption|]. split; [lia|]. split; [apply contains_refl|]. split; [discriminate|].
        intros _. split; reflexivity.
  Qed.

  (* C04 for EditDistance: from any state of the invariant (in particular the initial one) the STRICT contract holds,
     with the lower right cell of the final cost matrix as the final value *)
  Theorem ed_contract_inv : forall s, EInv s -> ContractV true (edM C) s F.
  Proof. intros s H. exists EInv. split; [exact H|]. apply ed_step. Qed.
End EDContract.

(* ---------------------------------------------------------------- EditDistance.__init__ *)
Lemma ss_perm : forall j l l', Permutation l l' -> sum_smallest j l = sum_smallest j l'.
Proof. intros j l l' H. unfold sum_smallest. rewrite (zsort_perm l l' H). reflexivity. Qed.

Lemma ss_app_le : forall e l j, (j <= length l)%nat -> sum_smallest j (e ++ l) <= sum_smallest j l.
Proof.
  induction e as [|x e IH]; intros l j H; [simpl; lia|].
  cbn [app]. pose proof (ss_cons_le x (e ++ l) j ltac:(rewrite app_length; lia)). specialize (IH l j H). lia.
Qed.

Lemma ss_middle : forall p q l j, (p + q <= length l)%nat -> (j <= length (middle p q l))%nat ->
  sum_smallest j l <= sum_smallest j (rev (middle p q l)).
Proof.
  intros p q l j H Hj. rewrite (middle_split p q l H) at 1.
  rewrite (ss_perm j _ ((firstn p l ++ skipn (length l - q) l) ++ rev (middle p q l))).
  - apply ss_app_le. rewrite rev_length. exact Hj.
  - rewrite <- app_assoc. apply Permutation_app_head. rewrite Permutation_app_comm. apply Permutation_app_head.
    apply Permutation_rev.
Qed.

Lemma zsum_middle_le : forall p q l, (p + q <= length l)%nat -> Forall (fun x => 0 <= x) l -> zsum (middle p q l) <= zsum l.
Proof.
  intros p q l H Hl. rewrite (middle_split p q l H) at 2. rewrite !zsum_app.
  assert (A : 0 <= zsum (firstn p l)).
  { apply zsum_nonneg. rewrite Forall_forall in *. intros x Hx. apply Hl. apply (in_firstn _ _ _ Hx). }
  assert (B : 0 <= zsum (skipn (length l - q) l)).
  { apply zsum_nonneg. rewrite Forall_forall in *. intros x Hx. apply Hl.
    rewrite <- (firstn_skipn (length l - q) l). apply in_or_app. right. exact Hx. }
  lia.
Qed.

Lemma Forall_middle : forall (P : Z -> Prop) p q l, Forall P l -> Forall P (middle p q l).
Proof.
  intros P p q l H. rewrite Forall_forall in *. intros x Hx. apply H. unfold middle in Hx.
  apply in_firstn in Hx. rewrite <- (firstn_skipn p l). apply in_or_app. right. exact Hx.
Qed.

(* the final value of a child: what `while x.tighten_bounds(): pass` ends on *)
Definition finv (C : machine) (x : St C) : Z :=
  match run_fix (tig C) (fix_fuel (bnd C) x) x with Some x' => fst (bnd C x') | None => 0 end.

Lemma finv_spec : forall k C x v, ContractV k C x v -> finv C x = v.
Proof.
  intros k C x v H. unfold finv.
  destruct (run_fix_ok k C (fix_fuel (bnd C) x) x v H ltac:(unfold fix_fuel; lia)) as (x' & -> & _ & ->). reflexivity.
Qed.

Definition kid_ok (C : machine) (x : St C) : Prop := ContractW C x /\ 0 <= fst (bnd C x).

Lemma kid_ok_spec : forall C x, kid_ok C x -> ContractV false C x (finv C x) /\ 0 <= finv C x.
Proof.
  intros C x [[v H] L]. rewrite (finv_spec _ _ _ _ H). split; [exact H|]. pose proof (cv_sound _ _ _ _ H). lia.
Qed.

Lemma nth_nth_error : forall {A} (l : list A) i x d, nth_error l i = Some x -> nth i l d = x.
Proof. induction l as [|y l IH]; intros [|i] x d H; simpl in *; try discriminate; [congruence|apply IH; exact H]. Qed.

Theorem ed_init_contract : forall C frc fic p q (kids : list (list (St C))),
  let rc := middle p q frc in
  let ic := middle p q fic in
  (p + q <= length frc)%nat -> (p + q <= length fic)%nat ->
  Forall (fun x => 0 <= x) frc -> Forall (fun x => 0 <= x) fic ->
  length kids = length ic -> Forall (fun row => length row = length rc) kids ->
  Forall (Forall (kid_ok C)) kids ->
  ((1 <= length ic)%nat -> (1 <= length rc)%nat ->
   forall x, nth_error (nth (length ic - 1) kids []) (length rc - 1) = Some x -> ~ zdefinitive (bnd C x) ->
             0 < nth (length ic - 1) ic 0 + nth (length rc - 1) rc 0) ->
  ContractV true (edM C) (ed_init frc fic p q kids)
            (cc rc ic (map (map (finv C)) kids) (length ic) (length rc)).
Proof.
  intros C frc fic p q kids rc ic Hp1 Hp2 Hf1 Hf2 Kl Kr Kok Hpos.
  set (mcs := map (map (finv C)) kids).
  assert (Hd : dims_ok rc ic mcs).
  { split; [unfold mcs; rewrite map_length; exact Kl|]. unfold mcs. apply Forall_forall. intros row Hrow.
    apply in_map_iff in Hrow. destruct Hrow as (krow & <- & Hk). rewrite map_length.
    rewrite Forall_forall in Kr. apply Kr. exact Hk. }
  assert (Hrc : Forall (fun x => 0 <= x) rc) by (apply Forall_middle; exact Hf1).
  assert (Hic : Forall (fun x => 0 <= x) ic) by (apply Forall_middle; exact Hf2).
  assert (Hmc : Forall (Forall (fun x => 0 <= x)) mcs).
  { unfold mcs. apply Forall_forall. intros row Hrow. apply in_map_iff in Hrow. destruct Hrow as (krow & <- & Hk).
    apply Forall_forall. intros v Hv. apply in_map_iff in Hv. destruct Hv as (x & <- & Hx).
    rewrite Forall_forall in Kok. specialize (Kok krow Hk). rewrite Forall_forall in Kok.
    apply (kid_ok_spec C x (Kok x Hx)). }
  assert (Ln : length rc = (length frc - p - q)%nat) by (apply middle_length; exact Hp1).
  assert (Lm : length ic = (length fic - p - q)%nat) by (apply middle_length; exact Hp2).
  assert (HK0 : 0 <= ed_constant_cost frc fic).
  { unfold ed_constant_cost. destruct (Nat.ltb (length frc) (length fic)); [apply ss_nonneg; exact Hf2|].
    destruct (Nat.ltb (length fic) (length frc)); [apply ss_nonneg; exact Hf1|lia]. }
  assert (HK : ed_constant_cost frc fic <= lbc rc ic (length ic) (length rc)).
  { unfold ed_constant_cost, lbc. rewrite !firstn_all.
    destruct (Nat.ltb_spec (length frc) (length fic)) as [L1|L1].
    - destruct (Nat.leb_spec (length ic) (length rc)); [lia|].
      replace (length fic - length frc)%nat with (length ic - length rc)%nat by lia.
      apply ss_middle; [exact Hp2|fold ic; lia].
    - destruct (Nat.ltb_spec (length fic) (length frc)) as [L2|L2].
      + destruct (Nat.leb_spec (length ic) (length rc)); [|lia].
        replace (length frc - length fic)%nat with (length rc - length ic)%nat by lia.
        apply ss_middle; [exact Hp1|fold rc; lia].
      + destruct (Nat.leb_spec (length ic) (length rc)).
        * replace (length rc - length ic)%nat with O by lia. unfold sum_smallest. simpl. lia.
        * lia. }
  assert (HU : zsum rc + zsum ic <= zsum frc + zsum fic).
  { pose proof (zsum_middle_le p q frc Hp1 Hf1) as Z1. pose proof (zsum_middle_le p q fic Hp2 Hf2) as Z2.
    fold rc in Z1. fold ic in Z2. lia. }
  apply (ed_contract_inv C (ed_constant_cost frc fic) (zsum frc + zsum fic) rc ic mcs Hd Hrc Hic Hmc HK0 HK HU).
  left. split; [cbn [ed_init e_d]; lia|]. cbn [ed_init e_d].
  split; [|split; [reflexivity|split]].
  - unfold base. cbn [ed_init e_K e_U e_rc e_ic e_err e_kids e_cost]. fold rc ic.
    repeat split; try reflexivity; try assumption.
    + intros r Hr. rewrite Forall_forall in Kr. apply Kr. apply nth_In. lia.
    + intros r c x Hr Hc Hx. unfold mcv, mcs.
      assert (Ir : In (nth r kids []) kids) by (apply nth_In; lia).
      assert (Ix : In x (nth r kids [])) by (apply (nth_error_In _ _ Hx)).
      rewrite Forall_forall in Kok. specialize (Kok _ Ir). rewrite Forall_forall in Kok.
      destruct (kid_ok_spec C x (Kok x Ix)) as [Cx _].
      replace (nth c (nth r (map (map (finv C)) kids) []) 0) with (finv C x); [exact Cx|].
      change (@nil Z) with (map (finv C) []). rewrite map_nth.
      symmetry. apply nth_nth_error. apply map_nth_error. exact Hx.
    + rewrite repeat_length. reflexivity.
    + intros r Hr. rewrite nth_repeat' by lia. rewrite repeat_length. reflexivity.
  - cbn [ed_init e_kids]. exact Hpos.
  - intros r c Hr Hc [L|[E _]]; [lia|]. assert (r = O) by lia. assert (c = O) by lia. subst r c.
    cbn [ed_init e_cost]. unfold cell_at. rewrite nth_repeat' by lia. rewrite nth_repeat' by lia. reflexivity.
Qed.

(* ---------------------------------------------------------------- the hypotheses are satisfiable (non-trivial instances) *)
Lemma const_kid_ok : forall c, 0 <= c -> kid_ok constM c.
Proof. intros c H. split; [exists c; apply cv_weaken; apply const_contract|exact H]. Qed.

(* FixedLengthSequenceEdit over three constant sub-edits and a surplus tail costing 3 *)
Example fixed_instance : ContractV true (fixedM constM) ([1; 0; 2], 3) 6.
Proof.
  apply (fixed_contract true constM [1; 0; 2] [1; 0; 2] 3).
  repeat constructor; apply const_contract.
Qed.

(* KeyValuePairEdit over a FixedLengthSequenceEdit and a constant *)
Example sum_instance : ContractV true (sumM (fixedM constM)) [([1; 0; 2], 3); ([], 0)] 6.
Proof.
  apply (sum_contract true (fixedM constM) [([1; 0; 2], 3); ([], 0)] [6; 0]).
  constructor; [apply fixed_instance|]. constructor; [|constructor].
  apply (fixed_contract true constM [] [] 0). constructor.
Qed.

(* EditDistance "ab" -> "b" over its four character edits: [1,3] -> [1,1] -> ... *)
Example ed_instance : exists v, ContractV true (edM constM) (ed_init [1; 1] [1] 0 0 [[1; 0]]) v.
Proof.
  eexists. apply (ed_init_contract constM [1; 1] [1] 0 0 [[1; 0]]); simpl; try lia.
  - repeat constructor; lia.
  - repeat constructor; lia.
  - repeat constructor.
  - repeat constructor; apply const_kid_ok; lia.
Qed.

Example ed_instance_trace :
  trace_of (edM constM) 4 (ed_init [1; 1] [1] 0 0 [[1; 0]]) =
  [EB (Fin 1, Fin 3); ET true; EB (Fin 1, Fin 1); EB (Fin 1, Fin 1); ET false; EB (Fin 1, Fin 1)].
Proof. vm_compute. reflexivity. Qed.


